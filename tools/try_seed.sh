#!/bin/bash
# try_seed.sh <patch> <check id> [tier] : applies a seeded change to /repo, runs one check, restores /repo.
# Only one instance may run at a time (it changes /repo's working tree).
patch=$1; id=$2; tier=${3:-quick}
cd /repo || exit 2
[ -z "$(git status --porcelain)" ] || { echo "/repo not clean"; exit 2; }
git apply "$patch" || { echo "patch does not apply"; exit 2; }
cd /verif
mkdir -p /tmp/seedtry
cp evidence/$id.json /tmp/seedtry/$id.json.bak 2>/dev/null
timeout 3600 bin/vcheck $id --tier $tier > /tmp/seedtry/$id.out 2>&1; rc=$?
cp /tmp/seedtry/$id.json.bak evidence/$id.json 2>/dev/null
git -C /repo checkout -- . ; git -C /repo clean -fdq
echo "exit=$rc"; grep -a "VIOLATION\|KNOWN-FINDING\|inconclusive\|engine" /tmp/seedtry/$id.out | head -12; tail -2 /tmp/seedtry/$id.out
