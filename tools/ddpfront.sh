#!/bin/bash
# ddpfront.sh <file.ddp>: runs the real frontend natively on a source file and prints its diagnostics (development aid).
echo '{"Replace":{"/repo/src/parser/zz_front_test.go":"/tmp/ddpfront/zz_front_test.go"}}' > /tmp/ddpfront/ov.json
cd /repo && DDP_SRC=$(realpath $1) GOFLAGS=-mod=mod GOPROXY=off go test -v -vet=off -count=1 -run TestZZFront -overlay /tmp/ddpfront/ov.json ./src/parser 2>&1 | grep "DIAG\|^err:\|panic"
