#!/bin/bash
# import_seed.sh <outdir> <seed id> <detected_by|missed> <how> : copies a sub-agent's deliverables to
# seeded/<id>, re-verifies them on a scratch worktree (tools/verify_seeds.sh) and records the result.
out=$1; id=$2; det=$3; how=$4
d=/verif/seeded/$id; mkdir -p $d
rsync -a --exclude pristine --exclude '*.o' --exclude inst --exclude 'kddp' $out/ $d/
/verif/tools/verify_seeds.sh $id
python3 - "$d" "$det" "$how" <<PY
import json,sys
d,det,how=sys.argv[1:4]
m=json.load(open(d+"/meta.json")); v=json.load(open(d+"/verify.json"))
v["detected_by"]=det; v["how"]=how
m["verification"]=v
json.dump(m,open(d+"/meta.json","w"),indent=1,ensure_ascii=False)
PY
rm -f $d/verify.json
