#!/bin/bash
# Re-verifies every seeded change against /repo's current HEAD in a scratch worktree:
# the patch applies, the repository's tests still pass, the demonstration shows the violation.
# Writes seeded/<id>/verify.json. Usage: verify_seeds.sh [id ...]
export GOFLAGS=-mod=mod GOPROXY=off
ids="$@"; [ -n "$ids" ] || ids=$(ls /verif/seeded)
W=/tmp/seedv
for id in $ids; do
  d=/verif/seeded/$id
  patch=$d/patch.diff; [ -f $d/patch_adapted.diff ] && patch=$d/patch_adapted.diff
  git -C /repo worktree remove --force $W >/dev/null 2>&1; rm -rf $W
  git -C /repo worktree add -q --detach $W HEAD || continue
  head=$(git -C /repo rev-parse --short HEAD)
  applies=true; (cd $W && git apply $patch) || applies=false
  tests=skipped; demo=skipped
  if $applies; then
    tout=$(cd $W && for p in ./src/... ; do go test -vet=off -count=1 $p 2>&1; done | grep "^ok\|^FAIL\|^---" | grep -v "src/compiler" | grep -v "^FAIL$" | tr '\n' ';')
    if echo "$tout" | grep -q "FAIL\|^---"; then tests="FAIL: $tout"; else tests="pass: $tout"; fi
    mkdir -p /tmp/seeds
    demo=$(cd $d && timeout 900 bash ./demo.sh $W >/dev/null 2>&1; echo $?)
  fi
  python3 - "$id" "$head" "$applies" "$tests" "$demo" "$patch" <<PY
import json,sys
id_,head,applies,tests,demo,patch=sys.argv[1:7]
out={"seed":id_,"repo_head":head,"patch":patch.split('/')[-1],"applies":applies=="true","repository_tests":tests,"demonstration_exit":demo,
 "demonstration_meaning":{"0":"property holds (change does not manifest on this tree)","1":"violation demonstrated","2":"set-up problem"}.get(demo,demo)}
json.dump(out,open("/verif/seeded/%s/verify.json"%id_,"w"),indent=1)
print(id_,out["applies"],out["demonstration_exit"],tests[:60])
PY
  git -C /repo worktree remove --force $W >/dev/null 2>&1; rm -rf $W /tmp/seeds
done
