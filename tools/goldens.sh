#!/bin/bash
# goldens.sh [tree]: builds kddp, runtime and the reduced stdlib from the tree (default /repo) in a scratch
# directory, compiles and runs the upstream golden programs under tests/testdata/kddp at -O 2 and prints
# which match expected.txt. (13 of 45 cannot pass in this sandbox: missing locale / reduced stdlib.)
T=${1:-/repo}; S=$(mktemp -d /var/tmp/goldens.XXXXXX); trap 'rm -rf $S' EXIT
export GOFLAGS=-mod=mod GOPROXY=off
mkdir -p $S/inst/bin $S/inst/lib $S/std
(cd $T/cmd/kddp && CGO_CPPFLAGS="$(llvm-config-14 --cppflags)" CGO_CXXFLAGS=-std=c++14 CGO_LDFLAGS="$(llvm-config-14 --ldflags --libs --system-libs all)" go build -o $S/inst/bin/kddp -tags byollvm .) || exit 2
rsync -a $T/lib/stdlib/Duden $S/inst/
DDPPATH=$S/inst $S/inst/bin/kddp dump-list-defs -o $S/inst/lib/ddp_list_types_defs --llvm-ir --object >/dev/null 2>&1
rsync -a --exclude '*.o' --exclude '*.a' $T/lib/runtime/ $S/rt/ && (cd $S/rt && make libddpruntime.a source/main.o >/dev/null 2>&1) && cp $S/rt/libddpruntime.a $S/rt/source/main.o $S/inst/lib/
for f in io lists strings math runtime_util string_builder text_iterator; do gcc -c -O2 -std=c11 -D_POSIX_C_SOURCE=200809L -I$T/lib/stdlib/include -I$T/lib/runtime/include -o $S/std/$f.o $T/lib/stdlib/source/DDP/$f.c || exit 2; done
ar rcs $S/inst/lib/libddpstdlib.a $S/std/*.o
pass=""; fail=""
for d in $T/tests/testdata/kddp/*/; do
  n=$(basename $d); src=$(ls $d*.ddp 2>/dev/null | head -1); [ -f "$src" ] && [ -f $d/expected.txt ] || continue
  mkdir -p $S/run/$n && cp -r $d/. $S/run/$n/
  if (cd $S/run/$n && DDPPATH=$S/inst $S/inst/bin/kddp kompiliere $(basename $src) -o p.o -O 2 >/dev/null 2>&1 && gcc -o p p.o -L$S/inst/lib -lddpstdlib -lddpruntime -lm $S/inst/lib/main.o >/dev/null 2>&1 && (if [ -f input.txt ]; then ./p < input.txt; else ./p; fi) > out.txt 2>/dev/null; cmp -s out.txt expected.txt); then pass="$pass $n"; else fail="$fail $n"; fi
done
echo "PASS($(echo $pass | wc -w)):$pass"; echo "FAIL($(echo $fail | wc -w)):$fail"
