#!/bin/bash
# run_all.sh <quick|thorough> [ids...]: runs the registered checks one after the other from /verif,
# logs to /var/tmp/verif_runs/<tier>/<id>.out and prints one summary line per check.
tier=${1:-quick}; shift
ids="$@"; [ -n "$ids" ] || ids=$(python3 -c "import json;print(' '.join(c['property_id'] for c in json.load(open('/verif/MANIFEST.json'))['checks']))")
mkdir -p /var/tmp/verif_runs/$tier
cd /verif
for id in $ids; do
  timeout 14400 bin/vcheck $id --tier $tier > /var/tmp/verif_runs/$tier/$id.out 2>&1
  code=$?
  echo "$id exit=$code $(grep "^$id tier" /var/tmp/verif_runs/$tier/$id.out | cut -c1-160) violations=$(grep -c '^VIOLATION' /var/tmp/verif_runs/$tier/$id.out)"
done
