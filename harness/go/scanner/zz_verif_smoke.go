package scanner

import (
	"github.com/DDP-Projekt/Kompilierer/src/token"
	rt "github.com/DDP-Projekt/Kompilierer/src/zzverif/rt"
)

// VerifSmoke2: every 2-byte source either is refused or scans into tokens ending in EOF.
func VerifSmoke2() {
	src := rt.Bytes("src", 2)
	s, err := New("x.ddp", src, nil, ModeNone)
	if err != nil {
		return
	}
	toks := s.ScanAll()
	rt.Assert(len(toks) >= 1, "at least one token")
	rt.Assert(toks[len(toks)-1].Type == token.EOF, "last token is EOF")
}
