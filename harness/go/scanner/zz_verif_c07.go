package scanner

// Harness for C07 (scanner part): every diagnostic and every token names a range that lies
// inside the text with its start not after its end.

import (
	"github.com/DDP-Projekt/Kompilierer/src/ddperror"
	"github.com/DDP-Projekt/Kompilierer/src/token"
	rt "github.com/DDP-Projekt/Kompilierer/src/zzverif/rt"
)

// vLineRunes: number of lines of src, and the number of code points of a given line (1-based),
// as the excerpt renderer sees them (lines split at '\n').
func vLineCount(src []byte) int {
	n := 1
	for _, b := range src {
		n += rt.B2I(b == '\n')
	}
	return n
}

func vLineRunes(src []byte, line uint) int {
	cur := 1
	cnt := 0
	for _, b := range src {
		onLine := uint(cur) == line
		cnt += rt.B2I(rt.And(rt.And(onLine, b != '\n'), (b&0xC0) != 0x80))
		cur += rt.B2I(b == '\n')
	}
	return cnt
}

func vInFile(src []byte, r token.Range, what string) {
	rt.Assert(!r.End.IsBefore(r.Start), what+": start is not after end")
	lines := vLineCount(src)
	rt.Assert(rt.And(r.Start.Line >= 1, int(r.Start.Line) <= lines), what+": start line exists")
	rt.Assert(rt.And(r.End.Line >= 1, int(r.End.Line) <= lines), what+": end line exists")
	rt.Assert(rt.And(r.Start.Column >= 1, int(r.Start.Column) <= vLineRunes(src, r.Start.Line)+1), what+": start column lies in its line")
	rt.Assert(rt.And(r.End.Column >= 1, int(r.End.Column) <= vLineRunes(src, r.End.Line)+1), what+": end column lies in its line")
}

func verifC07Scan(n int, mode Mode) {
	src := rt.Bytes("src", n)
	var ranges []token.Range
	handler := func(e ddperror.Error) { ranges = append(ranges, e.Range) }
	s, err := New("x.ddp", src, handler, mode)
	if err != nil {
		return
	}
	toks := s.ScanAll()
	for _, t := range toks {
		vInFile(src, t.Range, "token range")
	}
	for _, r := range ranges {
		vInFile(src, r, "diagnostic range")
	}
}

func VerifC07ScanN1()       { verifC07Scan(1, ModeNone) }
func VerifC07ScanN2()       { verifC07Scan(2, ModeNone) }
func VerifC07ScanN3()       { verifC07Scan(3, ModeNone) }
func VerifC07ScanN4()       { verifC07Scan(4, ModeNone) }
func VerifC07ScanAliasN2()  { verifC07Scan(2, ModeAlias) }
func VerifC07ScanAliasN3()  { verifC07Scan(3, ModeAlias) }
func VerifC07ScanStrictN3() { verifC07Scan(3, ModeStrictCapitalization) }
