package scanner

// Harness for C13 (and the scanner parts of C03/C07): the token stream is a faithful,
// positioned partition of the source. Interpreted symbolically by GoSE; compiled natively for
// replay of counterexamples (go test -overlay).

import (
	"strings"
	"unicode/utf8"

	"github.com/DDP-Projekt/Kompilierer/src/ddperror"
	"github.com/DDP-Projekt/Kompilierer/src/token"
	rt "github.com/DDP-Projekt/Kompilierer/src/zzverif/rt"
)

func vIsBlank(b byte) bool { return b == ' ' || b == '\t' || b == '\r' || b == '\n' }

// vLineCol is the reference position of byte offset off: 1-based line, 1-based column in code points.
func vLineCol(src []byte, off int) (uint, uint) {
	line, col := 1, 1
	for k := 0; k < off; k++ {
		// no line break in src[k:off)
		noNL := true
		for j := k; j < off; j++ {
			noNL = rt.And(noNL, src[j] != '\n')
		}
		isStart := (src[k] & 0xC0) != 0x80 // not a continuation byte
		col += rt.B2I(rt.And(noNL, isStart))
		line += rt.B2I(src[k] == '\n')
	}
	return uint(line), uint(col)
}

func vAlpha(r rune) bool {
	return ('a' <= r && r <= 'z') || ('A' <= r && r <= 'Z') || r == 'ß' || r == '_' || r == 'ä' || r == 'Ä' || r == 'ö' || r == 'Ö' || r == 'ü' || r == 'Ü'
}
func vDigit(r rune) bool { return '0' <= r && r <= '9' }

// vRuneAt decodes the code point starting at off (or -1 at the end).
func vRuneAt(src []byte, off int) (rune, int) {
	if off >= len(src) {
		return -1, 0
	}
	return utf8.DecodeRune(src[off:])
}

// vIndent is the reference indentation of the line containing offset off, counted over the
// blanks between the start of that line and off.
func vIndent(src []byte, off int) uint {
	start := off
	for start > 0 && src[start-1] != '\n' {
		start--
	}
	indent, spaces := uint(0), 0
	for k := start; k < off; k++ {
		switch src[k] {
		case ' ':
			spaces++
			if spaces == 4 {
				indent++
				spaces = 0
			}
		case '\t':
			indent++
			spaces = 0
		default:
			spaces = 0
		}
	}
	return indent
}

type vErr struct {
	n      int
	ranges []token.Range
}

func verifC13(n int, mode Mode) {
	src := rt.Bytes("src", n)
	var errs vErr
	handler := func(e ddperror.Error) {
		errs.n++
		errs.ranges = append(errs.ranges, e.Range)
	}
	s, err := New("x.ddp", src, handler, mode)
	valid := utf8.Valid(src)
	if err != nil {
		rt.Assert(!valid, "only invalid UTF-8 is refused")
		return
	}
	rt.Assert(valid, "invalid UTF-8 is refused")
	toks := s.ScanAll()
	rt.Assert(len(toks) >= 1, "at least the EOF token")
	pos := 0
	lineStartsInToken := false // the current line began inside a multi-line token: indentation rule is silent
	for i, t := range toks {
		for pos < n && vIsBlank(src[pos]) {
			if src[pos] == '\n' {
				lineStartsInToken = false
			}
			pos++
		}
		sl, sc := vLineCol(src, pos)
		rt.Assert(rt.And(t.Range.Start.Line == sl, t.Range.Start.Column == sc), "token starts at the reference line/column")
		if !lineStartsInToken {
			// blanks before the first token of a line are all the line's leading blanks
			onlyBlanksBefore := true
			for k := pos - 1; k >= 0 && src[k] != '\n'; k-- {
				if !vIsBlank(src[k]) {
					onlyBlanksBefore = false
					break
				}
			}
			if onlyBlanksBefore {
				rt.Assert(t.Indent == vIndent(src, pos), "indentation counts tabs and groups of four spaces")
			}
		}
		if t.Type == token.EOF {
			rt.Assert(i == len(toks)-1, "EOF only at the end")
			rt.Assert(pos == n, "EOF only after the whole source")
			rt.Assert(t.Literal == "", "EOF has no text")
			continue
		}
		rt.Assert(i < len(toks)-1, "stream ends with EOF")
		if t.Type == token.ILLEGAL {
			// an unterminated text or character literal swallows the rest of the source
			rt.Assert(pos < n && (src[pos] == '"' || src[pos] == '\''), "ILLEGAL only for open literals")
			for k := pos; k < n; k++ {
				if src[k] == '\n' {
					lineStartsInToken = true
				}
			}
			pos = n
			continue
		}
		l := len(t.Literal)
		rt.Assert(l > 0 && pos+l <= n, "token lies inside the source")
		if l <= 0 || pos+l > n {
			return
		}
		rt.Assert(t.Literal == string(src[pos:pos+l]), "literal is the source text at its position")
		el, ec := vLineCol(src, pos+l)
		rt.Assert(rt.And(t.Range.End.Line == el, t.Range.End.Column == ec), "token ends at the reference line/column")
		verifKind(src, pos, l, t.Type, mode)
		for k := pos; k < pos+l; k++ {
			if src[k] == '\n' {
				lineStartsInToken = true
			}
		}
		pos += l
	}
	// every diagnostic the scanner delivered has an ordered range (C07a)
	for _, r := range errs.ranges {
		rt.Assert(!r.End.IsBefore(r.Start), "diagnostic range is ordered")
		rt.Assert(r.Start.Line >= 1 && r.Start.Column >= 1, "diagnostic range is 1-based")
	}
}

// verifKind checks the kind of the token src[pos:pos+l] against the lexical rules.
func verifKind(src []byte, pos, l int, typ token.TokenType, mode Mode) {
	first, _ := vRuneAt(src, pos)
	next, _ := vRuneAt(src, pos+l)
	lit := string(src[pos : pos+l])
	switch {
	case vAlpha(first):
		// identifier or keyword: maximal run of letters/digits, kind from the keyword table
		for k := pos; k < pos+l; {
			r, w := vRuneAt(src, k)
			rt.Assert(vAlpha(r) || vDigit(r), "identifier consists of letters and digits")
			k += w
		}
		rt.Assert(!(vAlpha(next) || vDigit(next)), "identifier is maximal")
		want := token.KeywordToTokenType(lit)
		if want == token.IDENTIFIER {
			want = token.KeywordToTokenType(strings.ToLower(lit))
		}
		rt.Assert(typ == want, "keyword table decides the kind of a word")
	case vDigit(first):
		comma := -1
		for k := pos; k < pos+l; k++ {
			if src[k] == ',' {
				rt.Assert(comma < 0, "at most one decimal comma")
				comma = k
			} else {
				rt.Assert(vDigit(rune(src[k])), "number consists of digits")
			}
		}
		if comma >= 0 {
			rt.Assert(typ == token.FLOAT, "digits,digits is a Kommazahl literal")
			rt.Assert(comma > pos && comma < pos+l-1, "comma is between digits")
			rt.Assert(!vDigit(next), "number is maximal")
		} else {
			rt.Assert(typ == token.INT, "digits are a Zahl literal")
			rt.Assert(!vDigit(next), "number is maximal")
			if next == ',' {
				n2, _ := vRuneAt(src, pos+l+1)
				rt.Assert(!vDigit(n2), "a comma followed by a digit continues the number")
			}
		}
	case first == '-':
		rt.Assert(typ == token.NEGATE && l == 1, "minus sign")
	case first == '.':
		if l == 3 {
			rt.Assert(typ == token.ELIPSIS && lit == "...", "ellipsis")
		} else {
			rt.Assert(typ == token.DOT && l == 1, "dot")
			n2, _ := vRuneAt(src, pos+2)
			rt.Assert(!(next == '.' && n2 == '.'), "three dots are one ellipsis")
		}
	case first == ',':
		rt.Assert(typ == token.COMMA && l == 1, "comma")
	case first == ':':
		rt.Assert(typ == token.COLON && l == 1, "colon")
	case first == '(':
		rt.Assert(typ == token.LPAREN && l == 1, "left parenthesis")
	case first == ')':
		rt.Assert(typ == token.RPAREN && l == 1, "right parenthesis")
	case first == '"':
		rt.Assert(typ == token.STRING, "text literal")
		rt.Assert(l >= 2 && src[pos+l-1] == '"', "text literal is closed by a quote")
	case first == '\'':
		rt.Assert(typ == token.CHAR, "character literal")
		rt.Assert(l >= 2 && src[pos+l-1] == '\'', "character literal is closed by a quote")
	case first == '[':
		rt.Assert(typ == token.COMMENT, "comment")
		depth := 0
		for k := pos; k < pos+l; k++ {
			if src[k] == '[' {
				depth++
			} else if src[k] == ']' {
				depth--
				rt.Assert(depth > 0 || k == pos+l-1, "comment ends at the matching bracket")
			}
		}
		rt.Assert(depth == 0 || pos+l == len(src), "comment is closed or runs to the end")
	case first == '<' && mode&ModeAlias != 0:
		rt.Assert(typ == token.ALIAS_PARAMETER, "alias placeholder")
	default:
		rt.Assert(typ == token.SYMBOL, "any other character is a symbol")
		_, w := vRuneAt(src, pos)
		rt.Assert(l == w, "a symbol is one character")
	}
}

func VerifC13N1() { verifC13(1, ModeNone) }
func VerifC13N2() { verifC13(2, ModeNone) }
func VerifC13N3() { verifC13(3, ModeNone) }
func VerifC13N4() { verifC13(4, ModeNone) }
func VerifC13N5() { verifC13(5, ModeNone) }

func VerifC13AliasN1() { verifC13(1, ModeAlias) }
func VerifC13AliasN2() { verifC13(2, ModeAlias) }
func VerifC13AliasN3() { verifC13(3, ModeAlias) }
func VerifC13AliasN4() { verifC13(4, ModeAlias) }

func VerifC13StrictN2() { verifC13(2, ModeStrictCapitalization) }
func VerifC13StrictN3() { verifC13(3, ModeStrictCapitalization) }

// verifC13Blanks: sources made of n-1 blanks (space, tab, CR, LF in any arrangement) followed by
// one word character: the positions and the indentation of the single token for longer blank runs.
func verifC13Blanks(n int) {
	src := rt.Bytes("src", n)
	for k := 0; k < n-1; k++ {
		b := src[k]
		rt.Assume(rt.Or(rt.Or(b == ' ', b == '\t'), rt.Or(b == '\r', b == '\n')))
	}
	rt.Assume(rt.Or(src[n-1] == 'x', src[n-1] == '.'))
	s, err := New("x.ddp", src, nil, ModeNone)
	if err != nil {
		rt.Assert(false, "blank source is valid UTF-8")
		return
	}
	toks := s.ScanAll()
	rt.Assert(len(toks) == 2, "one token and EOF")
	if len(toks) != 2 {
		return
	}
	t := toks[0]
	sl, sc := vLineCol(src, n-1)
	rt.Assert(rt.And(t.Range.Start.Line == sl, t.Range.Start.Column == sc), "token starts at the reference line/column")
	rt.Assert(t.Indent == vIndent(src, n-1), "indentation counts tabs and groups of four spaces")
	el, ec := vLineCol(src, n)
	rt.Assert(rt.And(t.Range.End.Line == el, t.Range.End.Column == ec), "token ends at the reference line/column")
	rt.Assert(rt.And(toks[1].Range.Start.Line == el, toks[1].Range.Start.Column == ec), "EOF at the end")
}

func VerifC13Blanks5() { verifC13Blanks(5) }
func VerifC13Blanks6() { verifC13Blanks(6) }
func VerifC13Blanks7() { verifC13Blanks(7) }
func VerifC13Blanks8() { verifC13Blanks(8) }
func VerifC13Blanks9() { verifC13Blanks(9) }
