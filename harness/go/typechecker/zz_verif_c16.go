package typechecker

// Harness for C16: the diagnostics of a call or a Kombination literal do not depend on the
// iteration order of the argument map.

import (
	"github.com/DDP-Projekt/Kompilierer/src/ast"
	"github.com/DDP-Projekt/Kompilierer/src/ddperror"
	"github.com/DDP-Projekt/Kompilierer/src/ddptypes"
	"github.com/DDP-Projekt/Kompilierer/src/token"
	rt "github.com/DDP-Projekt/Kompilierer/src/zzverif/rt"
)

type vDiag struct {
	code ddperror.Code
	line uint
}

var vC16Params = []string{"p0", "p1", "p2"}

// vC16Arg builds the argument for position i (source line i+1): kind 0 a Zahl variable, kind 1 a
// Text variable (wrong type), kind 2 the ill-typed, non-assignable expression (Zahl plus Text).
func vC16Arg(c *vChecker, i, kind int) ast.Expression {
	at := func(e *ast.Ident) *ast.Ident {
		pos := token.Position{Line: uint(i + 1), Column: 1}
		e.Literal.Range = token.Range{Start: pos, End: pos}
		return e
	}
	switch kind {
	case 0:
		return at(c.vVar("zahl"+vC16Params[i], ddptypes.ZAHL))
	case 1:
		return at(c.vVar("text"+vC16Params[i], ddptypes.TEXT))
	}
	return &ast.BinaryExpr{Operator: ast.BIN_PLUS, Lhs: at(c.vVar("l"+vC16Params[i], ddptypes.ZAHL)), Rhs: at(c.vVar("r"+vC16Params[i], ddptypes.TEXT)),
		Range: token.Range{Start: token.Position{Line: uint(i + 1), Column: 1}, End: token.Position{Line: uint(i + 1), Column: 9}}}
}

func vC16Run(kinds [3]int, refs [3]bool, structLit bool) []vDiag {
	var diags []vDiag
	c := &vChecker{mod: vModule()}
	c.t = New(c.mod, ast.OperatorOverloadMap{}, func(e ddperror.Error) {
		diags = append(diags, vDiag{code: e.Code, line: e.Range.Start.Line})
	}, nil, &c.panic)
	args := map[string]ast.Expression{}
	for i := range vC16Params {
		args[vC16Params[i]] = vC16Arg(c, i, kinds[i])
	}
	if structLit {
		st := &ddptypes.StructType{Name: "Paar", GramGender: ddptypes.NEUTRUM}
		for _, p := range vC16Params {
			st.Fields = append(st.Fields, ddptypes.StructField{Name: p, Type: ddptypes.ZAHL})
		}
		decl := &ast.StructDecl{NameTok: token.Token{Type: token.IDENTIFIER, Literal: "Paar"}, Type: st, Mod: c.mod}
		c.t.VisitStructLiteral(&ast.StructLiteral{Struct: decl, Type: st, Args: args})
		return diags
	}
	decl := &ast.FuncDecl{NameTok: token.Token{Type: token.IDENTIFIER, Literal: "f"}, ReturnType: ddptypes.ZAHL, Mod: c.mod}
	for i, p := range vC16Params {
		decl.Parameters = append(decl.Parameters, ast.ParameterInfo{Name: token.Token{Type: token.IDENTIFIER, Literal: p},
			Type: ddptypes.ParameterType{Type: ddptypes.ZAHL, IsReference: refs[i]}})
	}
	c.t.VisitFuncCall(&ast.FuncCall{Name: "f", Func: decl, Args: args})
	return diags
}

func vC16Compare(structLit bool) {
	var kinds [3]int
	var refs [3]bool
	for i := range kinds {
		kinds[i] = rt.Choose("kind", 3)
		if !structLit {
			refs[i] = rt.Bool("reference")
		}
	}
	rt.MapOrder("args")
	for rep := 0; rep < rt.Reps(400); rep++ {
		a := vC16Run(kinds, refs, structLit)
		b := vC16Run(kinds, refs, structLit)
		rt.Assert(len(a) == len(b), "the same number of diagnostics on every run")
		if len(a) != len(b) {
			return
		}
		for k := range a {
			rt.Assert(a[k].code == b[k].code && a[k].line == b[k].line, "the same diagnostics in the same order whatever the iteration order of the argument map")
		}
	}
}

func VerifC16CallArgs()   { vC16Compare(false) }
func VerifC16StructArgs() { vC16Compare(true) }
