package typechecker

// Harness for C09 (operator overloads): a user-defined overload is chosen by exact parameter
// types, a Referenz parameter only for an assignable operand, the first such entry of the table
// wins, operands are bound by parameter name, and without a match the built-in meaning applies.

import (
	"github.com/DDP-Projekt/Kompilierer/src/ast"
	"github.com/DDP-Projekt/Kompilierer/src/ddperror"
	"github.com/DDP-Projekt/Kompilierer/src/ddptypes"
	"github.com/DDP-Projekt/Kompilierer/src/token"
	rt "github.com/DDP-Projekt/Kompilierer/src/zzverif/rt"
)

var vC09Names = []string{"f0", "f1", "f2"}

func vC09FindOverload(n int) {
	p := vNewTypes()
	mod := vModule()
	table := make([]*ast.FuncDecl, n)
	// parameter names differ in order between overloads: binding is by name
	for i := 0; i < n; i++ {
		decl := &ast.FuncDecl{NameTok: token.Token{Type: token.IDENTIFIER, Literal: vC09Names[i]}, Operator: ast.BIN_MULT, ReturnType: ddptypes.ZAHL, Mod: mod}
		names := []string{"links", "rechts"}
		if rt.Bool("swapped") {
			names = []string{"rechts", "links"}
		}
		for k := 0; k < 2; k++ {
			decl.Parameters = append(decl.Parameters, ast.ParameterInfo{Name: token.Token{Type: token.IDENTIFIER, Literal: names[k]},
				Type: ddptypes.ParameterType{Type: p.vType("param", 0), IsReference: rt.Bool("reference")}})
		}
		table[i] = decl
	}
	panicMode := false
	t := New(mod, ast.OperatorOverloadMap{ast.BIN_MULT: table}, func(ddperror.Error) {}, nil, &panicMode)
	var ops [2]operand
	var assignable [2]bool
	for k := 0; k < 2; k++ {
		typ := p.vType("operand", 0)
		assignable[k] = rt.Bool("assignable")
		var expr ast.Expression = &ast.IntLit{Literal: token.Token{Type: token.INT, Literal: "1"}, Value: 1}
		if assignable[k] {
			name := "v" + vC09Names[k]
			decl := &ast.VarDecl{Type: typ, NameTok: token.Token{Type: token.IDENTIFIER, Literal: name}, Mod: mod}
			expr = &ast.Ident{Literal: token.Token{Type: token.IDENTIFIER, Literal: name}, Declaration: decl}
		}
		ops[k] = operand{typ: typ, expr: expr}
	}
	got := t.findOverload(ast.BIN_MULT, ops[0], ops[1])
	// which entries fit: parameter types equal the operand types and Referenz parameters meet
	// assignable operands
	fitsAt := make([]bool, n)
	any := false
	for i := 0; i < n; i++ {
		fits := true
		for k := 0; k < 2; k++ {
			pt := table[i].Parameters[k].Type
			fits = rt.And(fits, rt.And(ddptypes.Equal(pt.Type, ops[k].typ), rt.Or(!pt.IsReference, assignable[k])))
		}
		fitsAt[i] = fits
		any = rt.Or(any, fits)
	}
	rt.Assert(any == (got != nil), "an overload is used exactly when one fits the operand types (and Referenz parameters get assignable operands); otherwise the built-in meaning applies")
	if got == nil {
		return
	}
	chosen := -1
	for i := 0; i < n; i++ {
		if got.Decl == table[i] {
			chosen = i
		}
	}
	rt.Assert(chosen >= 0 && fitsAt[chosen], "the overload used is one whose parameter types equal the operand types")
	if chosen < 0 {
		return
	}
	for k := 0; k < 2; k++ {
		arg := got.Args[got.Decl.Parameters[k].Name.Literal]
		rt.Assert(arg == ops[k].expr, "operands are bound to the parameters by name")
	}
}

func VerifC09FindOverload1() { vC09FindOverload(1) }
func VerifC09FindOverload2() { vC09FindOverload(2) }
func VerifC09FindOverload3() { vC09FindOverload(3) }
