package typechecker

// Harness for C07 (silent evaluation): EvaluateSilent of an ill-typed expression delivers
// nothing and leaves the faulty flag, the panic mode and the handler as they were.

import (
	"github.com/DDP-Projekt/Kompilierer/src/ast"
	"github.com/DDP-Projekt/Kompilierer/src/ddperror"
	"github.com/DDP-Projekt/Kompilierer/src/token"
	rt "github.com/DDP-Projekt/Kompilierer/src/zzverif/rt"
)

func vModule() *ast.Module {
	return &ast.Module{
		FileName:    "x.ddp",
		Ast:         &ast.Ast{Symbols: ast.NewSymbolTable(nil)},
		PublicDecls: map[string]ast.Declaration{},
	}
}

func VerifC07SilentRestores() {
	mod := vModule()
	delivered := 0
	panicMode := rt.Bool("panicMode")
	priorPanic := panicMode
	priorFaulty := rt.Bool("faulty")
	mod.Ast.Faulty = priorFaulty
	t := New(mod, ast.OperatorOverloadMap{}, func(ddperror.Error) { delivered++ }, nil, &panicMode)
	// wahr plus 1: ill typed
	bad := &ast.BinaryExpr{
		Lhs:      &ast.BoolLit{Literal: token.Token{Type: token.TRUE, Literal: "wahr"}, Value: true},
		Operator: ast.BIN_PLUS,
		Rhs:      &ast.IntLit{Literal: token.Token{Type: token.INT, Literal: "1"}, Value: 1},
	}
	t.EvaluateSilent(bad)
	rt.Assert(delivered == 0, "silent evaluation delivers no diagnostic")
	rt.Assert(mod.Ast.Faulty == priorFaulty, "silent evaluation restores the faulty flag")
	rt.Assert(panicMode == priorPanic, "silent evaluation restores the panic mode")
	// the handler is back: a real error is delivered again (unless still in panic mode) and marks the module
	t.Evaluate(bad)
	rt.Assert((delivered == 1) == !priorPanic, "after silent evaluation errors are delivered again")
	rt.Assert(mod.Ast.Faulty, "a type error marks the module as faulty")
}
