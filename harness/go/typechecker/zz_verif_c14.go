package typechecker

// Harness for C14: type equivalence is lawful; aliases are transparent, definitions opaque;
// initialisation and assignment accept the same pairs; definitions convert only explicitly.

import (
	"github.com/DDP-Projekt/Kompilierer/src/ast"
	"github.com/DDP-Projekt/Kompilierer/src/ddperror"
	"github.com/DDP-Projekt/Kompilierer/src/ddptypes"
	"github.com/DDP-Projekt/Kompilierer/src/token"
	rt "github.com/DDP-Projekt/Kompilierer/src/zzverif/rt"
)

type vTypes struct {
	structs []*ddptypes.StructType
}

func vNewTypes() *vTypes {
	return &vTypes{structs: []*ddptypes.StructType{
		{Name: "Vektor", GramGender: ddptypes.MASKULIN, Fields: []ddptypes.StructField{{Name: "x", Type: ddptypes.ZAHL}}},
		{Name: "Vektor", GramGender: ddptypes.MASKULIN, Fields: []ddptypes.StructField{{Name: "x", Type: ddptypes.ZAHL}}}, // same name, another module
	}}
}

// vType builds a type term of bounded depth: leaves are primitives with a SYMBOLIC kind,
// Variable or one of two same-named Kombinationen; inner nodes are list-of, alias-of and
// definition-of. Aliases and definitions are fresh objects (identity matters for definitions).
func (p *vTypes) vType(name string, depth int) ddptypes.Type {
	max := 3
	if depth > 0 {
		max = 6
	}
	switch rt.Choose(name+"_ctor", max) {
	case 0:
		k := rt.Int(name + "_kind")
		rt.Assume(rt.And(k >= int(ddptypes.ZAHL), k <= int(ddptypes.TEXT)))
		return ddptypes.PrimitiveType(k)
	case 1:
		return ddptypes.VARIABLE
	case 2:
		return p.structs[rt.Choose(name+"_struct", len(p.structs))]
	case 3:
		return ddptypes.ListType{ElementType: p.vType(name+"l", depth-1)}
	case 4:
		return &ddptypes.TypeAlias{Name: "A" + name, Underlying: p.vType(name+"a", depth-1), GramGender: ddptypes.FEMININ}
	}
	return &ddptypes.TypeDef{Name: "D" + name, Underlying: p.vType(name+"d", depth-1), GramGender: ddptypes.FEMININ}
}

// VerifC14Laws: reflexive, symmetric, transitive on triples of depth <= 1; alias transparency
// and definition opacity at every position.
func VerifC14Laws() {
	p := vNewTypes()
	a, b, c := p.vType("a", 1), p.vType("b", 1), p.vType("c", 1)
	rt.Assert(ddptypes.Equal(a, a), "equivalence is reflexive")
	eab := ddptypes.Equal(a, b)
	rt.Assert(eab == ddptypes.Equal(b, a), "equivalence is symmetric")
	rt.Assert(rt.Implies(rt.And(eab, ddptypes.Equal(b, c)), ddptypes.Equal(a, c)), "equivalence is transitive")
	al := &ddptypes.TypeAlias{Name: "Alias", Underlying: a, GramGender: ddptypes.FEMININ}
	rt.Assert(ddptypes.Equal(al, a), "an alias is its target")
	rt.Assert(ddptypes.Equal(ddptypes.ListType{ElementType: al}, ddptypes.ListType{ElementType: a}), "an alias is its target inside a list type")
	al2 := &ddptypes.TypeAlias{Name: "Alias2", Underlying: al, GramGender: ddptypes.FEMININ}
	rt.Assert(ddptypes.Equal(al2, a), "an alias of an alias is the target")
	rt.Assert(ddptypes.Equal(ddptypes.ListType{ElementType: ddptypes.ListType{ElementType: al2}}, ddptypes.ListType{ElementType: ddptypes.ListType{ElementType: a}}), "aliases are transparent in nested list types")
	rt.Assert(ddptypes.Equal(al, b) == eab, "an alias behaves like its target against every other type")
	alOfList := &ddptypes.TypeAlias{Name: "Folge", Underlying: ddptypes.ListType{ElementType: al}, GramGender: ddptypes.FEMININ}
	rt.Assert(ddptypes.Equal(alOfList, ddptypes.ListType{ElementType: a}), "an alias of a list of an alias is the list of the target")
	rt.Assert(ddptypes.Equal(ddptypes.ListType{ElementType: alOfList}, ddptypes.ListType{ElementType: ddptypes.ListType{ElementType: a}}), "aliases are transparent behind lists behind aliases")
	d1 := &ddptypes.TypeDef{Name: "Def", Underlying: a, GramGender: ddptypes.FEMININ}
	d2 := &ddptypes.TypeDef{Name: "Def", Underlying: a, GramGender: ddptypes.FEMININ}
	rt.Assert(!ddptypes.Equal(d1, a), "a definition is not its base type")
	rt.Assert(!ddptypes.Equal(d1, d2), "two definitions of one base are different types")
	rt.Assert(ddptypes.Equal(d1, d1), "a definition equals itself")
	rt.Assert(!ddptypes.Equal(ddptypes.ListType{ElementType: d1}, ddptypes.ListType{ElementType: a}), "a list of a definition is not a list of its base")
	rt.Assert(ddptypes.Equal(&ddptypes.TypeAlias{Name: "AD", Underlying: d1}, d1), "an alias of a definition is that definition")
	// two Kombinationen of different modules with the same name and the same fields
	s1, s2 := p.structs[0], p.structs[1]
	rt.Assert(!ddptypes.Equal(s1, s2), "same-named Kombinationen of different modules are different types")
	rt.Assert(!ddptypes.Equal(ddptypes.ListType{ElementType: s1}, ddptypes.ListType{ElementType: s2}), "lists of same-named Kombinationen of different modules are different types")
	rt.Assert(!ddptypes.Equal(&ddptypes.TypeAlias{Name: "AS", Underlying: s1, GramGender: ddptypes.MASKULIN}, s2), "an alias of a Kombination is not the same-named Kombination of another module")
	i12, a12 := vAccepts(s1, s2)
	rt.Assert(rt.And(!i12, !a12), "a value of a Kombination is not accepted where the same-named Kombination of another module is required")
}

// VerifC14Deep: the same laws on pairs of depth <= 2.
func VerifC14Deep() {
	p := vNewTypes()
	a, b := p.vType("a", 2), p.vType("b", 2)
	rt.Assert(ddptypes.Equal(a, a), "equivalence is reflexive")
	rt.Assert(ddptypes.Equal(a, b) == ddptypes.Equal(b, a), "equivalence is symmetric")
	al := &ddptypes.TypeAlias{Name: "Alias", Underlying: a, GramGender: ddptypes.FEMININ}
	rt.Assert(ddptypes.Equal(al, b) == ddptypes.Equal(a, b), "an alias behaves like its target against every other type")
	rt.Assert(ddptypes.Equal(ddptypes.ListType{ElementType: al}, ddptypes.ListType{ElementType: a}), "an alias is its target inside a list type")
	d := &ddptypes.TypeDef{Name: "Def", Underlying: a, GramGender: ddptypes.FEMININ}
	rt.Assert(!ddptypes.Equal(d, a), "a definition is not its base type")
	rt.Assert(rt.Implies(ddptypes.Equal(d, b), !ddptypes.Equal(a, b)), "a definition is never equivalent to what its base is equivalent to")
}

type vChecker struct {
	t      *Typechecker
	errors int
	mod    *ast.Module
	panic  bool
}

func vNewChecker() *vChecker {
	c := &vChecker{mod: vModule()}
	c.t = New(c.mod, ast.OperatorOverloadMap{}, func(e ddperror.Error) {
		if e.Level == ddperror.LEVEL_ERROR {
			c.errors++
		}
	}, nil, &c.panic)
	return c
}

// vVar declares a variable of the given type and returns an identifier bound to it.
func (c *vChecker) vVar(name string, typ ddptypes.Type) *ast.Ident {
	decl := &ast.VarDecl{Type: typ, NameTok: token.Token{Type: token.IDENTIFIER, Literal: name}, Mod: c.mod}
	c.mod.Ast.Symbols.InsertDecl(name, decl)
	return &ast.Ident{Literal: token.Token{Type: token.IDENTIFIER, Literal: name}, Declaration: decl}
}

// vAccepts: is a value of type from accepted where to is required, (a) as initialiser, (b) in an assignment?
func vAccepts(from, to ddptypes.Type) (bool, bool) {
	c1 := vNewChecker()
	src := c1.vVar("quelle", from)
	c1.t.VisitVarDecl(&ast.VarDecl{Type: to, NameTok: token.Token{Type: token.IDENTIFIER, Literal: "ziel"}, Mod: c1.mod, InitVal: src})
	c2 := vNewChecker()
	src2 := c2.vVar("quelle", from)
	dst2 := c2.vVar("ziel", to)
	c2.t.VisitAssignStmt(&ast.AssignStmt{Var: dst2, Rhs: src2})
	return c1.errors == 0, c2.errors == 0
}

// VerifC14Positions: initialisation and assignment accept exactly: equivalent types, any numeric
// for any numeric, anything for Variable - and always agree.
func VerifC14Positions() {
	p := vNewTypes()
	from, to := p.vType("from", 1), p.vType("to", 1)
	asInit, asAssign := vAccepts(from, to)
	rt.Assert(asInit == asAssign, "initialiser position and assignment position accept the same pairs")
	num := func(t ddptypes.Type) bool {
		return rt.Or(rt.Or(ddptypes.Equal(t, ddptypes.ZAHL), ddptypes.Equal(t, ddptypes.KOMMAZAHL)), ddptypes.Equal(t, ddptypes.BYTE))
	}
	want := rt.Or(rt.Or(ddptypes.Equal(from, to), rt.And(num(from), num(to))), ddptypes.Equal(to, ddptypes.VARIABLE))
	rt.Assert(asInit == want, "an initialiser is accepted exactly for equivalent, numeric/numeric, or Variable targets")
	rt.Assert(asAssign == want, "an assigned value is accepted exactly for equivalent, numeric/numeric, or Variable targets")
}

// VerifC14Definitions: a definition converts only by an explicit cast, and only to and from its own base.
func VerifC14Definitions() {
	p := vNewTypes()
	base, other := p.vType("base", 1), p.vType("other", 1)
	def := &ddptypes.TypeDef{Name: "Def", Underlying: base, GramGender: ddptypes.FEMININ}
	// implicit: never (except into a Variable)
	i1, a1 := vAccepts(def, base)
	i2, a2 := vAccepts(base, def)
	baseIsVar := ddptypes.Equal(base, ddptypes.VARIABLE)
	rt.Assert(rt.Implies(!baseIsVar, rt.And(!i1, !a1)), "a definition does not convert implicitly to its base")
	rt.Assert(rt.And(!i2, !a2), "a base value does not convert implicitly to the definition")
	// explicit casts
	cast := func(from, to ddptypes.Type) bool {
		c := vNewChecker()
		src := c.vVar("quelle", from)
		c.t.VisitCastExpr(&ast.CastExpr{TargetType: to, Lhs: src})
		return c.errors == 0
	}
	isAny := rt.Or(ddptypes.IsAny(base), ddptypes.IsAny(other))
	rt.Assert(rt.Implies(!ddptypes.IsAny(base), cast(def, base)), "a definition converts explicitly to its base")
	rt.Assert(rt.Implies(!ddptypes.IsAny(base), cast(base, def)), "a base value converts explicitly to the definition")
	otherIsBase := ddptypes.Equal(other, base)
	rt.Assert(rt.Implies(rt.And(!isAny, !otherIsBase), !cast(other, def)), "only the base type converts to a definition")
	_, otherIsList := ddptypes.CastList(other)
	rt.Assert(rt.Implies(rt.And(rt.And(!isAny, !otherIsBase), !otherIsList), !cast(def, other)), "a definition converts only to its own base")
}
