package typechecker

// Harness for C04 (type rules): an operand, condition, loop count, returned or assigned value of
// an inadmissible type is always answered with an error diagnostic and a faulty module.

import (
	"github.com/DDP-Projekt/Kompilierer/src/ast"
	"github.com/DDP-Projekt/Kompilierer/src/ddptypes"
	"github.com/DDP-Projekt/Kompilierer/src/token"
	rt "github.com/DDP-Projekt/Kompilierer/src/zzverif/rt"
)

// reference classes, written from the language rules
func vIsNum(t ddptypes.Type) bool {
	return rt.Or(rt.Or(ddptypes.Equal(t, ddptypes.ZAHL), ddptypes.Equal(t, ddptypes.KOMMAZAHL)), ddptypes.Equal(t, ddptypes.BYTE))
}
func vIsInt(t ddptypes.Type) bool {
	return rt.Or(ddptypes.Equal(t, ddptypes.ZAHL), ddptypes.Equal(t, ddptypes.BYTE))
}
func vIsBool(t ddptypes.Type) bool { return ddptypes.Equal(t, ddptypes.WAHRHEITSWERT) }
func vIsText(t ddptypes.Type) bool { return ddptypes.Equal(t, ddptypes.TEXT) }
func vIsChar(t ddptypes.Type) bool { return ddptypes.Equal(t, ddptypes.BUCHSTABE) }
func vIsList(t ddptypes.Type) bool { return ddptypes.IsList(t) }

func (c *vChecker) rejected() bool { return c.errors > 0 && c.mod.Ast.Faulty }

// VerifC04Unary: every unary operator on every operand type class.
func VerifC04Unary() {
	p := vNewTypes()
	typ := p.vType("t", 1)
	op := rt.Int("op")
	rt.Assume(rt.And(op >= int(ast.UN_ABS), op <= int(ast.UN_LOGIC_NOT)))
	c := vNewChecker()
	c.t.VisitUnaryExpr(&ast.UnaryExpr{Operator: ast.UnaryOperator(op), Rhs: c.vVar("x", typ)})
	admissible := false
	switch ast.UnaryOperator(op) {
	case ast.UN_ABS, ast.UN_NEGATE:
		admissible = vIsNum(typ)
	case ast.UN_NOT:
		admissible = vIsBool(typ)
	case ast.UN_LOGIC_NOT:
		admissible = vIsInt(typ)
	case ast.UN_LEN:
		admissible = rt.Or(vIsList(typ), vIsText(typ))
	}
	rt.Assert(rt.Implies(!admissible, c.rejected()), "an operand of a wrong type is rejected (unary operator)")
}

// VerifC04Binary: every binary operator on every pair of operand type classes.
func VerifC04Binary() {
	p := vNewTypes()
	lt, rtyp := p.vType("l", 1), p.vType("r", 1)
	op := rt.Int("op")
	rt.Assume(rt.And(op >= int(ast.BIN_AND), op <= int(ast.BIN_SLICE_FROM)))
	rt.Assume(op != int(ast.BIN_FIELD_ACCESS)) // field access is resolved by name, not by operand types
	c := vNewChecker()
	c.t.VisitBinaryExpr(&ast.BinaryExpr{Operator: ast.BinaryOperator(op), Lhs: c.vVar("x", lt), Rhs: c.vVar("y", rtyp)})
	admissible := false
	both := func(f func(ddptypes.Type) bool) bool { return rt.And(f(lt), f(rtyp)) }
	switch ast.BinaryOperator(op) {
	case ast.BIN_AND, ast.BIN_OR, ast.BIN_XOR:
		admissible = both(vIsBool)
	case ast.BIN_PLUS, ast.BIN_MINUS, ast.BIN_MULT, ast.BIN_DIV, ast.BIN_POW, ast.BIN_LOG:
		admissible = both(vIsNum)
	case ast.BIN_MOD, ast.BIN_LOGIC_AND, ast.BIN_LOGIC_OR, ast.BIN_LOGIC_XOR, ast.BIN_LEFT_SHIFT, ast.BIN_RIGHT_SHIFT:
		admissible = both(vIsInt)
	case ast.BIN_LESS, ast.BIN_GREATER, ast.BIN_LESS_EQ, ast.BIN_GREATER_EQ:
		admissible = both(vIsNum)
	case ast.BIN_EQUAL, ast.BIN_UNEQUAL:
		admissible = ddptypes.Equal(lt, rtyp)
	case ast.BIN_INDEX, ast.BIN_SLICE_FROM, ast.BIN_SLICE_TO:
		admissible = rt.And(rt.Or(vIsList(lt), vIsText(lt)), vIsInt(rtyp))
	case ast.BIN_CONCAT:
		textual := func(t ddptypes.Type) bool { return rt.Or(vIsText(t), vIsChar(t)) }
		listy := rt.Or(vIsList(lt), vIsList(rtyp))
		sameElem := ddptypes.Equal(ddptypes.GetListElementType(lt), ddptypes.GetListElementType(rtyp))
		admissible = rt.Or(rt.And(!listy, rt.And(rt.And(textual(lt), textual(rtyp)), rt.Or(vIsText(lt), vIsText(rtyp)))), sameElem)
	}
	rt.Assert(rt.Implies(!admissible, c.rejected()), "operands of wrong types are rejected (binary operator)")
}

// VerifC04Ternary: zwischen, falls/ansonsten and slicing.
func VerifC04Ternary() {
	p := vNewTypes()
	a, b, d := p.vType("a", 1), p.vType("b", 1), p.vType("c", 1)
	op := rt.Int("op")
	rt.Assume(rt.And(op >= int(ast.TER_SLICE), op <= int(ast.TER_FALLS)))
	c := vNewChecker()
	c.t.VisitTernaryExpr(&ast.TernaryExpr{Operator: ast.TernaryOperator(op), Lhs: c.vVar("x", a), Mid: c.vVar("y", b), Rhs: c.vVar("z", d)})
	admissible := false
	switch ast.TernaryOperator(op) {
	case ast.TER_SLICE:
		admissible = rt.And(rt.Or(vIsList(a), vIsText(a)), rt.And(vIsInt(b), vIsInt(d)))
	case ast.TER_BETWEEN:
		admissible = rt.And(vIsNum(a), rt.And(vIsNum(b), vIsNum(d)))
	case ast.TER_FALLS:
		admissible = rt.And(ddptypes.Equal(a, d), vIsBool(b))
	}
	rt.Assert(rt.Implies(!admissible, c.rejected()), "operands of wrong types are rejected (ternary operator)")
}

// VerifC04Statements: conditions, repeat counts and returned values.
func VerifC04Statements() {
	p := vNewTypes()
	typ := p.vType("t", 1)
	c := vNewChecker()
	x := c.vVar("x", typ)
	body := &ast.BlockStmt{Symbols: ast.NewSymbolTable(c.mod.Ast.Symbols)}
	switch rt.Choose("stmt", 9) {
	case 0:
		c.t.VisitIfStmt(&ast.IfStmt{Condition: x, Then: body})
		rt.Assert(rt.Implies(!vIsBool(typ), c.rejected()), "a condition that is no Wahrheitswert is rejected (wenn)")
	case 1:
		c.t.VisitWhileStmt(&ast.WhileStmt{While: token.Token{Type: token.SOLANGE}, Condition: x, Body: body})
		rt.Assert(rt.Implies(!vIsBool(typ), c.rejected()), "a condition that is no Wahrheitswert is rejected (solange)")
	case 2:
		c.t.VisitWhileStmt(&ast.WhileStmt{While: token.Token{Type: token.MACHE}, Condition: x, Body: body})
		rt.Assert(rt.Implies(!vIsBool(typ), c.rejected()), "a condition that is no Wahrheitswert is rejected (mache ... solange)")
	case 3:
		c.t.VisitWhileStmt(&ast.WhileStmt{While: token.Token{Type: token.WIEDERHOLE}, Condition: x, Body: body})
		rt.Assert(rt.Implies(!vIsInt(typ), c.rejected()), "a repeat count that is no Zahl is rejected")
	case 4:
		retT := p.vType("ret", 1)
		fn := &ast.FuncDecl{ReturnType: retT, Mod: c.mod}
		c.t.VisitReturnStmt(&ast.ReturnStmt{Func: fn, Value: x})
		ok := rt.Or(ddptypes.Equal(retT, typ), ddptypes.Equal(retT, ddptypes.VARIABLE))
		rt.Assert(rt.Implies(!ok, c.rejected()), "a returned value of a wrong type is rejected")
	case 5:
		dt := p.vType("decl", 1)
		c.t.VisitVarDecl(&ast.VarDecl{Type: dt, InitVal: x, NameTok: token.Token{Type: token.IDENTIFIER, Literal: "v"}, Mod: c.mod})
		ok := rt.Or(rt.Or(ddptypes.Equal(dt, typ), ddptypes.Equal(dt, ddptypes.VARIABLE)), rt.And(vIsNum(dt), vIsNum(typ)))
		rt.Assert(rt.Implies(!ok, c.rejected()), "an initial value of a wrong type is rejected")
	case 6:
		dt := p.vType("target", 1)
		c.t.VisitAssignStmt(&ast.AssignStmt{Var: c.vVar("v", dt), Rhs: x})
		ok := rt.Or(rt.Or(ddptypes.Equal(dt, typ), ddptypes.Equal(dt, ddptypes.VARIABLE)), rt.And(vIsNum(dt), vIsNum(typ)))
		rt.Assert(rt.Implies(!ok, c.rejected()), "an assigned value of a wrong type is rejected")
	case 7:
		it := p.vType("iter", 1)
		step := p.vType("step", 1)
		init := &ast.VarDecl{Type: it, InitVal: c.vVar("i0", it), NameTok: token.Token{Type: token.IDENTIFIER, Literal: "i"}, Mod: c.mod}
		var stepExpr ast.Expression
		hasStep := rt.Bool("hasStep")
		if hasStep {
			stepExpr = c.vVar("s", step)
		}
		c.t.VisitForStmt(&ast.ForStmt{Initializer: init, To: x, StepSize: stepExpr, Body: body})
		ok := rt.And(rt.And(vIsNum(it), vIsNum(typ)), rt.Or(!hasStep, vIsNum(step)))
		rt.Assert(rt.Implies(!ok, c.rejected()), "a counting loop over non-numeric counter, end or step is rejected")
	case 8:
		et := p.vType("elem", 1)
		init := &ast.VarDecl{Type: et, NameTok: token.Token{Type: token.IDENTIFIER, Literal: "e"}, Mod: c.mod}
		c.t.VisitForRangeStmt(&ast.ForRangeStmt{Initializer: init, In: x, Body: body})
		ok := rt.Or(rt.And(vIsText(typ), vIsChar(et)), rt.And(vIsList(typ), ddptypes.Equal(ddptypes.ListType{ElementType: et}, typ)))
		rt.Assert(rt.Implies(!ok, c.rejected()), "iteration over something that is no Text or list of the element type is rejected")
	}
}

// VerifC04CallArgs: a call whose argument has another type than the parameter, or whose Referenz
// parameter receives an expression that is no variable, is rejected; the same for the arguments
// of a Kombination literal.
func VerifC04CallArgs() {
	p := vNewTypes()
	c := vNewChecker()
	structLit := rt.Bool("literal")
	names := []string{"p0", "p1"}
	args := map[string]ast.Expression{}
	bad := false
	decl := &ast.FuncDecl{NameTok: token.Token{Type: token.IDENTIFIER, Literal: "f"}, ReturnType: ddptypes.ZAHL, Mod: c.mod}
	st := &ddptypes.StructType{Name: "Paar", GramGender: ddptypes.NEUTRUM}
	for i, n := range names {
		var pt, at ddptypes.Type = ddptypes.ZAHL, ddptypes.ZAHL
		if i == 0 {
			pt, at = p.vType("param", 1), p.vType("arg", 1)
		}
		ref := false
		if !structLit {
			ref = rt.Bool("reference")
		}
		assignable := rt.Bool("assignable")
		var expr ast.Expression = c.vVar("v"+n, at)
		if !assignable {
			// a parenthesised sum is no variable; its type is the type of the operands
			expr = &ast.CastExpr{TargetType: at, Lhs: c.vVar("w"+n, ddptypes.VARIABLE)}
		}
		pos := token.Position{Line: uint(i + 1), Column: 1}
		_ = pos
		args[n] = expr
		decl.Parameters = append(decl.Parameters, ast.ParameterInfo{Name: token.Token{Type: token.IDENTIFIER, Literal: n}, Type: ddptypes.ParameterType{Type: pt, IsReference: ref}})
		st.Fields = append(st.Fields, ddptypes.StructField{Name: n, Type: pt})
		bad = rt.Or(bad, rt.Or(!ddptypes.Equal(pt, at), rt.And(ref, !assignable)))
	}
	if structLit {
		sd := &ast.StructDecl{NameTok: token.Token{Type: token.IDENTIFIER, Literal: "Paar"}, Type: st, Mod: c.mod}
		c.t.VisitStructLiteral(&ast.StructLiteral{Struct: sd, Type: st, Args: args})
	} else {
		c.t.VisitFuncCall(&ast.FuncCall{Name: "f", Func: decl, Args: args})
	}
	rt.Assert(rt.Implies(bad, c.rejected()), "an argument of a wrong type, or an expression for a Referenz parameter, is rejected")
}
