package typechecker

// Harness for C15 (type level): unification of type parameters and instantiation of generic
// Kombinationen over symbolic type terms.

import (
	"github.com/DDP-Projekt/Kompilierer/src/ddptypes"
	rt "github.com/DDP-Projekt/Kompilierer/src/zzverif/rt"
)

// VerifC15UnifyTwice: one type parameter T used for two parameters (plain, or as element type of
// a list): the call is well-typed exactly when the two argument types are equivalent.
func VerifC15UnifyTwice() {
	p := vNewTypes()
	t1, t2 := p.vType("a", 1), p.vType("b", 1)
	T := ddptypes.GenericType{Name: "T"}
	// the second parameter is T or a list of T
	second := ddptypes.ParameterType{Type: T}
	arg2 := t2
	if rt.Bool("list") {
		second = ddptypes.ParameterType{Type: ddptypes.ListType{ElementType: T}}
		arg2 = ddptypes.ListType{ElementType: t2}
	}
	bound := map[string]ddptypes.Type{}
	u1 := ddptypes.UnifyGenericType(t1, ddptypes.ParameterType{Type: T}, bound)
	rt.Assert(u1 != nil && ddptypes.Equal(t1, u1), "a free type parameter takes the type of its argument")
	u2 := ddptypes.UnifyGenericType(arg2, second, bound)
	fits := u2 != nil && ddptypes.Equal(arg2, u2)
	rt.Assert(fits == ddptypes.Equal(t1, t2), "a type parameter bound to two argument types fits exactly when they are the same type")
	if b, ok := bound["T"]; ok {
		rt.Assert(ddptypes.Equal(b, t1), "the binding of the type parameter is the first argument's type")
	} else {
		rt.Assert(false, "the type parameter is bound")
	}
}

// VerifC15ListMismatch: a parameter 'T Liste' does not take an argument that is no list.
func VerifC15ListMismatch() {
	p := vNewTypes()
	t1 := p.vType("a", 1)
	bound := map[string]ddptypes.Type{}
	u := ddptypes.UnifyGenericType(t1, ddptypes.ParameterType{Type: ddptypes.ListType{ElementType: ddptypes.GenericType{Name: "T"}}}, bound)
	fits := u != nil && ddptypes.Equal(t1, u)
	rt.Assert(fits == ddptypes.IsList(t1), "a list-of-T parameter fits exactly the list arguments")
	if fits {
		rt.Assert(ddptypes.Equal(ddptypes.ListType{ElementType: bound["T"]}, t1), "T is bound to the element type")
	}
}

// VerifC15StructInstances: instantiations of a generic Kombination with equivalent type
// arguments are one and the same type, with different type arguments different types.
func VerifC15StructInstances() {
	p := vNewTypes()
	a, b := p.vType("a", 1), p.vType("b", 1)
	T := ddptypes.GenericType{Name: "T"}
	g := &ddptypes.GenericStructType{
		StructType:   ddptypes.StructType{Name: "Paar", GramGender: ddptypes.NEUTRUM, Fields: []ddptypes.StructField{{Name: "x", Type: T}, {Name: "l", Type: ddptypes.ListType{ElementType: T}}}},
		GenericTypes: []ddptypes.GenericType{T},
	}
	ia := ddptypes.GetInstantiatedStructType(g, []ddptypes.Type{a})
	ib := ddptypes.GetInstantiatedStructType(g, []ddptypes.Type{b})
	ia2 := ddptypes.GetInstantiatedStructType(g, []ddptypes.Type{a})
	rt.Assert(ia != nil && ib != nil && ia2 != nil, "instantiation with one type argument succeeds")
	if ia == nil || ib == nil || ia2 == nil {
		return
	}
	rt.Assert(ia == ia2, "instantiating twice with the same type argument yields the same type object")
	same := ddptypes.Equal(a, b)
	rt.Assert(ddptypes.Equal(ia, ib) == same, "instantiations are the same type exactly for equivalent type arguments")
	rt.Assert((ia == ib) == same, "equivalent type arguments share one instantiation")
	rt.Assert(ddptypes.Equal(ia.Fields[0].Type, a), "the field of type T has the type argument's type")
	rt.Assert(ddptypes.Equal(ia.Fields[1].Type, ddptypes.ListType{ElementType: a}), "the field of type 'T Liste' is a list of the type argument")
	rt.Assert(ddptypes.GetInstantiatedStructType(g, []ddptypes.Type{a, b}) == nil, "a wrong number of type arguments is refused")
}
