package parser

// Harness for C20 (map level): the sorted-slice map behaves as a map for every history of
// Set/Delete over keys with a lawful order, and keeps its keys sorted and duplicate free.

import (
	rt "github.com/DDP-Projekt/Kompilierer/src/zzverif/rt"
)

func vIntEq(a, b int) bool   { return a == b }
func vIntLess(a, b int) bool { return a < b }

// verifC20MapHistory: n symbolic Set operations followed by an optional Delete, then every
// key is looked up and compared with a reference association list.
func verifC20MapHistory(n int, withDelete bool) {
	m := New[int, int](vIntEq, vIntLess, 2)
	var keys, vals []int
	for i := 0; i < n; i++ {
		k, v := rt.Int("k"), rt.Int("v")
		m.Set(k, v)
		keys = append(keys, k)
		vals = append(vals, v)
	}
	deleted := false
	var dk int
	if withDelete {
		dk = rt.Int("dk")
		m.Delete(dk)
		deleted = true
	}
	// reference: last write wins, deleted key absent
	for i := 0; i < n; i++ {
		want := vals[i]
		for j := i + 1; j < n; j++ {
			want = rt.Ite(keys[j] == keys[i], vals[j], want)
		}
		got, ok := m.Get(keys[i])
		if deleted {
			rt.Assert(rt.Implies(keys[i] == dk, !ok), "a deleted key is absent")
			rt.Assert(rt.Implies(keys[i] != dk, rt.And(ok, got == want)), "other keys survive a delete")
		} else {
			rt.Assert(ok, "an inserted key is found")
			rt.Assert(got == want, "the last value set for a key is returned")
		}
	}
	probe := rt.Int("probe")
	_, ok := m.Get(probe)
	present := false
	for i := 0; i < n; i++ {
		present = rt.Or(present, keys[i] == probe)
	}
	if deleted {
		present = rt.And(present, probe != dk)
	}
	rt.Assert(ok == present, "a key is found exactly when it was inserted (and not deleted)")
	ks := m.Keys()
	for i := 1; i < len(ks); i++ {
		rt.Assert(ks[i-1] < ks[i], "keys stay sorted and duplicate free")
	}
	rt.Assert(Len(m) == len(ks), "Len counts the keys")
}

func VerifC20Map2()    { verifC20MapHistory(2, false) }
func VerifC20Map3()    { verifC20MapHistory(3, false) }
func VerifC20Map4()    { verifC20MapHistory(4, false) }
func VerifC20Map3Del() { verifC20MapHistory(3, true) }
func VerifC20Map4Del() { verifC20MapHistory(4, true) }
func VerifC20Map5()    { verifC20MapHistory(5, false) }
