package parser

// Harness for C16 (whole frontend): the same source is put through the frontend twice, the
// second time with every range statement over a Go map following its own symbolic permutation; the delivered
// diagnostics (code, level, range) of the two runs must be the same sequence. The programs
// carry several faults at once, because an order can only show where two diagnostics compete.

import (
	"strings"

	"github.com/DDP-Projekt/Kompilierer/src/ddperror"
	rt "github.com/DDP-Projekt/Kompilierer/src/zzverif/rt"
)

type vC16Diag struct {
	code           ddperror.Code
	level          ddperror.Level
	l1, c1, l2, c2 uint
}

func vC16Run(src string) ([]vC16Diag, bool) {
	var ds []vC16Diag
	mod, err := Parse(Options{FileName: "x.ddp", Source: []byte(src), ErrorHandler: func(e ddperror.Error) {
		ds = append(ds, vC16Diag{e.Code, e.Level, e.Range.Start.Line, e.Range.Start.Column, e.Range.End.Line, e.Range.End.Column})
	}})
	return ds, err == nil && mod != nil && mod.Ast != nil && mod.Ast.Faulty
}

func vC16Same(a, b []vC16Diag) bool {
	if len(a) != len(b) {
		return false
	}
	for i := range a {
		if a[i] != b[i] {
			return false
		}
	}
	return true
}

// VerifC16Frontend: programs with several faults of several kinds.
func VerifC16Frontend() {
	var sb strings.Builder
	// forward declarations, some of which never get a definition
	names := []string{"foo", "bar", "baz"}
	defined := []bool{rt.Bool("defined"), rt.Bool("defined"), rt.Bool("defined")}
	oneLine := rt.Bool("one line") // all forward declarations on one source line
	for _, n := range names {
		if oneLine {
			sb.WriteString("Die Funktion " + n + " mit dem Parameter a vom Typ Zahl, gibt eine Zahl zurück, wird später definiert und kann so benutzt werden: \"" + n + " <a>\" ")
		} else {
			sb.WriteString("Die Funktion " + n + " mit dem Parameter a vom Typ Zahl, gibt eine Zahl zurück,\nwird später definiert\nund kann so benutzt werden:\n\t\"" + n + " <a>\"\n\n")
		}
	}
	if oneLine {
		sb.WriteString("\n\n")
	}
	switch rt.Choose("extra", 4) {
	case 0:
	case 1: // two ill-typed statements
		sb.WriteString("Die Zahl x ist \"s\".\nDer Text y ist 1.\n")
	case 2: // undeclared names in a call
		sb.WriteString("Die Zahl x ist foo u plus bar v.\n")
	case 3: // a Kombination literal with two ill-typed fields
		sb.WriteString("Wir nennen die Kombination aus\n\tder Zahl p mit Standardwert 0,\n\tder Zahl q mit Standardwert 0,\nein Paar, und erstellen sie so:\n\t\"Paar <p> <q>\"\n\nDas Paar z ist Paar \"a\" \"b\".\n")
	}
	for i, n := range names {
		if defined[i] {
			sb.WriteString("Die Funktion " + n + " macht:\n\tGib a zurück.\n\n")
		}
	}
	src := sb.String()
	// the first run iterates every map in insertion order, the second one in symbolic orders: if
	// any two orders give different outcomes, one of them differs from the outcome of the first run
	d1, _ := vC16Run(src)
	rt.MapOrder("second")
	d2, _ := vC16Run(src)
	for i := rt.Reps(24); i > 1; i-- { // native replay: repeat to meet differing orders
		d3, _ := vC16Run(src)
		if !vC16Same(d1, d3) {
			d2 = d3
		}
	}
	rt.Assert(vC16Same(d1, d2), "the same source yields the same diagnostics in the same order")
}
