package parser

// Harness for C04 (rules decided while parsing): programs are assembled from a rule family, a
// placement and the parts that matter for the rule, all chosen by symbolic selectors; the whole
// frontend (scanner, parser, resolver, type checker) runs on the program. A program that breaks
// the rule must be answered with an error diagnostic and a faulty module; its well-formed
// sibling must be accepted without any error (which also guards the templates themselves: a
// slip in the template would be reported there).

import (
	"strings"

	"github.com/DDP-Projekt/Kompilierer/src/ddperror"
	rt "github.com/DDP-Projekt/Kompilierer/src/zzverif/rt"
)

func vC04Frontend(src string) (errors int, faulty bool, ok bool) {
	mod, err := Parse(Options{FileName: "x.ddp", Source: []byte(src), ErrorHandler: func(e ddperror.Error) {
		if e.Level == ddperror.LEVEL_ERROR {
			errors++
		}
	}})
	if err != nil || mod == nil || mod.Ast == nil {
		return errors, true, false
	}
	return errors, mod.Ast.Faulty, true
}

func vC04Judge(src string, bad bool, rule string) {
	errors, faulty, ok := vC04Frontend(src)
	rt.Assert(ok, "the frontend returns a module")
	if !ok {
		return
	}
	if bad {
		rt.Assert(errors > 0 && faulty, "rejected: "+rule)
	} else {
		// accepting valid programs is not what C04 states: a refused sibling only means that the
		// template (or the frontend) does not do what this harness relies on
		rt.Guard(errors == 0 && !faulty, "the well-formed sibling of a template is accepted: "+rule)
	}
}

// VerifC04FinalReturn: a value-returning function whose body does not end with a return (or the
// not-yet-implemented statement) is rejected - declared in one piece, declared first and defined
// later, or generic and instantiated by a call.
func VerifC04FinalReturn() {
	form := rt.Choose("form", 3)
	text := rt.Bool("returnsText")
	retT, val, val2 := "eine Zahl", "1", "2"
	if text {
		retT, val, val2 = "einen Text", "\"x\"", "\"y\""
	}
	var body string
	bad := false
	switch rt.Choose("body", 6) {
	case 0:
		body = "\tGib " + val + " zurück.\n"
	case 1:
		body = "\tWenn a gleich 0 ist, dann:\n\t\tGib " + val + " zurück.\n"
		bad = true
	case 2:
		body = "\tDie Zahl q ist a plus 1.\n"
		bad = true
	case 3:
		body = "\t...\n"
	case 4:
		body = "\tWenn a gleich 0 ist, dann:\n\t\tGib " + val + " zurück.\n\tGib " + val2 + " zurück.\n"
	case 5:
		body = "\tSolange a größer als 0 ist, mache:\n\t\tGib " + val + " zurück.\n"
		bad = true
	}
	var sb strings.Builder
	switch form {
	case 0:
		sb.WriteString("Die Funktion f mit dem Parameter a vom Typ Zahl, gibt " + retT + " zurück, macht:\n" + body + "Und kann so benutzt werden:\n\t\"f <a>\"\n\n")
	case 1:
		sb.WriteString("Die Funktion f mit dem Parameter a vom Typ Zahl, gibt " + retT + " zurück,\nwird später definiert\nund kann so benutzt werden:\n\t\"f <a>\"\n\n")
		sb.WriteString("Die Funktion f macht:\n" + body + "\n")
	case 2:
		sb.WriteString("Die generische Funktion f mit den Parametern a und g vom Typ Zahl und T, gibt " + retT + " zurück, macht:\n" + body + "Und kann so benutzt werden:\n\t\"f <a> <g>\"\n\n")
	}
	if form == 2 {
		if text {
			sb.WriteString("Der Text r ist f 1 2.\n")
		} else {
			sb.WriteString("Die Zahl r ist f 1 2.\n")
		}
	} else if text {
		sb.WriteString("Der Text r ist f 1.\n")
	} else {
		sb.WriteString("Die Zahl r ist f 1.\n")
	}
	vC04Judge(sb.String(), bad, "a value-returning function without a final return")
}

// VerifC04LoopControl: leaving or continuing a loop is only allowed inside one.
func VerifC04LoopControl() {
	stmt := "Verlasse die Schleife."
	if rt.Bool("continue") {
		stmt = "Fahre mit der Schleife fort."
	}
	loops := []string{
		"Für jede Zahl i von 1 bis 3, mache:\n",
		"Solange z kleiner als 3 ist, mache:\n",
		"Für jede Zahl e in zl, mache:\n",
		"Für jeden Buchstaben c in \"ab\", mache:\n",
	}
	var sb strings.Builder
	sb.WriteString("Die Zahl z ist 1.\nDie Zahlen Liste zl ist eine Liste, die aus 1, 2 besteht.\n")
	bad := true
	switch rt.Choose("place", 8) {
	case 0: // at the top level
		sb.WriteString(stmt + "\n")
	case 1: // in a function body
		sb.WriteString("Die Funktion f gibt nichts zurück, macht:\n\t" + stmt + "\nUnd kann so benutzt werden:\n\t\"f\"\n\n")
	case 2: // in a condition at the top level
		sb.WriteString("Wenn z gleich 1 ist, dann:\n\t" + stmt + "\n")
	case 3: // directly in a loop
		bad = false
		sb.WriteString(loops[rt.Choose("loop", len(loops))] + "\tErhöhe z um 1.\n\t" + stmt + "\n")
	case 4: // in a condition inside a loop
		bad = false
		sb.WriteString(loops[rt.Choose("loop", len(loops))] + "\tErhöhe z um 1.\n\tWenn z gleich 2 ist, dann:\n\t\t" + stmt + "\n")
	case 5: // after a loop
		sb.WriteString(loops[rt.Choose("loop", len(loops))] + "\tErhöhe z um 1.\n" + stmt + "\n")
	case 6: // in the 'otherwise' branch inside a loop
		bad = false
		sb.WriteString(loops[rt.Choose("loop", len(loops))] + "\tWenn z gleich 2 ist, dann:\n\t\tErhöhe z um 1.\n\tSonst:\n\t\t" + stmt + "\n")
	case 7: // in a function that is called from a loop (the loop of the caller does not count)
		sb.WriteString("Die Funktion f gibt nichts zurück, macht:\n\tWenn z gleich 1 ist, dann:\n\t\t" + stmt + "\nUnd kann so benutzt werden:\n\t\"f\"\n\n")
		sb.WriteString(loops[rt.Choose("loop", len(loops))] + "\tf.\n")
	}
	vC04Judge(sb.String(), bad, "leaving or continuing a loop outside of one")
}

// VerifC04Articles: the article of a declaration follows the grammatical gender of the type.
func VerifC04Articles() {
	types := []struct {
		typ, value string
		gender     int // 0 der, 1 die, 2 das
	}{
		{"Zahl", "1", 1}, {"Kommazahl", "1,5", 1}, {"Byte", "1 als Byte", 0}, {"Wahrheitswert", "wahr", 0},
		{"Buchstabe", "'a'", 0}, {"Text", "\"s\"", 0}, {"Variable", "1", 1},
		{"Zahlen Liste", "eine Liste, die aus 1, 2 besteht", 1}, {"Text Liste", "eine Liste, die aus \"a\" besteht", 1},
		{"Meter", "1 als Meter", 0}, {"Strecke", "1", 1}, {"Paar", "der Standardwert von einem Paar", 2},
	}
	articles := []string{"Der", "Die", "Das"}
	t := types[rt.Choose("type", len(types))]
	a := rt.Choose("article", 3)
	src := "Wir definieren einen Meter als eine Zahl.\nWir nennen eine Zahl auch eine Strecke.\nWir nennen die Kombination aus\n\tder Zahl x mit Standardwert 0,\nein Paar, und erstellen sie so:\n\t\"Paar <x>\"\n\n"
	src += articles[a] + " " + t.typ + " v ist " + t.value + ".\n"
	vC04Judge(src, a != t.gender, "a wrong article for the type's grammatical gender")
}

// VerifC04Constants: a Konstante is never assigned to, changed in place or passed as Referenz.
func VerifC04Constants() {
	var sb strings.Builder
	sb.WriteString("Die Funktion nimm mit dem Parameter a vom Typ Zahlen Referenz, gibt nichts zurück, macht:\n\tSpeichere 1 in a.\nUnd kann so benutzt werden:\n\t\"nimm <a>\"\n\n")
	sb.WriteString("Die Funktion lies mit dem Parameter a vom Typ Zahl, gibt nichts zurück, macht:\n\tDie Zahl q ist a.\nUnd kann so benutzt werden:\n\t\"lies <a>\"\n\n")
	name := "k"
	if rt.Bool("variable") {
		sb.WriteString("Die Zahl k ist 4.\n")
	} else {
		sb.WriteString("Die Konstante k ist 4.\n")
	}
	konst := strings.Contains(sb.String(), "Konstante k")
	write := true
	switch rt.Choose("use", 7) {
	case 0:
		sb.WriteString("Speichere 5 in " + name + ".\n")
	case 1:
		sb.WriteString("Erhöhe " + name + " um 1.\n")
	case 2:
		sb.WriteString("nimm " + name + ".\n")
	case 3:
		sb.WriteString("lies " + name + ".\n")
		write = false
	case 4:
		sb.WriteString("Die Zahl y ist " + name + " plus 1.\n")
		write = false
	case 5:
		sb.WriteString("Verringere " + name + " um 1.\n")
	case 6:
		sb.WriteString("Wenn " + name + " gleich 4 ist, dann:\n\tSpeichere 7 in " + name + ".\n")
	}
	vC04Judge(sb.String(), konst && write, "assignment to or Referenz-passing of a Konstante")
}

// VerifC04Scopes: a name is visible from its declaration to the end of its block.
func VerifC04ScopeUses() {
	var sb strings.Builder
	bad := true
	switch rt.Choose("case", 13) {
	case 0: // declared in a block, used after it
		sb.WriteString("Wenn wahr, dann:\n\tDie Zahl n ist 1.\nDie Zahl m ist n.\n")
	case 1: // used before the declaration
		sb.WriteString("Die Zahl m ist n.\nDie Zahl n ist 1.\n")
	case 2: // a parameter outside its function
		sb.WriteString("Die Funktion f mit dem Parameter n vom Typ Zahl, gibt nichts zurück, macht:\n\tDie Zahl q ist n.\nUnd kann so benutzt werden:\n\t\"f <n>\"\n\nDie Zahl m ist n.\n")
	case 3: // the loop variable after the loop
		sb.WriteString("Für jede Zahl n von 1 bis 3, mache:\n\tDie Zahl q ist n.\nDie Zahl m ist n.\n")
	case 4: // declared twice in one block
		sb.WriteString("Die Zahl n ist 1.\nDie Zahl n ist 2.\n")
	case 5: // used inside the block, and in a nested one
		bad = false
		sb.WriteString("Wenn wahr, dann:\n\tDie Zahl n ist 1.\n\tWenn wahr, dann:\n\t\tDie Zahl m ist n.\n")
	case 6: // shadowing in an inner block is a new declaration
		bad = false
		sb.WriteString("Die Zahl n ist 1.\nWenn wahr, dann:\n\tDer Text n ist \"s\".\n\tDer Text m ist n.\nDie Zahl k ist n.\n")
	case 7: // a local of a function used in another function
		sb.WriteString("Die Funktion f gibt nichts zurück, macht:\n\tDie Zahl n ist 1.\nUnd kann so benutzt werden:\n\t\"f\"\n\nDie Funktion g gibt nichts zurück, macht:\n\tDie Zahl m ist n.\nUnd kann so benutzt werden:\n\t\"g\"\n\n")
	case 8: // the counter of a counting loop in its own end value
		sb.WriteString("Für jede Zahl i von 1 bis (20 minus i), mache:\n\tDie Zahl q ist i.\n")
	case 9: // ... and in its own Schrittgröße
		sb.WriteString("Für jede Zahl i von 1 bis 20 mit Schrittgröße i, mache:\n\tDie Zahl q ist i.\n")
	case 10: // a loop header naming a variable that only the loop body declares
		sb.WriteString("Für jede Zahl i von 1 bis q, mache:\n\tDie Zahl q ist 3.\n")
	case 11: // a condition naming a variable that only the block declares
		sb.WriteString("Solange q kleiner als 3 ist, mache:\n\tDie Zahl q ist 5.\n")
	case 12:
		sb.WriteString("Wenn q gleich 1 ist, dann:\n\tDie Zahl q ist 1.\n")
	}
	vC04Judge(sb.String(), bad, "use of an undeclared or out-of-scope name, redeclaration in one scope")
}
