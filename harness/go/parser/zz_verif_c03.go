package parser

// Harness for C03: the frontend is total. Scanner, literal helpers and (for very short
// sources) the whole parser are run on every byte string; an internal crash - also one that
// Parse converts into a ParserError value - is a violation.

import (
	"github.com/DDP-Projekt/Kompilierer/src/ast"
	"github.com/DDP-Projekt/Kompilierer/src/ddperror"
	"github.com/DDP-Projekt/Kompilierer/src/scanner"
	"github.com/DDP-Projekt/Kompilierer/src/token"
	rt "github.com/DDP-Projekt/Kompilierer/src/zzverif/rt"
)

// verifC03Lex: every byte string is scanned (or refused) and every literal token is evaluated
// by the parser helpers without a fault.
func verifC03Lex(n int, mode scanner.Mode) {
	src := rt.Bytes("src", n)
	var d vDiag
	s, err := scanner.New("x.ddp", src, d.handler, mode)
	if err != nil {
		return
	}
	toks := s.ScanAll()
	rt.Assert(len(toks) >= 1 && toks[len(toks)-1].Type == token.EOF, "the scanner ends with EOF")
	for _, t := range toks {
		switch t.Type {
		case token.STRING:
			vParserFor(t, &d).parseString(t.Literal)
		case token.CHAR:
			vParserFor(t, &d).parseChar(t.Literal)
		case token.INT:
			vParserFor(t, &d).parseIntLit()
		}
	}
}

func VerifC03LexN1()      { verifC03Lex(1, scanner.ModeStrictCapitalization) }
func VerifC03LexN2()      { verifC03Lex(2, scanner.ModeStrictCapitalization) }
func VerifC03LexN3()      { verifC03Lex(3, scanner.ModeStrictCapitalization) }
func VerifC03LexN4()      { verifC03Lex(4, scanner.ModeStrictCapitalization) }
func VerifC03LexAliasN3() { verifC03Lex(3, scanner.ModeAlias) }

// verifC03Parse: the whole frontend on every source of n bytes.
func verifC03Parse(n int) {
	src := rt.Bytes("src", n)
	delivered := 0
	mod, err := Parse(Options{FileName: "x.ddp", Source: src, ErrorHandler: func(ddperror.Error) { delivered++ }})
	if err != nil {
		_, crashed := err.(*ParserError)
		rt.Assert(!crashed, "the frontend does not crash internally (ParserError)")
		return
	}
	rt.Assert(mod != nil && mod.Ast != nil, "a module is returned")
	if mod != nil && mod.Ast != nil {
		rt.Assert(rt.Implies(mod.Ast.Faulty, delivered > 0), "a faulty module comes with a diagnostic")
	}
}

func VerifC03ParseN1() { verifC03Parse(1) }
func VerifC03ParseN2() { verifC03Parse(2) }
func VerifC03ParseN3() { verifC03Parse(3) }

// verifC03Tokens: the parser, resolver and typechecker on every sequence of k tokens whose
// kinds are symbolic (all token kinds), with fixed spellings and consecutive positions.
func verifC03Tokens(k int, indentSecondLine bool) {
	toks := make([]token.Token, 0, k+1)
	for i := 0; i < k; i++ {
		typ := rt.Int("type")
		rt.Assume(rt.And(typ > int(token.EOF), typ <= int(token.ELIPSIS)))
		rt.Assume(rt.And(typ != int(token.COMMENT), typ != int(token.ALIAS_PARAMETER)))
		rt.Assume(typ != int(token.BINDE)) // an import statement reads the file system (outside the claim)
		lit := "x"
		t := token.Token{Type: token.TokenType(typ), Literal: lit,
			Range: token.Range{Start: token.Position{Line: 1, Column: uint(2*i + 1)}, End: token.Position{Line: 1, Column: uint(2*i + 2)}}}
		if indentSecondLine && i > 0 {
			t.Indent = 1
			t.Range.Start.Line, t.Range.End.Line = 2, 2
		}
		toks = append(toks, t)
	}
	toks = append(toks, token.Token{Type: token.EOF, Range: token.Range{Start: token.Position{Line: 3, Column: 1}, End: token.Position{Line: 3, Column: 1}}})
	delivered := 0
	mod, err := Parse(Options{FileName: "x.ddp", Tokens: toks, ErrorHandler: func(ddperror.Error) { delivered++ }})
	if err != nil {
		_, crashed := err.(*ParserError)
		rt.Assert(!crashed, "the frontend does not crash internally (ParserError)")
		return
	}
	rt.Assert(mod != nil && mod.Ast != nil, "a module is returned")
}

func VerifC03Tokens1()         { verifC03Tokens(1, false) }
func VerifC03Tokens2()         { verifC03Tokens(2, false) }
func VerifC03Tokens3()         { verifC03Tokens(3, false) }
func VerifC03Tokens4()         { verifC03Tokens(4, false) }
func VerifC03Tokens3Indented() { verifC03Tokens(3, true) }

// vC03Prefixes: openings of the statement and declaration forms of the grammar; the symbolic
// tokens continue them on the next, indented line (or on the same line).
var vC03Prefixes = []string{
	"Wir nennen die Kombination aus\n\tder Zahl x mit Standardwert 0,\n",
	"Wir nennen die Kombination aus\n",
	"Die Funktion f mit dem Parameter a vom Typ Zahl, gibt eine Zahl zurück, macht:\n",
	"Die Funktion f gibt nichts zurück, macht:\n\tGib nichts zurück.\nUnd kann so benutzt werden:\n",
	"Wenn wahr, dann:\n",
	"Die Zahl x ist 1.\nFür jede Zahl i von 1 bis 3, mache:\n",
	"Solange wahr, mache:\n",
	"Wir definieren einen Meter als",
	"Die Zahl x ist",
	"Die Zahlen Liste l ist eine Liste, die aus 1,",
	"Der Text t ist \"a\".\nSpeichere 'b' in t an der Stelle",
	// declarations cut off inside a type, and declarations where a statement is expected
	"Die Funktion f mit dem Parameter a vom Typ",
	"Die Funktion f mit dem Parameter a vom Typ Text Listen",
	"Die Funktion f mit den Parametern a und b vom Typ Zahl und",
	"Die Zahlen Listen",
	"Der Alias \"x y\" steht für die Funktion",
	"Wenn wahr, Der Alias \"x y\" steht für die Funktion",
	"Wenn wahr, Die Funktion f gibt nichts zurück, macht:\n",
	"Wenn wahr, Wir nennen die Kombination aus\n",
	"Solange wahr, Die Zahl x ist",
	// a forward-declared function whose definition follows in a nested scope or is cut off
	"Die Funktion foo gibt nichts zurück,\nwird später definiert\nund kann so benutzt werden:\n\t\"foo\"\n\nWenn wahr, dann:\n\tDie Funktion foo macht:\n",
	"Die Funktion foo gibt nichts zurück,\nwird später definiert\nund kann so benutzt werden:\n\t\"foo\"\n\nDie Funktion foo macht:\n",
	"Die Funktion foo gibt nichts zurück,\nwird später definiert\nund kann so benutzt werden:\n\t\"foo\"\n\nSolange wahr, Die Funktion foo macht:\n",
	"Die Funktion foo gibt nichts zurück,\nwird später definiert\nund kann so benutzt werden:\n\t\"foo\"\n\nDie Funktion bar gibt nichts zurück, macht:\n\tDie Funktion foo macht:\n",
}

// verifC03AfterPrefix: the whole frontend on a concrete opening followed by k tokens of symbolic
// kind: no internal crash, and it finishes (a path that exhausts the instruction budget is
// replayed natively with a time limit).
func verifC03AfterPrefix(k int) {
	prefix := vC03Prefixes[rt.Choose("prefix", len(vC03Prefixes))]
	var d vDiag
	s, err := scanner.New("x.ddp", []byte(prefix), d.handler, scanner.ModeStrictCapitalization)
	if err != nil {
		rt.Assert(false, "the opening is valid UTF-8")
		return
	}
	toks := s.ScanAll()
	toks = toks[:len(toks)-1] // without EOF
	last := toks[len(toks)-1]
	newLine := prefix[len(prefix)-1] == '\n'
	line := last.Range.End.Line
	col := last.Range.End.Column + 1
	indent := uint(0)
	if newLine {
		line, col, indent = line+1, 2, 1
	}
	for i := 0; i < k; i++ {
		typ := rt.Int("type")
		rt.Assume(rt.And(typ > int(token.EOF), typ <= int(token.ELIPSIS)))
		rt.Assume(rt.And(typ != int(token.COMMENT), typ != int(token.ALIAS_PARAMETER)))
		rt.Assume(typ != int(token.BINDE)) // an import statement reads the file system (outside the claim)
		t := token.Token{Type: token.TokenType(typ), Literal: "x", Indent: indent,
			Range: token.Range{Start: token.Position{Line: line, Column: col + uint(2*i)}, End: token.Position{Line: line, Column: col + uint(2*i) + 1}}}
		toks = append(toks, t)
	}
	toks = append(toks, token.Token{Type: token.EOF, Range: token.Range{Start: token.Position{Line: line + 1, Column: 1}, End: token.Position{Line: line + 1, Column: 1}}})
	delivered := 0
	mod, crash := vC03Parse(Options{FileName: "x.ddp", Tokens: toks, ErrorHandler: func(ddperror.Error) { delivered++ }})
	if crash != "" {
		rt.Assert(false, "the frontend does not crash internally: "+crash)
		return
	}
	rt.Assert(mod == nil || mod.Ast != nil, "a module is returned")
}

func VerifC03AfterPrefix1() { verifC03AfterPrefix(1) }
func VerifC03AfterPrefix2() { verifC03AfterPrefix(2) }
func VerifC03AfterPrefix3() { verifC03AfterPrefix(3) }

// verifC03AliasText: a function declaration whose alias text ends in k arbitrary bytes (the alias
// mini-language with its <parameter> and <!negation> markers is scanned from inside a text
// literal, out of reach of the token harnesses).
func verifC03AliasText(k int, boolean bool) {
	ret, val := "eine Zahl", "1"
	if boolean {
		ret, val = "einen Wahrheitswert", "wahr"
	}
	head := "Die Funktion foo gibt " + ret + " zurück, macht:\n\tGib " + val + " zurück.\nUnd kann so benutzt werden:\n\t\"foo "
	src := append([]byte(head), rt.Bytes("alias", k)...)
	src = append(src, []byte("\"\n")...)
	delivered := 0
	mod, crash := vC03Parse(Options{FileName: "x.ddp", Source: src, ErrorHandler: func(ddperror.Error) { delivered++ }})
	if crash != "" {
		rt.Assert(false, "the frontend does not crash internally: "+crash)
		return
	}
	rt.Assert(mod == nil || mod.Ast != nil, "a module is returned")
}

func VerifC03AliasText1()     { verifC03AliasText(1, false) }
func VerifC03AliasText2()     { verifC03AliasText(2, false) }
func VerifC03AliasTextBool2() { verifC03AliasText(2, true) }
func VerifC03AliasTextBool3() { verifC03AliasText(3, true) }

// vC03Parse runs the frontend and turns an internal crash - a ParserError returned by Parse or
// raised as a panic - into a message that names it (one finding per kind of crash).
func vC03Parse(opts Options) (mod *ast.Module, crash string) {
	defer func() {
		if r := recover(); r != nil {
			if pe, ok := r.(*ParserError); ok {
				mod, crash = nil, vC03Kind(pe)
				return
			}
			panic(r)
		}
	}()
	m, err := Parse(opts)
	if err != nil {
		if pe, ok := err.(*ParserError); ok {
			return nil, vC03Kind(pe)
		}
		return nil, ""
	}
	return m, ""
}

// vC03Kind: the two kinds of internal crash (the texts differ between the interpreter and the
// native run, the kind does not).
func vC03Kind(pe *ParserError) string {
	if pe.Err != nil {
		return "a Go runtime error (nil dereference, index out of range, failed type assertion) inside the parser"
	}
	return "an internal consistency check of the parser gave up (parser.panic)"
}
