package parser

// Harness for C07 (flag side): a delivered error-level diagnostic marks the parse as failed,
// warnings never do, and panic mode only suppresses follow-up errors.

import (
	"github.com/DDP-Projekt/Kompilierer/src/ast"
	"github.com/DDP-Projekt/Kompilierer/src/ddperror"
	"github.com/DDP-Projekt/Kompilierer/src/token"
	rt "github.com/DDP-Projekt/Kompilierer/src/zzverif/rt"
)

func VerifC07ParserFlag() {
	delivered, deliveredErrors := 0, 0
	p := newParser("x.ddp", []token.Token{{Type: token.EOF}}, nil, func(e ddperror.Error) {
		delivered++
		if e.Level == ddperror.LEVEL_ERROR {
			deliveredErrors++
		}
	})
	priorPanic, priorErrored := rt.Bool("panicMode"), rt.Bool("errored")
	p.panicMode, p.errored = priorPanic, priorErrored
	asWarning := rt.Bool("warn")
	if asWarning {
		p.warn(ddperror.SEM_TODO_STMT_FOUND, token.Range{}, "w")
		rt.Assert(delivered == 1 && deliveredErrors == 0, "a warning is delivered")
		rt.Assert(p.errored == priorErrored, "a warning alone never fails the compilation")
		rt.Assert(p.panicMode == priorPanic, "a warning does not enter panic mode")
		return
	}
	p.err(ddperror.SYN_UNEXPECTED_TOKEN, token.Range{}, "e")
	rt.Assert((deliveredErrors == 1) == !priorPanic, "an error is delivered unless a previous error is still being recovered from")
	rt.Assert(rt.Implies(deliveredErrors > 0, p.errored), "a delivered error marks the parse as failed")
	rt.Assert(rt.Implies(priorErrored, p.errored), "the failed flag is never cleared")
	rt.Assert(rt.Implies(rt.And(!priorErrored, deliveredErrors == 0), !p.errored), "nothing delivered, nothing failed")
	rt.Assert(p.panicMode, "after an error the parser is in panic mode")
}

// two modules in memory: the library is parsed first and handed to the parser of the main module
// through Options.Modules, so that 'Binde "lib" ein.' needs no file system

var vC07LibDecls = []string{
	"Die öffentliche Funktion lib_f mit dem Parameter a vom Typ Zahl, gibt eine Zahl zurück, macht:\n\tGib a zurück.\nUnd kann so benutzt werden:\n\t\"stufe <a>\"\n\n",
	"Die öffentliche Zahl wert ist 1.\n\n",
	"Die Zahl privat ist 2.\n\n",
	"Die öffentliche Funktion lib_g mit dem Parameter a vom Typ Text, gibt eine Zahl zurück, macht:\n\tGib 2 zurück.\nUnd kann so benutzt werden:\n\t\"die Stufe von <a>\"\n\n",
	// a generic function that can only be instantiated for numbers, and a Text function whose alias is a prefix of its alias
	"Die öffentliche generische Funktion lib_summe mit den Parametern a und b vom Typ T und Zahl, gibt eine Zahl zurück, macht:\n\tGib a plus b zurück.\nUnd kann so benutzt werden:\n\t\"foo <a> plus <b>\"\n\n",
	"Die öffentliche Funktion lib_zeichen mit dem Parameter a vom Typ Text, gibt eine Zahl zurück, macht:\n\tGib 3 zurück.\nUnd kann so benutzt werden:\n\t\"foo <a>\"\n\n",
}

var vC07MainDecls = []string{
	"Die Funktion main_f mit dem Parameter a vom Typ Zahl, gibt eine Zahl zurück, macht:\n\tGib a zurück.\nUnd kann so benutzt werden:\n\t\"stufe <a>\"\n\n",
	"Die Zahl wert ist 5.\n\n",
	"Die Zahl lib_f ist 6.\n\n",
}

var vC07Imports = []string{
	"Binde \"lib\" ein.\n",
	"Binde lib_f aus \"lib\" ein.\n",
	"Binde wert und lib_g aus \"lib\" ein.\n",
	"Binde privat aus \"lib\" ein.\n",
	"Binde fehlt aus \"lib\" ein.\n",
}

// VerifC07ImportDiagnostics: every diagnostic delivered while parsing the main module carries
// the main module's file name and a range that lies inside the main module's text.
func VerifC07ImportDiagnostics() {
	// the library's declarations lie on lines that the main module does not have
	lib := ""
	pad := "[ Bibliothek ]\n\n\n\n\n\n\n\n\n\n\n\n\n\n\n\n\n\n\n\n\n\n\n\n\n\n\n\n\n\n\n\n\n\n\n\n\n\n\n\n"
	for _, d := range vC07LibDecls {
		if rt.Bool("lib") {
			lib += d
		}
	}
	if lib == "" {
		return // an empty Source makes Parse read the file: the library has at least one declaration
	}
	lib = pad + lib
	main := ""
	localFirst := rt.Bool("localFirst")
	local := ""
	for _, d := range vC07MainDecls {
		if rt.Bool("main") {
			local += d
		}
	}
	imp := vC07Imports[rt.Choose("import", len(vC07Imports))]
	if localFirst {
		main = local + imp
	} else {
		main = imp + local
	}
	if rt.Bool("use") {
		// with lib_summe and lib_zeichen imported: the generic candidate is tried first and passed over
		main += "Die Zahl summe ist foo \"abc\" plus 1.\n"
	}
	main += "Die Zahl ende ist 0.\n"
	libErrors := 0
	libMod, err := Parse(Options{FileName: "/m/lib.ddp", Source: []byte(lib), ErrorHandler: func(e ddperror.Error) {
		if e.Level == ddperror.LEVEL_ERROR {
			libErrors++
		}
	}})
	if err != nil || libMod == nil || libErrors > 0 {
		rt.Assert(err == nil && libMod != nil && libErrors == 0, "the library module is well-formed")
		return
	}
	// the lines of the main module
	var lineLen []int
	n := 0
	for _, r := range main {
		if r == '\n' {
			lineLen = append(lineLen, n)
			n = 0
		} else {
			n++
		}
	}
	lineLen = append(lineLen, n)
	var diags []ddperror.Error
	mainMod, err := Parse(Options{FileName: "/m/main.ddp", Source: []byte(main), Modules: map[string]*ast.Module{"/m/lib.ddp": libMod},
		ErrorHandler: func(e ddperror.Error) { diags = append(diags, e) }})
	if err != nil {
		_, crashed := err.(*ParserError)
		rt.Assert(!crashed, "the frontend does not crash internally (ParserError)")
		return
	}
	errorsDelivered := 0
	for _, e := range diags {
		if e.Level == ddperror.LEVEL_ERROR {
			errorsDelivered++
		}
	}
	rt.Assert(!libMod.Ast.Faulty, "parsing an importing module leaves the (well-formed) imported module unmarked")
	if mainMod != nil && mainMod.Ast != nil {
		rt.Assert(mainMod.Ast.Faulty == (errorsDelivered > 0), "the importing module is faulty exactly when an error diagnostic was delivered")
	}
	for _, e := range diags {
		rt.Assert(e.File == "/m/main.ddp", "a diagnostic of the main module names the main module's file")
		s, t := e.Range.Start, e.Range.End
		rt.Assert(!t.IsBefore(s), "diagnostic range is ordered")
		inside := func(p token.Position) bool {
			return p.Line >= 1 && int(p.Line) <= len(lineLen) && p.Column >= 1 && int(p.Column) <= lineLen[p.Line-1]+2
		}
		rt.Assert(inside(s) && inside(t), "diagnostic range lies inside the text of the file it names")
	}
}

// VerifC07CallSiteFlags: programs in which alias candidates are tried and passed over (among them
// a generic function whose instantiation fails for the argument type): the module is marked
// faulty exactly when an error diagnostic was delivered - a speculative trial leaves no trace.
func VerifC07CallSiteFlags() {
	vC09CallSites(2)
	if !vC09LastRun.parsed {
		return
	}
	rt.Assert(rt.Implies(vC09LastRun.delivered > 0, vC09LastRun.faulty), "a delivered error marks the module as faulty")
	rt.Assert(rt.Implies(vC09LastRun.faulty, vC09LastRun.delivered > 0), "a module is faulty only if an error diagnostic was delivered (speculative trials leave no trace)")
}

// verifC07ParseFlags: the whole frontend on every source of n bytes: the module is marked
// faulty exactly when an error-level diagnostic was delivered.
func verifC07ParseFlags(n int) {
	src := rt.Bytes("src", n)
	errors := 0
	mod, err := Parse(Options{FileName: "x.ddp", Source: src, ErrorHandler: func(e ddperror.Error) {
		if e.Level == ddperror.LEVEL_ERROR {
			errors++
		}
	}})
	if err != nil || mod == nil || mod.Ast == nil {
		return // refused sources (invalid UTF-8) and internal crashes are C03's matter
	}
	rt.Assert(rt.Implies(errors > 0, mod.Ast.Faulty), "a delivered error marks the module as faulty")
	rt.Assert(rt.Implies(mod.Ast.Faulty, errors > 0), "a module is faulty only if an error diagnostic was delivered")
}

func VerifC07ParseFlags1() { verifC07ParseFlags(1) }
func VerifC07ParseFlags2() { verifC07ParseFlags(2) }
func VerifC07ParseFlags3() { verifC07ParseFlags(3) }

// every expression syntax of the language, over Zahl variables a b c, Wahrheitswerte u v, a Text t
// and a Zahlen Liste l
var vC07Exprs = []string{
	"a plus b", "a minus b", "a mal b", "a durch b", "a modulo b", "a hoch b", "-a", "der Betrag von a",
	"der Logarithmus von a zur Basis b", "die b. Wurzel von a", "a um b Bit nach links verschoben", "a um b Bit nach rechts verschoben",
	"a logisch und b", "a logisch oder b", "a logisch kontra b", "logisch nicht a",
	"a gleich b ist", "a ungleich b ist", "a kleiner als b ist", "a größer als b ist", "a kleiner als, oder b ist", "a größer als, oder b ist", "a zwischen b und c ist",
	"u und v", "u oder v", "entweder u, oder v", "nicht u", "a, falls u, ansonsten b",
	"die Länge von t", "t an der Stelle a", "t im Bereich von a bis b", "t ab dem a. Element", "t bis zum a. Element", "t verkettet mit t",
	"die Länge von l", "l an der Stelle a", "l im Bereich von a bis b", "l verkettet mit a",
	"die Größe von einer Zahl", "der Standardwert von einer Zahl", "a als Kommazahl", "(a plus b)", "wahr", "1,5", "'c'", "a plus b mal c",
}

// VerifC07ExprRanges: an expression of every syntactic form is used where its type does not fit
// (initial value of a list of lists), so that a diagnostic about the whole expression is due; every
// delivered diagnostic has an ordered range inside the text.
func VerifC07ExprRanges() {
	expr := vC07Exprs[rt.Choose("form", len(vC07Exprs))]
	pre := "Die Zahl a ist 1.\nDie Zahl b ist 2.\nDie Zahl c ist 3.\nDer Wahrheitswert u ist wahr.\nDer Wahrheitswert v ist falsch.\nDer Text t ist \"xy\".\nDie Zahlen Liste l ist eine Liste, die aus 1, 2 besteht.\n"
	stmt := "Die Text Liste q ist " + expr + ".\n"
	if rt.Bool("assignment") {
		pre += "Die Text Liste q ist eine leere Text Liste.\n"
		stmt = "Speichere " + expr + " in q.\n"
	}
	src := pre + stmt
	var lineLen []int
	n := 0
	for _, r := range src {
		if r == '\n' {
			lineLen = append(lineLen, n)
			n = 0
		} else {
			n++
		}
	}
	lineLen = append(lineLen, n)
	var diags []ddperror.Error
	_, err := Parse(Options{FileName: "/m/x.ddp", Source: []byte(src), ErrorHandler: func(e ddperror.Error) { diags = append(diags, e) }})
	if err != nil {
		_, crashed := err.(*ParserError)
		rt.Assert(!crashed, "the frontend does not crash internally (ParserError)")
		return
	}
	rt.Assert(len(diags) > 0, "a value of a wrong type is reported")
	for _, e := range diags {
		s, t := e.Range.Start, e.Range.End
		rt.Assert(!t.IsBefore(s), "diagnostic range is ordered")
		inside := func(p token.Position) bool {
			return p.Line >= 1 && int(p.Line) <= len(lineLen) && p.Column >= 1 && int(p.Column) <= lineLen[p.Line-1]+2
		}
		rt.Assert(inside(s) && inside(t), "diagnostic range lies inside the text of the file it names")
	}
}
