package parser

// Harness for C07 (flag side): a delivered error-level diagnostic marks the parse as failed,
// warnings never do, and panic mode only suppresses follow-up errors.

import (
	"github.com/DDP-Projekt/Kompilierer/src/ddperror"
	"github.com/DDP-Projekt/Kompilierer/src/token"
	rt "github.com/DDP-Projekt/Kompilierer/src/zzverif/rt"
)

func VerifC07ParserFlag() {
	delivered, deliveredErrors := 0, 0
	p := newParser("x.ddp", []token.Token{{Type: token.EOF}}, nil, func(e ddperror.Error) {
		delivered++
		if e.Level == ddperror.LEVEL_ERROR {
			deliveredErrors++
		}
	})
	priorPanic, priorErrored := rt.Bool("panicMode"), rt.Bool("errored")
	p.panicMode, p.errored = priorPanic, priorErrored
	asWarning := rt.Bool("warn")
	if asWarning {
		p.warn(ddperror.SEM_TODO_STMT_FOUND, token.Range{}, "w")
		rt.Assert(delivered == 1 && deliveredErrors == 0, "a warning is delivered")
		rt.Assert(p.errored == priorErrored, "a warning alone never fails the compilation")
		rt.Assert(p.panicMode == priorPanic, "a warning does not enter panic mode")
		return
	}
	p.err(ddperror.SYN_UNEXPECTED_TOKEN, token.Range{}, "e")
	rt.Assert((deliveredErrors == 1) == !priorPanic, "an error is delivered unless a previous error is still being recovered from")
	rt.Assert(rt.Implies(deliveredErrors > 0, p.errored), "a delivered error marks the parse as failed")
	rt.Assert(rt.Implies(priorErrored, p.errored), "the failed flag is never cleared")
	rt.Assert(rt.Implies(rt.And(!priorErrored, deliveredErrors == 0), !p.errored), "nothing delivered, nothing failed")
	rt.Assert(p.panicMode, "after an error the parser is in panic mode")
}
