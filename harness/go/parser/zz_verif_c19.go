package parser

// Harness for C19: every literal denotes its written value. The real scanner produces the
// literal token, the real parser helpers compute its value; both are compared with an
// independent reading of the source text.

import (
	"github.com/DDP-Projekt/Kompilierer/src/ast"
	"github.com/DDP-Projekt/Kompilierer/src/ddperror"
	"github.com/DDP-Projekt/Kompilierer/src/scanner"
	"github.com/DDP-Projekt/Kompilierer/src/token"
	rt "github.com/DDP-Projekt/Kompilierer/src/zzverif/rt"
)

type vDiag struct{ errors int }

func (d *vDiag) handler(e ddperror.Error) {
	if e.Level == ddperror.LEVEL_ERROR {
		d.errors++
	}
}

// vScanOne scans src and returns the single literal token if the source is exactly one token.
func vScanOne(src []byte, d *vDiag) (token.Token, bool) {
	s, err := scanner.New("x.ddp", src, d.handler, scanner.ModeNone)
	if err != nil {
		return token.Token{}, false
	}
	toks := s.ScanAll()
	if len(toks) != 2 {
		return token.Token{}, false
	}
	return toks[0], true
}

func vParserFor(tok token.Token, d *vDiag) *parser {
	p := newParser("x.ddp", []token.Token{tok, {Type: token.EOF}}, nil, d.handler)
	p.cur = 1 // the literal is the previous token, as in primary()
	return p
}

// vUnescape is the reference reading of a text/character body: known escapes are replaced,
// ok is false if an unknown escape (or a trailing backslash) occurs.
func vUnescape(body []byte, quote byte) ([]byte, bool) {
	var out []byte
	for i := 0; i < len(body); i++ {
		b := body[i]
		if b != '\\' {
			out = append(out, b)
			continue
		}
		if i+1 >= len(body) {
			return out, false
		}
		i++
		switch body[i] {
		case 'a':
			out = append(out, 7)
		case 'b':
			out = append(out, 8)
		case 'n':
			out = append(out, 10)
		case 'r':
			out = append(out, 13)
		case 't':
			out = append(out, 9)
		case '\\':
			out = append(out, '\\')
		default:
			if body[i] == quote {
				out = append(out, quote)
			} else {
				return out, false
			}
		}
	}
	return out, true
}

func verifC19Text(k int) {
	body := rt.Bytes("body", k)
	src := append(append([]byte{'"'}, body...), '"')
	var sd, pd vDiag
	tok, one := vScanOne(src, &sd)
	if !one || tok.Type != token.STRING {
		return // not a single text literal (or invalid UTF-8): other properties
	}
	rt.Assert(tok.Literal == string(src), "the literal token is the whole source")
	want, known := vUnescape(body, '"')
	if !known {
		rt.Assert(sd.errors > 0, "an unknown escape sequence in a text literal is reported by the scanner")
	}
	p := vParserFor(tok, &pd)
	got := p.parseString(tok.Literal)
	if sd.errors == 0 && pd.errors == 0 {
		rt.Assert(known, "a literal accepted without diagnostics has only known escapes")
		rt.Assert(got == string(want), "text literal evaluates to the written text")
	}
	if sd.errors == 0 {
		rt.Assert(pd.errors == 0, "scanner and parser agree on which escapes exist")
	}
}

func VerifC19Text0() { verifC19Text(0) }
func VerifC19Text1() { verifC19Text(1) }
func VerifC19Text2() { verifC19Text(2) }
func VerifC19Text3() { verifC19Text(3) }
func VerifC19Text4() { verifC19Text(4) }
func VerifC19Text5() { verifC19Text(5) }

// vEncode is the UTF-8 specification encoder for a code point of known encoded length.
func vEncode(cp rune, n int) []byte {
	u := uint32(cp)
	switch n {
	case 1:
		return []byte{byte(u)}
	case 2:
		return []byte{0xC0 | byte(u>>6), 0x80 | byte(u&0x3F)}
	case 3:
		return []byte{0xE0 | byte(u>>12), 0x80 | byte((u>>6)&0x3F), 0x80 | byte(u&0x3F)}
	}
	return []byte{0xF0 | byte(u>>18), 0x80 | byte((u>>12)&0x3F), 0x80 | byte((u>>6)&0x3F), 0x80 | byte(u&0x3F)}
}

func vAssumeScalar(cp rune, n int) {
	switch n {
	case 1:
		rt.Assume(rt.And(cp >= 0, cp <= 0x7F))
	case 2:
		rt.Assume(rt.And(cp >= 0x80, cp <= 0x7FF))
	case 3:
		rt.Assume(rt.And(rt.And(cp >= 0x800, cp <= 0xFFFF), rt.Or(cp < 0xD800, cp > 0xDFFF)))
	default:
		rt.Assume(rt.And(cp >= 0x10000, cp <= 0x10FFFF))
	}
}

// VerifC19CharPlain: 'c' for every Unicode scalar value c denotes c (or is rejected).
func VerifC19CharPlain() {
	n := 1 + rt.Choose("len", 4)
	cp := rt.Rune("cp")
	vAssumeScalar(cp, n)
	src := append(append([]byte{'\''}, vEncode(cp, n)...), '\'')
	var sd, pd vDiag
	tok, one := vScanOne(src, &sd)
	if !one || tok.Type != token.CHAR {
		// the character is a quote or breaks the literal: then it must not be silently accepted as CHAR
		return
	}
	p := vParserFor(tok, &pd)
	got := p.parseChar(tok.Literal)
	if sd.errors == 0 && pd.errors == 0 {
		rt.Assert(got == cp, "character literal evaluates to the written character")
	}
}

// VerifC19CharEscape: '\x' for every scalar value x: the seven escapes denote their
// characters, everything else is rejected.
func VerifC19CharEscape() {
	n := 1 + rt.Choose("len", 4)
	cp := rt.Rune("cp")
	vAssumeScalar(cp, n)
	src := append(append([]byte{'\'', '\\'}, vEncode(cp, n)...), '\'')
	var sd, pd vDiag
	tok, one := vScanOne(src, &sd)
	if !one || tok.Type != token.CHAR {
		return
	}
	p := vParserFor(tok, &pd)
	got := p.parseChar(tok.Literal)
	want := rune(-1)
	switch cp {
	case 'a':
		want = 7
	case 'b':
		want = 8
	case 'n':
		want = 10
	case 'r':
		want = 13
	case 't':
		want = 9
	case '\\':
		want = '\\'
	case '\'':
		want = '\''
	}
	if want < 0 {
		rt.Assert(sd.errors > 0, "an unknown escape sequence in a character literal is reported by the scanner")
	}
	if sd.errors == 0 && pd.errors == 0 {
		rt.Assert(want >= 0, "a literal accepted without diagnostics is a known escape")
		rt.Assert(got == want, "escaped character literal evaluates to the denoted character")
	}
	if sd.errors == 0 {
		rt.Assert(pd.errors == 0, "scanner and parser agree on which escapes exist")
	}
}

// verifC19Int: prefix followed by k symbolic digits.
func verifC19Int(prefix string, k int) {
	digits := rt.Bytes("d", k)
	for _, d := range digits {
		rt.Assume(rt.And(d >= '0', d <= '9'))
	}
	src := append([]byte(prefix), digits...)
	var sd, pd vDiag
	tok, one := vScanOne(src, &sd)
	rt.Assert(one && tok.Type == token.INT, "a digit string is one Zahl literal")
	if !one || tok.Type != token.INT {
		return
	}
	p := vParserFor(tok, &pd)
	lit := p.parseIntLit()
	// reference value: decimal reading (fits in 64 unsigned bits for at most 19 digits)
	if len(src) <= 19 {
		var v uint64
		for _, b := range []byte(prefix) {
			v = v*10 + uint64(b-'0')
		}
		for _, d := range digits {
			v = v*10 + uint64(d-'0')
		}
		inRange := v <= 9223372036854775807
		rt.Assert(rt.Implies(inRange, pd.errors == 0), "a Zahl literal inside the 64-bit range is accepted")
		rt.Assert(rt.Implies(rt.Not(inRange), pd.errors > 0), "a Zahl literal outside the 64-bit range is rejected")
		if pd.errors == 0 {
			rt.Assert(uint64(lit.Value) == v, "Zahl literal evaluates to its decimal value")
		}
	} else {
		allZeroPrefix := true
		for _, b := range []byte(prefix) {
			if b != '0' {
				allZeroPrefix = false
			}
		}
		if !allZeroPrefix {
			rt.Assert(pd.errors > 0, "a Zahl literal of 20 or more significant digits is rejected")
		}
	}
}

func VerifC19IntShort()    { verifC19Int("", 3) }
func VerifC19IntZero()     { verifC19Int("0", 3) }
func VerifC19IntZeros()    { verifC19Int("00", 2) }
func VerifC19IntMax()      { verifC19Int("922337203685477", 4) }
func VerifC19IntMax3()     { verifC19Int("9223372036854775", 3) }
func VerifC19IntOver()     { verifC19Int("1844674407370955", 4) }
func VerifC19IntLong()     { verifC19Int("12345678901234567", 2) }
func VerifC19IntLongZero() { verifC19Int("000000000000000000", 3) }

// verifC19Float: a Kommazahl literal of i integer and f fraction digits (all symbolic) is read
// by the parser as the correctly rounded value of the decimal fraction.
func verifC19Float(i, f int) {
	ds := rt.Bytes("d", i+f)
	for _, d := range ds {
		rt.Assume(rt.And(d >= '0', d <= '9'))
	}
	src := append(append(append([]byte{}, ds[:i]...), ','), ds[i:]...)
	src = append(src, '.')
	var d vDiag
	mod, err := Parse(Options{FileName: "x.ddp", Source: append([]byte("Die Kommazahl k ist "), src...), ErrorHandler: d.handler})
	if err != nil || mod == nil || mod.Ast == nil {
		rt.Assert(false, "the frontend returns a module")
		return
	}
	rt.Assert(d.errors == 0, "a Kommazahl literal with digits on both sides of the comma is accepted")
	var lit *ast.FloatLit
	for _, st := range mod.Ast.Statements {
		if ds, ok := st.(*ast.DeclStmt); ok {
			if vd, ok := ds.Decl.(*ast.VarDecl); ok {
				lit, _ = vd.InitVal.(*ast.FloatLit)
			}
		}
	}
	rt.Assert(lit != nil, "the initial value is the Kommazahl literal")
	if lit == nil {
		return
	}
	// reference: n / 10^f with n the digit string read as an integer (exact in a double for at
	// most 15 digits; the division is correctly rounded). The literal's value is concrete on this
	// path; the digits are symbolic, so the comparison with n is decided by the solver.
	n, p := 0, 1.0
	for _, b := range ds {
		n = n*10 + int(b-'0')
	}
	for k := 0; k < f; k++ {
		p *= 10
	}
	m := int(lit.Value*p + 0.5)
	rt.Assert(m == n, "a Kommazahl literal evaluates to its decimal value")
	rt.Assert(lit.Value == float64(m)/p, "a Kommazahl literal is the correctly rounded decimal fraction")
}

func VerifC19Float11() { verifC19Float(1, 1) }
func VerifC19Float12() { verifC19Float(1, 2) }
func VerifC19Float21() { verifC19Float(2, 1) }
func VerifC19Float22() { verifC19Float(2, 2) }

// verifC19FloatHuge: a Kommazahl literal of the form d1 d2 0...0,0 with z zeros. With 307 digits in
// front of the comma (z = 305) every value lies inside the double range and has to be accepted
// with a finite value; with 310 digits (z = 308) every value except 00... is beyond the largest
// double and has to be rejected with a diagnostic - never accepted as infinity.
func verifC19FloatHuge(z int, inside bool) {
	ds := rt.Bytes("d", 2)
	for _, d := range ds {
		rt.Assume(rt.And(d >= '0', d <= '9'))
	}
	rt.Assume(ds[0] != '0')
	src := append([]byte("Die Kommazahl k ist "), ds...)
	for k := 0; k < z; k++ {
		src = append(src, '0')
	}
	src = append(src, []byte(",0.")...)
	var d vDiag
	mod, err := Parse(Options{FileName: "x.ddp", Source: src, ErrorHandler: d.handler})
	if err != nil || mod == nil || mod.Ast == nil {
		rt.Assert(false, "the frontend returns a module")
		return
	}
	if inside {
		rt.Assert(d.errors == 0, "a Kommazahl literal inside the range of a double is accepted")
	} else {
		rt.Assert(d.errors > 0, "a Kommazahl literal beyond the largest double is rejected with a diagnostic")
	}
	for _, st := range mod.Ast.Statements {
		if dst, ok := st.(*ast.DeclStmt); ok {
			if vd, ok := dst.Decl.(*ast.VarDecl); ok {
				if lit, ok := vd.InitVal.(*ast.FloatLit); ok && d.errors == 0 {
					rt.Assert(lit.Value <= 1.7976931348623157e308, "an accepted Kommazahl literal has a finite value")
				}
			}
		}
	}
}

func VerifC19FloatHugeInside() { verifC19FloatHuge(305, true) }
func VerifC19FloatHugeBeyond() { verifC19FloatHuge(308, false) }
