package parser

// Harness for C09 (call sites): programs are assembled from a population of alias declarations
// over one vocabulary and a call site; the whole frontend resolves the call and the callee and
// the binding of the arguments are compared with the resolution rule.

import (
	"strings"

	"github.com/DDP-Projekt/Kompilierer/src/ast"
	"github.com/DDP-Projekt/Kompilierer/src/ddperror"
	rt "github.com/DDP-Projekt/Kompilierer/src/zzverif/rt"
)

type vC09Param struct {
	name string
	typ  string // "zahl" (default), "text", "meter" (a definition over Zahl), "zliste" (Zahlen Liste), "T", "TListe"
	ref  bool
}

func (p vC09Param) kind() string {
	if p.typ == "" {
		return "zahl"
	}
	return p.typ
}

func (p vC09Param) generic() bool { return p.typ == "T" || p.typ == "TListe" || p.typ == "Tnum" }

type vC09Decl struct {
	name   string
	long   bool        // "stufe <1> plus <2>" instead of "stufe <1>"
	params []vC09Param // in the order of the placeholders of the alias
	body   string      // statement of the body (default: return the declaration's number)
}

var vC09Decls = []vC09Decl{
	{name: "fA", long: false, params: []vC09Param{{name: "a"}}},
	{name: "fB", long: false, params: []vC09Param{{name: "a", ref: true}}},
	{name: "fD", long: false, params: []vC09Param{{name: "a", typ: "text"}}},
	{name: "fC", long: true, params: []vC09Param{{name: "a"}, {name: "b"}}},
	{name: "fE", long: true, params: []vC09Param{{name: "a", ref: true}, {name: "b", typ: "text"}}},
	{name: "fG", long: false, params: []vC09Param{{name: "a", typ: "T"}}},
	// placeholders in the opposite order of the parameter list: binding is by name
	{name: "fF", long: true, params: []vC09Param{{name: "b", typ: "text"}, {name: "a"}}},
	// a type definition over Zahl is another type than Zahl
	{name: "fM", long: false, params: []vC09Param{{name: "a", typ: "meter"}}},
	// a list of the type parameter is generic, a Zahlen Liste is not
	{name: "fL", params: []vC09Param{{name: "a", typ: "TListe"}}},
	{name: "fZ", params: []vC09Param{{name: "a", typ: "zliste"}}},
	// a generic function whose body only type-checks for T = Zahl: for any other argument type the
	// instantiation fails and the candidate is passed over
	{name: "fH", long: true, params: []vC09Param{{name: "a", typ: "Tnum"}, {name: "b"}}, body: "Gib a plus b zurück."},
}

func (d vC09Decl) source(id int) string {
	var sb strings.Builder
	typ := func(p vC09Param) string {
		switch {
		case p.kind() == "T" || p.kind() == "Tnum":
			return "T"
		case p.kind() == "TListe":
			return "T Liste"
		case p.kind() == "zliste":
			return "Zahlen Liste"
		case p.kind() == "meter":
			return "Meter"
		case p.kind() == "text" && p.ref:
			return "Text Referenz"
		case p.kind() == "text":
			return "Text"
		case p.ref:
			return "Zahlen Referenz"
		}
		return "Zahl"
	}
	// the parameter list is sorted by name, the alias has its own order
	ps := append([]vC09Param{}, d.params...)
	if len(ps) == 2 && ps[0].name > ps[1].name {
		ps[0], ps[1] = ps[1], ps[0]
	}
	kind := "Funktion"
	if d.params[0].generic() {
		kind = "generische Funktion"
	}
	if len(ps) == 1 {
		sb.WriteString("Die " + kind + " " + d.name + " mit dem Parameter " + ps[0].name + " vom Typ " + typ(ps[0]) + ", gibt eine Zahl zurück, macht:\n")
	} else {
		sb.WriteString("Die " + kind + " " + d.name + " mit den Parametern " + ps[0].name + " und " + ps[1].name + " vom Typ " + typ(ps[0]) + " und " + typ(ps[1]) + ", gibt eine Zahl zurück, macht:\n")
	}
	body := d.body
	if body == "" {
		body = "Gib " + string(rune('0'+id%10)) + " zurück."
	}
	sb.WriteString("\t" + body + "\nUnd kann so benutzt werden:\n")
	if d.long {
		sb.WriteString("\t\"stufe <" + d.params[0].name + "> plus <" + d.params[1].name + ">\"\n\n")
	} else {
		sb.WriteString("\t\"stufe <" + d.params[0].name + ">\"\n\n")
	}
	return sb.String()
}

type vC09Form struct {
	src        string
	typ        string
	assignable bool
}

var vC09Forms = []vC09Form{
	{"1", "zahl", false},
	{"z", "zahl", true},
	{"\"s\"", "text", false},
	{"t", "text", true},
	{"(z plus 1)", "zahl", false},
	{"-1", "zahl", false},
	{"m", "meter", true},
	{"zl", "zliste", true},
}

func (d vC09Decl) fits(args []vC09Form) bool {
	if d.long != (len(args) == 2) {
		return false
	}
	for i, p := range d.params {
		a := args[i]
		if p.ref && !a.assignable {
			return false
		}
		switch p.kind() {
		case "T":
		case "Tnum":
			if a.typ != "zahl" {
				return false
			}
		case "TListe":
			if a.typ != "zliste" {
				return false
			}
		default:
			if p.kind() != a.typ {
				return false
			}
		}
	}
	return true
}

// key of a declaration among the candidates, as the property orders them: longer first, then
// non-generic before generic, then more Referenz parameters (anything further is left open)
func (d vC09Decl) key() int {
	k := 0
	if d.long {
		k += 100
	}
	generic := false
	refs := 0
	for _, p := range d.params {
		generic = generic || p.generic()
		refs += rt.B2I(p.ref)
	}
	if !generic {
		k += 10
	}
	return k + refs
}

func vC09FindCall(e ast.Expression) *ast.FuncCall {
	switch e := e.(type) {
	case *ast.FuncCall:
		return e
	case *ast.BinaryExpr:
		if c := vC09FindCall(e.Lhs); c != nil {
			return c
		}
		return vC09FindCall(e.Rhs)
	case *ast.Grouping:
		return vC09FindCall(e.Expr)
	case *ast.CastExpr:
		return vC09FindCall(e.Lhs)
	}
	return nil
}

// vC09LastRun: what the frontend answered for the program of the last vC09CallSites call
// (used by the C07 harness that looks at the flags instead of the resolution)
var vC09LastRun struct {
	parsed    bool
	faulty    bool
	delivered int
}

func vC09CallSites(maxDecls int) {
	vC09LastRun.parsed = false
	var present []int
	var sb strings.Builder
	sb.WriteString("Wir definieren einen Meter als eine Zahl.\n\n")
	for i, d := range vC09Decls {
		if rt.Bool("declared") {
			present = append(present, i)
			sb.WriteString(d.source(i))
		}
	}
	rt.Assume(len(present) >= 1 && len(present) <= maxDecls)
	sb.WriteString("Die Zahl z ist 1.\nDer Text t ist \"x\".\nDer Meter m ist 2 als Meter.\nDie Zahlen Liste zl ist eine Liste, die aus 1, 2 besteht.\n")
	declLines := strings.Count(sb.String(), "\n")
	x := vC09Forms[rt.Choose("first", len(vC09Forms))]
	args := []vC09Form{x}
	prefix := "Die Zahl r ist stufe "
	call := prefix + x.src
	colX := len([]rune(prefix)) + 1
	colY := 0
	if rt.Bool("second") {
		y := vC09Forms[rt.Choose("second", len(vC09Forms))]
		args = append(args, y)
		colY = len([]rune(call+" plus ")) + 1
		call += " plus " + y.src
	}
	sb.WriteString(call + ".\n")
	errorsBefore, delivered := 0, 0
	mod, err := Parse(Options{FileName: "x.ddp", Source: []byte(sb.String()), ErrorHandler: func(e ddperror.Error) {
		if e.Level == ddperror.LEVEL_ERROR {
			delivered++
			if int(e.Range.Start.Line) <= declLines {
				errorsBefore++
			}
		}
	}})
	if err != nil || mod == nil || mod.Ast == nil {
		rt.Assert(false, "the frontend returns a module")
		return
	}
	vC09LastRun.parsed, vC09LastRun.faulty, vC09LastRun.delivered = true, mod.Ast.Faulty, delivered
	if errorsBefore > 0 {
		return // this population is not a valid set of declarations (e.g. the same alias twice)
	}
	// the rule: of the declared aliases that fit the tokens and the argument types, the first by priority;
	// with two arguments a short alias can only take the first one
	best := -1
	for _, i := range present {
		d := vC09Decls[i]
		a := args
		if !d.long {
			a = args[:1]
		}
		if d.fits(a) && d.key() > best {
			best = d.key()
		}
	}
	if best == -1 {
		return // no declaration fits: a diagnostic is due (C04), nothing to resolve
	}
	wanted := map[string]int{}
	for _, i := range present {
		d := vC09Decls[i]
		a := args
		if !d.long {
			a = args[:1]
		}
		if d.fits(a) && d.key() == best {
			wanted[d.name] = i
		}
	}
	var initVal ast.Expression
	for _, st := range mod.Ast.Statements {
		if ds, ok := st.(*ast.DeclStmt); ok {
			if vd, ok := ds.Decl.(*ast.VarDecl); ok && vd.Name() == "r" {
				initVal = vd.InitVal
			}
		}
	}
	callExpr := vC09FindCall(initVal)
	rt.Assert(callExpr != nil, "the call site is resolved to a call")
	if callExpr == nil {
		return
	}
	want, ok := wanted[callExpr.Name]
	rt.Assert(ok, "the longest alias whose parameter types fit is called (non-generic before generic, more Referenz parameters first)")
	if !ok {
		return
	}
	d := vC09Decls[want]
	cols := []int{colX, colY}
	for i, p := range d.params {
		arg := callExpr.Args[p.name]
		rt.Assert(arg != nil, "every placeholder of the alias is bound")
		if arg != nil {
			rt.Assert(int(arg.GetRange().Start.Column) == cols[i], "arguments are bound to the parameters by placeholder name")
		}
	}
}

func VerifC09CallSites()    { vC09CallSites(3) }
func VerifC09CallSitesAll() { vC09CallSites(len(vC09Decls)) }
