package parser

// Harness for C10 (frontend part): importing a module makes visible exactly its public
// declarations - all of them or exactly the listed ones - and never a private one; same-named
// private declarations of two modules stay apart. The modules are held in memory and handed to
// the parser through Options.Modules.

import (
	"github.com/DDP-Projekt/Kompilierer/src/ast"
	"github.com/DDP-Projekt/Kompilierer/src/ddperror"
	rt "github.com/DDP-Projekt/Kompilierer/src/zzverif/rt"
)

type vC10Decl struct {
	name   string
	public bool
	isFunc bool
	src    string
}

var vC10Lib = []vC10Decl{
	{"pubf", true, true, "Die öffentliche Funktion pubf mit dem Parameter a vom Typ Zahl, gibt eine Zahl zurück, macht:\n\tGib a zurück.\nUnd kann so benutzt werden:\n\t\"pubf <a>\"\n\n"},
	{"privf", false, true, "Die Funktion privf mit dem Parameter a vom Typ Zahl, gibt eine Zahl zurück, macht:\n\tGib a zurück.\nUnd kann so benutzt werden:\n\t\"privf <a>\"\n\n"},
	{"pubv", true, false, "Die öffentliche Zahl pubv ist 1.\n\n"},
	{"privv", false, false, "Die Zahl privv ist 2.\n\n"},
	{"pubk", true, false, "Die öffentliche Konstante pubk ist 3.\n\n"},
	{"privk", false, false, "Die Konstante privk ist 4.\n\n"},
}

type vC10Import struct {
	src    string
	whole  bool
	listed []string
}

var vC10Imports = []vC10Import{
	{"Binde \"lib\" ein.\n", true, nil},
	{"Binde pubf aus \"lib\" ein.\n", false, []string{"pubf"}},
	{"Binde pubv aus \"lib\" ein.\n", false, []string{"pubv"}},
	{"Binde pubf und pubv aus \"lib\" ein.\n", false, []string{"pubf", "pubv"}},
	{"Binde privf aus \"lib\" ein.\n", false, []string{"privf"}},
	{"Binde privv und pubv aus \"lib\" ein.\n", false, []string{"privv", "pubv"}},
	{"Binde pubk aus \"lib\" ein.\n", false, []string{"pubk"}},
	{"Binde privk aus \"lib\" ein.\n", false, []string{"privk"}},
}

func vC10Parse(file, src string, mods map[string]*ast.Module) (*ast.Module, int, bool) {
	errors := 0
	mod, err := Parse(Options{FileName: file, Source: []byte(src), Modules: mods, ErrorHandler: func(e ddperror.Error) {
		if e.Level == ddperror.LEVEL_ERROR {
			errors++
		}
	}})
	if err != nil || mod == nil {
		return nil, errors, false
	}
	return mod, errors, true
}

func VerifC10Visibility() {
	lib := ""
	declared := map[string]bool{}
	for _, d := range vC10Lib {
		if rt.Bool("declared") {
			lib += d.src
			declared[d.name] = true
		}
	}
	if lib == "" {
		return
	}
	libMod, libErrors, ok := vC10Parse("/m/lib.ddp", lib, nil)
	rt.Assert(ok && libErrors == 0, "the library module is well-formed")
	if !ok || libErrors != 0 {
		return
	}
	imp := vC10Imports[rt.Choose("import", len(vC10Imports))]
	// the import alone
	_, impErrors, ok := vC10Parse("/m/main.ddp", imp.src, map[string]*ast.Module{"/m/lib.ddp": libMod})
	rt.Assert(ok, "the frontend returns a module")
	importOK := true
	for _, n := range imp.listed {
		pub := false
		for _, d := range vC10Lib {
			if d.name == n && d.public && declared[n] {
				pub = true
			}
		}
		importOK = importOK && pub
	}
	rt.Assert((impErrors == 0) == importOK, "an import is accepted exactly when every listed name is a public declaration of the module")
	if !importOK {
		return
	}
	// a use of one of the library's names after the import
	use := vC10Lib[rt.Choose("use", len(vC10Lib))]
	stmt := "Die Zahl r ist " + use.name + ".\n"
	if use.isFunc {
		stmt = "Die Zahl r ist " + use.name + " 1.\n"
	}
	_, useErrors, ok := vC10Parse("/m/main.ddp", imp.src+stmt, map[string]*ast.Module{"/m/lib.ddp": libMod})
	rt.Assert(ok, "the frontend returns a module")
	listed := imp.whole
	for _, n := range imp.listed {
		listed = listed || n == use.name
	}
	visible := declared[use.name] && use.public && listed
	rt.Assert((useErrors == 0) == visible, "a name of an imported module can be used exactly when it is public and imported (as a whole or by name)")
}

// VerifC10DistinctPrivates: two libraries each have a private helper 'hilf' used by their public
// function; importing both is no collision and each public function keeps calling its own helper.
func VerifC10DistinctPrivates() {
	mk := func(pub string, ret string) string {
		return "Die Funktion hilf mit dem Parameter a vom Typ Zahl, gibt eine Zahl zurück, macht:\n\tGib " + ret + " zurück.\nUnd kann so benutzt werden:\n\t\"hilf <a>\"\n\n" +
			"Die öffentliche Funktion " + pub + " mit dem Parameter a vom Typ Zahl, gibt eine Zahl zurück, macht:\n\tGib (hilf a) zurück.\nUnd kann so benutzt werden:\n\t\"" + pub + " <a>\"\n\n"
	}
	m1, e1, ok1 := vC10Parse("/m/eins.ddp", mk("f_eins", "1"), nil)
	m2, e2, ok2 := vC10Parse("/m/zwei.ddp", mk("f_zwei", "2"), nil)
	rt.Assert(ok1 && ok2 && e1 == 0 && e2 == 0, "the libraries are well-formed")
	if !(ok1 && ok2) {
		return
	}
	first, second := "eins", "zwei"
	if rt.Bool("swapped") {
		first, second = second, first
	}
	localHelper := ""
	if rt.Bool("local") {
		localHelper = "Die Funktion hilf mit dem Parameter a vom Typ Zahl, gibt eine Zahl zurück, macht:\n\tGib 3 zurück.\nUnd kann so benutzt werden:\n\t\"hilf <a>\"\n\n"
	}
	main := "Binde \"" + first + "\" ein.\nBinde \"" + second + "\" ein.\n" + localHelper + "Die Zahl r ist (f_eins 1) plus (f_zwei 1).\n"
	_, errs, ok := vC10Parse("/m/main.ddp", main, map[string]*ast.Module{"/m/eins.ddp": m1, "/m/zwei.ddp": m2})
	rt.Assert(ok && errs == 0, "same-named private declarations of imported modules do not collide")
	for _, m := range []*ast.Module{m1, m2} {
		for _, st := range m.Ast.Statements {
			ds, isDecl := st.(*ast.DeclStmt)
			if !isDecl {
				continue
			}
			fd, isFunc := ds.Decl.(*ast.FuncDecl)
			if !isFunc || !fd.IsPublic || fd.Body == nil {
				continue
			}
			for _, bs := range fd.Body.Statements {
				if rs, isRet := bs.(*ast.ReturnStmt); isRet {
					call := vC09FindCallC10(rs.Value)
					rt.Assert(call != nil && call.Func != nil && call.Func.Mod == m, "a public function keeps calling the private helper of its own module")
				}
			}
		}
	}
}

func vC09FindCallC10(e ast.Expression) *ast.FuncCall {
	switch e := e.(type) {
	case *ast.FuncCall:
		return e
	case *ast.Grouping:
		return vC09FindCallC10(e.Expr)
	}
	return nil
}
