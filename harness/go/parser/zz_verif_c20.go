package parser

// Harness for C20 (key predicates and trie level): duplicate aliases are rejected and declared
// aliases stay findable for every population of alias keys.

import (
	"github.com/DDP-Projekt/Kompilierer/src/ddptypes"
	at "github.com/DDP-Projekt/Kompilierer/src/parser/alias_trie"
	orderedmap "github.com/DDP-Projekt/Kompilierer/src/parser/ordered_map"
	"github.com/DDP-Projekt/Kompilierer/src/token"
	rt "github.com/DDP-Projekt/Kompilierer/src/zzverif/rt"
)

type vPool struct {
	types []ddptypes.Type
}

// vNewPool: parameter types including distinct types that print alike (same-named Kombinationen
// of different modules), an alias of Zahl and a definition over Zahl.
func vNewPool() *vPool {
	s1 := &ddptypes.StructType{Name: "Vektor", GramGender: ddptypes.MASKULIN, Fields: []ddptypes.StructField{{Name: "x", Type: ddptypes.ZAHL}}}
	s2 := &ddptypes.StructType{Name: "Vektor", GramGender: ddptypes.MASKULIN, Fields: []ddptypes.StructField{{Name: "x", Type: ddptypes.KOMMAZAHL}}}
	s3 := &ddptypes.StructType{Name: "Vektor", GramGender: ddptypes.MASKULIN, Fields: []ddptypes.StructField{{Name: "x", Type: ddptypes.TEXT}}}
	al := &ddptypes.TypeAlias{Name: "Nummer", Underlying: ddptypes.ZAHL, GramGender: ddptypes.FEMININ}
	df := &ddptypes.TypeDef{Name: "Meter", Underlying: ddptypes.ZAHL, GramGender: ddptypes.MASKULIN}
	return &vPool{types: []ddptypes.Type{
		ddptypes.ZAHL, ddptypes.TEXT, ddptypes.ListType{ElementType: ddptypes.ZAHL}, al, df, s1, s2, s3,
		ddptypes.ListType{ElementType: al},
	}}
}

// vToken builds one alias-key token: kind chosen, literal and reference flag symbolic.
func (p *vPool) vToken(name string, nTypes int) *token.Token {
	switch rt.Choose(name+"_kind", 3) {
	case 0:
		typ := p.types[rt.Choose(name+"_type", nTypes)]
		return &token.Token{Type: token.ALIAS_PARAMETER, Literal: "<p>", AliasInfo: &ddptypes.ParameterType{Type: typ, IsReference: rt.Bool(name + "_ref")}}
	case 1:
		return &token.Token{Type: token.IDENTIFIER, Literal: string(rt.Bytes(name+"_lit", 1))}
	}
	// two keyword tokens: compared by kind only
	if rt.Bool(name + "_kw") {
		return &token.Token{Type: token.DER, Literal: "der"}
	}
	return &token.Token{Type: token.VON, Literal: "von"}
}

// VerifC20Laws: the key predicates form a lawful (eq, less) pair on all pairs and triples.
// This is a lemma: a failure explains a property-level failure but is not one by itself.
func VerifC20Laws() {
	p := vNewPool()
	a, b, c := p.vToken("a", len(p.types)), p.vToken("b", len(p.types)), p.vToken("c", len(p.types))
	eab, lab, lba := tokenEqual(a, b), tokenLess(a, b), tokenLess(b, a)
	rt.Assert(tokenEqual(a, a), "equality is reflexive")
	rt.Assert(eab == tokenEqual(b, a), "equality is symmetric")
	rt.Assert(rt.Implies(eab, rt.And(!lab, !lba)), "equal keys are not ordered")
	rt.Assert(rt.Implies(!eab, rt.Or(lab, lba)), "unequal keys are ordered one way (trichotomy)")
	rt.Assert(!rt.And(lab, lba), "order is asymmetric")
	rt.Assert(rt.Implies(rt.And(lab, tokenLess(b, c)), tokenLess(a, c)), "order is transitive")
	rt.Assert(rt.Implies(rt.And(eab, tokenEqual(b, c)), tokenEqual(a, c)), "equality is transitive")
}

// verifC20RealMap: histories of Set over real alias-key tokens with the real predicates.
func verifC20RealMap(n, nTypes int) {
	p := vNewPool()
	m := orderedmap.New[*token.Token, int](tokenEqual, tokenLess, 2)
	var keys []*token.Token
	for i := 0; i < n; i++ {
		k := p.vToken("k", nTypes)
		keys = append(keys, k)
		m.Set(k, i)
	}
	for i := 0; i < n; i++ {
		want := i
		for j := i + 1; j < n; j++ {
			want = rt.Ite(tokenEqual(keys[j], keys[i]), j, want)
		}
		got, ok := m.Get(keys[i])
		rt.Assert(ok, "an inserted alias key is found again")
		if ok {
			rt.Assert(got == want, "the value stored for an alias key is returned")
		}
	}
}

func VerifC20RealMap2() { verifC20RealMap(2, 9) }
func VerifC20RealMap3() { verifC20RealMap(3, 9) }

// VerifC20RealMap3NoTwins: the same without the same-named Kombinationen (pool prefix of 5 types).
func VerifC20RealMap3NoTwins() { verifC20RealMap(3, 5) }

// vAliasKey builds an alias key of the usual shape "word <placeholder>": a word token (keyword or
// identifier with a symbolic 1-byte name) followed by a placeholder over the pool.
func (p *vPool) vAliasKey(nTypes int, withSecond bool) []*token.Token {
	var w *token.Token
	if rt.Bool("kw") {
		w = &token.Token{Type: token.DER, Literal: "der"}
	} else {
		w = &token.Token{Type: token.IDENTIFIER, Literal: string(rt.Bytes("lit", 1))}
	}
	if !withSecond {
		return []*token.Token{w}
	}
	typ := p.types[rt.Choose("type", nTypes)]
	ph := &token.Token{Type: token.ALIAS_PARAMETER, Literal: "<p>", AliasInfo: &ddptypes.ParameterType{Type: typ, IsReference: rt.Bool("ref")}}
	return []*token.Token{w, ph}
}

func vKeysEqual(a, b []*token.Token) bool {
	if len(a) != len(b) {
		return false
	}
	same := true
	for j := range a {
		same = rt.And(same, tokenEqual(a[j], b[j]))
	}
	return same
}

// verifC20Trie: insert aliases of the shape "word <p>" (the last one optionally just "word");
// a key equal to a declared one is reported as existing, every declared key stays findable
// with its value.
func verifC20Trie(nAliases, nTypes int, lastShort bool) {
	p := vNewPool()
	tr := at.New[*token.Token, int](tokenEqual, tokenLess)
	var all [][]*token.Token
	for i := 0; i < nAliases; i++ {
		key := p.vAliasKey(nTypes, !(lastShort && i == nAliases-1))
		exists, v := tr.Contains(key)
		dup := false
		for _, old := range all {
			dup = rt.Or(dup, vKeysEqual(old, key))
		}
		// the parser treats an alias as taken when the key exists with a value (aliasExists)
		rt.Assert(rt.Implies(dup, rt.And(exists, v != 0)), "a key equal to a declared alias is reported as existing")
		tr.Insert(key, i+1)
		all = append(all, key)
	}
	for i, key := range all {
		ok, v := tr.Contains(key)
		rt.Assert(ok, "a declared alias stays findable")
		later := false
		for j := i + 1; j < len(all); j++ {
			later = rt.Or(later, vKeysEqual(all[j], key))
		}
		if ok {
			rt.Assert(rt.Implies(!later, v == i+1), "a declared alias keeps its value")
		}
	}
}

func VerifC20Trie2()      { verifC20Trie(2, 9, false) }
func VerifC20Trie3()      { verifC20Trie(3, 9, false) }
func VerifC20Trie3Short() { verifC20Trie(3, 9, true) }
func VerifC20Trie4()      { verifC20Trie(4, 9, false) }

// verifC20Search: Trie.Search with a key generator that rejects some children (as the parser's
// generator does for placeholders whose argument cannot be parsed) still returns exactly the
// values on accepted paths: a rejected sibling must not hide the others.
func verifC20Search(nAliases, nTypes int) {
	p := vNewPool()
	tr := at.New[*token.Token, int](tokenEqual, tokenLess)
	var all [][]*token.Token
	for i := 0; i < nAliases; i++ {
		key := p.vAliasKey(nTypes, true)
		dup := false
		for _, old := range all {
			dup = rt.Or(dup, vKeysEqual(old, key))
		}
		rt.Assume(!dup)
		tr.Insert(key, i+1)
		all = append(all, key)
	}
	// the generator accepts a child unless it is a placeholder of the rejected kind
	rejectRef := rt.Bool("reject_ref")
	rejectList := rt.Bool("reject_list")
	accepted := func(k *token.Token) bool {
		if k.Type != token.ALIAS_PARAMETER {
			return true
		}
		if k.AliasInfo.IsReference == rejectRef {
			return false
		}
		return ddptypes.IsList(k.AliasInfo.Type) != rejectList
	}
	got := tr.Search(func(_ int, child *token.Token) (*token.Token, bool) {
		if !accepted(child) {
			return nil, false
		}
		return child, true
	})
	for i, key := range all {
		want := true
		for _, k := range key {
			want = rt.And(want, accepted(k))
		}
		found := false
		for _, v := range got {
			found = rt.Or(found, v == i+1)
		}
		rt.Assert(found == want, "search returns exactly the aliases on accepted paths")
	}
}

func VerifC20Search2() { verifC20Search(2, 9) }
func VerifC20Search3() { verifC20Search(3, 9) }
