package parser

// Harness for C15 (scoping of an instantiated generic body): names are resolved in the context
// of the declaration first; from the instantiation site only functions and types may be seen,
// never its variables or Konstanten; a type parameter denotes its type argument.

import (
	"github.com/DDP-Projekt/Kompilierer/src/ast"
	"github.com/DDP-Projekt/Kompilierer/src/ddptypes"
	"github.com/DDP-Projekt/Kompilierer/src/token"
	rt "github.com/DDP-Projekt/Kompilierer/src/zzverif/rt"
)

func vC15Decl(kind int, name string) ast.Declaration {
	tok := token.Token{Type: token.IDENTIFIER, Literal: name}
	switch kind {
	case 0:
		return &ast.VarDecl{Type: ddptypes.ZAHL, NameTok: tok}
	case 1:
		return &ast.ConstDecl{Type: ddptypes.ZAHL, NameTok: tok}
	}
	return &ast.FuncDecl{NameTok: tok, ReturnType: ddptypes.ZAHL}
}

func VerifC15GenericScope() {
	context := ast.NewSymbolTable(nil)
	site := ast.NewSymbolTable(nil)
	var ctxDecl, siteDecl ast.Declaration
	ctxName, siteName := string(rt.Bytes("contextName", 1)), string(rt.Bytes("siteName", 1))
	ctxKind, siteKind := rt.Choose("contextKind", 3), rt.Choose("siteKind", 3)
	hasCtx, hasSite := rt.Bool("inContext"), rt.Bool("atSite")
	if hasCtx {
		ctxDecl = vC15Decl(ctxKind, ctxName)
		context.InsertDecl(ctxName, ctxDecl)
	}
	if hasSite {
		siteDecl = vC15Decl(siteKind, siteName)
		site.InsertDecl(siteName, siteDecl)
	}
	table := newGenericSymbolTable(site, context, map[string]ddptypes.Type{"T": ddptypes.TEXT})
	q := string(rt.Bytes("query", 1))
	rt.Assume(q != "T")
	decl, exists, isVar := table.LookupDecl(q)
	inCtx := rt.And(hasCtx, q == ctxName)
	atSite := rt.And(hasSite, q == siteName)
	if inCtx {
		rt.Assert(exists && decl == ctxDecl, "a name of the declaration context is found there first")
		rt.Assert(isVar == (ctxKind != 2), "variables and Konstanten are reported as variable-like")
		return
	}
	if atSite {
		if siteKind == 2 {
			rt.Assert(exists && decl == siteDecl, "a function of the instantiation site can be called from the body")
		} else {
			rt.Assert(!exists, "variables and Konstanten of the instantiation site are not visible in the generic body")
		}
		return
	}
	rt.Assert(!exists, "an undeclared name stays undeclared")
}

// VerifC15GenericTypeScope: type names - the type parameter first, then the declaration
// context, then the instantiation site.
func VerifC15GenericTypeScope() {
	context := ast.NewSymbolTable(nil)
	site := ast.NewSymbolTable(nil)
	mk := func(name string, typ ddptypes.Type) *ast.TypeAliasDecl {
		return &ast.TypeAliasDecl{NameTok: token.Token{Type: token.IDENTIFIER, Literal: name}, Type: &ddptypes.TypeAlias{Name: name, Underlying: typ, GramGender: ddptypes.FEMININ}}
	}
	ctxName, siteName := string(rt.Bytes("contextName", 1)), string(rt.Bytes("siteName", 1))
	hasCtx, hasSite := rt.Bool("inContext"), rt.Bool("atSite")
	var ctxT, siteT *ast.TypeAliasDecl
	if hasCtx {
		ctxT = mk(ctxName, ddptypes.ZAHL)
		context.InsertDecl(ctxName, ctxT)
	}
	if hasSite {
		siteT = mk(siteName, ddptypes.KOMMAZAHL)
		site.InsertDecl(siteName, siteT)
	}
	table := newGenericSymbolTable(site, context, map[string]ddptypes.Type{"T": ddptypes.TEXT})
	q := string(rt.Bytes("query", 1))
	typ, ok := table.LookupType(q)
	switch {
	case q == "T":
		rt.Assert(ok && ddptypes.Equal(typ, ddptypes.TEXT), "the type parameter denotes its type argument")
	case rt.And(hasCtx, q == ctxName):
		rt.Assert(ok && typ == ctxT.Type, "a type name of the declaration context is found there first")
	case rt.And(hasSite, q == siteName):
		rt.Assert(ok && typ == siteT.Type, "otherwise a type of the instantiation site")
	default:
		rt.Assert(!ok, "an undeclared type name stays undeclared")
	}
}
