package parser

// Harness for C15 (scoping of an instantiated generic body): names are resolved in the context
// of the declaration first; from the instantiation site only functions and types may be seen,
// never its variables or Konstanten; a type parameter denotes its type argument.

import (
	"github.com/DDP-Projekt/Kompilierer/src/ast"
	"github.com/DDP-Projekt/Kompilierer/src/ddperror"
	"github.com/DDP-Projekt/Kompilierer/src/ddptypes"
	"github.com/DDP-Projekt/Kompilierer/src/token"
	rt "github.com/DDP-Projekt/Kompilierer/src/zzverif/rt"
)

func vC15Decl(kind int, name string) ast.Declaration {
	tok := token.Token{Type: token.IDENTIFIER, Literal: name}
	switch kind {
	case 0:
		return &ast.VarDecl{Type: ddptypes.ZAHL, NameTok: tok}
	case 1:
		return &ast.ConstDecl{Type: ddptypes.ZAHL, NameTok: tok}
	}
	return &ast.FuncDecl{NameTok: tok, ReturnType: ddptypes.ZAHL}
}

func VerifC15GenericScope() {
	context := ast.NewSymbolTable(nil)
	site := ast.NewSymbolTable(nil)
	var ctxDecl, siteDecl ast.Declaration
	ctxName, siteName := string(rt.Bytes("contextName", 1)), string(rt.Bytes("siteName", 1))
	ctxKind, siteKind := rt.Choose("contextKind", 3), rt.Choose("siteKind", 3)
	hasCtx, hasSite := rt.Bool("inContext"), rt.Bool("atSite")
	if hasCtx {
		ctxDecl = vC15Decl(ctxKind, ctxName)
		context.InsertDecl(ctxName, ctxDecl)
	}
	if hasSite {
		siteDecl = vC15Decl(siteKind, siteName)
		site.InsertDecl(siteName, siteDecl)
	}
	table := newGenericSymbolTable(site, context, map[string]ddptypes.Type{"T": ddptypes.TEXT})
	q := string(rt.Bytes("query", 1))
	rt.Assume(q != "T")
	decl, exists, isVar := table.LookupDecl(q)
	inCtx := rt.And(hasCtx, q == ctxName)
	atSite := rt.And(hasSite, q == siteName)
	if inCtx {
		rt.Assert(exists && decl == ctxDecl, "a name of the declaration context is found there first")
		rt.Assert(isVar == (ctxKind != 2), "variables and Konstanten are reported as variable-like")
		return
	}
	if atSite {
		if siteKind == 2 {
			rt.Assert(exists && decl == siteDecl, "a function of the instantiation site can be called from the body")
		} else {
			rt.Assert(!exists, "variables and Konstanten of the instantiation site are not visible in the generic body")
		}
		return
	}
	rt.Assert(!exists, "an undeclared name stays undeclared")
}

// VerifC15GenericTypeScope: type names - the type parameter first, then the declaration
// context, then the instantiation site.
func VerifC15GenericTypeScope() {
	context := ast.NewSymbolTable(nil)
	site := ast.NewSymbolTable(nil)
	mk := func(name string, typ ddptypes.Type) *ast.TypeAliasDecl {
		return &ast.TypeAliasDecl{NameTok: token.Token{Type: token.IDENTIFIER, Literal: name}, Type: &ddptypes.TypeAlias{Name: name, Underlying: typ, GramGender: ddptypes.FEMININ}}
	}
	ctxName, siteName := string(rt.Bytes("contextName", 1)), string(rt.Bytes("siteName", 1))
	hasCtx, hasSite := rt.Bool("inContext"), rt.Bool("atSite")
	var ctxT, siteT *ast.TypeAliasDecl
	if hasCtx {
		ctxT = mk(ctxName, ddptypes.ZAHL)
		context.InsertDecl(ctxName, ctxT)
	}
	if hasSite {
		siteT = mk(siteName, ddptypes.KOMMAZAHL)
		site.InsertDecl(siteName, siteT)
	}
	table := newGenericSymbolTable(site, context, map[string]ddptypes.Type{"T": ddptypes.TEXT})
	q := string(rt.Bytes("query", 1))
	typ, ok := table.LookupType(q)
	switch {
	case q == "T":
		rt.Assert(ok && ddptypes.Equal(typ, ddptypes.TEXT), "the type parameter denotes its type argument")
	case rt.And(hasCtx, q == ctxName):
		rt.Assert(ok && typ == ctxT.Type, "a type name of the declaration context is found there first")
	case rt.And(hasSite, q == siteName):
		rt.Assert(ok && typ == siteT.Type, "otherwise a type of the instantiation site")
	default:
		rt.Assert(!ok, "an undeclared type name stays undeclared")
	}
}

// VerifC15VerdictAgrees: a program that calls a generic function is accepted exactly when the
// program with the textually specialised function is accepted (whole frontend on both; body
// shape and type argument chosen by symbolic selectors).
func VerifC15VerdictAgrees() {
	types := []struct{ name, ret, article, value string }{
		{"Zahl", "eine Zahl", "Die", "2"},
		{"Kommazahl", "eine Kommazahl", "Die", "2,5"},
		{"Text", "einen Text", "Der", "\"s\""},
		{"Wahrheitswert", "einen Wahrheitswert", "Der", "wahr"},
		{"Zahlen Liste", "eine Zahlen Liste", "Die", "zl"},
	}
	t := types[rt.Choose("typeArgument", len(types))]
	var body string
	switch rt.Choose("body", 8) {
	case 0:
		body = "\tGib g zurück.\n"
	case 1:
		body = "\t...\n"
	case 2:
		body = "\tWenn a gleich 0 ist, dann:\n\t\tGib g zurück.\n"
	case 3:
		body = "\tDie Zahl q ist g plus 1.\n\tGib g zurück.\n"
	case 4:
		body = "\tGib g verkettet mit g zurück.\n"
	case 5:
		body = "\tDie Variable v ist g.\n\tGib g zurück.\n"
	case 6:
		body = "\tWenn a gleich 0 ist, dann:\n\t\t...\n\tGib g zurück.\n"
	case 7:
		body = "\tWenn g gleich g ist, dann:\n\t\tGib g zurück.\n\t...\n"
	}
	tail := "Und kann so benutzt werden:\n\t\"f <a> <g>\"\n\nDie Zahlen Liste zl ist eine Liste, die aus 1, 2 besteht.\n" + t.article + " " + t.name + " r ist f 1 " + t.value + ".\n"
	generic := "Die generische Funktion f mit den Parametern a und g vom Typ Zahl und T, gibt ein T zurück, macht:\n" + body + tail
	special := "Die Funktion f mit den Parametern a und g vom Typ Zahl und " + t.name + ", gibt " + t.ret + " zurück, macht:\n" + body + tail
	count := func(src string) (int, bool) {
		errors := 0
		mod, err := Parse(Options{FileName: "x.ddp", Source: []byte(src), ErrorHandler: func(e ddperror.Error) {
			if e.Level == ddperror.LEVEL_ERROR {
				errors++
			}
		}})
		return errors, err == nil && mod != nil && mod.Ast != nil
	}
	eg, okg := count(generic)
	es, oks := count(special)
	rt.Assert(okg && oks, "the frontend returns a module")
	rt.Assert((eg > 0) == (es > 0), "a call of a generic function is accepted exactly when the call of its specialisation is")
}
