package parser

// Harness for C09 (unit level): the ordering of alias candidates and of the operator overload
// table. Reference flags and generic-ness of the parameters are symbolic, so the comparator's
// outcomes are decided by the solver.

import (
	"github.com/DDP-Projekt/Kompilierer/src/ast"
	"github.com/DDP-Projekt/Kompilierer/src/ddperror"
	"github.com/DDP-Projekt/Kompilierer/src/ddptypes"
	"github.com/DDP-Projekt/Kompilierer/src/token"
	rt "github.com/DDP-Projekt/Kompilierer/src/zzverif/rt"
)

var vC09Names = []string{"f0", "f1", "f2", "f3", "f4"}

// vC09ParamType: Zahl, the type parameter T, or a list of T (generic as well)
func vC09ParamType(tag string) (ddptypes.ParameterType, bool) {
	var typ ddptypes.Type = ddptypes.ZAHL
	generic := false
	switch rt.Choose(tag+"type", 3) {
	case 1:
		typ, generic = ddptypes.GenericType{Name: "T"}, true
	case 2:
		typ, generic = ddptypes.ListType{ElementType: ddptypes.GenericType{Name: "T"}}, true
	}
	return ddptypes.ParameterType{Type: typ, IsReference: rt.Bool(tag + "reference")}, generic
}

func vB2I(b bool) int { return rt.B2I(b) }

// vC09SortAliases: n matched aliases with 1..3 tokens and two parameters each.
func vC09SortAliases(n int) {
	aliases := make([]ast.Alias, n)
	lens, refs, gens := make([]int, n), make([]int, n), make([]int, n)
	for i := 0; i < n; i++ {
		lens[i] = rt.Choose("tokens", 3) + 1
		pa, ga := vC09ParamType("a")
		pb, gb := ddptypes.ParameterType{Type: ddptypes.ZAHL, IsReference: rt.Bool("breference")}, false
		refs[i] = vB2I(pa.IsReference) + vB2I(pb.IsReference)
		gens[i] = vB2I(ga) + vB2I(gb)
		aliases[i] = &ast.FuncAlias{
			Tokens: make([]token.Token, lens[i]),
			Func:   &ast.FuncDecl{NameTok: token.Token{Type: token.IDENTIFIER, Literal: vC09Names[i]}},
			Args:   map[string]ddptypes.ParameterType{"a": pa, "b": pb},
		}
	}
	sortAliases(aliases)
	index := func(a ast.Alias) int {
		name := a.(*ast.FuncAlias).Func.Name()
		for i := 0; i < n; i++ {
			if vC09Names[i] == name {
				return i
			}
		}
		return -1
	}
	seen := make([]bool, n)
	for k := 0; k < n; k++ {
		i := index(aliases[k])
		rt.Assert(i >= 0 && !seen[i], "the candidates are permuted, none lost or duplicated")
		if i < 0 {
			return
		}
		seen[i] = true
		if k+1 < n {
			j := index(aliases[k+1])
			// what the property fixes: longer first; at equal length a non-generic candidate before a
			// generic one; among the non-generic ones of equal length more Referenz parameters first
			longer := lens[i] > lens[j]
			sameLen := lens[i] == lens[j]
			gi, gj := gens[i] > 0, gens[j] > 0
			ordered := rt.Or(longer, rt.And(sameLen, rt.Or(rt.And(!gi, gj), rt.Or(rt.And(gi, gj), rt.And(rt.And(!gi, !gj), refs[i] >= refs[j])))))
			rt.Assert(ordered, "candidates are tried longest first, non-generic before generic, and among non-generic ones more Referenz parameters first")
		}
	}
}

func VerifC09SortAliases2() { vC09SortAliases(2) }
func VerifC09SortAliases3() { vC09SortAliases(3) }
func VerifC09SortAliases4() { vC09SortAliases(4) }

// vC09OverloadTable: n overloads of one operator are registered in a symbolic order; an overload
// with the same parameter types as an accepted one is refused, every other one is kept.
func vC09OverloadTable(n int) {
	var d vDiag
	p := newParser("x.ddp", []token.Token{{Type: token.EOF}}, nil, d.handler)
	types := []ddptypes.Type{ddptypes.ZAHL, ddptypes.TEXT}
	var accepted []*ast.FuncDecl
	for i := 0; i < n; i++ {
		decl := &ast.FuncDecl{NameTok: token.Token{Type: token.IDENTIFIER, Literal: vC09Names[i]}, Operator: ast.BIN_MULT, ReturnType: ddptypes.ZAHL}
		for k, pn := range []string{"a", "b"} {
			var typ ddptypes.Type = ddptypes.ZAHL
			if k == 0 {
				typ = types[rt.Choose("type", 2)]
				if rt.Bool("generic") {
					typ = ddptypes.GenericType{Name: "T"}
				}
			}
			decl.Parameters = append(decl.Parameters, ast.ParameterInfo{Name: token.Token{Type: token.IDENTIFIER, Literal: pn},
				Type: ddptypes.ParameterType{Type: typ, IsReference: rt.Bool("reference")}})
		}
		dup := false
		for _, o := range accepted {
			same := true
			for k := range o.Parameters {
				a, b := o.Parameters[k].Type, decl.Parameters[k].Type
				ga, gb := ddptypes.IsGeneric(a.Type), ddptypes.IsGeneric(b.Type)
				if ga || gb {
					same = same && ga && gb && a.IsReference == b.IsReference
				} else {
					same = same && a.IsReference == b.IsReference && ddptypes.Equal(a.Type, b.Type)
				}
			}
			dup = dup || same
		}
		before := d.errors
		p.panicMode = false
		p.insertOperatorOverload(decl)
		rt.Assert(dup == (d.errors > before), "an overload for already overloaded parameter types is reported, any other is accepted")
		if !dup {
			accepted = append(accepted, decl)
		}
	}
	table := p.Operators[ast.BIN_MULT]
	rt.Assert(len(table) == len(accepted), "the table holds exactly the accepted overloads")
}

func VerifC09OverloadTable2() { vC09OverloadTable(2) }
func VerifC09OverloadTable3() { vC09OverloadTable(3) }

var _ = ddperror.LEVEL_ERROR
