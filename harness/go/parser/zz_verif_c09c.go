package parser

// Harness for C09 and C20: an earlier instantiation of a generic function has no influence on a
// later one. The same program is checked twice - with and without an earlier use of the generic
// functions (another type argument) in front of a declaration that introduces a new alias - and
// the later instantiation has to be accepted alike and to resolve the calls in its body alike:
// to the longest type-matching alias visible at the point of instantiation, including aliases
// declared after the first instantiation.

import (
	"github.com/DDP-Projekt/Kompilierer/src/ast"
	"github.com/DDP-Projekt/Kompilierer/src/ddperror"
	rt "github.com/DDP-Projekt/Kompilierer/src/zzverif/rt"
)

const vC09cBase = "Die Funktion wert_von mit dem Parameter z vom Typ Zahl, gibt eine Zahl zurück, macht:\n\tGib z zurück.\nUnd kann so benutzt werden:\n\t\"wert <z>\"\n\n" +
	"Die Funktion bz mit dem Parameter z vom Typ Zahl, gibt eine Zahl zurück, macht:\n\tGib 1 zurück.\nUnd kann so benutzt werden:\n\t\"beschreibe <z>\"\n\n" +
	"Die generische Funktion nimm mit dem Parameter x vom Typ T, gibt eine Zahl zurück, macht:\n\tGib 0 zurück.\nUnd kann so benutzt werden:\n\t\"nimm <x>\"\n\n" +
	"Die generische Funktion rechne mit den Parametern a und z vom Typ T und Zahl, gibt eine Zahl zurück, macht:\n\tGib nimm (wert z plus 1) zurück.\nUnd kann so benutzt werden:\n\t\"rechne <a> mit <z>\"\n\n" +
	"Die generische Funktion zeige mit dem Parameter a vom Typ T, gibt eine Zahl zurück, macht:\n\tGib beschreibe a zurück.\nUnd kann so benutzt werden:\n\t\"zeige <a>\"\n\n"

var vC09cFirst = []string{
	"Die Zahl r1 ist rechne 1,5 mit 2.\n",
	"Die Zahl r1 ist zeige 1.\n",
	"Die Zahl r1 ist rechne 1,5 mit 2.\nDie Zahl r0 ist zeige 1.\n",
}

var vC09cDecl = []string{
	"Wir nennen die Kombination aus\n\tder Zahl xw mit Standardwert 0,\n\tder Zahl yw mit Standardwert 0,\nein Paar, und erstellen sie so:\n\t\"wert <xw> plus <yw>\"\n\n",
	"Die Funktion bt mit dem Parameter t vom Typ Text, gibt eine Zahl zurück, macht:\n\tGib 2 zurück.\nUnd kann so benutzt werden:\n\t\"beschreibe <t>\"\n\n",
	"Die Funktion bk mit dem Parameter k vom Typ Kommazahl, gibt eine Zahl zurück, macht:\n\tGib 3 zurück.\nUnd kann so benutzt werden:\n\t\"beschreibe <k>\"\n\nDie Funktion wert_lang mit den Parametern p und q vom Typ Zahl und Zahl, gibt eine Zahl zurück, macht:\n\tGib p zurück.\nUnd kann so benutzt werden:\n\t\"wert <p> plus <q>\"\n\n",
}

var vC09cSecond = []string{
	"Die Zahl r2 ist rechne 'x' mit 2.\n",
	"Die Zahl r2 ist zeige \"t\".\n",
	"Die Zahl r2 ist zeige 2,5.\n",
	"Die Zahl r2 ist nimm (wert 2 plus 1).\n",
}

func vC09cDescribe(expr ast.Expression, depth int) string {
	if depth > 6 {
		return "..."
	}
	switch e := expr.(type) {
	case nil:
		return "<nil>"
	case *ast.Grouping:
		return vC09cDescribe(e.Expr, depth+1)
	case *ast.FuncCall:
		args := ""
		for _, name := range ast.ArgNamesInSourceOrder(e.Args) {
			args += name + "=" + vC09cDescribe(e.Args[name], depth+1) + ";"
		}
		result := e.Name + "(" + args + ")"
		if e.Func != nil && e.Func.GenericInstantiation != nil && e.Func.Body != nil && len(e.Func.Body.Statements) > 0 {
			if ret, ok := e.Func.Body.Statements[len(e.Func.Body.Statements)-1].(*ast.ReturnStmt); ok {
				result += "{" + vC09cDescribe(ret.Value, depth+1) + "}"
			}
		}
		return result
	case *ast.StructLiteral:
		return "neu:" + e.Struct.Name()
	case *ast.BinaryExpr:
		return "[" + vC09cDescribe(e.Lhs, depth+1) + " " + e.Operator.String() + " " + vC09cDescribe(e.Rhs, depth+1) + "]"
	case *ast.Ident:
		return e.Literal.Literal
	case *ast.IntLit, *ast.FloatLit, *ast.CharLit, *ast.StringLit, *ast.BoolLit:
		return "lit"
	}
	return "?"
}

// vC09cRun parses src and describes the initialiser of r2.
func vC09cRun(src string) (errors int, desc string, ok bool) {
	mod, err := Parse(Options{FileName: "x.ddp", Source: []byte(src), ErrorHandler: func(e ddperror.Error) {
		if e.Level == ddperror.LEVEL_ERROR {
			errors++
		}
	}})
	if err != nil || mod == nil || mod.Ast == nil {
		return errors, "", false
	}
	for _, stmt := range mod.Ast.Statements {
		if ds, isDecl := stmt.(*ast.DeclStmt); isDecl {
			if vd, isVar := ds.Decl.(*ast.VarDecl); isVar && vd.Name() == "r2" {
				desc = vC09cDescribe(vd.InitVal, 0)
			}
		}
	}
	return errors, desc, true
}

func VerifC09InstantiationOrder() {
	first := vC09cFirst[rt.Choose("first", len(vC09cFirst))]
	decl := vC09cDecl[rt.Choose("decl", len(vC09cDecl))]
	second := vC09cSecond[rt.Choose("second", len(vC09cSecond))]
	e1, d1, ok1 := vC09cRun(vC09cBase + first + decl + second)
	e2, d2, ok2 := vC09cRun(vC09cBase + decl + second)
	rt.Assert(ok1 && ok2, "the frontend returns a module")
	if !ok1 || !ok2 {
		return
	}
	rt.Assert((e1 == 0) == (e2 == 0), "a later instantiation is accepted alike with and without an earlier instantiation: a declared alias stays callable inside generic bodies")
	if e1 == 0 && e2 == 0 {
		rt.Assert(d1 == d2, "a later instantiation resolves the calls in its body alike with and without an earlier instantiation: the longest type-matching alias")
	}
}
