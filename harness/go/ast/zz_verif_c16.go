package ast

// Harness for C16 (repeatable compilation): whatever order the Go runtime picks for map
// iteration, imported declarations and imported modules are delivered in the same order.
// Under GoSE every range over a map follows a symbolic permutation (rt.MapOrder); natively the
// comparison of two runs is repeated (rt.Reps) so that differing orders are met.

import (
	"github.com/DDP-Projekt/Kompilierer/src/token"
	rt "github.com/DDP-Projekt/Kompilierer/src/zzverif/rt"
)

var vC16Names = []string{"d0", "d1", "d2", "d3"}

// vC16Decls: n public declarations at symbolic, pairwise different positions (lines and columns 1..3).
func vC16Decls(n int) {
	mod := &Module{FileName: "m.ddp", PublicDecls: map[string]Declaration{}}
	lines, cols := make([]uint, n), make([]uint, n)
	for i := 0; i < n; i++ {
		lines[i], cols[i] = rt.Uint("line"), rt.Uint("column")
		rt.Assume(rt.And(rt.And(lines[i] >= 1, lines[i] <= 3), rt.And(cols[i] >= 1, cols[i] <= 3)))
		for j := 0; j < i; j++ {
			rt.Assume(rt.Or(lines[i] != lines[j], cols[i] != cols[j]))
		}
		pos := token.Position{Line: lines[i], Column: cols[i]}
		mod.PublicDecls[vC16Names[i]] = &VarDecl{
			Range:    token.Range{Start: pos, End: pos},
			NameTok:  token.Token{Type: token.IDENTIFIER, Literal: vC16Names[i]},
			IsPublic: true, Mod: mod,
		}
	}
	imp := &ImportStmt{Modules: []*Module{mod}}
	rt.MapOrder("decls")
	for rep := 0; rep < rt.Reps(400); rep++ {
		var runs [2][]string
		for r := 0; r < 2; r++ {
			IterateImportedDecls(imp, func(name string, d Declaration, _ token.Token) bool {
				runs[r] = append(runs[r], name)
				return true
			})
		}
		rt.Assert(len(runs[0]) == n && len(runs[1]) == n, "every public declaration is delivered once")
		if len(runs[0]) != n || len(runs[1]) != n {
			return
		}
		same := true
		for k := 0; k < n; k++ {
			same = rt.And(same, runs[0][k] == runs[1][k])
		}
		rt.Assert(same, "imported declarations arrive in the same order whatever the map iteration order")
	}
}

func VerifC16Decls2() { vC16Decls(2) }
func VerifC16Decls3() { vC16Decls(3) }
func VerifC16Decls4() { vC16Decls(4) }

// VerifC16ModuleWalk: four modules with a symbolic acyclic import relation (an edge i -> j only
// for i < j, any subset, in either listing order): every module reachable from the root is
// visited exactly once, in the same sequence on every run. (That the sequence puts imports first
// is C10's matter and is decided there on compiled programs.)
func VerifC16ModuleWalk() {
	const n = 4
	mods := make([]*Module, n)
	for i := range mods {
		mods[i] = &Module{FileName: vC16Names[i]}
	}
	edge := [n][n]bool{}
	for i := 0; i < n; i++ {
		// the imports of module i, listed ascending or descending
		desc := rt.Bool("descending")
		for k := i + 1; k < n; k++ {
			j := k
			if desc {
				j = n - 1 - (k - i - 1)
			}
			if rt.Bool("edge") {
				edge[i][j] = true
				mods[i].Imports = append(mods[i].Imports, &ImportStmt{Modules: []*Module{mods[j]}})
			}
		}
	}
	rt.MapOrder("walk")
	for rep := 0; rep < rt.Reps(100); rep++ {
		var runs [2][]int
		for r := 0; r < 2; r++ {
			IterateModuleImports(mods[0], func(m *Module) {
				for i := range mods {
					if mods[i] == m {
						runs[r] = append(runs[r], i)
					}
				}
			})
		}
		rt.Assert(len(runs[0]) == len(runs[1]), "the walk visits the same modules on every run")
		if len(runs[0]) != len(runs[1]) {
			return
		}
		for k := range runs[0] {
			rt.Assert(runs[0][k] == runs[1][k], "imported modules are visited in the same order whatever the map iteration order")
		}
		seenAt := [n]int{-1, -1, -1, -1}
		for k, m := range runs[0] {
			rt.Assert(seenAt[m] == -1, "a module is visited once")
			seenAt[m] = k
		}
		rt.Assert(seenAt[0] >= 0, "the root module is visited")
		for i := 0; i < n; i++ {
			for j := 0; j < n; j++ {
				if edge[i][j] && seenAt[i] >= 0 {
					rt.Assert(seenAt[j] >= 0, "every imported module is visited")
				}
			}
		}
	}
}
