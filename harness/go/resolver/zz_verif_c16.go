package resolver

// Harness for C16: the diagnostics for the arguments of a call or a Kombination literal do not
// depend on the iteration order of the argument map.

import (
	"github.com/DDP-Projekt/Kompilierer/src/ast"
	"github.com/DDP-Projekt/Kompilierer/src/ddperror"
	"github.com/DDP-Projekt/Kompilierer/src/ddptypes"
	"github.com/DDP-Projekt/Kompilierer/src/token"
	rt "github.com/DDP-Projekt/Kompilierer/src/zzverif/rt"
)

type vDiag struct {
	code ddperror.Code
	line uint
}

var vC16Params = []string{"p0", "p1", "p2"}

func vC16Run(declared [3]bool, structLit bool) []vDiag {
	var diags []vDiag
	mod := &ast.Module{FileName: "x.ddp", Ast: &ast.Ast{Symbols: ast.NewSymbolTable(nil)}, PublicDecls: map[string]ast.Declaration{}}
	panicMode := false
	r := New(mod, ast.OperatorOverloadMap{}, func(e ddperror.Error) {
		diags = append(diags, vDiag{code: e.Code, line: e.Range.Start.Line})
	}, &panicMode)
	args := map[string]ast.Expression{}
	for i, p := range vC16Params {
		name := "v" + p
		pos := token.Position{Line: uint(i + 1), Column: 1}
		tok := token.Token{Type: token.IDENTIFIER, Literal: name, Range: token.Range{Start: pos, End: pos}}
		if declared[i] {
			mod.Ast.Symbols.InsertDecl(name, &ast.VarDecl{Type: ddptypes.ZAHL, NameTok: tok, Mod: mod})
		}
		args[p] = &ast.Ident{Literal: tok}
	}
	if structLit {
		r.VisitStructLiteral(&ast.StructLiteral{Args: args})
	} else {
		r.VisitFuncCall(&ast.FuncCall{Name: "f", Args: args})
	}
	return diags
}

func VerifC16ResolveArgs() {
	var declared [3]bool
	for i := range declared {
		declared[i] = rt.Bool("declared")
	}
	structLit := rt.Bool("literal")
	rt.MapOrder("args")
	for rep := 0; rep < rt.Reps(400); rep++ {
		a := vC16Run(declared, structLit)
		b := vC16Run(declared, structLit)
		rt.Assert(len(a) == len(b), "the same number of diagnostics on every run")
		if len(a) != len(b) {
			return
		}
		for k := range a {
			rt.Assert(a[k].code == b[k].code && a[k].line == b[k].line, "the same diagnostics in the same order whatever the iteration order of the argument map")
		}
	}
}
