package resolver

// Harness for C04 (names and scopes): use of an undeclared name, redeclaration in one scope and
// assignment to a Konstante are reported; a lookup finds the innermost declaration.

import (
	"github.com/DDP-Projekt/Kompilierer/src/ast"
	"github.com/DDP-Projekt/Kompilierer/src/ddperror"
	"github.com/DDP-Projekt/Kompilierer/src/ddptypes"
	"github.com/DDP-Projekt/Kompilierer/src/token"
	rt "github.com/DDP-Projekt/Kompilierer/src/zzverif/rt"
)

type vDecl struct {
	scope  int
	name   string
	kind   int // 0 variable, 1 Konstante, 2 function
	decl   ast.Declaration
	public bool
}

func verifC04Scopes(nDecls int) {
	mod := &ast.Module{FileName: "x.ddp", Ast: &ast.Ast{Symbols: ast.NewSymbolTable(nil)}, PublicDecls: map[string]ast.Declaration{}}
	errors := 0
	panicMode := false
	r := New(mod, ast.OperatorOverloadMap{}, func(e ddperror.Error) {
		if e.Level == ddperror.LEVEL_ERROR {
			errors++
		}
	}, &panicMode)
	scopes := []ast.SymbolTable{mod.Ast.Symbols}
	scopes = append(scopes, ast.NewSymbolTable(scopes[0]))
	scopes = append(scopes, ast.NewSymbolTable(scopes[1]))
	var live []vDecl     // declarations that are in force (first of their name in their scope)
	var publics []string // names of public global declarations
	for i := 0; i < nDecls; i++ {
		sc := rt.Choose("scope", 3)
		name := string(rt.Bytes("name", 1))
		kind := rt.Choose("kind", 3)
		public := false
		if kind != 2 {
			public = rt.Bool("public")
		}
		tok := token.Token{Type: token.IDENTIFIER, Literal: name}
		r.CurrentTable = scopes[sc]
		before := errors
		panicMode = false
		var d ast.Declaration
		switch kind {
		case 0:
			vd := &ast.VarDecl{Type: ddptypes.ZAHL, NameTok: tok, Mod: mod, IsPublic: public, IsGlobal: sc == 0, InitVal: &ast.IntLit{Literal: token.Token{Type: token.INT, Literal: "1"}, Value: 1}}
			r.VisitVarDecl(vd)
			d = vd
		case 1:
			cd := &ast.ConstDecl{Type: ddptypes.ZAHL, NameTok: tok, Mod: mod, IsPublic: public, Val: &ast.IntLit{Literal: token.Token{Type: token.INT, Literal: "1"}, Value: 1}}
			r.VisitConstDecl(cd)
			d = cd
		default:
			fd := &ast.FuncDecl{NameTok: tok, Mod: mod, ReturnType: ddptypes.VoidType{}}
			// functions are entered by the parser; the table treats them like any other name
			if existed := scopes[sc].InsertDecl(name, fd); existed {
				errors++
			}
			d = fd
		}
		dup := false
		for _, l := range live {
			if l.scope == sc {
				dup = rt.Or(dup, l.name == name)
			}
		}
		badPublic := public && sc != 0
		rt.Assert(rt.Implies(dup, errors > before), "a second declaration of a name in one scope is reported")
		rt.Assert(rt.Implies(badPublic, errors > before), "a public declaration outside the global scope is reported")
		rt.Assert(rt.Implies(rt.And(!dup, !badPublic), errors == before), "a first declaration of a name in a scope is accepted")
		if !dup {
			live = append(live, vDecl{scope: sc, name: name, kind: kind, decl: d})
		}
		if public && sc == 0 {
			// a duplicate is reported, the program is refused; which of the two is exported is not judged
			publics = append(publics, name)
		}
	}
	// exactly the public global declarations are exported
	q := string(rt.Bytes("query", 1))
	_, exported := mod.PublicDecls[q]
	isPublicName := false
	for _, p := range publics {
		isPublicName = rt.Or(isPublicName, p == q)
	}
	rt.Assert(rt.Implies(exported, isPublicName), "only public global declarations are exported by the module")
	rt.Assert(rt.Implies(isPublicName, exported), "every public global declaration is exported by the module")
	// use of a name from the innermost scope
	var want *vDecl
	for i := range live {
		if live[i].name == q {
			if want == nil || live[i].scope > want.scope {
				want = &live[i]
			}
		}
	}
	r.CurrentTable = scopes[2]
	panicMode = false
	before := errors
	mod.Ast.Faulty = false
	id := &ast.Ident{Literal: token.Token{Type: token.IDENTIFIER, Literal: q}}
	if rt.Bool("assign") {
		r.VisitAssignStmt(&ast.AssignStmt{Var: id, Rhs: &ast.IntLit{Literal: token.Token{Type: token.INT, Literal: "1"}, Value: 1}})
		switch {
		case want == nil:
			rt.Assert(errors > before && mod.Ast.Faulty, "assignment to an undeclared name is reported")
		case want.kind == 1:
			rt.Assert(errors > before && mod.Ast.Faulty, "assignment to a Konstante is reported")
		case want.kind == 2:
			rt.Assert(errors > before && mod.Ast.Faulty, "assignment to a function name is reported")
		default:
			rt.Assert(errors == before, "assignment to a declared variable is accepted")
			rt.Assert(id.Declaration == want.decl, "the innermost declaration is assigned")
		}
		return
	}
	r.VisitIdent(id)
	switch {
	case want == nil:
		rt.Assert(errors > before && mod.Ast.Faulty, "use of an undeclared name is reported")
	case want.kind == 2:
		rt.Assert(errors > before && mod.Ast.Faulty, "use of a function name as a variable is reported")
	default:
		rt.Assert(errors == before, "use of a declared name is accepted")
		rt.Assert(id.Declaration == want.decl, "a lookup finds the innermost declaration")
	}
}

func VerifC04Scopes2() { verifC04Scopes(2) }
func VerifC04Scopes3() { verifC04Scopes(3) }
func VerifC04Scopes4() { verifC04Scopes(4) }
