package compiler

// vC02Verify: the typing and structure rules that LLVM's verifier enforces on the instructions
// the IR generator uses, checked on the in-memory module (github.com/llir/llvm/ir) the generator
// built. It returns "" or the first broken rule. Every rule is one of LLVM 14's Verifier.cpp;
// an alarm is raised only after llvm-as has rejected the printed module in the native replay.

import (
	"strconv"

	"github.com/llir/llvm/ir"
	"github.com/llir/llvm/ir/constant"
	"github.com/llir/llvm/ir/types"
	"github.com/llir/llvm/ir/value"
)

func vC02IsInt(t types.Type) (*types.IntType, bool) {
	it, ok := t.(*types.IntType)
	return it, ok
}

func vC02IsFloat(t types.Type) bool {
	_, ok := t.(*types.FloatType)
	return ok
}

func vC02IsPtr(t types.Type) (*types.PointerType, bool) {
	pt, ok := t.(*types.PointerType)
	return pt, ok
}

func vC02Verify(m *ir.Module) (msg string) {
	defer func() {
		if r := recover(); r != nil {
			msg = "a type of the module cannot be computed (malformed getelementptr, call or load)"
		}
	}()
	for _, f := range m.Funcs {
		if len(f.Blocks) == 0 {
			continue
		}
		if s := vC02VerifyFunc(f); s != "" {
			return s
		}
	}
	return ""
}

var vC02FP func(f *ir.Func)

func vC02VerifyFunc(f *ir.Func) string {
	if vC02FP != nil {
		vC02FP(f)
	}
	indexOf := func(b *ir.Block) (int, bool) {
		for i, x := range f.Blocks {
			if x == b {
				return i, true
			}
		}
		return 0, false
	}
	n := len(f.Blocks)
	succs := make([][]int, n)
	preds := make([][]int, n)
	for i, b := range f.Blocks {
		if b.Term == nil {
			return "a basic block has no terminator"
		}
		var targets []value.Value
		switch t := b.Term.(type) {
		case *ir.TermRet:
			if t.X == nil {
				if !types.Equal(f.Sig.RetType, types.Void) {
					return "ret void in a function that returns a value"
				}
			} else if !types.Equal(t.X.Type(), f.Sig.RetType) {
				return "the type of a returned value differs from the function's return type"
			}
		case *ir.TermBr:
			targets = []value.Value{t.Target}
		case *ir.TermCondBr:
			it, ok := vC02IsInt(t.Cond.Type())
			if !ok || it.BitSize != 1 {
				return "the condition of a branch is not an i1"
			}
			targets = []value.Value{t.TargetTrue, t.TargetFalse}
		case *ir.TermUnreachable:
		default:
			return "an unexpected terminator"
		}
		for _, tv := range targets {
			tb, ok := tv.(*ir.Block)
			if !ok {
				return "a branch target is no basic block"
			}
			j, ok := indexOf(tb)
			if !ok {
				return "a branch leaves its function"
			}
			if j == 0 {
				return "a branch to the entry block"
			}
			succs[i] = append(succs[i], j)
			dup := false
			for _, p := range preds[j] {
				if p == i {
					dup = true
				}
			}
			if !dup {
				preds[j] = append(preds[j], i)
			}
		}
	}
	// where every instruction result is defined
	var defVals []value.Value
	var defBlocks, defPoss []int
	for i, b := range f.Blocks {
		for k, inst := range b.Insts {
			if v, ok := inst.(value.Value); ok {
				defVals = append(defVals, v)
				defBlocks = append(defBlocks, i)
				defPoss = append(defPoss, k)
			}
		}
	}
	// dominates(d, b): b cannot be reached from the entry block without passing d (a block that
	// cannot be reached at all is dominated by every block)
	domMemo := make([]int, n*n) // 0 unknown, 1 yes, 2 no
	dominates := func(d, b int) bool {
		if d == b || d == 0 {
			return true
		}
		if m := domMemo[d*n+b]; m != 0 {
			return m == 1
		}
		seen := make([]bool, n)
		stack := []int{0}
		seen[0] = true
		reached := false
		for len(stack) > 0 && !reached {
			cur := stack[len(stack)-1]
			stack = stack[:len(stack)-1]
			for _, nx := range succs[cur] {
				if nx == d || seen[nx] {
					continue
				}
				if nx == b {
					reached = true
					break
				}
				seen[nx] = true
				stack = append(stack, nx)
			}
		}
		if reached {
			domMemo[d*n+b] = 2
		} else {
			domMemo[d*n+b] = 1
		}
		return !reached
	}
	use := func(v value.Value, blk, pos int) string {
		if v == nil {
			return "a missing operand"
		}
		db, dp, ok := 0, 0, false
		for q := range defVals {
			if defVals[q] == v {
				db, dp, ok = defBlocks[q], defPoss[q], true
				break
			}
		}
		if !ok {
			if p, isParam := v.(*ir.Param); isParam {
				for _, q := range f.Params {
					if q == p {
						return ""
					}
				}
				return "a parameter of another function is used"
			}
			return "" // constant, global, function
		}
		if db == blk {
			if dp < pos {
				return ""
			}
			return "an instruction is used before it is defined in its block"
		}
		if !dominates(db, blk) {
			return "an instruction does not dominate all its uses" + vC02Where(f, db, dp, blk, pos)
		}
		return ""
	}
	for i, b := range f.Blocks {
		phisDone := false
		for k, inst := range b.Insts {
			if _, isPhi := inst.(*ir.InstPhi); isPhi {
				if phisDone {
					return "a phi node is not at the top of its block"
				}
			} else if _, isVal := inst.(value.Value); isVal {
				phisDone = true
			} else if _, isStore := inst.(*ir.InstStore); isStore {
				phisDone = true
			}
			var ops []value.Value
			switch x := inst.(type) {
			case *ir.InstAdd:
				ops = []value.Value{x.X, x.Y}
				if s := vC02IntBin(x.X, x.Y); s != "" {
					return "add: " + s
				}
			case *ir.InstSub:
				ops = []value.Value{x.X, x.Y}
				if s := vC02IntBin(x.X, x.Y); s != "" {
					return "sub: " + s
				}
			case *ir.InstMul:
				ops = []value.Value{x.X, x.Y}
				if s := vC02IntBin(x.X, x.Y); s != "" {
					return "mul: " + s
				}
			case *ir.InstSDiv:
				ops = []value.Value{x.X, x.Y}
				if s := vC02IntBin(x.X, x.Y); s != "" {
					return "sdiv: " + s
				}
			case *ir.InstUDiv:
				ops = []value.Value{x.X, x.Y}
				if s := vC02IntBin(x.X, x.Y); s != "" {
					return "udiv: " + s
				}
			case *ir.InstSRem:
				ops = []value.Value{x.X, x.Y}
				if s := vC02IntBin(x.X, x.Y); s != "" {
					return "srem: " + s
				}
			case *ir.InstURem:
				ops = []value.Value{x.X, x.Y}
				if s := vC02IntBin(x.X, x.Y); s != "" {
					return "urem: " + s
				}
			case *ir.InstAnd:
				ops = []value.Value{x.X, x.Y}
				if s := vC02IntBin(x.X, x.Y); s != "" {
					return "and: " + s
				}
			case *ir.InstOr:
				ops = []value.Value{x.X, x.Y}
				if s := vC02IntBin(x.X, x.Y); s != "" {
					return "or: " + s
				}
			case *ir.InstXor:
				ops = []value.Value{x.X, x.Y}
				if s := vC02IntBin(x.X, x.Y); s != "" {
					return "xor: " + s
				}
			case *ir.InstShl:
				ops = []value.Value{x.X, x.Y}
				if s := vC02IntBin(x.X, x.Y); s != "" {
					return "shl: " + s
				}
			case *ir.InstLShr:
				ops = []value.Value{x.X, x.Y}
				if s := vC02IntBin(x.X, x.Y); s != "" {
					return "lshr: " + s
				}
			case *ir.InstAShr:
				ops = []value.Value{x.X, x.Y}
				if s := vC02IntBin(x.X, x.Y); s != "" {
					return "ashr: " + s
				}
			case *ir.InstFAdd:
				ops = []value.Value{x.X, x.Y}
				if s := vC02FloatBin(x.X, x.Y); s != "" {
					return "fadd: " + s
				}
			case *ir.InstFSub:
				ops = []value.Value{x.X, x.Y}
				if s := vC02FloatBin(x.X, x.Y); s != "" {
					return "fsub: " + s
				}
			case *ir.InstFMul:
				ops = []value.Value{x.X, x.Y}
				if s := vC02FloatBin(x.X, x.Y); s != "" {
					return "fmul: " + s
				}
			case *ir.InstFDiv:
				ops = []value.Value{x.X, x.Y}
				if s := vC02FloatBin(x.X, x.Y); s != "" {
					return "fdiv: " + s
				}
			case *ir.InstFRem:
				ops = []value.Value{x.X, x.Y}
				if s := vC02FloatBin(x.X, x.Y); s != "" {
					return "frem: " + s
				}
			case *ir.InstFNeg:
				ops = []value.Value{x.X}
				if !vC02IsFloat(x.X.Type()) {
					return "fneg of a value that is no floating-point number"
				}
			case *ir.InstICmp:
				ops = []value.Value{x.X, x.Y}
				if !vC02Second(x.X.Type(), x.Y) {
					return "icmp: the operands have different types"
				}
				_, isInt := vC02IsInt(x.X.Type())
				_, isPtr := vC02IsPtr(x.X.Type())
				if !isInt && !isPtr {
					return "icmp: the operands are neither integers nor pointers"
				}
			case *ir.InstFCmp:
				ops = []value.Value{x.X, x.Y}
				if s := vC02FloatBin(x.X, x.Y); s != "" {
					return "fcmp: " + s
				}
			case *ir.InstSIToFP:
				ops = []value.Value{x.From}
				if _, ok := vC02IsInt(x.From.Type()); !ok || !vC02IsFloat(x.To) {
					return "sitofp: not integer to floating point"
				}
			case *ir.InstUIToFP:
				ops = []value.Value{x.From}
				if _, ok := vC02IsInt(x.From.Type()); !ok || !vC02IsFloat(x.To) {
					return "uitofp: not integer to floating point"
				}
			case *ir.InstFPToSI:
				ops = []value.Value{x.From}
				if _, ok := vC02IsInt(x.To); !ok || !vC02IsFloat(x.From.Type()) {
					return "fptosi: not floating point to integer"
				}
			case *ir.InstFPToUI:
				ops = []value.Value{x.From}
				if _, ok := vC02IsInt(x.To); !ok || !vC02IsFloat(x.From.Type()) {
					return "fptoui: not floating point to integer"
				}
			case *ir.InstZExt:
				ops = []value.Value{x.From}
				if s := vC02IntResize(x.From.Type(), x.To, true); s != "" {
					return "zext: " + s
				}
			case *ir.InstSExt:
				ops = []value.Value{x.From}
				if s := vC02IntResize(x.From.Type(), x.To, true); s != "" {
					return "sext: " + s
				}
			case *ir.InstTrunc:
				ops = []value.Value{x.From}
				if s := vC02IntResize(x.From.Type(), x.To, false); s != "" {
					return "trunc: " + s
				}
			case *ir.InstBitCast:
				ops = []value.Value{x.From}
				_, fp := vC02IsPtr(x.From.Type())
				_, tp := vC02IsPtr(x.To)
				if fp != tp {
					return "bitcast between a pointer and a non-pointer"
				}
				if !fp {
					fi, fok := vC02IsInt(x.From.Type())
					ti, tok := vC02IsInt(x.To)
					switch {
					case fok && tok:
						if fi.BitSize != ti.BitSize {
							return "bitcast between integers of different widths"
						}
					case fok && vC02IsFloat(x.To):
						if fi.BitSize != 64 {
							return "bitcast between an integer and a double of different widths"
						}
					case tok && vC02IsFloat(x.From.Type()):
						if ti.BitSize != 64 {
							return "bitcast between a double and an integer of different widths"
						}
					case vC02IsFloat(x.From.Type()) && vC02IsFloat(x.To):
					default:
						return "bitcast of an aggregate"
					}
				}
			case *ir.InstPtrToInt:
				ops = []value.Value{x.From}
				_, fp := vC02IsPtr(x.From.Type())
				_, ti := vC02IsInt(x.To)
				if !fp || !ti {
					return "ptrtoint: not pointer to integer"
				}
			case *ir.InstIntToPtr:
				ops = []value.Value{x.From}
				_, fi := vC02IsInt(x.From.Type())
				_, tp := vC02IsPtr(x.To)
				if !fi || !tp {
					return "inttoptr: not integer to pointer"
				}
			case *ir.InstAlloca:
				if x.NElems != nil {
					ops = []value.Value{x.NElems}
				}
				if types.Equal(x.ElemType, types.Void) {
					return "alloca of void"
				}
			case *ir.InstLoad:
				ops = []value.Value{x.Src}
				pt, ok := vC02IsPtr(x.Src.Type())
				if !ok {
					return "load from a value that is no pointer"
				}
				if !types.Equal(pt.ElemType, x.ElemType) {
					return "load: the loaded type differs from the pointer's element type"
				}
			case *ir.InstStore:
				ops = []value.Value{x.Src, x.Dst}
				pt, ok := vC02IsPtr(x.Dst.Type())
				if !ok {
					return "store to a value that is no pointer"
				}
				if !types.Equal(pt.ElemType, x.Src.Type()) {
					return "store: the stored type differs from the pointer's element type"
				}
			case *ir.InstGetElementPtr:
				ops = append([]value.Value{x.Src}, x.Indices...)
				pt, ok := vC02IsPtr(x.Src.Type())
				if !ok {
					return "getelementptr on a value that is no pointer"
				}
				if !types.Equal(pt.ElemType, x.ElemType) {
					return "getelementptr: the stated element type differs from the pointer's element type"
				}
				for _, ix := range x.Indices {
					if _, ok := vC02IsInt(ix.Type()); !ok {
						return "getelementptr: an index is no integer"
					}
				}
				_ = x.Type() // panics on an index that does not fit the type
			case *ir.InstCall:
				ops = append([]value.Value{}, x.Args...)
				pt, ok := vC02IsPtr(x.Callee.Type())
				if !ok {
					return "call of a value that is no pointer to a function"
				}
				sig, ok := pt.ElemType.(*types.FuncType)
				if !ok {
					return "call of a value that is no pointer to a function"
				}
				if len(x.Args) < len(sig.Params) || (len(x.Args) > len(sig.Params) && !sig.Variadic) {
					return "call: wrong number of arguments"
				}
				for k2, pty := range sig.Params {
					if !types.Equal(x.Args[k2].Type(), pty) {
						return "call: the type of an argument differs from the parameter's type"
					}
				}
				if _, isFn := x.Callee.(*ir.Func); !isFn {
					ops = append(ops, x.Callee)
				}
			case *ir.InstPhi:
				if len(x.Incs) != len(preds[i]) {
					return "phi: the number of incoming values differs from the number of predecessors"
				}
				for _, inc := range x.Incs {
					if !vC02Second(x.Typ, inc.X) {
						return "phi: an incoming value has another type than the phi node"
					}
					pb, ok := inc.Pred.(*ir.Block)
					if !ok {
						return "phi: an incoming block is no basic block"
					}
					pi, ok := indexOf(pb)
					if !ok {
						return "phi: an incoming block belongs to another function"
					}
					isPred := false
					for _, p := range preds[i] {
						if p == pi {
							isPred = true
						}
					}
					if !isPred {
						return "phi: an incoming block is no predecessor" + vC02Where(f, pi, 0, i, k)
					}
					// the incoming value must be available at the end of the predecessor
					if s := use(inc.X, pi, len(pb.Insts)); s != "" {
						return "phi: " + s
					}
				}
			case *ir.InstSelect:
				ops = []value.Value{x.Cond, x.ValueTrue, x.ValueFalse}
				it, ok := vC02IsInt(x.Cond.Type())
				if !ok || it.BitSize != 1 || !vC02Second(x.ValueTrue.Type(), x.ValueFalse) {
					return "select: condition no i1 or values of different types"
				}
			case *ir.InstExtractValue:
				ops = []value.Value{x.X}
				_ = x.Type()
			case *ir.InstInsertValue:
				ops = []value.Value{x.X, x.Elem}
				_ = x.Type()
			}
			for _, o := range ops {
				if s := use(o, i, k); s != "" {
					return s
				}
			}
		}
		// operands of the terminator
		switch t := b.Term.(type) {
		case *ir.TermRet:
			if t.X != nil {
				if s := use(t.X, i, len(b.Insts)); s != "" {
					return s
				}
			}
		case *ir.TermCondBr:
			if s := use(t.Cond, i, len(b.Insts)); s != "" {
				return s
			}
		}
	}
	return ""
}

// vC02Second: in the textual form only the first operand of a binary instruction (and the result
// type of a phi) carries a type; a literal constant in another position is read by LLVM at that
// type, whatever type the in-memory constant has. Any other value must have exactly that type.
func vC02Second(t types.Type, y value.Value) bool {
	if types.Equal(t, y.Type()) {
		return true
	}
	switch y.(type) {
	case *constant.Int:
		_, ok := vC02IsInt(t)
		return ok
	case *constant.Float:
		return vC02IsFloat(t)
	case *constant.Null:
		_, ok := vC02IsPtr(t)
		return ok
	case *constant.ZeroInitializer, *constant.Undef:
		return true
	}
	return false
}

func vC02IntBin(x, y value.Value) string {
	if _, ok := vC02IsInt(x.Type()); !ok {
		return "an operand is no integer"
	}
	if !vC02Second(x.Type(), y) {
		return "the operands have different types"
	}
	return ""
}

func vC02FloatBin(x, y value.Value) string {
	if !vC02IsFloat(x.Type()) {
		return "an operand is no floating-point number"
	}
	if !vC02Second(x.Type(), y) {
		return "the operands have different types"
	}
	return ""
}

func vC02IntResize(from, to types.Type, widen bool) string {
	fi, ok1 := vC02IsInt(from)
	ti, ok2 := vC02IsInt(to)
	if !ok1 || !ok2 {
		return "not integer to integer"
	}
	if widen && fi.BitSize >= ti.BitSize {
		return "the source is not narrower than the destination"
	}
	if !widen && fi.BitSize <= ti.BitSize {
		return "the source is not wider than the destination"
	}
	return ""
}

// vC02Where: detail for the development log (function, defining and using position)
func vC02Where(f *ir.Func, db, dp, blk, pos int) string {
	if !vC02DebugOn {
		return ""
	}
	fp := ""
	for i, b := range f.Blocks {
		fp += " " + strconv.Itoa(i) + ":" + strconv.Itoa(len(b.Insts))
		switch t := b.Term.(type) {
		case *ir.TermBr:
			for j, x := range f.Blocks {
				if x == t.Target.(*ir.Block) {
					fp += ">" + strconv.Itoa(j)
				}
			}
		case *ir.TermCondBr:
			for j, x := range f.Blocks {
				if x == t.TargetTrue.(*ir.Block) {
					fp += ">" + strconv.Itoa(j)
				}
			}
			for j, x := range f.Blocks {
				if x == t.TargetFalse.(*ir.Block) {
					fp += "/" + strconv.Itoa(j)
				}
			}
		case *ir.TermRet:
			fp += "R"
		}
	}
	return " {" + fp + " def " + strconv.Itoa(db) + ":" + strconv.Itoa(dp) + " use " + strconv.Itoa(blk) + ":" + strconv.Itoa(pos) + " blocks " + strconv.Itoa(len(f.Blocks)) + "}"
}
