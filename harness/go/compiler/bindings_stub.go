// Overlay for src/compiler/llvm_bindings.go (the cgo bindings to LLVM's optimiser and code
// generator are not part of what is analysed). Not part of the repository.
package compiler

import "github.com/DDP-Projekt/Kompilierer/src/compiler/llvm"

type llvmTarget struct {
	targetData llvm.TargetData
}
