// Overlay for src/compiler/llvm/string.go (analysis and replay run with CGO_ENABLED=0, which
// excludes every cgo file of the package): a pure-Go model of the few LLVM-C type constructors
// and of TargetData.TypeAllocSize that the IR generator uses to state allocation sizes
// (x86-64 data layout). Not part of the repository.
package llvm

type Type struct {
	Size, Align uint64
	Void        bool
}

func VoidType() Type   { return Type{Void: true, Align: 1} }
func Int1Type() Type   { return Type{Size: 1, Align: 1} }
func Int8Type() Type   { return Type{Size: 1, Align: 1} }
func Int32Type() Type  { return Type{Size: 4, Align: 4} }
func Int64Type() Type  { return Type{Size: 8, Align: 8} }
func DoubleType() Type { return Type{Size: 8, Align: 8} }

func PointerType(elem Type, addressSpace int) Type { return Type{Size: 8, Align: 8} }

func ArrayType(elem Type, n int) Type {
	return Type{Size: elem.Size * uint64(n), Align: elem.Align}
}

func StructType(fields []Type, packed bool) Type {
	var off, align uint64 = 0, 1
	for _, f := range fields {
		a := f.Align
		if a == 0 {
			a = 1
		}
		if !packed {
			off = (off + a - 1) / a * a
			if a > align {
				align = a
			}
		}
		off += f.Size
	}
	off = (off + align - 1) / align * align
	return Type{Size: off, Align: align}
}

type TargetData struct{}

func (TargetData) TypeAllocSize(t Type) uint64 { return t.Size }
