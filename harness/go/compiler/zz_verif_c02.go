package compiler

// Harness for C02: every program the frontend accepts is compiled completely. The real
// frontend decides acceptance; the real IR generator (compiler.compile, pure Go up to the
// point where the textual module is handed to LLVM) runs on every accepted program; it must
// not give up internally, the module it built must satisfy the typing and structure rules
// LLVM's verifier enforces on the instructions the generator uses (vC02Verify), and every
// DDP function one module calls must be defined with external linkage by the module that
// declares it (the link step).
//
// Programs come from two sources: (1) a prelude that declares one variable of every type
// followed by a declaration whose initialiser consists of symbolic tokens (the executor forks
// where the real parser inspects a token kind); (2) families of typed contexts - initialiser,
// assignment, argument, return value, operator application, conversion, indexing, loop header,
// Kombination field - whose operand types and operator phrases are selectors the solver
// enumerates; the frontend itself decides which combinations are well-typed.

import (
	"os"

	"github.com/DDP-Projekt/Kompilierer/src/ast"
	"github.com/DDP-Projekt/Kompilierer/src/ast/annotators"
	"github.com/DDP-Projekt/Kompilierer/src/ddperror"
	"github.com/DDP-Projekt/Kompilierer/src/parser"
	"github.com/DDP-Projekt/Kompilierer/src/scanner"
	"github.com/DDP-Projekt/Kompilierer/src/token"
	rt "github.com/DDP-Projekt/Kompilierer/src/zzverif/rt"

	"github.com/llir/llvm/ir"
)

type vC02Sink struct{ n int }

func (s *vC02Sink) Write(p []byte) (int, error) { s.n += len(p); return len(p), nil }

type vC02File struct{ f *os.File }

func (s vC02File) Write(p []byte) (int, error) { return s.f.Write(p) }

// development hooks (native calibration of the templates); unused by the checks
var vC02OnError func(ddperror.Error)
var vC02LastSrc string

func vC02Handler(errors *int) ddperror.Handler {
	return func(e ddperror.Error) {
		if e.Level == ddperror.LEVEL_ERROR {
			*errors++
			if vC02OnError != nil {
				vC02OnError(e)
			}
		}
	}
}

// vC02Accepted: the module came out of the frontend without an error-level diagnostic.
func vC02Accepted(m *ast.Module, err error, errors int) bool {
	return err == nil && m != nil && m.Ast != nil && !m.Ast.Faulty && errors == 0
}

// vC02Generate runs the IR generator on one module and reports an internal abort. In a native
// replay the printed module is also written to $VERIF_IR_OUT.<n>.ll so that llvm-as can judge it.
var vC02Dumps = 0

func vC02Generate(mod *ast.Module, level uint, isMain bool) (c *compiler, crash string) {
	c = newCompiler(mod, nil, &llvmTarget{}, level)
	defer func() {
		if r := recover(); r != nil {
			crash = "the IR generator gave up internally (Unerwarteter Fehler)"
		}
	}()
	var err error
	if p := os.Getenv("VERIF_IR_OUT"); p != "" && !rt.Symbolic() {
		vC02Dumps++
		f, ferr := os.Create(p + "." + string(rune('0'+vC02Dumps)) + ".ll")
		if ferr != nil {
			panic("setup failed: " + ferr.Error())
		}
		_, err = c.compile(vC02File{f}, isMain)
		f.Close()
	} else {
		_, err = c.compile(&vC02Sink{}, isMain)
	}
	if err != nil {
		crash = "the IR generator returned an error"
	}
	return c, crash
}

// vC02Check: the obligations for one accepted program (main module plus imported modules).
func vC02Check(main *ast.Module, imported []*ast.Module, level uint) {
	var mods []*ir.Module
	all := append([]*ast.Module{main}, imported...)
	for i, m := range all {
		c, crash := vC02Generate(m, level, i == 0)
		rt.Assert(crash == "", "code generation succeeds for an accepted program")
		if crash != "" {
			return
		}
		msg := vC02Verify(c.mod)
		if msg != "" {
			vC02Note(msg)
		}
		rt.Assert(msg == "", "the generated module is well-formed LLVM IR"+vC02Dbg(msg))
		if msg != "" {
			return
		}
		mods = append(mods, c.mod)
	}
	rt.Assert(vC02Links(mods) == "", "every DDP function a module calls is defined with external linkage")
}

var vC02LastNote string

func vC02Note(msg string) {
	if !rt.Symbolic() {
		vC02LastNote = " [" + msg + "]"
		os.Stderr.WriteString("VERIF-NOTE: " + msg + "\n")
	}
}

// vC02Links: a function or global that is only declared in one module and whose name is a
// mangled DDP name (it contains "_mod_") has to be defined, not internal, in another module
// of the program. Runtime and foreign functions have unmangled names and are not judged.
func vC02Links(mods []*ir.Module) string {
	defined := map[string]bool{}
	for _, m := range mods {
		for _, f := range m.Funcs {
			if len(f.Blocks) > 0 && f.Linkage.String() != "internal" && f.Linkage.String() != "private" {
				defined[f.Name()] = true
			}
		}
		for _, g := range m.Globals {
			if g.Init != nil && g.Linkage.String() != "internal" && g.Linkage.String() != "private" {
				defined[g.Name()] = true
			}
		}
	}
	for _, m := range mods {
		for _, f := range m.Funcs {
			if len(f.Blocks) == 0 && vC02Mangled(f.Name()) && !defined[f.Name()] {
				return "function " + f.Name() + " is declared and used but defined nowhere"
			}
		}
		for _, g := range m.Globals {
			if g.Init == nil && vC02Mangled(g.Name()) && !defined[g.Name()] {
				return "global " + g.Name() + " is declared and used but defined nowhere"
			}
		}
	}
	return ""
}

func vC02Mangled(name string) bool {
	for i := 0; i+5 <= len(name); i++ {
		if name[i:i+5] == "_mod_" {
			return true
		}
	}
	return false
}

// vC02Source runs the whole pipeline on a single-module source.
func vC02Source(src string, level uint) {
	src = vC02Slim(src)
	vC02LastSrc = src
	errors := 0
	opts := parser.Options{FileName: "x.ddp", Source: []byte(src), ErrorHandler: vC02Handler(&errors)}
	if level >= 2 {
		opts.Annotators = []ast.Annotator{&annotators.ConstFuncParamAnnotator{}} // what Options.ToParserOptions adds at -O 2
	}
	m, err := parser.Parse(opts)
	if !vC02Accepted(m, err, errors) {
		return
	}
	vC02Check(m, nil, level)
}

// ---------------------------------------------------------------------------------------------
// types of the contexts

type vC02Type struct {
	key   string // name used after 'vom Typ', 'als'
	decl  string // declaration of a variable named @ holding a value of the type
	ret   string // 'gibt ... zurück'
	forEl string // 'Für jede(n) ... e in' for the element of a list of the type ("" if none)
}

var vC02Types = []vC02Type{
	{"Zahl", "Die Zahl @ ist 7.\n", "eine Zahl", ""},
	{"Kommazahl", "Die Kommazahl @ ist 2,5.\n", "eine Kommazahl", ""},
	{"Byte", "Der Byte @ ist 3 als Byte.\n", "einen Byte", ""},
	{"Wahrheitswert", "Der Wahrheitswert @ ist wahr.\n", "einen Wahrheitswert", ""},
	{"Buchstabe", "Der Buchstabe @ ist 'c'.\n", "einen Buchstaben", ""},
	{"Text", "Der Text @ ist \"ab\".\n", "einen Text", "Für jeden Buchstaben e in"},
	{"Zahlen Liste", "Die Zahlen Liste @ ist eine Liste, die aus 1, 2, 3 besteht.\n", "eine Zahlen Liste", "Für jede Zahl e in"},
	{"Kommazahlen Liste", "Die Kommazahlen Liste @ ist eine leere Kommazahlen Liste.\n", "eine Kommazahlen Liste", "Für jede Kommazahl e in"},
	{"Byte Liste", "Die Byte Liste @ ist eine leere Byte Liste.\n", "eine Byte Liste", "Für jeden Byte e in"},
	{"Text Liste", "Die Text Liste @ ist eine Liste, die aus \"a\", \"b\" besteht.\n", "eine Text Liste", "Für jeden Text e in"},
	{"Variable", "Die Variable @ ist 1.\n", "eine Variable", ""},
	{"Punkt", "Der Punkt @ ist ein Punkt.\n", "einen Punkt", ""},
	{"Meter", "Der Meter @ ist 5 als Meter.\n", "einen Meter", ""},
	{"Ganzzahl", "Die Ganzzahl @ ist 4.\n", "eine Ganzzahl", ""},
	{"Variablen Liste", "Die Variablen Liste @ ist eine leere Variablen Liste.\n", "eine Variablen Liste", "Für jede Variable e in"},
	{"Buchstaben Liste", "Die Buchstaben Liste @ ist eine leere Buchstaben Liste.\n", "eine Buchstaben Liste", "Für jeden Buchstaben e in"},
	{"Wahrheitswert Liste", "Die Wahrheitswert Liste @ ist eine leere Wahrheitswert Liste.\n", "eine Wahrheitswert Liste", "Für jeden Wahrheitswert e in"},
	{"Punkt Liste", "Die Punkt Liste @ ist eine leere Punkt Liste.\n", "eine Punkt Liste", "Für jeden Punkt e in"},
}

const vC02PreludePunkt = "Wir nennen die Kombination aus\n\tder Zahl x mit Standardwert 0,\n\tdem Text s mit Standardwert \"\",\n\tder Kommazahl k mit Standardwert 1,5,\n\tdem Byte y mit Standardwert 1 als Byte,\n\tder Zahlen Liste zl mit Standardwert eine leere Zahlen Liste,\neinen Punkt, und erstellen sie so:\n\t\"ein Punkt\" oder\n\t\"ein Punkt mit x gleich <x>\"\n\n"
const vC02PreludeMeter = "Wir definieren einen Meter als eine Zahl.\n"
const vC02PreludeGanz = "Wir nennen eine Zahl auch eine Ganzzahl.\n"
const vC02Prelude = vC02PreludePunkt + vC02PreludeMeter + vC02PreludeGanz + "\n"

// vC02Slim drops the declarations of the prelude that the rest of the program does not mention
// (the Kombination alone multiplies the size of the generated module).
func vC02Slim(src string) string {
	if len(src) < len(vC02Prelude) || src[:len(vC02Prelude)] != vC02Prelude {
		return src
	}
	rest := src[len(vC02Prelude):]
	out := ""
	if vC02Has(rest, "Punkt") || vC02Has(rest, " von a") {
		out += vC02PreludePunkt
	}
	if vC02Has(rest, "Meter") {
		out += vC02PreludeMeter
	}
	if vC02Has(rest, "Ganzzahl") {
		out += vC02PreludeGanz
	}
	return out + "\n" + rest
}

func vC02Has(s, sub string) bool {
	for i := 0; i+len(sub) <= len(s); i++ {
		if s[i:i+len(sub)] == sub {
			return true
		}
	}
	return false
}

func vC02Decl(t vC02Type, name string) string {
	out := ""
	for i := 0; i < len(t.decl); i++ {
		if t.decl[i] == '@' {
			out += name
		} else {
			out += t.decl[i : i+1]
		}
	}
	return out
}

func vC02Pick(name string) vC02Type { return vC02Types[rt.Choose(name, len(vC02Types))] }

func vC02Level() uint {
	if rt.Choose("level", 2) == 1 {
		return 2
	}
	return 0
}

// ---------------------------------------------------------------------------------------------
// (2) typed contexts

// initialiser and assignment: a variable of type T1 receives a value of type T2
func VerifC02InitAssign() {
	t1, t2 := vC02Pick("t1"), vC02Pick("t2")
	src := vC02Prelude + vC02Decl(t2, "b")
	switch rt.Choose("form", 4) {
	case 0:
		src += "Die Variable hilf ist b.\n" + vC02InitFrom(t1, "a", "b")
	case 1:
		src += vC02Decl(t1, "a") + "Speichere b in a.\n"
	case 2:
		src += vC02Decl(t1, "a") + "Wenn wahr, dann:\n\tSpeichere b in a.\nDer Wahrheitswert w0 ist wahr.\nw0 ist wahr, wenn a gleich b ist.\n"
	case 3: // inside a function body, on a local
		src += "Die Funktion f gibt nichts zurück, macht:\n\t" + vC02Decl(t1, "a") + "\tSpeichere b in a.\nUnd kann so benutzt werden:\n\t\"mach f\"\n\nmach f.\n"
	}
	vC02Source(src, 0)
}

func vC02InitFrom(t vC02Type, name, from string) string {
	// the article of the declaration is the first word of t.decl
	d := vC02Decl(t, name)
	for i := 0; i+5 <= len(d); i++ {
		if d[i:i+5] == " ist " {
			return d[:i+5] + from + ".\n"
		}
	}
	return d
}

// argument passing and return: a parameter of type T1 (by value or Referenz) receives an argument
// of type T2; a function returning T1 returns a value of type T2
func VerifC02ArgReturn() {
	t1, t2 := vC02Pick("t1"), vC02Pick("t2")
	src := vC02Prelude + vC02Decl(t2, "b")
	form := rt.Choose("form", 5)
	switch form {
	case 0:
		src += "Die Funktion f mit dem Parameter p vom Typ " + t1.key + ", gibt nichts zurück, macht:\n\tDie Variable q ist p.\nUnd kann so benutzt werden:\n\t\"nimm <p>\"\n\nnimm b.\n"
	case 1:
		src += "Die Funktion f mit dem Parameter p vom Typ " + vC02RefName(t1) + ", gibt nichts zurück, macht:\n\tDie Variable q ist p.\nUnd kann so benutzt werden:\n\t\"nimm <p>\"\n\nnimm b.\n"
	case 2:
		src += "Die Funktion f mit dem Parameter p vom Typ " + t2.key + ", gibt " + t1.ret + " zurück, macht:\n\tGib p zurück.\nUnd kann so benutzt werden:\n\t\"f <p>\"\n\nDie Variable r ist (f b).\n"
	case 3: // the result is discarded
		src += "Die Funktion f mit dem Parameter p vom Typ " + t2.key + ", gibt " + t1.ret + " zurück, macht:\n\tGib p zurück.\nUnd kann so benutzt werden:\n\t\"f <p>\"\n\nf b.\n"
	case 4: // Referenz parameter written by the callee with a value of T2
		src += "Die Funktion f mit den Parametern p und q vom Typ " + vC02RefName(t1) + " und " + t2.key + ", gibt nichts zurück, macht:\n\tSpeichere q in p.\nUnd kann so benutzt werden:\n\t\"setze <p> auf <q>\"\n\n" + vC02Decl(t1, "a") + "setze a auf b.\n"
	}
	vC02Source(src, vC02Level())
}

func vC02RefName(t vC02Type) string {
	switch t.key {
	case "Zahl":
		return "Zahlen Referenz"
	case "Kommazahl":
		return "Kommazahlen Referenz"
	case "Buchstabe":
		return "Buchstaben Referenz"
	case "Variable":
		return "Variablen Referenz"
	}
	if len(t.key) > 6 && t.key[len(t.key)-6:] == " Liste" {
		return t.key + "n Referenz"
	}
	return t.key + " Referenz"
}

// vC02ListOf: the name of the list type with elements of t ("" for a list type)
func vC02ListOf(t vC02Type) string {
	if len(t.key) > 6 && t.key[len(t.key)-6:] == " Liste" {
		return ""
	}
	switch t.key {
	case "Zahl":
		return "Zahlen Liste"
	case "Kommazahl":
		return "Kommazahlen Liste"
	case "Buchstabe":
		return "Buchstaben Liste"
	case "Variable":
		return "Variablen Liste"
	}
	return t.key + " Liste"
}

var vC02Binary = []string{
	"a plus b", "a minus b", "a mal b", "a durch b", "a hoch b", "a modulo b", "der Logarithmus von a zur Basis b",
	"a logisch und b", "a logisch oder b", "a logisch kontra b", "a um b Bit nach links verschoben", "a um b Bit nach rechts verschoben",
	"a gleich b ist", "a ungleich b ist", "a kleiner als b ist", "a größer als b ist", "a kleiner als, oder b ist", "a größer als, oder b ist",
	"a und b", "a oder b", "entweder a, oder b", "a verkettet mit b", "a an der Stelle b", "a ab dem b. Element", "a bis zum b. Element",
	"die b. Wurzel von a",
}

// binary operators on operands of every pair of types, as a value and as a condition
func VerifC02Binary() {
	t1, t2 := vC02Pick("t1"), vC02Pick("t2")
	op := vC02Binary[rt.Choose("op", len(vC02Binary))]
	src := vC02Prelude + vC02Decl(t1, "a") + vC02Decl(t2, "b") + "Die Variable r ist (" + op + ").\n"
	vC02Source(src, 0)
}

var vC02Unary = []string{
	"der Betrag von a", "die Länge von a", "-a", "nicht a", "logisch nicht a", "die Größe von a", "der Standardwert von a",
	"x von a", "s von a", "a als Zahl", "a als Kommazahl", "a als Byte", "a als Wahrheitswert", "a als Buchstabe", "a als Text",
	"a als Zahlen Liste", "a als Text Liste", "a als Variable", "a als Punkt", "a als Meter", "a als Ganzzahl", "a als Buchstaben Liste", "a als Byte Liste",
	"a eine Zahl ist", "a ein Text ist", "a ein Punkt ist", "a eine Zahlen Liste ist",
}

func VerifC02Unary() {
	t1 := vC02Pick("t1")
	op := vC02Unary[rt.Choose("op", len(vC02Unary))]
	src := vC02Prelude + vC02Decl(t1, "a")
	switch rt.Choose("use", 3) {
	case 0:
		src += "Die Variable r ist (" + op + ").\n"
	case 1: // inside a function, as the returned value of a Variable function
		src += "Die Funktion f mit dem Parameter a vom Typ " + t1.key + ", gibt eine Variable zurück, macht:\n\tGib (" + op + ") zurück.\nUnd kann so benutzt werden:\n\t\"f <a>\"\n\nDie Variable r ist (f a).\n"
	case 2: // the operand is a list element or a field
		src = vC02Prelude + vC02Decl(t1, "a") + "Die Variablen Liste vl ist eine leere Variablen Liste.\nDie Variable r ist (" + op + ").\nSpeichere r in vl an der Stelle 1.\n"
	}
	vC02Source(src, 0)
}

var vC02Ternary = []string{
	"a im Bereich von b bis c", "a zwischen b und c ist", "b, falls a, ansonsten c", "a, falls wahr, ansonsten b", "c, falls a gleich b ist, ansonsten c",
}

func VerifC02Ternary() {
	t1, t2, t3 := vC02Pick("t1"), vC02Pick("t2"), vC02Pick("t3")
	op := vC02Ternary[rt.Choose("op", len(vC02Ternary))]
	src := vC02Prelude + vC02Decl(t1, "a") + vC02Decl(t2, "b") + vC02Decl(t3, "c") + "Die Variable r ist (" + op + ").\n"
	vC02Source(src, 0)
}

var vC02Compound = []string{
	"Erhöhe a um b.", "Verringere a um b.", "Vervielfache a um b.", "Teile a durch b.", "Verschiebe a um b Bit nach Links.", "Verschiebe a um b Bit nach Rechts.",
	"Negiere a.", "Speichere b in a an der Stelle 1.", "Speichere b in a an der Stelle b.", "Speichere b in x von a.", "Speichere b in k von a.", "Speichere b in y von a.",
	"Speichere b in zl von a an der Stelle 1.", "Speichere a verkettet mit b in a.", "Erhöhe a an der Stelle 1 um b.", "Erhöhe x von a um b.", "Erhöhe k von a um b.", "Teile y von a durch b.",
	"Verkette a mit b.",
}

// compound assignments and assignments to elements and fields
func VerifC02Compound() {
	t1, t2 := vC02Pick("t1"), vC02Pick("t2")
	st := vC02Compound[rt.Choose("stmt", len(vC02Compound))]
	src := vC02Prelude + vC02Decl(t1, "a") + vC02Decl(t2, "b") + st + "\n"
	vC02Source(src, 0)
}

// loop headers and conditions with operands of every type
func VerifC02Loops() {
	t1, t2 := vC02Pick("t1"), vC02Pick("t2")
	src := vC02Prelude + vC02Decl(t1, "a") + vC02Decl(t2, "b")
	body := "\n\tDie Variable q ist a.\n"
	switch rt.Choose("form", 17) {
	case 9: // bounds, steps and counts whose evaluation needs more than one basic block
		src += "Für jede Zahl i von 1 bis (a an der Stelle 1), mache:" + body
	case 10:
		src += "Für jede Zahl i von (der Betrag von a) bis (der Betrag von b), mache:" + body
	case 11:
		src += "Für jede Zahl i von 1 bis (a, falls wahr, ansonsten b) mit Schrittgröße (b, falls wahr, ansonsten a), mache:" + body
	case 12:
		src += "Für jede Zahl i von (b als Zahl) bis (a als Zahl), mache:" + body
	case 13:
		src += "Solange (a an der Stelle 1) kleiner als (der Betrag von b) ist, mache:" + body + "\tVerlasse die Schleife.\n"
	case 14:
		src += "Wiederhole:" + body + "(der Betrag von a) Mal.\n"
	case 15:
		if t1.forEl == "" {
			return
		}
		src += t1.forEl + " (a verkettet mit a), mache:\n\tDie Variable q ist e.\n\tWenn wahr, fahre mit der Schleife fort.\n"
	case 16:
		src += "Wenn (a an der Stelle 1) gleich (b an der Stelle 1) ist, dann:" + body + "Sonst:" + body
	case 0:
		src += "Für jede Zahl i von a bis b, mache:" + body
	case 1:
		src += "Für jede Kommazahl i von a bis b, mache:" + body
	case 2:
		src += "Für jeden Byte i von a bis b, mache:" + body
	case 3:
		src += "Für jede Zahl i von 1 bis a mit Schrittgröße b, mache:" + body
	case 4:
		src += "Für jede Kommazahl i von 1 bis a mit Schrittgröße b, mache:" + body
	case 5:
		src += "Für jeden Byte i von a bis 9 mit Schrittgröße b, mache:" + body
	case 6:
		if t1.forEl == "" {
			return
		}
		src += t1.forEl + " a, mache:\n\tDie Variable q ist e.\n\tSpeichere b in q.\n"
	case 7:
		src += "Wiederhole:" + body + "a Mal.\n"
	case 8:
		src += "Wenn a, dann:" + body + "Sonst:" + body + "Solange b, mache:" + body + "\tVerlasse die Schleife.\n"
	}
	vC02Source(src, 0)
}

// Kombination literals and list literals with members of every type
func VerifC02Literals() {
	t1, t2 := vC02Pick("t1"), vC02Pick("t2")
	src := vC02Prelude + vC02Decl(t1, "a") + vC02Decl(t2, "b")
	switch rt.Choose("form", 8) {
	case 6: // fields passed explicitly although their defaults have another numeric type
		src += "Wir nennen die Kombination aus\n\tder Kommazahl m mit Standardwert 1,\n\tdem Byte y mit Standardwert 5,\neinen Wert, und erstellen sie so:\n\t\"ein Wert aus <m> sowie <y>\"\n\nDie Variable r ist ein Wert aus a sowie b.\n" +
			"Wir nennen die Kombination aus\n\tdem Byte n2 mit Standardwert 2,\n\tder Kommazahl k2 mit Standardwert 3,\neine Angabe, und erstellen sie so:\n\t\"eine Angabe aus <n2> sowie <k2>\"\n\nDie Variable r2 ist eine Angabe aus b sowie a.\n"
	case 7:
		src += "Wir nennen die Kombination aus\n\tder Kommazahl m mit Standardwert 1,\n\tder Zahl n mit Standardwert 2,5,\n\tdem Text t mit Standardwert \"t\",\neinen Wert, und erstellen sie so:\n\t\"ein Wert mit m gleich <m>\" oder\n\t\"ein Wert mit n gleich <n> und t gleich <t>\"\n\nDie Variable r ist ein Wert mit n gleich a und t gleich b.\n"
	case 0:
		src += "Die Variable r ist ein Punkt mit x gleich a.\n"
	case 1:
		src += "Die Variable r ist eine Liste, die aus a, b besteht.\n"
	case 2:
		if vC02ListOf(t2) == "" {
			return
		}
		src += "Die " + vC02ListOf(t2) + " r ist a Mal b.\n"
	case 3:
		src += "Wir nennen die Kombination aus\n\tder " + "Zahl n mit Standardwert a,\n\tder Kommazahl m mit Standardwert b,\neinen Wert, und erstellen sie so:\n\t\"ein Wert\"\n\nDie Variable r ist ein Wert.\n"
	case 4:
		src += "Die Konstante kk ist 5.\n" + vC02InitFrom(t1, "x", "kk") + "Die Konstante kf ist 2,5.\n" + vC02InitFrom(t2, "y", "kf")
	case 5:
		if vC02ListOf(t1) == "" {
			return
		}
		src += "Die Variable r ist eine Liste, die aus a besteht.\nDie Variable r2 ist (r als " + vC02ListOf(t1) + ") an der Stelle 1.\nSpeichere b in (r als " + vC02ListOf(t1) + ") an der Stelle 1.\n"
	}
	vC02Source(src, 0)
}

// names that are shadowed or declared in nested scopes, used in headers and bodies
func VerifC02Scopes() {
	t1 := vC02Pick("t1")
	src := vC02Prelude + vC02Decl(t1, "a") + "Die Zahl n ist 3.\n"
	switch rt.Choose("form", 5) {
	case 0:
		src += "Für jede Zahl i von 1 bis n, mache:\n\t" + vC02Decl(t1, "n") + "\tDie Variable q ist n.\n"
	case 1:
		src += "Wenn wahr, dann:\n\t" + vC02Decl(t1, "n") + "\tDie Variable q ist n.\nDie Variable q2 ist n.\n"
	case 2:
		src += "Die Funktion f mit dem Parameter n vom Typ " + t1.key + ", gibt " + t1.ret + " zurück, macht:\n\tWenn wahr, gib n zurück.\n\tGib n zurück.\nUnd kann so benutzt werden:\n\t\"f <n>\"\n\nDie Variable r ist (f a).\n"
	case 3:
		src += "Solange n größer als 0 ist, mache:\n\t" + vC02Decl(t1, "m") + "\tVerringere n um 1.\n\tWenn n gleich 1 ist, fahre mit der Schleife fort.\n\tWenn n gleich 2 ist, verlasse die Schleife.\n"
	case 4:
		src += "Die Funktion g gibt " + t1.ret + " zurück, macht:\n\t" + vC02Decl(t1, "m") + "\tFür jede Zahl i von 1 bis 3, mache:\n\t\t" + vC02Decl(t1, "m2") + "\t\tWenn i gleich 2 ist, gib m2 zurück.\n\tGib m zurück.\nUnd kann so benutzt werden:\n\t\"g\"\n\nDie Variable r ist g.\n"
	}
	vC02Source(src, vC02Level())
}

// ---------------------------------------------------------------------------------------------
// two modules: what the importing module uses has to be defined, visibly, by the imported one

var vC02LibDecls = []string{
	"Die öffentliche Funktion pubf mit dem Parameter a vom Typ Zahl, gibt eine Zahl zurück, macht:\n\tGib (hilf a) zurück.\nUnd kann so benutzt werden:\n\t\"pubf <a>\"\n\n",
	"Die öffentliche Zahl pubv ist (hilf 1).\n\n",
	"Die öffentliche Konstante pubk ist 3.\n\n",
	"Wir nennen die öffentliche Kombination aus\n\tder öffentlichen Zahl wert mit Standardwert (hilf 2),\n\tdem öffentlichen Text name mit Standardwert \"n\",\neine Sache, und erstellen sie so:\n\t\"eine Sache\" oder\n\t\"eine Sache mit wert gleich <wert>\"\n\n",
	"Die öffentliche generische Funktion gen mit dem Parameter a vom Typ T, gibt ein T zurück, macht:\n\tDie Zahl h ist (hilf 1).\n\tGib a zurück.\nUnd kann so benutzt werden:\n\t\"gen <a>\"\n\n",
	"Wir definieren eine Strecke öffentlich als eine Zahl.\n\n",
	"Wir nennen die generische öffentliche Kombination aus\n\tdem öffentlichen T erstes,\n\tdem öffentlichen T zweites,\nein Paar, und erstellen sie so:\n\t\"Paar(<erstes>, <zweites>)\"\n\n",
}

var vC02LibUses = []string{
	"Die Variable r ist (pubf 1).\n", "Die Variable r ist pubv.\n", "Speichere 5 in pubv.\n", "Die Variable r ist pubk.\n",
	"Die Variable r ist eine Sache.\n", "Die Variable r ist eine Sache mit wert gleich 4.\n", "Die Sache s ist eine Sache.\nDie Variable r ist wert von s.\n",
	"Die Variable r ist (gen 1).\n", "Die Variable r ist (gen \"a\").\n", "Die Strecke s ist 3 als Strecke.\nDie Variable r ist s.\n",
	"Die Sache Liste sl ist eine leere Sache Liste.\nDie Variable r ist sl.\n", "Die Sache s ist eine Sache.\nDie Variable r ist (gen s).\n",
	// the generic Kombination of the library instantiated with inbuilt types, with a Kombination of
	// the library, and with a Kombination and a type definition only the importing module knows
	"Das Sache-Paar p ist Paar((eine Sache), (eine Sache)).\nDie Variable r ist wert von erstes von p.\n",
	"Wir nennen die Kombination aus\n\tder Zahl pa mit Standardwert 7,\n\tdem Text pt mit Standardwert \"h\",\neinen Ort, und erstellen sie so:\n\t\"ein Ort\"\n\nDas Ort-Paar p ist Paar((ein Ort), (ein Ort)).\nSpeichere 8 in pa von zweites von p.\nDie Variable r ist pa von erstes von p.\n",
	"Wir definieren eine Elle als eine Zahl.\n\nDas Elle-Paar p ist Paar((1 als Elle), (2 als Elle)).\nDie Variable r ist erstes von p.\n",
}

func VerifC02Modules() {
	lib := "Die Funktion hilf mit dem Parameter a vom Typ Zahl, gibt eine Zahl zurück, macht:\n\tGib a plus 1 zurück.\nUnd kann so benutzt werden:\n\t\"hilf <a>\"\n\n"
	withGeneric := rt.Choose("generic", 2) == 1
	for _, d := range vC02LibDecls {
		if !withGeneric && vC02Has(d, "generische Funktion") {
			continue // a module without generic functions may be lowered differently
		}
		lib += d
	}
	errors := 0
	libMod, err := parser.Parse(parser.Options{FileName: "/m/lib.ddp", Source: []byte(lib), ErrorHandler: vC02Handler(&errors)})
	rt.Guard(vC02Accepted(libMod, err, errors), "the library module is accepted")
	use := vC02LibUses[rt.Choose("use", len(vC02LibUses))]
	src := "Binde \"lib\" ein.\n" + use
	if rt.Choose("wrapped", 2) == 1 {
		src = "Binde \"lib\" ein.\nDie Funktion w gibt nichts zurück, macht:\n\t" + indentLines(use) + "Und kann so benutzt werden:\n\t\"mach w\"\n\nmach w.\n"
	}
	errors = 0
	m, err := parser.Parse(parser.Options{FileName: "/m/main.ddp", Source: []byte(src), Modules: map[string]*ast.Module{"/m/lib.ddp": libMod}, ErrorHandler: vC02Handler(&errors)})
	if !vC02Accepted(m, err, errors) {
		return
	}
	vC02Check(m, []*ast.Module{libMod}, vC02Level())
}

func indentLines(s string) string {
	out := ""
	for i := 0; i < len(s); i++ {
		out += s[i : i+1]
		if s[i] == '\n' && i+1 < len(s) {
			out += "\t"
		}
	}
	return out
}

// ---------------------------------------------------------------------------------------------
// (1) initialisers made of symbolic tokens

const vC02TokenPrelude = "Die Zahl a ist 7.\nDie Kommazahl k ist 2,5.\nDer Byte b ist 3 als Byte.\nDer Wahrheitswert w ist wahr.\nDer Buchstabe z ist 'c'.\nDer Text t ist \"ab\".\nDie Zahlen Liste l ist eine Liste, die aus 1, 2 besteht.\nDie Variable v ist 1.\n"

var vC02Names = []string{"a", "k", "b", "w", "z", "t", "l", "v"}

func verifC02Tokens(k int, opening string) {
	var errors0 int
	s, err := scanner.New("x.ddp", []byte(vC02TokenPrelude+opening), vC02Handler(&errors0), scanner.ModeStrictCapitalization)
	rt.Guard(err == nil, "the prelude is scanned")
	toks := s.ScanAll()
	toks = toks[:len(toks)-1]
	last := toks[len(toks)-1]
	line, col := last.Range.End.Line, last.Range.End.Column+1
	add := func(typ token.TokenType, lit string) {
		n := uint(len([]rune(lit)))
		toks = append(toks, token.Token{Type: typ, Literal: lit, Range: token.Range{Start: token.Position{Line: line, Column: col}, End: token.Position{Line: line, Column: col + n}}})
		col += n + 1
	}
	for i := 0; i < k; i++ {
		typ := rt.Int("type")
		rt.Assume(rt.And(typ > int(token.EOF), typ <= int(token.ELIPSIS)))
		rt.Assume(rt.And(typ != int(token.COMMENT), typ != int(token.ALIAS_PARAMETER)))
		rt.Assume(typ != int(token.BINDE))
		lit := "x"
		switch token.TokenType(typ) {
		case token.IDENTIFIER:
			lit = vC02Names[rt.Choose("name", len(vC02Names))]
		case token.INT:
			lit = "7"
		case token.FLOAT:
			lit = "2,5"
		case token.STRING:
			lit = "\"ab\""
		case token.CHAR:
			lit = "'c'"
		}
		add(token.TokenType(typ), lit)
	}
	add(token.DOT, ".")
	toks = append(toks, token.Token{Type: token.EOF, Range: token.Range{Start: token.Position{Line: line + 1, Column: 1}, End: token.Position{Line: line + 1, Column: 1}}})
	errors := 0
	m, err := parser.Parse(parser.Options{FileName: "x.ddp", Tokens: toks, ErrorHandler: vC02Handler(&errors)})
	if !vC02Accepted(m, err, errors) {
		return
	}
	vC02Check(m, nil, 0)
}

func VerifC02Tokens1()     { verifC02Tokens(1, "Die Variable r ist") }
func VerifC02Tokens2()     { verifC02Tokens(2, "Die Variable r ist") }
func VerifC02Tokens3()     { verifC02Tokens(3, "Die Variable r ist") }
func VerifC02Tokens4()     { verifC02Tokens(4, "Die Variable r ist") }
func VerifC02TokensStmt3() { verifC02Tokens(3, "") }
func VerifC02TokensCond2() {
	verifC02Tokens(2, "Wenn wahr, dann:\n\tDie Zahl q ist 1.\nDer Wahrheitswert r ist")
}

func vC02Dbg(msg string) string {
	if os.Getenv("VERIF_C02_DEBUG") != "" || rt.Symbolic() && vC02DebugOn {
		return " [" + msg + "]"
	}
	return ""
}

var vC02DebugOn = false

// user-defined operators, generic functions and Kombination/list parameters and results
var vC02FuncForms = []string{
	// 0: unary operator overloaded for T1 returning T2, used on a value of T1
	"Die Funktion op1 mit dem Parameter p vom Typ @1, gibt @r2 zurück, macht:\n\tGib b zurück.\nUnd überlädt den \"Betrag\" Operator.\n\nDie Variable r ist (der Betrag von a).\n",
	// 1: binary operator overloaded for (T1, T2)
	"Die Funktion op2 mit den Parametern p und q vom Typ @1 und @2, gibt @r1 zurück, macht:\n\tGib p zurück.\nUnd überlädt den \"plus\" Operator.\n\nDie Variable r ist (a plus b).\nDie Variable r2 ist (a plus b plus b).\n",
	// 2: generic function instantiated with T1 and T2, result stored and discarded
	"Die generische Funktion gleich_oder mit den Parametern p und q vom Typ T und T, gibt ein T zurück, macht:\n\tWenn p gleich q ist, gib p zurück.\n\tGib q zurück.\nUnd kann so benutzt werden:\n\t\"<p> oder sonst <q>\"\n\nDie Variable r ist (a oder sonst a).\nDie Variable r2 ist (b oder sonst b).\nb oder sonst b.\n",
	// 3: generic function with a list parameter
	"Die generische Funktion erstes mit dem Parameter l vom Typ T Liste, gibt ein T zurück, macht:\n\tGib l an der Stelle 1 zurück.\nUnd kann so benutzt werden:\n\t\"das erste von <l>\"\n\nDie Variable r ist (das erste von a).\n",
	// 4: generic function with a Referenz parameter, called with a variable and with an element
	"Die generische Funktion setze mit den Parametern p und q vom Typ T Referenz und T, gibt nichts zurück, macht:\n\tSpeichere q in p.\nUnd kann so benutzt werden:\n\t\"setze <p> auf <q>\"\n\nsetze a auf b.\nsetze a auf a.\n",
	// 5: a function returning its parameter from a nested block, called as argument of itself
	"Die Funktion id mit dem Parameter p vom Typ @1, gibt @r1 zurück, macht:\n\tWenn wahr, dann:\n\t\tWenn wahr, gib p zurück.\n\tGib p zurück.\nUnd kann so benutzt werden:\n\t\"id <p>\"\n\nDie Variable r ist (id (id a)).\nid (id a).\n",
	// 6: forward declaration, use, later definition
	"Die Funktion nachher mit dem Parameter p vom Typ @1, gibt @r2 zurück,\nwird später definiert\nund kann so benutzt werden:\n\t\"nachher <p>\"\n\nDie Variable r ist (nachher a).\n\nDie Funktion nachher macht:\n\tGib b zurück.\n",
	// 7: comparison operators overloaded, used in a condition
	"Die Funktion op3 mit den Parametern p und q vom Typ @1 und @2, gibt einen Wahrheitswert zurück, macht:\n\tGib wahr zurück.\nUnd überlädt den \"gleich\" Operator.\n\nWenn a gleich b ist, dann:\n\tDie Variable r ist a.\nDer Wahrheitswert w ist a ungleich b ist.\n",
}

func VerifC02Functions()   { verifC02Functions(0) }
func VerifC02FunctionsO2() { verifC02Functions(2) }

func verifC02Functions(level uint) {
	t1, t2 := vC02Pick("t1"), vC02Pick("t2")
	form := vC02FuncForms[rt.Choose("form", len(vC02FuncForms))]
	body := ""
	for i := 0; i < len(form); i++ {
		if form[i] == '@' && i+1 < len(form) {
			switch {
			case form[i+1] == '1':
				body += t1.key
				i++
				continue
			case form[i+1] == '2':
				body += t2.key
				i++
				continue
			case form[i+1] == 'r' && i+2 < len(form) && form[i+2] == '1':
				body += t1.ret
				i += 2
				continue
			case form[i+1] == 'r' && i+2 < len(form) && form[i+2] == '2':
				body += t2.ret
				i += 2
				continue
			}
		}
		body += form[i : i+1]
	}
	vC02Source(vC02Prelude+vC02Decl(t1, "a")+vC02Decl(t2, "b")+body, level)
}
