// Overlay for src/compiler/interface.go (driver around LLVM; outside the analysis). Only the
// declarations the IR generator itself refers to are kept. Not part of the repository.
package compiler

// the result of a compilation
type Result struct {
	Dependencies map[string]struct{}
}
