package ddperror

// Harness for C07 (consumer side): the source-excerpt renderer prints every diagnostic whose
// range lies inside the text, for every text over a small alphabet.

import (
	"github.com/DDP-Projekt/Kompilierer/src/token"
	rt "github.com/DDP-Projekt/Kompilierer/src/zzverif/rt"
)

type vSink struct{ n int }

func (s *vSink) Write(p []byte) (int, error) { s.n += len(p); return len(p), nil }

var vAlphabet = []string{"a", "ä", "\t", "\r", "\n", " "}

func verifC07Render(n int) {
	src := ""
	for i := 0; i < n; i++ {
		src += vAlphabet[rt.Choose("ch", len(vAlphabet))]
	}
	// line structure as the renderer sees it
	var lineRunes []int
	cur := 0
	for _, r := range src {
		if r == '\n' {
			lineRunes = append(lineRunes, cur)
			cur = 0
		} else {
			cur++
		}
	}
	lineRunes = append(lineRunes, cur)
	sl, sc, el, ec := rt.Uint("sl"), rt.Uint("sc"), rt.Uint("el"), rt.Uint("ec")
	// the contract on ranges: inside the text, start not after end
	rt.Assume(rt.And(sl >= 1, sl <= uint(len(lineRunes))))
	rt.Assume(rt.And(el >= sl, el <= uint(len(lineRunes))))
	rt.Assume(sc >= 1)
	rt.Assume(ec >= 1)
	for i, ln := range lineRunes {
		rt.Assume(rt.Implies(sl == uint(i+1), sc <= uint(ln+1)))
		rt.Assume(rt.Implies(el == uint(i+1), ec <= uint(ln+1)))
	}
	rt.Assume(rt.Implies(sl == el, sc <= ec))
	w := &vSink{}
	h := MakeAdvancedHandler("x.ddp", []byte(src), w)
	h(New(SYN_UNEXPECTED_TOKEN, LEVEL_ERROR, token.Range{Start: token.Position{Line: sl, Column: sc}, End: token.Position{Line: el, Column: ec}}, "msg", "x.ddp"))
	rt.Assert(true, "rendered without a fault")
}

func VerifC07Render1() { verifC07Render(1) }
func VerifC07Render2() { verifC07Render(2) }
func VerifC07Render3() { verifC07Render(3) }
func VerifC07Render4() { verifC07Render(4) }
