package smt

import "fmt"

// Subst replaces variables by terms (by name) and rebuilds the term with simplification.
func (c *Ctx) Subst(e *Expr, m map[string]*Expr) *Expr {
	memo := map[int]*Expr{}
	var walk func(x *Expr) *Expr
	walk = func(x *Expr) *Expr {
		if r, ok := memo[x.ID]; ok {
			return r
		}
		var r *Expr
		switch x.Op {
		case OConst:
			r = x
		case OVar:
			if t, ok := m[x.Name]; ok {
				r = t
			} else {
				r = x
			}
		default:
			args := make([]*Expr, len(x.Args))
			changed := false
			for i, a := range x.Args {
				args[i] = walk(a)
				if args[i] != a {
					changed = true
				}
			}
			if !changed {
				r = x
			} else {
				r = c.Rebuild(x, args)
			}
		}
		memo[x.ID] = r
		return r
	}
	return walk(e)
}

// Rebuild constructs the node x with new arguments through the simplifying constructors.
func (c *Ctx) Rebuild(x *Expr, a []*Expr) *Expr {
	switch x.Op {
	case ONot:
		return c.Not(a[0])
	case OAnd:
		return c.And(a...)
	case OOr:
		return c.Or(a...)
	case OIte:
		return c.Ite(a[0], a[1], a[2])
	case OEq:
		return c.Eq(a[0], a[1])
	case OAdd, OSub, OMul, OUDiv, OSDiv, OURem, OSRem, OBAnd, OBOr, OBXor, OShl, OLShr, OAShr:
		return c.bin(x.Op, a[0], a[1])
	case OBNot:
		return c.BNot(a[0])
	case ONeg:
		return c.Neg(a[0])
	case OULT, OULE, OSLT, OSLE:
		return c.cmp(x.Op, a[0], a[1])
	case OConcat:
		return c.Concat(a[0], a[1])
	case OExtract:
		return c.Extract(a[0], x.Hi, x.Lo)
	case OZExt:
		return c.ZExt(a[0], x.Sort.W)
	case OSExt:
		return c.SExt(a[0], x.Sort.W)
	case OSelect:
		return c.Select(a[0], a[1])
	case OStore:
		return c.Store(a[0], a[1], a[2])
	case OApp:
		return c.App(x.Name, x.Sort, a...)
	}
	return c.mk(Expr{Op: x.Op, Sort: x.Sort, Args: a, Val: x.Val, Name: x.Name, Hi: x.Hi, Lo: x.Lo})
}

// Vars returns the names of the free variables of e.
func Vars(e *Expr, into map[string]Sort) {
	seen := map[int]bool{}
	var walk func(x *Expr)
	walk = func(x *Expr) {
		if seen[x.ID] {
			return
		}
		seen[x.ID] = true
		if x.Op == OVar {
			into[x.Name] = x.Sort
		}
		for _, a := range x.Args {
			walk(a)
		}
	}
	walk(e)
}

// Eval evaluates a Bool/BV(<=64) term under an assignment of its variables. ok is false when
// the term uses an unsupported operator or an unassigned variable.
func Eval(e *Expr, env map[string]uint64) (val uint64, ok bool) {
	defer func() {
		if r := recover(); r != nil {
			ok = false
		}
	}()
	memo := map[int]uint64{}
	var ev func(x *Expr) uint64
	b2u := func(b bool) uint64 {
		if b {
			return 1
		}
		return 0
	}
	ev = func(x *Expr) uint64 {
		if v, ok := memo[x.ID]; ok {
			return v
		}
		var r uint64
		w := x.Sort.W
		switch x.Op {
		case OConst:
			r = x.Val
		case OVar:
			v, ok := env[x.Name]
			if !ok {
				panic("unassigned")
			}
			r = v & maskOr1(x.Sort)
		case ONot:
			r = 1 - ev(x.Args[0])
		case OAnd:
			r = 1
			for _, a := range x.Args {
				if ev(a) == 0 {
					r = 0
					break
				}
			}
		case OOr:
			r = 0
			for _, a := range x.Args {
				if ev(a) == 1 {
					r = 1
					break
				}
			}
		case OIte:
			if ev(x.Args[0]) == 1 {
				r = ev(x.Args[1])
			} else {
				r = ev(x.Args[2])
			}
		case OEq:
			if x.Args[0].Sort.K == KFP || x.Args[0].Sort.K == KArr || x.Args[0].Sort.W > 64 {
				panic("unsupported")
			}
			r = b2u(ev(x.Args[0]) == ev(x.Args[1]))
		case OAdd, OSub, OMul, OUDiv, OSDiv, OURem, OSRem, OBAnd, OBOr, OBXor, OShl, OLShr, OAShr:
			if w > 64 {
				panic("wide")
			}
			a, b := ev(x.Args[0]), ev(x.Args[1])
			m := mask(w)
			switch x.Op {
			case OAdd:
				r = (a + b) & m
			case OSub:
				r = (a - b) & m
			case OMul:
				r = (a * b) & m
			case OUDiv:
				if b == 0 {
					r = m
				} else {
					r = a / b
				}
			case OURem:
				if b == 0 {
					r = a
				} else {
					r = a % b
				}
			case OSDiv:
				sa, sb := sext64(a, w), sext64(b, w)
				switch {
				case sb == 0 && sa < 0:
					r = 1
				case sb == 0:
					r = m
				case sb == -1:
					r = uint64(-sa) & m
				default:
					r = uint64(sa/sb) & m
				}
			case OSRem:
				sa, sb := sext64(a, w), sext64(b, w)
				switch {
				case sb == 0:
					r = a
				case sb == -1:
					r = 0
				default:
					r = uint64(sa%sb) & m
				}
			case OBAnd:
				r = a & b
			case OBOr:
				r = a | b
			case OBXor:
				r = a ^ b
			case OShl:
				if b >= uint64(w) {
					r = 0
				} else {
					r = (a << b) & m
				}
			case OLShr:
				if b >= uint64(w) {
					r = 0
				} else {
					r = a >> b
				}
			case OAShr:
				if b >= uint64(w) {
					b = uint64(w - 1)
				}
				r = uint64(sext64(a, w)>>b) & m
			}
		case OBNot:
			r = ^ev(x.Args[0]) & mask(w)
		case ONeg:
			r = (-ev(x.Args[0])) & mask(w)
		case OULT:
			r = b2u(ev(x.Args[0]) < ev(x.Args[1]))
		case OULE:
			r = b2u(ev(x.Args[0]) <= ev(x.Args[1]))
		case OSLT:
			aw := x.Args[0].Sort.W
			r = b2u(sext64(ev(x.Args[0]), aw) < sext64(ev(x.Args[1]), aw))
		case OSLE:
			aw := x.Args[0].Sort.W
			r = b2u(sext64(ev(x.Args[0]), aw) <= sext64(ev(x.Args[1]), aw))
		case OConcat:
			if w > 64 {
				panic("wide")
			}
			r = ev(x.Args[0])<<uint(x.Args[1].Sort.W) | ev(x.Args[1])
		case OExtract:
			if x.Args[0].Sort.W > 64 {
				panic("wide")
			}
			r = (ev(x.Args[0]) >> uint(x.Lo)) & mask(w)
		case OZExt:
			if w > 64 {
				panic("wide")
			}
			r = ev(x.Args[0])
		case OSExt:
			if w > 64 {
				panic("wide")
			}
			r = uint64(sext64(ev(x.Args[0]), x.Args[0].Sort.W)) & mask(w)
		default:
			panic(fmt.Sprintf("eval: op %d", x.Op))
		}
		memo[x.ID] = r
		return r
	}
	return ev(e), true
}

func maskOr1(s Sort) uint64 {
	if s.K == KBool {
		return 1
	}
	return mask(s.W)
}
