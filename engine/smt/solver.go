package smt

import (
	"bufio"
	"fmt"
	"io"
	"math"
	"os/exec"
	"sort"
	"strconv"
	"strings"
	"sync"
	"sync/atomic"
	"time"
)

type Result int

const (
	Unsat Result = iota
	Sat
	Unknown
)

func (r Result) String() string { return [...]string{"unsat", "sat", "unknown"}[r] }

// Stats are global counters shared by all solver processes (atomic).
type Stats struct {
	Queries      int64
	Sat          int64
	Unsat        int64
	Unknown      int64
	NanosSum     int64
	Diffed       int64
	DiffBad      int64
	HardTimeouts int64 // queries ended by the wall-clock watchdog (solver process killed)
}

var Global Stats

type Solver struct {
	Kind    string // "z3", "z3-new", "cvc5"
	cmd     *exec.Cmd
	in      io.WriteCloser
	out     *bufio.Reader
	Timeout time.Duration
	mu      sync.Mutex
	Log     io.Writer // optional transcript
	dead    bool
}

func NewSolver(kind string, timeout time.Duration) (*Solver, error) {
	var cmd *exec.Cmd
	ms := int(timeout / time.Millisecond)
	switch kind {
	case "z3":
		cmd = exec.Command("z3", "-in", "-smt2", fmt.Sprintf("-t:%d", ms))
	case "z3-new":
		cmd = exec.Command("z3-new", "-in", "-smt2", fmt.Sprintf("-t:%d", ms))
	case "cvc5":
		cmd = exec.Command("cvc5", "--incremental", "--lang=smt2", "--produce-models", "--fp-exp", fmt.Sprintf("--tlimit-per=%d", ms))
	default:
		return nil, fmt.Errorf("unknown solver %q", kind)
	}
	in, err := cmd.StdinPipe()
	if err != nil {
		return nil, err
	}
	out, err := cmd.StdoutPipe()
	if err != nil {
		return nil, err
	}
	cmd.Stderr = cmd.Stdout
	if err := cmd.Start(); err != nil {
		return nil, err
	}
	s := &Solver{Kind: kind, cmd: cmd, in: in, out: bufio.NewReaderSize(out, 1<<20), Timeout: timeout}
	s.send("(set-option :produce-models true)\n")
	if kind == "cvc5" {
		s.send("(set-logic ALL)\n")
	}
	return s, nil
}

func (s *Solver) Close() {
	if s == nil || s.dead {
		return
	}
	s.dead = true
	s.in.Close()
	done := make(chan struct{})
	go func() { s.cmd.Wait(); close(done) }()
	select {
	case <-done:
	case <-time.After(2 * time.Second):
		s.cmd.Process.Kill()
	}
}

func (s *Solver) send(txt string) {
	if s.Log != nil {
		io.WriteString(s.Log, txt)
	}
	io.WriteString(s.in, txt)
}

// readSexp reads one line or one balanced s-expression from the solver.
func (s *Solver) readSexp() (string, error) {
	var sb strings.Builder
	depth := 0
	started := false
	inBar := false
	inStr := false
	for {
		b, err := s.out.ReadByte()
		if err != nil {
			return sb.String(), err
		}
		if !started {
			if b == ' ' || b == '\n' || b == '\r' || b == '\t' {
				continue
			}
			started = true
		}
		sb.WriteByte(b)
		switch {
		case inBar:
			if b == '|' {
				inBar = false
			}
		case inStr:
			if b == '"' {
				inStr = false
			}
		case b == '|':
			inBar = true
		case b == '"':
			inStr = true
		case b == '(':
			depth++
		case b == ')':
			depth--
			if depth == 0 {
				return sb.String(), nil
			}
		case b == '\n':
			if depth == 0 {
				return strings.TrimSpace(sb.String()), nil
			}
		}
	}
}

// Model maps variable names (and requested expression ids) to concrete values.
type Model struct {
	Vals map[string]uint64 // BV (<=64) bits, bool 0/1, FP bits
}

func (m *Model) U(name string) uint64 { return m.Vals[name] }
func (m *Model) Has(name string) bool { _, ok := m.Vals[name]; return ok }

// Check decides satisfiability of the conjunction of asserts. If want is non-nil and the
// result is Sat, the values of those expressions are returned (keyed by Var name, or "#<id>").
func (s *Solver) Check(c *Ctx, asserts []*Expr, want []*Expr) (Result, *Model, string) {
	return s.CheckOpt(c, asserts, want, false)
}

// CheckOpt is Check with the option to abstract double arithmetic (add, sub, mul, div, rem) into
// uninterpreted functions: an over-approximation, so Unsat remains sound while Sat may be spurious.
func (s *Solver) CheckOpt(c *Ctx, asserts []*Expr, want []*Expr, abstractFP bool) (Result, *Model, string) {
	s.mu.Lock()
	defer s.mu.Unlock()
	t0 := time.Now()
	defer func() {
		atomic.AddInt64(&Global.Queries, 1)
		atomic.AddInt64(&Global.NanosSum, int64(time.Since(t0)))
	}()
	if s.dead {
		atomic.AddInt64(&Global.Unknown, 1)
		return Unknown, nil, "solver dead"
	}
	var sb strings.Builder
	sb.WriteString("(push 1)\n")
	p := newPrinter(c, &sb)
	p.abstractFP = abstractFP
	roots := append(append([]*Expr{}, asserts...), want...)
	p.declare(roots)
	for _, a := range asserts {
		sb.WriteString("(assert ")
		sb.WriteString(p.ref(a))
		sb.WriteString(")\n")
	}
	sb.WriteString("(check-sat)\n")
	s.send(sb.String())
	// the solver's own soft time limit is not always honoured (some tactics do not poll it, and
	// memory keeps growing meanwhile): a wall-clock watchdog kills the process, the verdict is unknown
	type answer struct {
		line string
		err  error
	}
	ch := make(chan answer, 1)
	go func() {
		l, e := s.readSexp()
		ch <- answer{l, e}
	}()
	hard := s.Timeout + 20*time.Second
	var line string
	var err error
	select {
	case a := <-ch:
		line, err = a.line, a.err
	case <-time.After(hard):
		s.dead = true
		s.cmd.Process.Kill()
		<-ch
		atomic.AddInt64(&Global.Unknown, 1)
		atomic.AddInt64(&Global.HardTimeouts, 1)
		return Unknown, nil, "solver killed after the hard time limit"
	}
	if err != nil {
		s.dead = true
		atomic.AddInt64(&Global.Unknown, 1)
		return Unknown, nil, "solver io: " + err.Error() + " " + line
	}
	var res Result
	switch line {
	case "sat":
		res = Sat
	case "unsat":
		res = Unsat
	case "unknown", "timeout":
		res = Unknown
	default:
		// error line: inconclusive. Drain by restarting the scope.
		s.send("(pop 1)\n")
		atomic.AddInt64(&Global.Unknown, 1)
		return Unknown, nil, "solver said: " + line
	}
	var model *Model
	note := ""
	if res == Sat && len(want) > 0 {
		var q strings.Builder
		q.WriteString("(get-value (")
		for _, w := range want {
			q.WriteString(p.ref(w))
			q.WriteByte(' ')
		}
		q.WriteString("))\n")
		s.send(q.String())
		txt, err := s.readSexp()
		if err != nil || strings.HasPrefix(txt, "(error") {
			note = "get-value failed: " + txt
		} else {
			model = &Model{Vals: map[string]uint64{}}
			vals := parseValueList(txt)
			if len(vals) != len(want) {
				note = fmt.Sprintf("get-value arity %d != %d: %s", len(vals), len(want), txt)
			}
			for i, w := range want {
				if i >= len(vals) {
					break
				}
				key := fmt.Sprintf("#%d", w.ID)
				if w.Op == OVar {
					key = w.Name
				}
				v, ok := parseValue(vals[i])
				if ok {
					model.Vals[key] = v
				} else {
					note += " unparsed value " + vals[i]
				}
			}
		}
	}
	s.send("(pop 1)\n")
	switch res {
	case Sat:
		atomic.AddInt64(&Global.Sat, 1)
	case Unsat:
		atomic.AddInt64(&Global.Unsat, 1)
	default:
		atomic.AddInt64(&Global.Unknown, 1)
	}
	return res, model, note
}

// ---- printing

type printer struct {
	c     *Ctx
	sb    *strings.Builder
	named map[int]string
	refs  map[int]int

	abstractFP bool
	usedAbs    map[string]bool
}

func newPrinter(c *Ctx, sb *strings.Builder) *printer {
	return &printer{c: c, sb: sb, named: map[int]string{}, refs: map[int]int{}}
}

func (p *printer) declare(roots []*Expr) {
	// count references, collect vars and UFs, emit define-funs for shared nodes in topological order
	var order []*Expr
	seen := map[int]bool{}
	vars := map[string]Sort{}
	ufs := map[string]bool{}
	var walk func(e *Expr)
	walk = func(e *Expr) {
		p.refs[e.ID]++
		if seen[e.ID] {
			return
		}
		seen[e.ID] = true
		for _, a := range e.Args {
			walk(a)
		}
		if e.Op == OVar {
			vars[e.Name] = e.Sort
		}
		if e.Op == OApp {
			ufs[e.Name] = true
		}
		order = append(order, e)
	}
	for _, r := range roots {
		walk(r)
	}
	names := make([]string, 0, len(vars))
	for n := range vars {
		names = append(names, n)
	}
	sort.Strings(names)
	for _, n := range names {
		fmt.Fprintf(p.sb, "(declare-const %s %s)\n", smtName(n), vars[n])
	}
	unames := make([]string, 0, len(ufs))
	for n := range ufs {
		unames = append(unames, n)
	}
	sort.Strings(unames)
	for _, n := range unames {
		sig := p.c.UFs[n]
		fmt.Fprintf(p.sb, "(declare-fun %s (", smtName(n))
		for _, s := range sig[:len(sig)-1] {
			p.sb.WriteString(s.String())
			p.sb.WriteByte(' ')
		}
		fmt.Fprintf(p.sb, ") %s)\n", sig[len(sig)-1])
	}
	if p.abstractFP {
		for _, e := range order {
			if n, ok := absFPName[e.Op]; ok && !ufs[n] {
				ufs[n] = true
				fmt.Fprintf(p.sb, "(declare-fun %s (%s %s) %s)\n", n, FP, FP, FP)
			}
		}
	}
	var side []string
	for _, e := range order {
		if e.Op == OConst || e.Op == OVar {
			continue
		}
		if e.Op == OFPToBits {
			// standard-conforming encoding of the IEEE bit pattern: a fresh vector whose to_fp is the value
			name := fmt.Sprintf("tb!%d", e.ID)
			fmt.Fprintf(p.sb, "(declare-const %s (_ BitVec 64))\n", name)
			side = append(side, fmt.Sprintf("(assert (= ((_ to_fp 11 53) %s) %s))\n", name, p.ref(e.Args[0])))
			p.named[e.ID] = name
			continue
		}
		if p.refs[e.ID] > 1 || len(e.Args) > 0 && e.Size1() > 0 {
			// name every interior node: keeps lines short and sharing explicit
			body := p.body(e)
			name := fmt.Sprintf("e%d", e.ID)
			fmt.Fprintf(p.sb, "(define-fun %s () %s %s)\n", name, e.Sort, body)
			p.named[e.ID] = name
		}
	}
	for _, a := range side {
		p.sb.WriteString(a)
	}
}

// Size1 reports whether the node has any non-leaf argument (worth naming).
func (e *Expr) Size1() int {
	for _, a := range e.Args {
		if a.Op != OConst && a.Op != OVar {
			return 1
		}
	}
	return 0
}

func (p *printer) ref(e *Expr) string {
	if n, ok := p.named[e.ID]; ok {
		return n
	}
	switch e.Op {
	case OConst:
		return constStr(e)
	case OVar:
		return smtName(e.Name)
	}
	return p.body(e)
}

var absFPName = map[Op]string{OFAdd: "abs.fadd", OFSub: "abs.fsub", OFMul: "abs.fmul", OFDiv: "abs.fdiv", OFRem: "abs.frem"}

func (p *printer) body(e *Expr) string {
	var sb strings.Builder
	sb.WriteByte('(')
	args := e.Args
	if n, ok := absFPName[e.Op]; ok && p.abstractFP {
		sb.WriteString(n)
		if (e.Op == OFAdd || e.Op == OFMul) && args[0].ID > args[1].ID {
			args = []*Expr{args[1], args[0]}
		}
	} else {
		sb.WriteString(headStr(e))
	}
	for _, a := range args {
		sb.WriteByte(' ')
		sb.WriteString(p.ref(a))
	}
	sb.WriteByte(')')
	return sb.String()
}

// ---- value parsing

// parseValueList splits "((a v) (b v))" into the v parts.
func parseValueList(txt string) []string {
	txt = strings.TrimSpace(txt)
	if len(txt) < 2 {
		return nil
	}
	txt = txt[1 : len(txt)-1]
	var out []string
	i := 0
	for i < len(txt) {
		if txt[i] != '(' {
			i++
			continue
		}
		// find matching paren for the pair
		depth := 0
		j := i
		inBar := false
		for ; j < len(txt); j++ {
			ch := txt[j]
			if inBar {
				if ch == '|' {
					inBar = false
				}
				continue
			}
			if ch == '|' {
				inBar = true
			} else if ch == '(' {
				depth++
			} else if ch == ')' {
				depth--
				if depth == 0 {
					break
				}
			}
		}
		pair := txt[i+1 : j]
		// the first element is the term, the second the value: split at top level
		k := splitFirst(pair)
		out = append(out, strings.TrimSpace(pair[k:]))
		i = j + 1
	}
	return out
}

// splitFirst returns the index just after the first top-level s-expression in s.
func splitFirst(s string) int {
	i := 0
	for i < len(s) && (s[i] == ' ' || s[i] == '\n') {
		i++
	}
	if i < len(s) && s[i] == '(' {
		depth := 0
		inBar := false
		for ; i < len(s); i++ {
			ch := s[i]
			if inBar {
				if ch == '|' {
					inBar = false
				}
				continue
			}
			if ch == '|' {
				inBar = true
			} else if ch == '(' {
				depth++
			} else if ch == ')' {
				depth--
				if depth == 0 {
					return i + 1
				}
			}
		}
		return len(s)
	}
	if i < len(s) && s[i] == '|' {
		i++
		for i < len(s) && s[i] != '|' {
			i++
		}
		return i + 1
	}
	for i < len(s) && s[i] != ' ' && s[i] != '\n' {
		i++
	}
	return i
}

func parseValue(v string) (uint64, bool) {
	v = strings.TrimSpace(v)
	switch {
	case v == "true":
		return 1, true
	case v == "false":
		return 0, true
	case strings.HasPrefix(v, "#x"):
		if len(v) > 18 {
			return 0, false
		}
		u, err := strconv.ParseUint(v[2:], 16, 64)
		return u, err == nil
	case strings.HasPrefix(v, "#b"):
		if len(v) > 66 {
			return 0, false
		}
		u, err := strconv.ParseUint(v[2:], 2, 64)
		return u, err == nil
	case strings.HasPrefix(v, "(fp "):
		f := strings.Fields(strings.Trim(v, "()"))
		if len(f) != 4 {
			return 0, false
		}
		s, ok1 := parseValue(f[1])
		e, ok2 := parseValue(f[2])
		m, ok3 := parseValue(f[3])
		return s<<63 | e<<52 | m, ok1 && ok2 && ok3
	case strings.HasPrefix(v, "(_ +zero"):
		return 0, true
	case strings.HasPrefix(v, "(_ -zero"):
		return 1 << 63, true
	case strings.HasPrefix(v, "(_ +oo"):
		return math.Float64bits(math.Inf(1)), true
	case strings.HasPrefix(v, "(_ -oo"):
		return math.Float64bits(math.Inf(-1)), true
	case strings.HasPrefix(v, "(_ NaN"):
		return math.Float64bits(math.NaN()), true
	case strings.HasPrefix(v, "(_ bv"):
		f := strings.Fields(strings.Trim(v, "()"))
		if len(f) >= 2 {
			u, err := strconv.ParseUint(strings.TrimPrefix(f[1], "bv"), 10, 64)
			return u, err == nil
		}
	}
	return 0, false
}

// Script renders a standalone SMT-LIB2 script for the query (for logs / replays / diffing).
func Script(c *Ctx, asserts []*Expr) string {
	var sb strings.Builder
	p := newPrinter(c, &sb)
	p.declare(asserts)
	for _, a := range asserts {
		sb.WriteString("(assert ")
		sb.WriteString(p.ref(a))
		sb.WriteString(")\n")
	}
	sb.WriteString("(check-sat)\n")
	return sb.String()
}

// HasFPArith reports whether any of the expressions contains double arithmetic.
func HasFPArith(es []*Expr) bool {
	seen := map[int]bool{}
	var walk func(e *Expr) bool
	walk = func(e *Expr) bool {
		if seen[e.ID] {
			return false
		}
		seen[e.ID] = true
		if _, ok := absFPName[e.Op]; ok {
			return true
		}
		for _, a := range e.Args {
			if walk(a) {
				return true
			}
		}
		return false
	}
	for _, e := range es {
		if walk(e) {
			return true
		}
	}
	return false
}

// Prover is a portfolio: z3 (kept alive) answers first, with double arithmetic abstracted into
// uninterpreted functions when present; a Sat answer under abstraction is re-decided precisely by
// cvc5 (z3 does not finish 64-bit fp.div). A sample of Unsat verdicts is re-asked to a second
// solver; a disagreement downgrades the verdict to Unknown.
type Prover struct {
	C        *Ctx
	Timeout  time.Duration
	DiffRate int // re-ask every n-th unsat verdict to the second solver (0 = never)
	z3       *Solver
	cvc5     *Solver
	nUnsat   int
	Notes    []string
}

func NewProver(c *Ctx, timeout time.Duration, diffRate int) *Prover {
	return &Prover{C: c, Timeout: timeout, DiffRate: diffRate}
}

func (p *Prover) getZ3() *Solver {
	if p.z3 == nil || p.z3.dead {
		s, err := NewSolver("z3", p.Timeout)
		if err != nil {
			panic(err)
		}
		p.z3 = s
	}
	return p.z3
}
func (p *Prover) getCVC5() *Solver {
	if p.cvc5 == nil || p.cvc5.dead {
		s, err := NewSolver("cvc5", p.Timeout)
		if err != nil {
			panic(err)
		}
		p.cvc5 = s
	}
	return p.cvc5
}

func (p *Prover) Close() {
	p.z3.Close()
	p.cvc5.Close()
}

func (p *Prover) Check(asserts []*Expr, want []*Expr) (Result, *Model, string) {
	// trivial cases without a solver
	all := p.C.And(asserts...)
	if all.IsFalse() {
		return Unsat, nil, "folded"
	}
	fp := HasFPArith(asserts)
	r, m, note := p.getZ3().CheckOpt(p.C, asserts, want, fp)
	if r == Unsat {
		p.nUnsat++
		if p.DiffRate > 0 && p.nUnsat%p.DiffRate == 0 {
			atomic.AddInt64(&Global.Diffed, 1)
			r2, _, n2 := p.getCVC5().CheckOpt(p.C, asserts, nil, false)
			if r2 == Sat {
				atomic.AddInt64(&Global.DiffBad, 1)
				p.Notes = append(p.Notes, "solver disagreement: z3 unsat, cvc5 sat "+n2)
				return Unknown, nil, "solver disagreement"
			}
		}
		return r, m, note
	}
	if !fp {
		if r == Unknown {
			// second opinion
			r2, m2, n2 := p.getCVC5().CheckOpt(p.C, asserts, want, false)
			if r2 != Unknown {
				return r2, m2, n2
			}
		}
		return r, m, note
	}
	// Sat or Unknown under abstraction: decide precisely
	r2, m2, n2 := p.getCVC5().CheckOpt(p.C, asserts, want, false)
	if r2 == Unknown {
		r3, m3, n3 := p.getZ3().CheckOpt(p.C, asserts, want, false)
		if r3 != Unknown {
			return r3, m3, n3
		}
	}
	return r2, m2, n2
}
