package smt

import (
	"testing"
	"time"
)

func TestBasic(t *testing.T) {
	for _, k := range []string{"z3", "z3-new", "cvc5"} {
		s, err := NewSolver(k, 20*time.Second)
		if err != nil {
			t.Fatal(err)
		}
		c := NewCtx()
		x := c.Var("x", BVSort(64))
		y := c.Var("y", BVSort(8))
		f := c.Var("f", FP)
		// x+1 < x signed has a model (x = max)
		r, m, note := s.Check(c, []*Expr{c.SLT(c.Add(x, c.BV(64, 1)), x)}, []*Expr{x})
		if r != Sat || m.U("x") != 0x7fffffffffffffff {
			t.Fatalf("%s: %v %v %s", k, r, m, note)
		}
		// sitofp(y) != uitofp(y) needs y >= 128
		pr := NewProver(c, 20*time.Second, 1)
		r, m, note = pr.Check([]*Expr{c.Not(c.Eq(c.FDiv(c.SIToFP(y), f), c.FDiv(c.UIToFP(y), f)))}, []*Expr{y, f})
		if r != Sat || m.U("y") < 128 {
			t.Fatalf("%s: %v %v %s", k, r, m, note)
		}
		t.Logf("%s y=%d f=%x", k, m.U("y"), m.U("f"))
		pr.Close()
		r, _, note = s.Check(c, []*Expr{c.ULT(x, c.BV(64, 5)), c.UGT(x, c.BV(64, 7))}, nil)
		if r != Unsat {
			t.Fatalf("%s: %v %s", k, r, note)
		}
		arr := c.Var("A", Arr)
		i := c.Var("i", BVSort(64))
		a2 := c.Store(arr, i, c.BV(8, 7))
		r, _, note = s.Check(c, []*Expr{c.Ne(c.Select(a2, i), c.BV(8, 7))}, nil)
		if r != Unsat {
			t.Fatalf("%s arr: %v %s", k, r, note)
		}
		p := c.App("pow", FP, f, f)
		r, _, note = s.Check(c, []*Expr{c.Ne(p, c.App("pow", FP, f, f))}, nil)
		if r != Unsat {
			t.Fatalf("%s uf: %v %s", k, r, note)
		}
		r, m, note = s.Check(c, []*Expr{c.Eq(c.FPToBits(f), c.BV(64, 0x3ff0000000000000))}, []*Expr{f})
		t.Logf("%s tobits: %v %v %s", k, r, m, note)
		s.Close()
	}
}
