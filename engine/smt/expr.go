// Package smt is a small hash-consed expression DAG over Bool, fixed-width bit-vectors,
// IEEE double, and byte arrays (BV64 -> BV8), with constant folding and an SMT-LIB2 printer.
package smt

import (
	"fmt"
	"math"
	"math/bits"
	"strings"
)

type SortKind uint8

const (
	KBool SortKind = iota
	KBV
	KFP  // IEEE binary64
	KArr // (Array (_ BitVec 64) (_ BitVec 8))
)

type Sort struct {
	K SortKind
	W int
}

var (
	Bool = Sort{KBool, 0}
	FP   = Sort{KFP, 0}
	Arr  = Sort{KArr, 0}
)

func BVSort(w int) Sort { return Sort{KBV, w} }

func (s Sort) String() string {
	switch s.K {
	case KBool:
		return "Bool"
	case KBV:
		return fmt.Sprintf("(_ BitVec %d)", s.W)
	case KFP:
		return "(_ FloatingPoint 11 53)"
	default:
		return "(Array (_ BitVec 64) (_ BitVec 8))"
	}
}

type Op uint8

const (
	OConst Op = iota
	OVar
	ONot
	OAnd
	OOr
	OXorB
	OIte
	OEq
	// bit-vector
	OAdd
	OSub
	OMul
	OUDiv
	OSDiv
	OURem
	OSRem
	OBAnd
	OBOr
	OBXor
	OBNot
	ONeg
	OShl
	OLShr
	OAShr
	OULT
	OULE
	OSLT
	OSLE
	OConcat
	OExtract
	OZExt
	OSExt
	// floating point
	OFAdd
	OFSub
	OFMul
	OFDiv
	OFRem
	OFNeg
	OFAbs
	OFEq
	OFLt
	OFLe
	OFIsNaN
	OFIsInf
	OSIToFP
	OUIToFP
	OFPToSI
	OFPToUI
	OFPFromBits
	OFPToBits
	OFRoundRTZ // round to integral, toward zero
	OFRoundRTP // ceil
	OFRoundRTN // floor
	// arrays
	OSelect
	OStore
	// uninterpreted function application
	OApp
)

var opNames = map[Op]string{
	ONot: "not", OAnd: "and", OOr: "or", OXorB: "xor", OIte: "ite", OEq: "=",
	OAdd: "bvadd", OSub: "bvsub", OMul: "bvmul", OUDiv: "bvudiv", OSDiv: "bvsdiv", OURem: "bvurem", OSRem: "bvsrem",
	OBAnd: "bvand", OBOr: "bvor", OBXor: "bvxor", OBNot: "bvnot", ONeg: "bvneg", OShl: "bvshl", OLShr: "bvlshr", OAShr: "bvashr",
	OULT: "bvult", OULE: "bvule", OSLT: "bvslt", OSLE: "bvsle", OConcat: "concat",
	OFAdd: "fp.add RNE", OFSub: "fp.sub RNE", OFMul: "fp.mul RNE", OFDiv: "fp.div RNE", OFRem: "fp.rem", OFNeg: "fp.neg", OFAbs: "fp.abs",
	OFEq: "fp.eq", OFLt: "fp.lt", OFLe: "fp.leq", OFIsNaN: "fp.isNaN", OFIsInf: "fp.isInfinite",
	OFRoundRTZ: "fp.roundToIntegral RTZ", OFRoundRTP: "fp.roundToIntegral RTP", OFRoundRTN: "fp.roundToIntegral RTN",
	OSelect: "select", OStore: "store",
}

type Expr struct {
	Op   Op
	Sort Sort
	Args []*Expr
	Val  uint64 // constant payload (bool 0/1, bv <=64 bit, fp bits)
	Name string // var / UF name
	Hi   int    // extract hi / ext amount / target width
	Lo   int
	ID   int
}

type Ctx struct {
	tab   map[string]*Expr
	n     int
	fresh int
	UFs   map[string][]Sort // name -> arg sorts + ret sort (last)
}

func NewCtx() *Ctx { return &Ctx{tab: map[string]*Expr{}, UFs: map[string][]Sort{}} }

func (c *Ctx) mk(e Expr) *Expr {
	var sb strings.Builder
	fmt.Fprintf(&sb, "%d|%d.%d|%d|%s|%d|%d|", e.Op, e.Sort.K, e.Sort.W, e.Val, e.Name, e.Hi, e.Lo)
	for _, a := range e.Args {
		fmt.Fprintf(&sb, "%d,", a.ID)
	}
	k := sb.String()
	if x, ok := c.tab[k]; ok {
		return x
	}
	c.n++
	e.ID = c.n
	p := &e
	c.tab[k] = p
	return p
}

func mask(w int) uint64 {
	if w >= 64 {
		return ^uint64(0)
	}
	return (uint64(1) << uint(w)) - 1
}

func sext64(v uint64, w int) int64 {
	if w >= 64 {
		return int64(v)
	}
	sh := uint(64 - w)
	return int64(v<<sh) >> sh
}

// ---- constructors: constants and variables

func (c *Ctx) True() *Expr  { return c.mk(Expr{Op: OConst, Sort: Bool, Val: 1}) }
func (c *Ctx) False() *Expr { return c.mk(Expr{Op: OConst, Sort: Bool, Val: 0}) }
func (c *Ctx) BoolC(b bool) *Expr {
	if b {
		return c.True()
	}
	return c.False()
}

func (c *Ctx) BV(w int, v uint64) *Expr {
	if w > 64 {
		// wide constant: zero-extended 64 bit constant
		return c.ZExt(c.BV(64, v), w)
	}
	return c.mk(Expr{Op: OConst, Sort: BVSort(w), Val: v & mask(w)})
}
func (c *Ctx) BVs(w int, v int64) *Expr {
	if w > 64 {
		return c.SExt(c.BV(64, uint64(v)), w)
	}
	return c.BV(w, uint64(v))
}
func (c *Ctx) FPC(f float64) *Expr {
	return c.mk(Expr{Op: OConst, Sort: FP, Val: math.Float64bits(f)})
}
func (c *Ctx) FPBitsC(b uint64) *Expr { return c.mk(Expr{Op: OConst, Sort: FP, Val: b}) }

func (c *Ctx) Var(name string, s Sort) *Expr { return c.mk(Expr{Op: OVar, Sort: s, Name: name}) }
func (c *Ctx) Fresh(prefix string, s Sort) *Expr {
	c.fresh++
	return c.Var(fmt.Sprintf("%s!%d", prefix, c.fresh), s)
}

func (e *Expr) IsConst() bool { return e.Op == OConst }
func (e *Expr) IsTrue() bool  { return e.Op == OConst && e.Sort.K == KBool && e.Val == 1 }
func (e *Expr) IsFalse() bool { return e.Op == OConst && e.Sort.K == KBool && e.Val == 0 }
func (e *Expr) ConstU() (uint64, bool) {
	if e.Op == OConst && e.Sort.K == KBV && e.Sort.W <= 64 {
		return e.Val, true
	}
	return 0, false
}
func (e *Expr) ConstS() (int64, bool) {
	if v, ok := e.ConstU(); ok {
		return sext64(v, e.Sort.W), true
	}
	return 0, false
}

// ---- boolean

func (c *Ctx) Not(a *Expr) *Expr {
	if a.Op == OConst {
		return c.BoolC(a.Val == 0)
	}
	if a.Op == ONot {
		return a.Args[0]
	}
	return c.mk(Expr{Op: ONot, Sort: Bool, Args: []*Expr{a}})
}

func (c *Ctx) And(as ...*Expr) *Expr {
	var out []*Expr
	seen := map[int]bool{}
	for _, a := range as {
		if a.IsTrue() {
			continue
		}
		if a.IsFalse() {
			return a
		}
		if a.Op == OAnd {
			for _, b := range a.Args {
				if !seen[b.ID] {
					seen[b.ID] = true
					out = append(out, b)
				}
			}
			continue
		}
		if !seen[a.ID] {
			seen[a.ID] = true
			out = append(out, a)
		}
	}
	for _, a := range out {
		if a.Op == ONot && seen[a.Args[0].ID] {
			return c.False()
		}
	}
	switch len(out) {
	case 0:
		return c.True()
	case 1:
		return out[0]
	}
	return c.mk(Expr{Op: OAnd, Sort: Bool, Args: out})
}

func (c *Ctx) Or(as ...*Expr) *Expr {
	var out []*Expr
	seen := map[int]bool{}
	for _, a := range as {
		if a.IsFalse() {
			continue
		}
		if a.IsTrue() {
			return a
		}
		if a.Op == OOr {
			for _, b := range a.Args {
				if !seen[b.ID] {
					seen[b.ID] = true
					out = append(out, b)
				}
			}
			continue
		}
		if !seen[a.ID] {
			seen[a.ID] = true
			out = append(out, a)
		}
	}
	for _, a := range out {
		if a.Op == ONot && seen[a.Args[0].ID] {
			return c.True()
		}
	}
	switch len(out) {
	case 0:
		return c.False()
	case 1:
		return out[0]
	}
	return c.mk(Expr{Op: OOr, Sort: Bool, Args: out})
}

func (c *Ctx) Implies(a, b *Expr) *Expr { return c.Or(c.Not(a), b) }
func (c *Ctx) Iff(a, b *Expr) *Expr     { return c.Eq(a, b) }
func (c *Ctx) XorB(a, b *Expr) *Expr    { return c.Not(c.Eq(a, b)) }

func (c *Ctx) Ite(g, a, b *Expr) *Expr {
	if g.IsTrue() {
		return a
	}
	if g.IsFalse() {
		return b
	}
	if a == b {
		return a
	}
	if a.Sort != b.Sort {
		panic(fmt.Sprintf("smt.Ite sort mismatch %v %v", a.Sort, b.Sort))
	}
	if a.Sort.K == KBool {
		if a.IsTrue() && b.IsFalse() {
			return g
		}
		if a.IsFalse() && b.IsTrue() {
			return c.Not(g)
		}
		if a.IsTrue() {
			return c.Or(g, b)
		}
		if a.IsFalse() {
			return c.And(c.Not(g), b)
		}
		if b.IsTrue() {
			return c.Or(c.Not(g), a)
		}
		if b.IsFalse() {
			return c.And(g, a)
		}
	}
	return c.mk(Expr{Op: OIte, Sort: a.Sort, Args: []*Expr{g, a, b}})
}

func (c *Ctx) Eq(a, b *Expr) *Expr {
	if a.Sort != b.Sort {
		panic(fmt.Sprintf("smt.Eq sort mismatch %v %v: %s / %s", a.Sort, b.Sort, a.Short(), b.Short()))
	}
	if a == b {
		return c.True()
	}
	if a.Op == OConst && b.Op == OConst {
		if a.Sort.K == KFP {
			// structural equality on FP: all NaNs are one value
			fa, fb := math.Float64frombits(a.Val), math.Float64frombits(b.Val)
			if fa != fa && fb != fb {
				return c.True()
			}
		}
		return c.BoolC(a.Val == b.Val)
	}
	if a.Sort.K == KBool {
		if a.IsTrue() {
			return b
		}
		if b.IsTrue() {
			return a
		}
		if a.IsFalse() {
			return c.Not(b)
		}
		if b.IsFalse() {
			return c.Not(a)
		}
	}
	if a.ID > b.ID {
		a, b = b, a
	}
	// ite(g,c1,c2) == c3 with constants
	if b.Op == OConst && a.Op == OIte && a.Args[1].Op == OConst && a.Args[2].Op == OConst && a.Sort.K != KFP {
		return c.Ite(a.Args[0], c.Eq(a.Args[1], b), c.Eq(a.Args[2], b))
	}
	if a.Op == OConst && b.Op == OIte && b.Args[1].Op == OConst && b.Args[2].Op == OConst && a.Sort.K != KFP {
		return c.Ite(b.Args[0], c.Eq(b.Args[1], a), c.Eq(b.Args[2], a))
	}
	return c.mk(Expr{Op: OEq, Sort: Bool, Args: []*Expr{a, b}})
}
func (c *Ctx) Ne(a, b *Expr) *Expr { return c.Not(c.Eq(a, b)) }

// ---- bit-vectors

func (c *Ctx) bin(op Op, a, b *Expr) *Expr {
	if a.Sort != b.Sort || a.Sort.K != KBV {
		panic(fmt.Sprintf("smt bv binop %s sort mismatch %v %v", opNames[op], a.Sort, b.Sort))
	}
	w := a.Sort.W
	av, aok := a.ConstU()
	bv, bok := b.ConstU()
	if aok && bok {
		m := mask(w)
		switch op {
		case OAdd:
			return c.BV(w, av+bv)
		case OSub:
			return c.BV(w, av-bv)
		case OMul:
			return c.BV(w, av*bv)
		case OUDiv:
			if bv == 0 {
				return c.BV(w, m)
			}
			return c.BV(w, av/bv)
		case OURem:
			if bv == 0 {
				return c.BV(w, av)
			}
			return c.BV(w, av%bv)
		case OSDiv:
			sa, sb := sext64(av, w), sext64(bv, w)
			if sb == 0 {
				if sa < 0 {
					return c.BV(w, 1)
				}
				return c.BV(w, m)
			}
			if sb == -1 {
				return c.BV(w, uint64(-sa))
			}
			return c.BV(w, uint64(sa/sb))
		case OSRem:
			sa, sb := sext64(av, w), sext64(bv, w)
			if sb == 0 {
				return c.BV(w, av)
			}
			if sb == -1 {
				return c.BV(w, 0)
			}
			return c.BV(w, uint64(sa%sb))
		case OBAnd:
			return c.BV(w, av&bv)
		case OBOr:
			return c.BV(w, av|bv)
		case OBXor:
			return c.BV(w, av^bv)
		case OShl:
			if bv >= uint64(w) {
				return c.BV(w, 0)
			}
			return c.BV(w, av<<bv)
		case OLShr:
			if bv >= uint64(w) {
				return c.BV(w, 0)
			}
			return c.BV(w, av>>bv)
		case OAShr:
			sa := sext64(av, w)
			if bv >= uint64(w) {
				bv = uint64(w - 1)
			}
			return c.BV(w, uint64(sa>>bv))
		}
	}
	switch op {
	case OAdd:
		if aok && av == 0 {
			return b
		}
		if bok && bv == 0 {
			return a
		}
		// normalise constants to the right and fold (x + c1) + c2
		if aok {
			a, b = b, a
			av, bv, aok, bok = bv, av, bok, aok
		}
		if bok && a.Op == OAdd {
			if cv, ok := a.Args[1].ConstU(); ok {
				return c.bin(OAdd, a.Args[0], c.BV(w, cv+bv))
			}
		}
		if bok && a.Op == OSub {
			if cv, ok := a.Args[1].ConstU(); ok {
				return c.bin(OAdd, a.Args[0], c.BV(w, bv-cv))
			}
		}
	case OSub:
		if bok && bv == 0 {
			return a
		}
		if a == b {
			return c.BV(w, 0)
		}
		if bok {
			return c.bin(OAdd, a, c.BV(w, -bv))
		}
	case OMul:
		if aok {
			a, b = b, a
			av, bv, aok, bok = bv, av, bok, aok
		}
		if bok && bv == 0 {
			return b
		}
		if bok && bv == 1 {
			return a
		}
	case OBAnd:
		if aok {
			a, b = b, a
			av, bv, aok, bok = bv, av, bok, aok
		}
		if bok && bv == 0 {
			return b
		}
		if bok && bv == mask(w) {
			return a
		}
		if a == b {
			return a
		}
	case OBOr:
		if aok {
			a, b = b, a
			av, bv, aok, bok = bv, av, bok, aok
		}
		if bok && bv == 0 {
			return a
		}
		if bok && bv == mask(w) {
			return b
		}
		if a == b {
			return a
		}
	case OBXor:
		if aok {
			a, b = b, a
			av, bv, aok, bok = bv, av, bok, aok
		}
		if bok && bv == 0 {
			return a
		}
		if a == b {
			return c.BV(w, 0)
		}
	case OShl, OLShr, OAShr:
		if bok && bv == 0 {
			return a
		}
	case OUDiv, OSDiv:
		if bok && bv == 1 {
			return a
		}
	}
	return c.mk(Expr{Op: op, Sort: a.Sort, Args: []*Expr{a, b}})
}

func (c *Ctx) Add(a, b *Expr) *Expr  { return c.bin(OAdd, a, b) }
func (c *Ctx) Sub(a, b *Expr) *Expr  { return c.bin(OSub, a, b) }
func (c *Ctx) Mul(a, b *Expr) *Expr  { return c.bin(OMul, a, b) }
func (c *Ctx) UDiv(a, b *Expr) *Expr { return c.bin(OUDiv, a, b) }
func (c *Ctx) SDiv(a, b *Expr) *Expr { return c.bin(OSDiv, a, b) }
func (c *Ctx) URem(a, b *Expr) *Expr { return c.bin(OURem, a, b) }
func (c *Ctx) SRem(a, b *Expr) *Expr { return c.bin(OSRem, a, b) }
func (c *Ctx) BAnd(a, b *Expr) *Expr { return c.bin(OBAnd, a, b) }
func (c *Ctx) BOr(a, b *Expr) *Expr  { return c.bin(OBOr, a, b) }
func (c *Ctx) BXor(a, b *Expr) *Expr { return c.bin(OBXor, a, b) }
func (c *Ctx) Shl(a, b *Expr) *Expr  { return c.bin(OShl, a, b) }
func (c *Ctx) LShr(a, b *Expr) *Expr { return c.bin(OLShr, a, b) }
func (c *Ctx) AShr(a, b *Expr) *Expr { return c.bin(OAShr, a, b) }

func (c *Ctx) BNot(a *Expr) *Expr {
	if v, ok := a.ConstU(); ok {
		return c.BV(a.Sort.W, ^v)
	}
	if a.Op == OBNot {
		return a.Args[0]
	}
	return c.mk(Expr{Op: OBNot, Sort: a.Sort, Args: []*Expr{a}})
}
func (c *Ctx) Neg(a *Expr) *Expr {
	if v, ok := a.ConstU(); ok {
		return c.BV(a.Sort.W, -v)
	}
	return c.mk(Expr{Op: ONeg, Sort: a.Sort, Args: []*Expr{a}})
}

func (c *Ctx) cmp(op Op, a, b *Expr) *Expr {
	if a.Sort != b.Sort || a.Sort.K != KBV {
		panic(fmt.Sprintf("smt bv cmp sort mismatch %v %v", a.Sort, b.Sort))
	}
	w := a.Sort.W
	av, aok := a.ConstU()
	bv, bok := b.ConstU()
	if aok && bok {
		switch op {
		case OULT:
			return c.BoolC(av < bv)
		case OULE:
			return c.BoolC(av <= bv)
		case OSLT:
			return c.BoolC(sext64(av, w) < sext64(bv, w))
		case OSLE:
			return c.BoolC(sext64(av, w) <= sext64(bv, w))
		}
	}
	if a == b {
		return c.BoolC(op == OULE || op == OSLE)
	}
	if op == OULT && bok && bv == 0 {
		return c.False()
	}
	if op == OULE && aok && av == 0 {
		return c.True()
	}
	return c.mk(Expr{Op: op, Sort: Bool, Args: []*Expr{a, b}})
}
func (c *Ctx) ULT(a, b *Expr) *Expr { return c.cmp(OULT, a, b) }
func (c *Ctx) ULE(a, b *Expr) *Expr { return c.cmp(OULE, a, b) }
func (c *Ctx) UGT(a, b *Expr) *Expr { return c.cmp(OULT, b, a) }
func (c *Ctx) UGE(a, b *Expr) *Expr { return c.cmp(OULE, b, a) }
func (c *Ctx) SLT(a, b *Expr) *Expr { return c.cmp(OSLT, a, b) }
func (c *Ctx) SLE(a, b *Expr) *Expr { return c.cmp(OSLE, a, b) }
func (c *Ctx) SGT(a, b *Expr) *Expr { return c.cmp(OSLT, b, a) }
func (c *Ctx) SGE(a, b *Expr) *Expr { return c.cmp(OSLE, b, a) }

func (c *Ctx) Concat(hi, lo *Expr) *Expr {
	w := hi.Sort.W + lo.Sort.W
	hv, hok := hi.ConstU()
	lv, lok := lo.ConstU()
	if hok && lok && w <= 64 {
		return c.BV(w, hv<<uint(lo.Sort.W)|lv)
	}
	// concat(extract(x,h,m+1), extract(x,m,l)) = extract(x,h,l)
	if hi.Op == OExtract && lo.Op == OExtract && hi.Args[0] == lo.Args[0] && hi.Lo == lo.Hi+1 {
		return c.Extract(hi.Args[0], hi.Hi, lo.Lo)
	}
	return c.mk(Expr{Op: OConcat, Sort: BVSort(w), Args: []*Expr{hi, lo}})
}

func (c *Ctx) Extract(a *Expr, hi, lo int) *Expr {
	if a.Sort.K != KBV || hi >= a.Sort.W || lo < 0 || hi < lo {
		panic(fmt.Sprintf("smt.Extract bad range [%d:%d] of %v", hi, lo, a.Sort))
	}
	if lo == 0 && hi == a.Sort.W-1 {
		return a
	}
	w := hi - lo + 1
	if v, ok := a.ConstU(); ok {
		return c.BV(w, v>>uint(lo))
	}
	switch a.Op {
	case OExtract:
		return c.Extract(a.Args[0], a.Lo+hi, a.Lo+lo)
	case OConcat:
		lw := a.Args[1].Sort.W
		if hi < lw {
			return c.Extract(a.Args[1], hi, lo)
		}
		if lo >= lw {
			return c.Extract(a.Args[0], hi-lw, lo-lw)
		}
	case OZExt, OSExt:
		iw := a.Args[0].Sort.W
		if hi < iw {
			return c.Extract(a.Args[0], hi, lo)
		}
		if a.Op == OZExt && lo >= iw {
			return c.BV(w, 0)
		}
	case OIte:
		if a.Args[1].Op == OConst && a.Args[2].Op == OConst {
			return c.Ite(a.Args[0], c.Extract(a.Args[1], hi, lo), c.Extract(a.Args[2], hi, lo))
		}
	}
	return c.mk(Expr{Op: OExtract, Sort: BVSort(w), Args: []*Expr{a}, Hi: hi, Lo: lo})
}

func (c *Ctx) ZExt(a *Expr, w int) *Expr {
	if w == a.Sort.W {
		return a
	}
	if w < a.Sort.W {
		panic("smt.ZExt narrower")
	}
	if v, ok := a.ConstU(); ok && w <= 64 {
		return c.BV(w, v)
	}
	if a.Op == OZExt {
		return c.ZExt(a.Args[0], w)
	}
	return c.mk(Expr{Op: OZExt, Sort: BVSort(w), Args: []*Expr{a}, Hi: w - a.Sort.W})
}
func (c *Ctx) SExt(a *Expr, w int) *Expr {
	if w == a.Sort.W {
		return a
	}
	if w < a.Sort.W {
		panic("smt.SExt narrower")
	}
	if v, ok := a.ConstU(); ok && w <= 64 {
		return c.BV(w, uint64(sext64(v, a.Sort.W)))
	}
	return c.mk(Expr{Op: OSExt, Sort: BVSort(w), Args: []*Expr{a}, Hi: w - a.Sort.W})
}
func (c *Ctx) Trunc(a *Expr, w int) *Expr { return c.Extract(a, w-1, 0) }

// BoolToBV gives a 1-bit vector from a Bool.
func (c *Ctx) BoolToBV(b *Expr, w int) *Expr { return c.Ite(b, c.BV(w, 1), c.BV(w, 0)) }

// BVToBool: v != 0
func (c *Ctx) BVToBool(v *Expr) *Expr {
	if v.Op == OIte {
		if t, ok := v.Args[1].ConstU(); ok {
			if f, ok2 := v.Args[2].ConstU(); ok2 {
				return c.Ite(v.Args[0], c.BoolC(t != 0), c.BoolC(f != 0))
			}
		}
	}
	return c.Not(c.Eq(v, c.BV(v.Sort.W, 0)))
}

// ---- floating point (binary64, RNE unless stated)

func (c *Ctx) fbin(op Op, a, b *Expr) *Expr {
	if a.Sort.K != KFP || b.Sort.K != KFP {
		panic("smt fp binop on non-fp")
	}
	if a.Op == OConst && b.Op == OConst {
		x, y := math.Float64frombits(a.Val), math.Float64frombits(b.Val)
		switch op {
		case OFAdd:
			return c.FPC(x + y)
		case OFSub:
			return c.FPC(x - y)
		case OFMul:
			return c.FPC(x * y)
		case OFDiv:
			return c.FPC(x / y)
		}
	}
	return c.mk(Expr{Op: op, Sort: FP, Args: []*Expr{a, b}})
}
func (c *Ctx) FAdd(a, b *Expr) *Expr { return c.fbin(OFAdd, a, b) }
func (c *Ctx) FSub(a, b *Expr) *Expr { return c.fbin(OFSub, a, b) }
func (c *Ctx) FMul(a, b *Expr) *Expr { return c.fbin(OFMul, a, b) }
func (c *Ctx) FDiv(a, b *Expr) *Expr { return c.fbin(OFDiv, a, b) }
func (c *Ctx) FRem(a, b *Expr) *Expr { return c.fbin(OFRem, a, b) }
func (c *Ctx) FNeg(a *Expr) *Expr {
	if a.Op == OConst {
		return c.FPBitsC(a.Val ^ (1 << 63))
	}
	return c.mk(Expr{Op: OFNeg, Sort: FP, Args: []*Expr{a}})
}
func (c *Ctx) FAbs(a *Expr) *Expr {
	if a.Op == OConst {
		return c.FPBitsC(a.Val &^ (1 << 63))
	}
	return c.mk(Expr{Op: OFAbs, Sort: FP, Args: []*Expr{a}})
}
func (c *Ctx) fcmp(op Op, a, b *Expr) *Expr {
	if a.Op == OConst && b.Op == OConst {
		x, y := math.Float64frombits(a.Val), math.Float64frombits(b.Val)
		switch op {
		case OFEq:
			return c.BoolC(x == y)
		case OFLt:
			return c.BoolC(x < y)
		case OFLe:
			return c.BoolC(x <= y)
		}
	}
	return c.mk(Expr{Op: op, Sort: Bool, Args: []*Expr{a, b}})
}
func (c *Ctx) FEq(a, b *Expr) *Expr { return c.fcmp(OFEq, a, b) }
func (c *Ctx) FLt(a, b *Expr) *Expr { return c.fcmp(OFLt, a, b) }
func (c *Ctx) FLe(a, b *Expr) *Expr { return c.fcmp(OFLe, a, b) }
func (c *Ctx) FGt(a, b *Expr) *Expr { return c.fcmp(OFLt, b, a) }
func (c *Ctx) FGe(a, b *Expr) *Expr { return c.fcmp(OFLe, b, a) }
func (c *Ctx) FIsNaN(a *Expr) *Expr {
	if a.Op == OConst {
		f := math.Float64frombits(a.Val)
		return c.BoolC(f != f)
	}
	return c.mk(Expr{Op: OFIsNaN, Sort: Bool, Args: []*Expr{a}})
}
func (c *Ctx) FIsInf(a *Expr) *Expr {
	if a.Op == OConst {
		return c.BoolC(math.IsInf(math.Float64frombits(a.Val), 0))
	}
	return c.mk(Expr{Op: OFIsInf, Sort: Bool, Args: []*Expr{a}})
}
func (c *Ctx) FRound(op Op, a *Expr) *Expr {
	if a.Op == OConst {
		f := math.Float64frombits(a.Val)
		switch op {
		case OFRoundRTZ:
			return c.FPC(math.Trunc(f))
		case OFRoundRTP:
			return c.FPC(math.Ceil(f))
		case OFRoundRTN:
			return c.FPC(math.Floor(f))
		}
	}
	return c.mk(Expr{Op: op, Sort: FP, Args: []*Expr{a}})
}

// SIToFP converts a signed bit-vector to double (RNE).
func (c *Ctx) SIToFP(a *Expr) *Expr {
	if v, ok := a.ConstS(); ok {
		return c.FPC(float64(v))
	}
	return c.mk(Expr{Op: OSIToFP, Sort: FP, Args: []*Expr{a}})
}
func (c *Ctx) UIToFP(a *Expr) *Expr {
	if v, ok := a.ConstU(); ok {
		return c.FPC(float64(v))
	}
	return c.mk(Expr{Op: OUIToFP, Sort: FP, Args: []*Expr{a}})
}

// FPToSI converts toward zero; out-of-range is unspecified in SMT-LIB (and poison in LLVM).
func (c *Ctx) FPToSI(a *Expr, w int) *Expr {
	if a.Op == OConst && w <= 64 {
		f := math.Float64frombits(a.Val)
		lim := math.Ldexp(1, w-1)
		if f == f && f > -lim-1 && f < lim {
			return c.BVs(w, int64(f))
		}
	}
	return c.mk(Expr{Op: OFPToSI, Sort: BVSort(w), Args: []*Expr{a}, Hi: w})
}
func (c *Ctx) FPToUI(a *Expr, w int) *Expr {
	if a.Op == OConst && w <= 64 {
		f := math.Float64frombits(a.Val)
		lim := math.Ldexp(1, w)
		if f == f && f > -1 && f < lim {
			return c.BV(w, uint64(f))
		}
	}
	return c.mk(Expr{Op: OFPToUI, Sort: BVSort(w), Args: []*Expr{a}, Hi: w})
}
func (c *Ctx) FPFromBits(a *Expr) *Expr {
	if a.Sort.W != 64 {
		panic("FPFromBits width")
	}
	if v, ok := a.ConstU(); ok {
		return c.FPBitsC(v)
	}
	if a.Op == OFPToBits {
		return a.Args[0]
	}
	return c.mk(Expr{Op: OFPFromBits, Sort: FP, Args: []*Expr{a}})
}

// FPToBits is the IEEE bit pattern; for NaN the solver picks one pattern (z3/cvc5 extension
// fp.to_ieee_bv). Only used for type punning through memory.
func (c *Ctx) FPToBits(a *Expr) *Expr {
	if a.Op == OConst {
		return c.BV(64, a.Val)
	}
	if a.Op == OFPFromBits {
		return a.Args[0]
	}
	return c.mk(Expr{Op: OFPToBits, Sort: BVSort(64), Args: []*Expr{a}})
}

// ---- arrays

func (c *Ctx) Select(arr, idx *Expr) *Expr {
	if arr.Sort.K != KArr || idx.Sort != BVSort(64) {
		panic("smt.Select sorts")
	}
	// read-over-write with decidable index comparison
	a := arr
	for a.Op == OStore {
		eq := c.Eq(a.Args[1], idx)
		if eq.IsTrue() {
			return a.Args[2]
		}
		if !eq.IsFalse() {
			break
		}
		a = a.Args[0]
	}
	return c.mk(Expr{Op: OSelect, Sort: BVSort(8), Args: []*Expr{a, idx}})
}
func (c *Ctx) Store(arr, idx, v *Expr) *Expr {
	if arr.Sort.K != KArr || idx.Sort != BVSort(64) || v.Sort != BVSort(8) {
		panic("smt.Store sorts")
	}
	return c.mk(Expr{Op: OStore, Sort: Arr, Args: []*Expr{arr, idx, v}})
}

// ---- uninterpreted functions

func (c *Ctx) App(name string, ret Sort, args ...*Expr) *Expr {
	sig := make([]Sort, 0, len(args)+1)
	for _, a := range args {
		sig = append(sig, a.Sort)
	}
	sig = append(sig, ret)
	c.UFs[name] = sig
	return c.mk(Expr{Op: OApp, Sort: ret, Name: name, Args: args})
}

// ---- helpers

func (c *Ctx) AndAll(es []*Expr) *Expr { return c.And(es...) }

func (e *Expr) Short() string {
	s := e.String()
	if len(s) > 200 {
		return s[:200] + "..."
	}
	return s
}

func (e *Expr) String() string {
	var sb strings.Builder
	e.write(&sb, 0)
	return sb.String()
}

func (e *Expr) write(sb *strings.Builder, depth int) {
	if depth > 12 {
		sb.WriteString("…")
		return
	}
	switch e.Op {
	case OConst:
		sb.WriteString(constStr(e))
		return
	case OVar:
		sb.WriteString(e.Name)
		return
	}
	sb.WriteByte('(')
	sb.WriteString(headStr(e))
	for _, a := range e.Args {
		sb.WriteByte(' ')
		a.write(sb, depth+1)
	}
	sb.WriteByte(')')
}

func constStr(e *Expr) string {
	switch e.Sort.K {
	case KBool:
		if e.Val == 1 {
			return "true"
		}
		return "false"
	case KBV:
		if e.Sort.W%4 == 0 {
			return fmt.Sprintf("#x%0*x", e.Sort.W/4, e.Val)
		}
		return fmt.Sprintf("#b%0*b", e.Sort.W, e.Val)
	case KFP:
		s := e.Val >> 63
		ex := (e.Val >> 52) & 0x7ff
		m := e.Val & ((1 << 52) - 1)
		return fmt.Sprintf("(fp #b%b #b%011b #b%052b)", s, ex, m)
	}
	panic("const of array sort")
}

func headStr(e *Expr) string {
	switch e.Op {
	case OExtract:
		return fmt.Sprintf("(_ extract %d %d)", e.Hi, e.Lo)
	case OZExt:
		return fmt.Sprintf("(_ zero_extend %d)", e.Hi)
	case OSExt:
		return fmt.Sprintf("(_ sign_extend %d)", e.Hi)
	case OSIToFP:
		return "(_ to_fp 11 53) RNE"
	case OUIToFP:
		return "(_ to_fp_unsigned 11 53) RNE"
	case OFPToSI:
		return fmt.Sprintf("(_ fp.to_sbv %d) RTZ", e.Hi)
	case OFPToUI:
		return fmt.Sprintf("(_ fp.to_ubv %d) RTZ", e.Hi)
	case OFPFromBits:
		return "(_ to_fp 11 53)"
	case OFPToBits:
		return "fp.to_ieee_bv"
	case OApp:
		return smtName(e.Name)
	}
	if n, ok := opNames[e.Op]; ok {
		return n
	}
	panic(fmt.Sprintf("no head for op %d", e.Op))
}

func smtName(n string) string {
	for _, r := range n {
		if !(r >= 'a' && r <= 'z' || r >= 'A' && r <= 'Z' || r >= '0' && r <= '9' || r == '_' || r == '.' || r == '!' || r == '$') {
			return "|" + n + "|"
		}
	}
	return n
}

// Size returns the number of distinct DAG nodes below e.
func (e *Expr) Size() int {
	seen := map[int]bool{}
	var walk func(*Expr)
	walk = func(x *Expr) {
		if seen[x.ID] {
			return
		}
		seen[x.ID] = true
		for _, a := range x.Args {
			walk(a)
		}
	}
	walk(e)
	return len(seen)
}

var _ = bits.Len64
