// vcheck runs one property check: vcheck <ID> [--tier quick|thorough]
package main

import (
	"flag"
	"fmt"
	"os"
	"strconv"

	"verif/engine/build"
	"verif/engine/props/c01"
	"verif/engine/props/c02"
	"verif/engine/props/c03"
	"verif/engine/props/c04"
	"verif/engine/props/c05"
	"verif/engine/props/c06"
	"verif/engine/props/c07"
	"verif/engine/props/c08"
	"verif/engine/props/c09"
	"verif/engine/props/c10"
	"verif/engine/props/c11"
	"verif/engine/props/c12"
	"verif/engine/props/c13"
	"verif/engine/props/c14"
	"verif/engine/props/c15"
	"verif/engine/props/c16"
	"verif/engine/props/c17"
	"verif/engine/props/c18"
	"verif/engine/props/c19"
	"verif/engine/props/c20"
	"verif/engine/props/core"
	"verif/engine/props/goh"
)

type checkFn func(r *core.Report, env *build.Env)

var checks = map[string]struct {
	level string
	fn    checkFn
}{
	"C01": {"translation_validation", c01.Run},
	"C02": {"model_checking", c02.Run},
	"C03": {"model_checking", c03.Run},
	"C04": {"model_checking", c04.Run},
	"C05": {"model_checking", c05.Run},
	"C06": {"model_checking", c06.Run},
	"C07": {"model_checking", c07.Run},
	"C08": {"model_checking", c08.Run},
	"C09": {"model_checking", c09.Run},
	"C10": {"model_checking", c10.Run},
	"C11": {"translation_validation", c11.Run},
	"C12": {"model_checking", c12.Run},
	"C13": {"model_checking", c13.Run},
	"C14": {"model_checking", c14.Run},
	"C15": {"translation_validation", c15.Run},
	"C16": {"model_checking", c16.Run},
	"C17": {"model_checking", c17.Run},
	"C18": {"model_checking", c18.Run},
	"C19": {"model_checking", c19.Run},
	"C20": {"model_checking", c20.Run},
}

func main() {
	if len(os.Args) < 2 {
		fmt.Fprintln(os.Stderr, "usage: vcheck <property id> [--tier quick|thorough]")
		os.Exit(2)
	}
	id := os.Args[1]
	fs := flag.NewFlagSet("vcheck", flag.ExitOnError)
	tier := fs.String("tier", "", "quick or thorough")
	fs.Parse(os.Args[2:])
	if *tier == "" {
		*tier = os.Getenv("VERIF_TIER")
	}
	if *tier == "" {
		*tier = "quick"
	}
	seed, _ := strconv.Atoi(os.Getenv("VERIF_SEED"))
	ck, ok := checks[id]
	if !ok {
		fmt.Fprintln(os.Stderr, "unknown property", id)
		os.Exit(2)
	}
	if d := os.Getenv("VERIF_DIR"); d != "" {
		core.VerifDir = d
		goh.HarnessDir = d + "/harness/go"
	}
	r := core.NewReport(id, *tier, seed, ck.level)
	env, err := build.NewEnv()
	if err != nil {
		fmt.Fprintln(os.Stderr, "scratch dir:", err)
		os.Exit(2)
	}
	code := 2
	func() {
		defer env.Cleanup()
		if err := env.BuildKddp(); err != nil {
			// a tree that does not build cannot be checked: engine failure, no verdict
			r.EngineFailf("%v", err)
		} else {
			ck.fn(r, env)
		}
		for k, v := range env.Timings {
			r.Extra[k] = v
		}
		code = r.Finish()
	}()
	os.Exit(code)
}
