module verif/engine

go 1.24.0

require golang.org/x/tools v0.29.0
