// Package c17: Duden list, text and sorting functions meet their specification.
package c17

import (
	"fmt"
	"sort"
	"strings"
	"time"

	"verif/engine/build"
	"verif/engine/llread"
	"verif/engine/llse"
	"verif/engine/props/core"
	"verif/engine/props/ddp"
	"verif/engine/props/llh"
	"verif/engine/smt"
)

const header = `Binde "Duden/Listen" ein.
Binde "Duden/Texte" ein.
Binde "Duden/Sortierung" ein.
Binde "Duden/Zeichen" ein.

`

func ddpParams(f fn) []ddp.Param {
	var ps []ddp.Param
	for _, p := range f.params {
		switch p {
		case pListRef:
			ps = append(ps, ddp.Param{Name: "a", Type: "Zahlen Listen Referenz"})
		case pList:
			ps = append(ps, ddp.Param{Name: "a", Type: "Zahlen Liste"})
		case pListB:
			ps = append(ps, ddp.Param{Name: "b", Type: "Zahlen Liste"})
		case pTextRef:
			ps = append(ps, ddp.Param{Name: "a", Type: "Text Referenz"})
		case pText:
			ps = append(ps, ddp.Param{Name: "a", Type: "Text"})
		case pTextB:
			ps = append(ps, ddp.Param{Name: "b", Type: "Text"})
		case pX:
			ps = append(ps, ddp.Param{Name: "x", Type: "Zahl"})
		case pY:
			ps = append(ps, ddp.Param{Name: "y", Type: "Zahl"})
		case pZ:
			ps = append(ps, ddp.Param{Name: "z", Type: "Buchstabe"})
		case pTextL:
			ps = append(ps, ddp.Param{Name: "l", Type: "Text Liste"})
		}
	}
	return ps
}

func ddpRet(f fn) string {
	switch f.ret {
	case "zahl":
		return "eine Zahl"
	case "bool":
		return "einen Wahrheitswert"
	case "list":
		return "eine Zahlen Liste"
	case "text":
		return "einen Text"
	case "charlist":
		return "eine Buchstaben Liste"
	case "textlist":
		return "eine Text Liste"
	case "char":
		return "einen Buchstaben"
	}
	return "nichts"
}

func source() string {
	var sb strings.Builder
	sb.WriteString(header)
	for _, f := range funcs {
		sb.WriteString(ddp.Func("c17_"+f.name, ddpParams(f), ddpRet(f), f.body))
	}
	return sb.String()
}

type ctx struct {
	r       *core.Report
	env     *build.Env
	mod     *llread.Module
	lists   *llread.Module
	rt      []*llread.Module
	inits   []string
	timeout time.Duration
	src     string
	opt     int
}

// Run executes the check.
func Run(r *core.Report, env *build.Env) {
	r.Level = "model_checking"
	maxA, maxText, widths := 3, 3, []int{1, 2}
	if r.Tier == "thorough" {
		// texts of 4 characters in four width classes did not finish within two hours: not registered
		maxA, widths = 4, []int{1, 2, 3, 4}
	}
	r.Bounds["list_length"] = fmt.Sprintf("0..%d elements (second list 0..2), every element an unconstrained 64-bit number", maxA)
	r.Bounds["text_length"] = fmt.Sprintf("0..%d characters (second text 1..2), every character symbolic within one UTF-8 width class per cell; width classes %v (trim and split functions: classes 1-2 only)", maxText, widths)
	r.Bounds["scalars"] = "indices and counts unconstrained 64-bit unless the documented domain restricts them; Polster_* up to 2 added characters and a final length above -2^62, Auf-/Absteigende_Zahlen up to 4 numbers within +-2^62 (differences of numbers near the 64-bit limits wrap around: a matter of the language's arithmetic, C01)"
	r.Assumptions = append(r.Assumptions,
		"documented domain = valid 1-based indices 1..len (ranges 1 <= start <= end <= len), equal lengths for element-wise functions, non-empty texts for sub-text search; outcomes outside it are not judged",
		"realloc never fails", "c32rtomb/mbrtoc32 = UTF-8 specification", "the C helpers of libddpstdlib are read through clang-14 -O1")
	r.Outside = append(r.Outside, "Kommazahl arithmetic functions (Mathe, Statistik), Zahlen formatting, case mapping, file/IO functions", "texts mixing characters of different UTF-8 widths (C12 covers the runtime primitives for mixed widths)",
		"longer lists and texts", "behaviour outside the documented domain (C06)")
	x := &ctx{r: r, env: env, timeout: 30 * time.Second, src: source()}
	if r.Tier == "thorough" {
		x.timeout = 120 * time.Second
	}
	var err error
	if x.lists, err = env.ListDefs(); err != nil {
		r.EngineFailf("list defs: %v", err)
		return
	}
	if x.rt, err = env.RuntimeIR("lists.c"); err != nil {
		r.EngineFailf("runtime IR: %v", err)
		return
	}
	cm, err := env.CompileDDP("c17", x.src, 0)
	if err != nil {
		r.EngineFailf("compile: %v", err)
		return
	}
	if cm.Mod == nil {
		r.EngineFailf("template module rejected by kddp: %s", cm.Stderr)
		return
	}
	r.Programs++
	x.mod = cm.Mod
	x.inits = initOrder(cm.Mod)
	only := envOnly()
	var cells []llh.CellFn
	for _, f := range funcs {
		f := f
		if f.thorough && r.Tier != "thorough" {
			continue
		}
		if only != "" && !strings.Contains(f.name, only) {
			continue
		}
		hi := maxA
		if f.fam == "text" {
			hi = maxText
		}
		if f.maxA > 0 && f.maxA < hi {
			hi = f.maxA
		}
		if f.maxA > hi && r.Tier == "thorough" {
			hi = f.maxA
		}
		if f.maxA < 0 {
			hi = 0
		}
		ws := []int{0}
		if f.fam == "text" {
			ws = nil
			for _, w := range widths {
				if f.maxW == 0 || w <= f.maxW {
					ws = append(ws, w)
				}
			}
		}
		hasB, hasTL := false, false
		for _, p := range f.params {
			if p == pListB || p == pTextB {
				hasB = true
			}
			if p == pTextL {
				hasTL = true
			}
		}
		for _, w := range ws {
			for n := f.minA; n <= hi; n++ {
				ms := []int{0}
				if hasB {
					ms = nil
					for m := 0; m <= f.maxB; m++ {
						ms = append(ms, m)
					}
					if f.sameLen {
						ms = []int{n}
					}
				}
				if hasTL {
					// every arrangement of empty and one-character elements
					ms = nil
					for m := 0; m < 1<<n; m++ {
						ms = append(ms, m)
					}
				}
				for _, m := range ms {
					n, m, w := n, m, w
					cells = append(cells, func() { x.cell(f, n, m, w) })
				}
			}
		}
	}
	// the functions marked o2 once more on the module compiled at -O 2, where kddp passes a value
	// argument uncopied to a parameter its annotator found constant
	cm2, err := env.CompileDDP("c17o2", x.src, 2)
	if err != nil || cm2.Mod == nil {
		r.EngineFailf("compile at -O 2: %v", err)
		return
	}
	r.Programs++
	x2 := *x
	x2.mod, x2.opt = cm2.Mod, 2
	x2.inits = initOrder(cm2.Mod)
	for _, f := range funcs {
		f := f
		if !f.o2 || (only != "" && !strings.Contains(f.name, only)) {
			continue
		}
		hi := maxA
		if f.maxA > 0 && f.maxA < hi {
			hi = f.maxA
		}
		for n := f.minA; n <= hi; n++ {
			n := n
			cells = append(cells, func() { x2.cell(f, n, 0, 0) })
		}
	}
	llh.RunParallel(llh.Wrap(r, cells), 16)
}

// initOrder: the module initialisers in the order ddp_ddpmain calls them.
func initOrder(m *llread.Module) []string {
	var out []string
	seen := map[string]bool{}
	if mainf := m.Funcs["ddp_ddpmain"]; mainf != nil {
		for _, b := range mainf.Blocks {
			for _, in := range b.Insts {
				if in.Op != "call" || len(in.Ops) == 0 {
					continue
				}
				name := in.Ops[len(in.Ops)-1].Name
				if strings.HasPrefix(name, "ddp_") && strings.HasSuffix(name, "_init") && !seen[name] {
					seen[name] = true
					out = append(out, name)
				}
			}
		}
	}
	var rest []string
	for name, f := range m.Funcs {
		if strings.HasPrefix(name, "ddp_") && strings.HasSuffix(name, "_init") && !seen[name] && !f.Decl {
			rest = append(rest, name)
		}
	}
	sort.Strings(rest)
	return append(out, rest...)
}

func (x *ctx) cell(f fn, n, m, w int) {
	name := fmt.Sprintf("%s/n%d", f.name, n)
	if x.opt != 0 {
		name = fmt.Sprintf("O%d/%s", x.opt, name)
	}
	for _, p := range f.params {
		if p == pListB || p == pTextB {
			name += fmt.Sprintf("m%d", m)
		}
		if p == pTextL {
			name += fmt.Sprintf("p%d", m)
		}
	}
	if f.fam == "text" {
		name += fmt.Sprintf("w%d", w)
	}
	diff := 10
	if x.r.Tier == "thorough" {
		diff = 1
	}
	mods := append([]*llread.Module{x.mod, x.lists}, x.rt...)
	h := llh.NewH(x.r, name, x.timeout, diff, mods...)
	defer h.Close()
	h.InstallUTF8Stubs()
	c := h.C
	// module initialisers (Sortierung keeps a global stack)
	for _, in := range x.inits {
		h.Ex.Call(h.St, x.mod.Funcs[in], nil)
		res0 := h.Ex.Run(h.St)
		if len(res0) != 1 || res0[0].Term != llse.TermReturn {
			x.r.EngineFailf("%s: module initialiser %s did not return on a single path", name, in)
			return
		}
		h.St = res0[0]
		h.St.Term = llse.Running
	}
	var v in
	var args []llse.Val
	var ret *llse.Object
	switch f.ret {
	case "list", "charlist", "textlist":
		ret = h.St.NewObject(c, llse.ObjStack, "ret", llh.ListHdr)
		args = append(args, h.Ptr(ret))
	case "text":
		ret = h.St.NewObject(c, llse.ObjStack, "ret", llh.TextHdr)
		args = append(args, h.Ptr(ret))
	}
	var aList *llh.List
	var aText *llh.Text
	var aCPs, bCPs []llh.CP
	mkList := func(nm string, k int) (*llh.List, []*smt.Expr) {
		cp := k
		if k > 0 {
			cp = k + 1
		}
		l := h.ConcList(nm, 8, k, cp, false)
		var el []*smt.Expr
		for i := 0; i < k; i++ {
			e := h.Var(fmt.Sprintf("%s%d", nm, i), 64)
			el = append(el, e)
			h.SetElem(l, i, e)
		}
		return l, el
	}
	mkText := func(nm string, k int) (*llh.Text, []llh.CP, []*smt.Expr) {
		var cps []llh.CP
		var el []*smt.Expr
		for i := 0; i < k; i++ {
			cp := h.SymCP(fmt.Sprintf("%s%d", nm, i), w)
			cps = append(cps, cp)
			el = append(el, cp.V)
		}
		return h.TextOfCPs(nm, cps, nil, 0), cps, el
	}
	for _, p := range f.params {
		switch p {
		case pListRef, pList:
			aList, v.a = mkList("a", n)
			args = append(args, h.Ptr(aList.Hdr))
		case pListB:
			var l *llh.List
			l, v.b = mkList("b", m)
			args = append(args, h.Ptr(l.Hdr))
		case pTextRef, pText:
			aText, aCPs, v.a = mkText("a", n)
			args = append(args, h.Ptr(aText.Hdr))
		case pTextB:
			var t *llh.Text
			t, bCPs, v.b = mkText("b", m)
			args = append(args, h.Ptr(t.Hdr))
		case pTextL:
			cp := n
			if n > 0 {
				cp = n + 1
			}
			tl := h.ConcList("l", 16, n, cp, false)
			for i := 0; i < n; i++ {
				var cps []llh.CP
				var el []*smt.Expr
				if m&(1<<i) != 0 {
					cp := h.SymCP(fmt.Sprintf("l%d", i), w)
					cps = append(cps, cp)
					el = append(el, cp.V)
				}
				h.TextOfCPs(fmt.Sprintf("l%d", i), cps, tl.Arr, int64(i*16))
				v.parts = append(v.parts, el)
			}
			args = append(args, h.Ptr(tl.Hdr))
		case pX:
			v.x = h.Var("x", 64)
			args = append(args, llse.Val{E: v.x})
		case pY:
			v.y = h.Var("y", 64)
			args = append(args, llse.Val{E: v.y})
		case pZ:
			v.z = h.SymCP("z", w).V
			args = append(args, llse.Val{E: v.z})
		}
	}
	_, _ = aCPs, bCPs
	dom := f.dom(c, v)
	// a cell whose domain is empty (e.g. index functions on the empty list) has nothing to show
	if r, _, _ := h.P.Check(append(append([]*smt.Expr{}, h.St.PC...), dom), nil); r != smt.Sat {
		return
	}
	h.St.Assume(dom)
	want := f.spec(c, v)
	res := h.Run("c17_"+f.name, args)
	nret := 0
	for _, s := range res {
		h.On(s)
		if s.Term != llse.TermReturn {
			h.Fail("inside the documented domain the function returns normally")
			continue
		}
		nret++
		var obs *llse.Object
		switch f.observe {
		case "ret":
			obs = ret
		case "a":
			if aList != nil {
				obs = aList.Hdr
			} else {
				obs = aText.Hdr
			}
		}
		switch {
		case want.rel != nil:
			if s.Ret.E == nil {
				h.Fail("a value is returned")
				break
			}
			h.Holds("returned value", s.PC, want.rel(s.Ret.E))
		case want.v != nil:
			got := s.Ret.E
			if got == nil {
				h.Fail("a value is returned")
				break
			}
			h.Holds("returned value", s.PC, c.Eq(got, want.v))
		case want.s != nil && (f.fam == "list" || f.ret == "charlist"):
			es := 8
			if f.ret == "charlist" {
				es = 4
			}
			x.listIs(h, s, "result", obs, es, want.s, nil)
		case want.s != nil:
			x.textIs(h, s, "result", obs, 0, want.s, w, nil)
		case want.alts != nil:
			for _, alt := range want.alts {
				if r, _, _ := h.P.Check(append(append([]*smt.Expr{}, s.PC...), alt.cond), nil); r != smt.Sat {
					continue
				}
				x.textListIs(h, s, obs, v.a, alt, w)
			}
		}
		if f.keepsA {
			if aList != nil {
				x.listIs(h, s, "argument unchanged", aList.Hdr, 8, concSeq(c, v.a), nil)
			} else if aText != nil {
				x.textIs(h, s, "argument unchanged", aText.Hdr, 0, concSeq(c, v.a), w, nil)
			}
		}
	}
	if nret == 0 && len(h.Failed) == 0 {
		x.r.EngineFailf("%s: vacuity guard: no returning path inside the domain", name)
	}
	x.r.Sample(map[string]any{"cell": name, "function": f.doc, "call": f.body, "paths": len(res)})
	x.finish(h, res, f, n, m, w, v, want)
}

// listIs: the list behind hdr is the expected sequence.
func (x *ctx) listIs(h *llh.H, s *llse.State, what string, hdr *llse.Object, es int, want *seq, extra []*smt.Expr) {
	c := h.C
	pc := append(append([]*smt.Expr{}, s.PC...), extra...)
	gotLen := h.ReadI64(s, hdr, 8).E
	if !h.Holds(what+": length", pc, c.Eq(gotLen, want.n)) {
		return
	}
	arrp := h.ReadPtr(s, hdr, 0)
	for k := range want.el {
		g := c.SLT(bv(c, k), want.n)
		if r, _, _ := h.P.Check(append(append([]*smt.Expr{}, pc...), g), nil); r != smt.Sat {
			continue
		}
		guard := g
		for _, e := range extra {
			guard = c.And(guard, e)
		}
		bs, ok := h.ReadBytesAtGuarded(s, arrp, k*es, es, guard)
		if !ok {
			h.Fail(what + ": elements readable")
			return
		}
		var got *smt.Expr
		for _, bt := range bs {
			if got == nil {
				got = bt
			} else {
				got = c.Concat(bt, got)
			}
		}
		w := want.el[k]
		if w.Sort.W < 8*es {
			w = c.ZExt(w, 8*es)
		}
		if !h.Holds(what+": elements", append(append([]*smt.Expr{}, pc...), g), c.Eq(got, w)) {
			return
		}
	}
}

// textIs: the text behind hdr is the expected code-point sequence (all of UTF-8 width w).
func (x *ctx) textIs(h *llh.H, s *llse.State, what string, hdr *llse.Object, hdrOff int64, want *seq, w int, extra []*smt.Expr) {
	c := h.C
	pc := append(append([]*smt.Expr{}, s.PC...), extra...)
	capv := h.ReadI64(s, hdr, hdrOff+8).E
	wantCap := c.Add(c.Mul(want.n, bv(c, w)), bv(c, 1))
	isEmpty := c.Eq(want.n, bv(c, 0))
	okCap := c.Ite(isEmpty, c.Or(c.Eq(capv, bv(c, 0)), c.Eq(capv, bv(c, 1))), c.Eq(capv, wantCap))
	if !h.Holds(what+": length", pc, okCap) {
		return
	}
	ptr := h.ReadPtr(s, hdr, hdrOff)
	for k := range want.el {
		g := c.SLT(bv(c, k), want.n)
		if r, _, _ := h.P.Check(append(append([]*smt.Expr{}, pc...), g), nil); r != smt.Sat {
			continue
		}
		guard := g
		for _, e := range extra {
			guard = c.And(guard, e)
		}
		bs, ok := h.ReadBytesAtGuarded(s, ptr, k*w, w, guard)
		if !ok {
			h.Fail(what + ": characters readable")
			return
		}
		enc := llh.EncodeCP(c, llh.CP{V: want.el[k], N: w})
		eq := c.True()
		for j := range enc {
			eq = c.And(eq, c.Eq(bs[j], enc[j]))
		}
		if !h.Holds(what+": characters", append(append([]*smt.Expr{}, pc...), g), eq) {
			return
		}
	}
}

// textListIs: under alt.cond the Text Liste behind hdr consists of the given pieces of a.
func (x *ctx) textListIs(h *llh.H, s *llse.State, hdr *llse.Object, a []*smt.Expr, alt out, w int) {
	c := h.C
	pc := append(append([]*smt.Expr{}, s.PC...), alt.cond)
	gotLen := h.ReadI64(s, hdr, 8).E
	if !h.Holds("result: number of pieces", pc, c.Eq(gotLen, bv(c, len(alt.pieces)))) {
		return
	}
	arrp := h.ReadPtr(s, hdr, 0)
	if arrp.Obj == 0 {
		h.Fail("result: list array present")
		return
	}
	arr := s.Objs[arrp.Obj]
	for k, p := range alt.pieces {
		off, ok := arrp.Off.ConstU()
		if !ok {
			h.Fail("result: list array at a fixed place")
			return
		}
		x.textIs(h, s, "result: piece", arr, int64(off)+int64(k*16), concSeq(c, a[p[0]:p[1]]), w, []*smt.Expr{alt.cond})
	}
}

func (x *ctx) finish(h *llh.H, res []*llse.State, f fn, n, m, w int, v in, want out) {
	for _, s := range res {
		for _, ft := range s.Faults {
			x.r.Oblige(1)
			h.Failed = append(h.Failed, llh.Failure{Obligation: "memory:" + ft.Kind, Model: ft.Model, Detail: ft.Where, Path: s, Asserts: append(append([]*smt.Expr{}, ft.PC...), ft.Cond)})
		}
	}
	seen := map[string]bool{}
	for k := range h.Failed {
		fl := &h.Failed[k]
		key := f.name + "/" + fl.Obligation
		if seen[key] {
			continue
		}
		seen[key] = true
		txt, confirmed := x.replay(h, fl, f, n, m, w, v, want)
		what := fmt.Sprintf("%s (%s): obligation %q fails; model %s %s", h.Cell, f.doc, fl.Obligation, h.ModelString(fl.Model), fl.Detail)
		if confirmed {
			x.r.Replayed++
			x.r.Violate(key, what, txt)
		} else {
			x.r.Unconfirmedf("%s (replay: %s)", what, firstLines(txt, 14))
		}
	}
}

func firstLines(s string, n int) string {
	ls := strings.SplitN(s, "\n", n+1)
	if len(ls) > n {
		ls = ls[:n]
	}
	return strings.Join(ls, " | ")
}
