package c17

import (
	"fmt"
	"os"
	"strings"

	"verif/engine/props/llh"
	"verif/engine/smt"
)

func envOnly() string { return os.Getenv("VERIF_ONLY") }

func utf8Of(cps []uint64) []byte {
	var rs []rune
	for _, v := range cps {
		rs = append(rs, rune(uint32(v)))
	}
	return []byte(string(rs))
}

func hexOf(b []byte) string {
	s := ""
	for _, x := range b {
		s += fmt.Sprintf("%02x", x)
	}
	return s
}

// replay runs the template natively with the model's arguments and compares what the driver
// prints with the specified outcome evaluated on the same arguments.
func (x *ctx) replay(h *llh.H, fl *llh.Failure, f fn, n, m, w int, v in, want out) (string, bool) {
	mod := h.Refine(fl, nil, nil)
	if mod == nil {
		return "no model", false
	}
	env := map[string]uint64{}
	for k, val := range mod.Vals {
		env[k] = val
	}
	ev := func(e *smt.Expr) uint64 {
		if e == nil {
			return 0
		}
		val, ok := smt.Eval(e, env)
		if !ok {
			if vv, ok2 := llh.ValOf(mod, e); ok2 {
				return vv
			}
		}
		return val
	}
	vals := func(es []*smt.Expr) []uint64 {
		var out []uint64
		for _, e := range es {
			out = append(out, ev(e))
		}
		return out
	}
	av, bvs := vals(v.a), vals(v.b)
	nc := &llh.NativeCall{Fn: "c17_" + f.name, DDPSrc: x.src, Opt: x.opt, InitAll: true, Name: "c17"}
	switch f.ret {
	case "zahl":
		nc.RetC = "ddpint"
	case "bool":
		nc.RetC = "ddpbool"
	case "char":
		nc.RetC = "ddpchar"
	default:
		nc.RetC = "void"
	}
	obsArg := -1
	switch f.ret {
	case "list":
		nc.Args = append(nc.Args, llh.CArg{Kind: "outlist", CType: "ddpintlist", ElemC: "ddpint"})
		obsArg = 0
	case "charlist":
		nc.Args = append(nc.Args, llh.CArg{Kind: "outlist", CType: "ddpcharlist", ElemC: "ddpchar"})
		obsArg = 0
	case "textlist":
		nc.Args = append(nc.Args, llh.CArg{Kind: "outlist", CType: "ddpstringlist", ElemC: "ddpstring"})
		obsArg = 0
	case "text":
		nc.Args = append(nc.Args, llh.CArg{Kind: "outtext"})
		obsArg = 0
	}
	aArg := -1
	var desc []string
	for _, p := range f.params {
		switch p {
		case pListRef, pList:
			cp := len(av)
			if cp > 0 {
				cp++
			}
			aArg = len(nc.Args)
			nc.Args = append(nc.Args, llh.CArg{Kind: "list", CType: "ddpintlist", ElemC: "ddpint", Elems: av, Len: len(av), Cap: cp, Dump: p == pListRef})
			desc = append(desc, fmt.Sprintf("a=%v", signed(av)))
		case pListB:
			cp := len(bvs)
			if cp > 0 {
				cp++
			}
			nc.Args = append(nc.Args, llh.CArg{Kind: "list", CType: "ddpintlist", ElemC: "ddpint", Elems: bvs, Len: len(bvs), Cap: cp})
			desc = append(desc, fmt.Sprintf("b=%v", signed(bvs)))
		case pTextRef, pText:
			aArg = len(nc.Args)
			a := llh.CArg{Kind: "text", Dump: p == pTextRef}
			if len(av) > 0 {
				a.Bytes = utf8Of(av)
			}
			nc.Args = append(nc.Args, a)
			desc = append(desc, fmt.Sprintf("a=%q", string(utf8Of(av))))
		case pTextB:
			a := llh.CArg{Kind: "text"}
			if len(bvs) > 0 {
				a.Bytes = utf8Of(bvs)
			}
			nc.Args = append(nc.Args, a)
			desc = append(desc, fmt.Sprintf("b=%q", string(utf8Of(bvs))))
		case pTextL:
			cp := len(v.parts)
			if cp > 0 {
				cp++
			}
			a := llh.CArg{Kind: "list", CType: "ddpstringlist", ElemC: "ddpstring", Len: len(v.parts), Cap: cp}
			var shown []string
			for _, p := range v.parts {
				if len(p) == 0 {
					a.Texts = append(a.Texts, nil)
					shown = append(shown, "\"\"")
				} else {
					a.Texts = append(a.Texts, utf8Of(vals(p)))
					shown = append(shown, fmt.Sprintf("%q", string(utf8Of(vals(p)))))
				}
			}
			nc.Args = append(nc.Args, a)
			desc = append(desc, "l=["+strings.Join(shown, ", ")+"]")
		case pX:
			nc.Args = append(nc.Args, llh.CArg{Kind: "int", CType: "ddpint", Bits: ev(v.x)})
			desc = append(desc, fmt.Sprintf("x=%d", int64(ev(v.x))))
		case pY:
			nc.Args = append(nc.Args, llh.CArg{Kind: "int", CType: "ddpint", Bits: ev(v.y)})
			desc = append(desc, fmt.Sprintf("y=%d", int64(ev(v.y))))
		case pZ:
			nc.Args = append(nc.Args, llh.CArg{Kind: "int", CType: "ddpchar", Bits: ev(v.z)})
			desc = append(desc, fmt.Sprintf("z=%q", string(rune(uint32(ev(v.z))))))
		}
	}
	if f.observe == "a" {
		obsArg = aArg
	}
	// expected lines
	var expect []string
	seqVals := func(s *seq) []uint64 {
		k := int(int64(ev(s.n)))
		var out []uint64
		for i := 0; i < k && i < len(s.el); i++ {
			out = append(out, ev(s.el[i]))
		}
		return out
	}
	listLines := func(arg int, vs []uint64, bits int) {
		expect = append(expect, fmt.Sprintf("LIST%d len %d\n", arg, len(vs)))
		for k, e := range vs {
			if bits == 32 {
				e &= 0xffffffff
			}
			expect = append(expect, fmt.Sprintf("LIST%d_%d %x\n", arg, k, e))
		}
	}
	switch {
	case want.v != nil:
		expect = append(expect, fmt.Sprintf("RET %x\n", ev(want.v)))
	case want.s != nil && f.ret == "charlist":
		listLines(obsArg, seqVals(want.s), 32)
	case want.s != nil && f.fam == "list":
		listLines(obsArg, seqVals(want.s), 64)
	case want.s != nil:
		expect = append(expect, fmt.Sprintf("TEXT%d %s cap ", obsArg, hexOf(utf8Of(seqVals(want.s)))))
	case want.alts != nil:
		for _, alt := range want.alts {
			if ev(c1(h, alt.cond)) == 1 {
				expect = append(expect, fmt.Sprintf("LIST%d len %d\n", obsArg, len(alt.pieces)))
				for k, p := range alt.pieces {
					expect = append(expect, fmt.Sprintf("LIST%d_%d %s cap ", obsArg, k, hexOf(utf8Of(av[p[0]:p[1]]))))
				}
			}
		}
	}
	if f.keepsA && aArg >= 0 {
		if f.fam == "list" {
			listLines(aArg, av, 64)
		} else {
			expect = append(expect, fmt.Sprintf("TEXT%d %s cap ", aArg, hexOf(utf8Of(av))))
		}
	}
	memory := strings.HasPrefix(fl.Obligation, "memory:")
	nr := llh.RunNativeOpt(x.env, nc, memory)
	var missing []string
	if want.rel != nil {
		if rv, ok := nr.Field("RET"); ok {
			var got uint64
			fmt.Sscanf(rv, "%x", &got)
			if ev(c1(h, want.rel(h.C.BV(64, got)))) != 1 {
				missing = append(missing, "a returned value in the specified relation (got "+rv+")")
			}
		} else {
			missing = append(missing, "RET")
		}
	}
	for _, e := range expect {
		if !strings.Contains(nr.Stdout, e) {
			missing = append(missing, strings.TrimSpace(e))
		}
	}
	txt := fmt.Sprintf("function: %s\ncall: %s\narguments: %s\nmodel: %s\nspecified outcome (driver lines): %q\nnative: exit=%d err=%q\nmissing: %q\nstdout:\n%s\nstderr:\n%s\n--- driver.c ---\n%s",
		f.doc, f.body, strings.Join(desc, " "), h.ModelString(mod), expect, nr.Exit, nr.Err, missing, nr.Stdout, clip(nr.Stderr, 2500), nr.Driver)
	if nr.Err != "" {
		return txt, false
	}
	if memory {
		return txt, nr.Exit == 99 || nr.Exit >= 128 || nr.Exit < 0 || len(missing) > 0
	}
	return txt, nr.Exit != 0 || len(missing) > 0
}

// c1 turns a Bool term into a 0/1 bit-vector so that it can be evaluated like the others.
func c1(h *llh.H, b *smt.Expr) *smt.Expr {
	return h.C.Ite(b, h.C.BV(1, 1), h.C.BV(1, 0))
}

func signed(vs []uint64) []int64 {
	var out []int64
	for _, v := range vs {
		out = append(out, int64(v))
	}
	return out
}

func clip(s string, n int) string {
	if len(s) > n {
		return s[:n] + "..."
	}
	return s
}
