package c17

import (
	"verif/engine/smt"
)

// in: the arguments of one call. a and b are sequences of concrete length whose elements are
// symbolic (numbers for list functions, code points for text functions); x, y are numbers, z a
// code point.
type in struct {
	parts [][]*smt.Expr // elements of a Text Liste argument
	a, b  []*smt.Expr
	x, y  *smt.Expr
	z     *smt.Expr
}

// seq: an expected sequence with a (possibly symbolic) length; el[k] is meaningful for k < n.
type seq struct {
	n  *smt.Expr
	el []*smt.Expr
}

// out: the specified outcome of a call inside the documented domain.
type out struct {
	s      *seq                          // resulting sequence (returned or left in the Referenz argument)
	v      *smt.Expr                     // returned scalar (BV64 or BV1)
	pieces [][2]int                      // text-list results under a concrete equality pattern: index ranges of a
	cond   *smt.Expr                     // the pattern under which pieces apply
	alts   []out                         // several patterns (each with cond and pieces)
	rel    func(got *smt.Expr) *smt.Expr // returned scalar: a relation instead of a value
}

func bv(c *smt.Ctx, k int) *smt.Expr { return c.BVs(64, int64(k)) }

func concSeq(c *smt.Ctx, el []*smt.Expr) *seq {
	return &seq{n: bv(c, len(el)), el: el}
}

// sel: a[idx] for a symbolic 0-based idx (unspecified outside the sequence).
func sel(c *smt.Ctx, a []*smt.Expr, idx *smt.Expr) *smt.Expr {
	if len(a) == 0 {
		return nil
	}
	r := a[len(a)-1]
	for k := len(a) - 2; k >= 0; k-- {
		r = c.Ite(c.Eq(idx, bv(c, k)), a[k], r)
	}
	return r
}

func orDefault(c *smt.Ctx, e *smt.Expr, w int) *smt.Expr {
	if e == nil {
		return c.BV(w, 0)
	}
	return e
}

func between(c *smt.Ctx, lo, v, hi *smt.Expr) *smt.Expr {
	return c.And(c.SLE(lo, v), c.SLE(v, hi))
}

func boolTo1(c *smt.Ctx, b *smt.Expr) *smt.Expr { return c.Ite(b, c.BV(1, 1), c.BV(1, 0)) }

// mkSeq builds a sequence of at most max elements.
func mkSeq(c *smt.Ctx, max int, n *smt.Expr, w int, at func(k int) *smt.Expr) *seq {
	s := &seq{n: n}
	for k := 0; k < max; k++ {
		s.el = append(s.el, orDefault(c, at(k), w))
	}
	return s
}

func elemW(a []*smt.Expr, dflt int) int {
	if len(a) > 0 {
		return a[0].Sort.W
	}
	return dflt
}

// ---- sequence operations (shared by lists and texts)

func specAppend(c *smt.Ctx, a []*smt.Expr, x *smt.Expr) *seq {
	return concSeq(c, append(append([]*smt.Expr{}, a...), x))
}

func specConcat(c *smt.Ctx, a, b []*smt.Expr) *seq {
	return concSeq(c, append(append([]*smt.Expr{}, a...), b...))
}

// insert x before the 1-based position i
func specInsert(c *smt.Ctx, a []*smt.Expr, i, x *smt.Expr) *seq {
	i0 := c.Sub(i, bv(c, 1))
	return mkSeq(c, len(a)+1, bv(c, len(a)+1), x.Sort.W, func(k int) *smt.Expr {
		var before, after *smt.Expr
		if k < len(a) {
			before = a[k]
		}
		if k >= 1 {
			after = a[k-1]
		}
		r := orDefault(c, after, x.Sort.W)
		r = c.Ite(c.Eq(i0, bv(c, k)), x, r)
		if before != nil {
			r = c.Ite(c.SLT(bv(c, k), i0), before, r)
		}
		return r
	})
}

func specInsertSeq(c *smt.Ctx, a, b []*smt.Expr, i *smt.Expr, w int) *seq {
	i0 := c.Sub(i, bv(c, 1))
	m := len(b)
	return mkSeq(c, len(a)+m, bv(c, len(a)+m), w, func(k int) *smt.Expr {
		var r *smt.Expr
		if k-m >= 0 && k-m < len(a) {
			r = a[k-m]
		}
		r = orDefault(c, r, w)
		if m > 0 {
			inB := c.And(c.SLE(i0, bv(c, k)), c.SLT(bv(c, k), c.Add(i0, bv(c, m))))
			r = c.Ite(inB, sel(c, b, c.Sub(bv(c, k), i0)), r)
		}
		if k < len(a) {
			r = c.Ite(c.SLT(bv(c, k), i0), a[k], r)
		}
		return r
	})
}

// delete the 1-based inclusive range i..j
func specDeleteRange(c *smt.Ctx, a []*smt.Expr, i, j *smt.Expr, w int) *seq {
	i0 := c.Sub(i, bv(c, 1))
	d := c.Add(c.Sub(j, i), bv(c, 1))
	return mkSeq(c, len(a), c.Sub(bv(c, len(a)), d), w, func(k int) *smt.Expr {
		if k >= len(a) {
			return nil
		}
		return c.Ite(c.SLT(bv(c, k), i0), a[k], sel(c, a, c.Add(bv(c, k), d)))
	})
}

// a[from0 : from0+n] for symbolic 0-based from0 and length n
func specSub(c *smt.Ctx, a []*smt.Expr, from0, n *smt.Expr, w int) *seq {
	return mkSeq(c, len(a), n, w, func(k int) *smt.Expr {
		return sel(c, a, c.Add(from0, bv(c, k)))
	})
}

func specReverse(c *smt.Ctx, a []*smt.Expr) *seq {
	var r []*smt.Expr
	for k := len(a) - 1; k >= 0; k-- {
		r = append(r, a[k])
	}
	return concSeq(c, r)
}

// first 1-based index of x, or -1
func specIndexOf(c *smt.Ctx, a []*smt.Expr, x *smt.Expr) *smt.Expr {
	r := c.BVs(64, -1)
	for k := len(a) - 1; k >= 0; k-- {
		r = c.Ite(c.Eq(a[k], x), bv(c, k+1), r)
	}
	return r
}

func specCount(c *smt.Ctx, a []*smt.Expr, x *smt.Expr) *smt.Expr {
	r := bv(c, 0)
	for _, e := range a {
		r = c.Add(r, c.Ite(c.Eq(e, x), bv(c, 1), bv(c, 0)))
	}
	return r
}

func specContains(c *smt.Ctx, a []*smt.Expr, x *smt.Expr) *smt.Expr {
	r := c.False()
	for _, e := range a {
		r = c.Or(r, c.Eq(e, x))
	}
	return r
}

// number of leading elements equal to z
func specLead(c *smt.Ctx, a []*smt.Expr, z *smt.Expr) *smt.Expr {
	r := bv(c, 0)
	all := c.True()
	for _, e := range a {
		all = c.And(all, c.Eq(e, z))
		r = c.Add(r, c.Ite(all, bv(c, 1), bv(c, 0)))
	}
	return r
}

func rev(a []*smt.Expr) []*smt.Expr {
	var r []*smt.Expr
	for k := len(a) - 1; k >= 0; k-- {
		r = append(r, a[k])
	}
	return r
}

// b occurs in a at the 0-based offset o
func occursAt(c *smt.Ctx, a, b []*smt.Expr, o int) *smt.Expr {
	if o < 0 || o+len(b) > len(a) {
		return c.False()
	}
	r := c.True()
	for j := range b {
		r = c.And(r, c.Eq(a[o+j], b[j]))
	}
	return r
}

func specContainsSeq(c *smt.Ctx, a, b []*smt.Expr) *smt.Expr {
	r := c.False()
	for o := 0; o+len(b) <= len(a); o++ {
		r = c.Or(r, occursAt(c, a, b, o))
	}
	return r
}

func specIndexOfSeq(c *smt.Ctx, a, b []*smt.Expr) *smt.Expr {
	r := c.BVs(64, -1)
	for o := len(a) - len(b); o >= 0; o-- {
		r = c.Ite(occursAt(c, a, b, o), bv(c, o+1), r)
	}
	return r
}

func specCountSeq(c *smt.Ctx, a, b []*smt.Expr) *smt.Expr {
	r := bv(c, 0)
	for o := 0; o+len(b) <= len(a); o++ {
		r = c.Add(r, c.Ite(occursAt(c, a, b, o), bv(c, 1), bv(c, 0)))
	}
	return r
}

// greedy left-to-right count of non-overlapping occurrences
func specCountSeqDisjoint(c *smt.Ctx, a, b []*smt.Expr) *smt.Expr {
	// free[o]: position o is not covered by an occurrence counted earlier
	n, m := len(a), len(b)
	cnt := bv(c, 0)
	// blockedUntil: smallest offset at which the next occurrence may start
	blocked := bv(c, 0)
	for o := 0; o+m <= n; o++ {
		take := c.And(occursAt(c, a, b, o), c.SLE(blocked, bv(c, o)))
		cnt = c.Add(cnt, c.Ite(take, bv(c, 1), bv(c, 0)))
		blocked = c.Ite(take, bv(c, o+m), blocked)
	}
	return cnt
}

// sorted: the ascending arrangement of a (signed), by a compare-exchange network
func specSorted(c *smt.Ctx, a []*smt.Expr) *seq {
	v := append([]*smt.Expr{}, a...)
	n := len(v)
	for i := 0; i < n; i++ {
		for j := 0; j+1 < n-i; j++ {
			lo := c.Ite(c.SLE(v[j], v[j+1]), v[j], v[j+1])
			hi := c.Ite(c.SLE(v[j], v[j+1]), v[j+1], v[j])
			v[j], v[j+1] = lo, hi
		}
	}
	return concSeq(c, v)
}

func clampS(c *smt.Ctx, v, lo, hi *smt.Expr) *smt.Expr {
	t := c.Ite(c.SLT(v, lo), lo, v)
	return c.Ite(c.SGT(t, hi), hi, t)
}
