package c17

import (
	"verif/engine/smt"
)

// param kinds of a template function
const (
	pListRef = "listref"  // Zahlen Listen Referenz, contents a
	pList    = "list"     // Zahlen Liste by value, contents a
	pListB   = "listb"    // Zahlen Liste by value, contents b
	pTextRef = "textref"  // Text Referenz, contents a
	pText    = "text"     // Text by value, contents a
	pTextB   = "textb"    // Text by value, contents b
	pX       = "x"        // Zahl x
	pY       = "y"        // Zahl y
	pZ       = "z"        // Buchstabe z
	pTextL   = "textlist" // Text Liste by value, elements parts
)

type fn struct {
	name     string
	fam      string // "list" | "text"
	params   []string
	ret      string // "nichts" | "zahl" | "bool" | "list" | "text" | "charlist" | "textlist"
	body     string
	observe  string // "ret" (the returned value) | "a" (the Referenz argument after the call)
	keepsA   bool   // the Referenz argument must be unchanged after the call
	maxA     int    // largest length of a (0 = default)
	minA     int
	maxB     int
	sameLen  bool // b has the length of a
	doc      string
	dom      func(c *smt.Ctx, v in) *smt.Expr
	spec     func(c *smt.Ctx, v in) out
	thorough bool // only in the thorough tier
	o2       bool // also checked on the module compiled at -O 2 (constant-parameter copy elision)
	maxW     int  // widest UTF-8 class exercised (0 = all of the tier); cells beyond it did not finish in the thorough budget
}

func always(c *smt.Ctx, v in) *smt.Expr { return c.True() }

func idxIn(lo func(n int) int, hi func(n int) int) func(c *smt.Ctx, v in) *smt.Expr {
	return func(c *smt.Ctx, v in) *smt.Expr {
		return between(c, bv(c, lo(len(v.a))), v.x, bv(c, hi(len(v.a))))
	}
}

var one = func(int) int { return 1 }
var lenA = func(n int) int { return n }

func rangeIn(c *smt.Ctx, v in) *smt.Expr {
	return c.And(c.SLE(bv(c, 1), v.x), c.SLE(v.x, v.y), c.SLE(v.y, bv(c, len(v.a))))
}

func listW(v in) int { return 64 }

var funcs = []fn{
	// ------------------------------------------------------------------ Duden/Listen
	{name: "app", fam: "list", params: []string{pListRef, pX}, ret: "nichts", body: "Füge x an a an.", observe: "a",
		doc: "Hinzufügen_Liste: appends the element", dom: always,
		spec: func(c *smt.Ctx, v in) out { return out{s: specAppend(c, v.a, v.x)} }},
	{name: "appl", fam: "list", params: []string{pListRef, pListB}, ret: "nichts", body: "Füge b an a an.", observe: "a", maxB: 2,
		doc: "Hinzufügen_Liste_Liste: appends the list", dom: always,
		spec: func(c *smt.Ctx, v in) out { return out{s: specConcat(c, v.a, v.b)} }},
	{name: "ins", fam: "list", params: []string{pListRef, pX, pY}, ret: "nichts", body: "Setze y an die Stelle x von a.", observe: "a",
		doc: "Einfügen_Liste: inserts before a valid index 1..len", dom: idxIn(one, lenA),
		spec: func(c *smt.Ctx, v in) out { return out{s: specInsert(c, v.a, v.x, v.y)} }},
	{name: "insl", fam: "list", params: []string{pListRef, pX, pListB}, ret: "nichts", body: "Setze die Elemente in b an die Stelle x von a.", observe: "a", maxB: 2,
		doc: "Einfügen_Bereich_Liste: inserts a list before a valid index 1..len", dom: idxIn(one, lenA),
		spec: func(c *smt.Ctx, v in) out { return out{s: specInsertSeq(c, v.a, v.b, v.x, 64)} }},
	{name: "pre", fam: "list", params: []string{pListRef, pX}, ret: "nichts", body: "Stelle x vor a.", observe: "a",
		doc: "Voranstellen_Liste", dom: always,
		spec: func(c *smt.Ctx, v in) out { return out{s: specConcat(c, []*smt.Expr{v.x}, v.a)} }},
	{name: "prel", fam: "list", params: []string{pListRef, pListB}, ret: "nichts", body: "Stelle b vor a.", observe: "a", maxB: 2,
		doc: "Voranstellen_Liste_Liste", dom: always,
		spec: func(c *smt.Ctx, v in) out { return out{s: specConcat(c, v.b, v.a)} }},
	{name: "del", fam: "list", params: []string{pListRef, pX}, ret: "nichts", body: "Lösche das Element an der Stelle x aus a.", observe: "a",
		doc: "Lösche_Element at a valid index 1..len", dom: idxIn(one, lenA),
		spec: func(c *smt.Ctx, v in) out { return out{s: specDeleteRange(c, v.a, v.x, v.x, 64)} }},
	{name: "delr", fam: "list", params: []string{pListRef, pX, pY}, ret: "nichts", body: "Lösche alle Elemente von x bis y aus a.", observe: "a",
		doc: "Lösche_Bereich for 1 <= start <= end <= len", dom: rangeIn,
		spec: func(c *smt.Ctx, v in) out { return out{s: specDeleteRange(c, v.a, v.x, v.y, 64)} }},
	{name: "fill", fam: "list", params: []string{pListRef, pX}, ret: "nichts", body: "Fülle a mit x.", observe: "a",
		doc: "Füllen_Liste", dom: always,
		spec: func(c *smt.Ctx, v in) out {
			var r []*smt.Expr
			for range v.a {
				r = append(r, v.x)
			}
			return out{s: concSeq(c, r)}
		}},
	{name: "idx", fam: "list", params: []string{pListRef, pX}, ret: "zahl", body: "Gib den Index von x in a zurück.", observe: "ret", keepsA: true,
		doc: "Index_Von_Element_Ref: first index or -1", dom: always,
		spec: func(c *smt.Ctx, v in) out { return out{v: specIndexOf(c, v.a, v.x)} }},
	{name: "idxv", fam: "list", params: []string{pList, pListB, pX}, ret: "zahl", body: "Gib den Index von x in (a verkettet mit b) zurück.", observe: "ret", maxB: 1,
		doc: "Index_Von_Element (value variant, on a temporary)", dom: always,
		spec: func(c *smt.Ctx, v in) out {
			return out{v: specIndexOf(c, append(append([]*smt.Expr{}, v.a...), v.b...), v.x)}
		}},
	{name: "has", fam: "list", params: []string{pListRef, pX}, ret: "bool", body: "Gib wahr, wenn a x enthält, zurück.", observe: "ret", keepsA: true,
		doc: "Enthält_Wert_Ref", dom: always,
		spec: func(c *smt.Ctx, v in) out { return out{v: boolTo1(c, specContains(c, v.a, v.x))} }},
	{name: "hasnot", fam: "list", params: []string{pListRef, pX}, ret: "bool", body: "Gib wahr, wenn a x nicht enthält, zurück.", observe: "ret", keepsA: true,
		doc: "Enthält_Wert_Ref, negated alias", dom: always,
		spec: func(c *smt.Ctx, v in) out { return out{v: boolTo1(c, c.Not(specContains(c, v.a, v.x)))} }},
	{name: "empty", fam: "list", params: []string{pListRef}, ret: "bool", body: "Gib wahr, wenn a leer ist, zurück.", observe: "ret", keepsA: true,
		doc: "Ist_Leer_Liste_Ref", dom: always,
		spec: func(c *smt.Ctx, v in) out { return out{v: c.BV(1, b2u(len(v.a) == 0))} }},
	{name: "firstn", fam: "list", params: []string{pListRef, pX}, ret: "list", body: "Gib die ersten x Elemente von a zurück.", observe: "ret", keepsA: true,
		doc: "Erste_N_Elemente_Liste_Ref for 1 <= n <= len", dom: idxIn(one, lenA),
		spec: func(c *smt.Ctx, v in) out { return out{s: specSub(c, v.a, bv(c, 0), v.x, 64)} }},
	{name: "lastn", fam: "list", params: []string{pListRef, pX}, ret: "list", body: "Gib die letzten x Elemente von a zurück.", observe: "ret", keepsA: true,
		doc: "Letzten_N_Elemente_Liste_Ref for 1 <= n <= len", dom: idxIn(one, lenA),
		spec: func(c *smt.Ctx, v in) out { return out{s: specSub(c, v.a, c.Sub(bv(c, len(v.a)), v.x), v.x, 64)} }},
	{name: "rev", fam: "list", params: []string{pListRef}, ret: "list", body: "Gib a gespiegelt zurück.", observe: "ret", keepsA: true,
		doc: "Liste_Spiegeln_Ref", dom: always,
		spec: func(c *smt.Ctx, v in) out { return out{s: specReverse(c, v.a)} }},
	{name: "sum", fam: "list", params: []string{pListRef}, ret: "zahl", body: "Gib die Summe aller Zahlen in a zurück.", observe: "ret", keepsA: true,
		doc: "Summe_Liste (value parameter: the caller's list is unchanged)", dom: always,
		spec: func(c *smt.Ctx, v in) out {
			r := bv(c, 0)
			for _, e := range v.a {
				r = c.Add(r, e)
			}
			return out{v: r}
		}},
	{name: "prod", fam: "list", params: []string{pListRef}, ret: "zahl", body: "Gib das Produkt aller Zahlen in a zurück.", observe: "ret", keepsA: true, maxA: 2,
		doc: "Produkt_Liste (0 for the empty list)", dom: always,
		spec: func(c *smt.Ctx, v in) out {
			if len(v.a) == 0 {
				return out{v: bv(c, 0)}
			}
			r := bv(c, 1)
			for _, e := range v.a {
				r = c.Mul(r, e)
			}
			return out{v: r}
		}},
	{name: "ewsum", fam: "list", params: []string{pListRef, pListB}, ret: "list", body: "Gib jede Zahl aus a mit b addiert zurück.", observe: "ret", keepsA: true, sameLen: true,
		doc: "Elementweise_Summe for lists of equal length", dom: always,
		spec: func(c *smt.Ctx, v in) out {
			var r []*smt.Expr
			for k := range v.a {
				r = append(r, c.Add(v.a[k], v.b[k]))
			}
			return out{s: concSeq(c, r)}
		}},
	{name: "ewdiff", fam: "list", params: []string{pListRef, pListB}, ret: "list", body: "Gib jede Zahl aus a mit b subtrahiert zurück.", observe: "ret", keepsA: true, sameLen: true,
		doc: "Elementweise_Differenz for lists of equal length", dom: always,
		spec: func(c *smt.Ctx, v in) out {
			var r []*smt.Expr
			for k := range v.a {
				r = append(r, c.Sub(v.a[k], v.b[k]))
			}
			return out{s: concSeq(c, r)}
		}},
	{name: "asc", fam: "list", params: []string{pX, pY}, ret: "list", body: "Gib eine aufsteigende Zahlen Liste von x bis y zurück.", observe: "ret", maxA: -1,
		doc: "Aufsteigende_Zahlen for start <= ende (at most 4 numbers)",
		dom: func(c *smt.Ctx, v in) *smt.Expr {
			return c.And(c.SLE(v.x, v.y), c.SLE(c.Sub(v.y, v.x), bv(c, 3)), c.SLT(v.y, c.BV(64, 1<<62)), c.SGT(v.x, c.BVs(64, -(1<<62))))
		},
		spec: func(c *smt.Ctx, v in) out {
			return out{s: mkSeq(c, 4, c.Add(c.Sub(v.y, v.x), bv(c, 1)), 64, func(k int) *smt.Expr { return c.Add(v.x, bv(c, k)) })}
		}},
	{name: "desc", fam: "list", params: []string{pX, pY}, ret: "list", body: "Gib eine absteigende Zahlen Liste von x bis y zurück.", observe: "ret", maxA: -1,
		doc: "Absteigende_Zahlen for start >= ende (at most 4 numbers)",
		dom: func(c *smt.Ctx, v in) *smt.Expr {
			return c.And(c.SGE(v.x, v.y), c.SLE(c.Sub(v.x, v.y), bv(c, 3)), c.SLT(v.x, c.BV(64, 1<<62)), c.SGT(v.y, c.BVs(64, -(1<<62))))
		},
		spec: func(c *smt.Ctx, v in) out {
			return out{s: mkSeq(c, 4, c.Add(c.Sub(v.x, v.y), bv(c, 1)), 64, func(k int) *smt.Expr { return c.Sub(v.x, bv(c, k)) })}
		}},
	// ------------------------------------------------------------------ Duden/Sortierung
	{name: "sort", o2: true, fam: "list", params: []string{pListRef}, ret: "nichts", body: "Sortiere a.", observe: "a", maxA: 4,
		doc: "Quicksort_Ref: the ascending arrangement of the list", dom: always,
		spec: func(c *smt.Ctx, v in) out { return out{s: specSorted(c, v.a)} }},
	{name: "sortv", o2: true, fam: "list", params: []string{pListRef}, ret: "list", body: "Gib (a verkettet mit (eine leere Zahlen Liste)) sortiert zurück.", observe: "ret", keepsA: true,
		doc: "Quicksort (value variant, on a temporary)", dom: always,
		spec: func(c *smt.Ctx, v in) out { return out{s: specSorted(c, v.a)} }},
	{name: "sortl", o2: true, fam: "list", params: []string{pListRef}, ret: "list", body: "Die Zahlen Liste k ist a.\n\tDie Zahlen Liste s ist k sortiert.\n\tGib k zurück.", observe: "ret", keepsA: true,
		doc: "Quicksort (value variant): the local variable given as value argument is unchanged", dom: always,
		spec: func(c *smt.Ctx, v in) out { return out{s: concSeq(c, v.a)} }},
	{name: "sortl2", o2: true, fam: "list", params: []string{pListRef}, ret: "list", body: "Die Zahlen Liste k ist a.\n\tDie Zahlen Liste s ist k sortiert.\n\tGib s zurück.", observe: "ret", keepsA: true,
		doc: "Quicksort (value variant) of a local variable", dom: always,
		spec: func(c *smt.Ctx, v in) out { return out{s: specSorted(c, v.a)} }},

	// ------------------------------------------------------------------ Duden/Texte
	{name: "trima", maxW: 2, fam: "text", params: []string{pTextRef, pZ}, ret: "nichts", body: "Entferne alle z vor a.", observe: "a",
		doc: "Trim_Anfang", dom: always,
		spec: func(c *smt.Ctx, v in) out {
			l := specLead(c, v.a, v.z)
			return out{s: specSub(c, v.a, l, c.Sub(bv(c, len(v.a)), l), 32)}
		}},
	{name: "trime", maxW: 2, fam: "text", params: []string{pTextRef, pZ}, ret: "nichts", body: "Entferne alle z nach a.", observe: "a",
		doc: "Trim_Ende", dom: always,
		spec: func(c *smt.Ctx, v in) out {
			t := specLead(c, rev(v.a), v.z)
			return out{s: specSub(c, v.a, bv(c, 0), c.Sub(bv(c, len(v.a)), t), 32)}
		}},
	{name: "trim", maxW: 2, fam: "text", params: []string{pTextRef, pZ}, ret: "nichts", body: "Entferne alle z vor und nach a.", observe: "a",
		doc: "Trim", dom: always,
		spec: func(c *smt.Ctx, v in) out {
			n := bv(c, len(v.a))
			l := specLead(c, v.a, v.z)
			t := specLead(c, rev(v.a), v.z)
			rest := c.Ite(c.Eq(l, n), bv(c, 0), c.Sub(c.Sub(n, l), t))
			return out{s: specSub(c, v.a, l, rest, 32)}
		}},
	{name: "trimv", maxW: 2, fam: "text", params: []string{pTextRef, pZ}, ret: "text", body: "Gib a mit allen z davor und danach entfernt zurück.", observe: "ret", keepsA: true,
		doc: "Trim_Wert (value parameter: the caller's text is unchanged)", dom: always,
		spec: func(c *smt.Ctx, v in) out {
			n := bv(c, len(v.a))
			l := specLead(c, v.a, v.z)
			t := specLead(c, rev(v.a), v.z)
			rest := c.Ite(c.Eq(l, n), bv(c, 0), c.Sub(c.Sub(n, l), t))
			return out{s: specSub(c, v.a, l, rest, 32)}
		}},
	{name: "thas", fam: "text", params: []string{pTextRef, pZ}, ret: "bool", body: "Gib wahr, wenn a z enthält, zurück.", observe: "ret", keepsA: true,
		doc: "Text_Enthält_Buchstabe", dom: always,
		spec: func(c *smt.Ctx, v in) out { return out{v: boolTo1(c, specContains(c, v.a, v.z))} }},
	{name: "tcount", fam: "text", params: []string{pTextRef, pZ}, ret: "zahl", body: "Gib die Anzahl der z Buchstaben in a zurück.", observe: "ret", keepsA: true,
		doc: "Text_Anzahl_Buchstabe", dom: always,
		spec: func(c *smt.Ctx, v in) out { return out{v: specCount(c, v.a, v.z)} }},
	{name: "thast", fam: "text", params: []string{pTextRef, pTextB}, ret: "bool", body: "Gib wahr, wenn a b enthält, zurück.", observe: "ret", keepsA: true, minA: 1, maxB: 2,
		doc: "Text_Enthält_Text for non-empty texts", dom: nonEmptyB,
		spec: func(c *smt.Ctx, v in) out { return out{v: boolTo1(c, specContainsSeq(c, v.a, v.b))} }},
	{name: "tcountt", fam: "text", params: []string{pTextRef, pTextB}, ret: "zahl", body: "Gib die Anzahl der Subtexte b in a zurück.", observe: "ret", keepsA: true, minA: 1, maxB: 2,
		doc: "Text_Anzahl_Text (overlapping occurrences) for non-empty texts", dom: nonEmptyB,
		spec: func(c *smt.Ctx, v in) out { return out{v: specCountSeq(c, v.a, v.b)} }},
	{name: "tcountd", fam: "text", params: []string{pTextRef, pTextB}, ret: "zahl", body: "Gib die Anzahl der nicht überlappenden Subtexte b in a zurück.", observe: "ret", keepsA: true, minA: 1, maxB: 2,
		doc: "Text_Anzahl_Text_Nicht_Überlappend for non-empty texts", dom: nonEmptyB,
		spec: func(c *smt.Ctx, v in) out { return out{v: specCountSeqDisjoint(c, v.a, v.b)} }},
	{name: "begc", fam: "text", params: []string{pTextRef, pZ}, ret: "bool", body: "Gib wahr, wenn z am Anfang von a steht, zurück.", observe: "ret", keepsA: true,
		doc: "Beginnt_Mit_Buchstabe", dom: always,
		spec: func(c *smt.Ctx, v in) out {
			if len(v.a) == 0 {
				return out{v: c.BV(1, 0)}
			}
			return out{v: boolTo1(c, c.Eq(v.a[0], v.z))}
		}},
	{name: "endc", fam: "text", params: []string{pTextRef, pZ}, ret: "bool", body: "Gib wahr, wenn z am Ende von a steht, zurück.", observe: "ret", keepsA: true,
		doc: "Endet_Mit_Buchstabe", dom: always,
		spec: func(c *smt.Ctx, v in) out {
			if len(v.a) == 0 {
				return out{v: c.BV(1, 0)}
			}
			return out{v: boolTo1(c, c.Eq(v.a[len(v.a)-1], v.z))}
		}},
	{name: "begt", fam: "text", params: []string{pTextRef, pTextB}, ret: "bool", body: "Gib wahr, wenn b am Anfang von a steht, zurück.", observe: "ret", keepsA: true, minA: 1, maxB: 2,
		doc: "Beginnt_Mit_Text for non-empty texts", dom: nonEmptyB,
		spec: func(c *smt.Ctx, v in) out { return out{v: boolTo1(c, occursAt(c, v.a, v.b, 0))} }},
	{name: "endt", fam: "text", params: []string{pTextRef, pTextB}, ret: "bool", body: "Gib wahr, wenn b am Ende von a steht, zurück.", observe: "ret", keepsA: true, minA: 1, maxB: 2,
		doc: "Endet_Mit_Text for non-empty texts", dom: nonEmptyB,
		spec: func(c *smt.Ctx, v in) out { return out{v: boolTo1(c, occursAt(c, v.a, v.b, len(v.a)-len(v.b)))} }},
	{name: "tinsc", fam: "text", params: []string{pTextRef, pX, pZ}, ret: "nichts", body: "Setze z an die Stelle x von a.", observe: "a", minA: 1,
		doc: "Buchstabe_In_Text_Einfügen at a valid index 1..len", dom: idxIn(one, lenA),
		spec: func(c *smt.Ctx, v in) out { return out{s: specInsert(c, v.a, v.x, v.z)} }},
	{name: "tinst", fam: "text", params: []string{pTextRef, pX, pTextB}, ret: "nichts", body: "Setze b an die Stelle x von a.", observe: "a", minA: 1, maxB: 2,
		doc: "Text_In_Text_Einfügen at a valid index 1..len", dom: idxIn(one, lenA),
		spec: func(c *smt.Ctx, v in) out { return out{s: specInsertSeq(c, v.a, v.b, v.x, 32)} }},
	{name: "tdel", fam: "text", params: []string{pTextRef, pX}, ret: "nichts", body: "Lösche das Element an der Stelle x aus a.", observe: "a", minA: 1,
		doc: "Lösche_Text at a valid index 1..len", dom: idxIn(one, lenA),
		spec: func(c *smt.Ctx, v in) out { return out{s: specDeleteRange(c, v.a, v.x, v.x, 32)} }},
	{name: "tdelr", fam: "text", params: []string{pTextRef, pX, pY}, ret: "nichts", body: "Lösche alle Elemente im Bereich von x bis y aus a.", observe: "a", minA: 1,
		doc: "Lösche_Text_Bereich for 1 <= start <= end <= len", dom: rangeIn,
		spec: func(c *smt.Ctx, v in) out { return out{s: specDeleteRange(c, v.a, v.x, v.y, 32)} }},
	{name: "tfill", fam: "text", params: []string{pTextRef, pZ}, ret: "nichts", body: "Fülle a mit z.", observe: "a",
		doc: "Fülle_Text", dom: always,
		spec: func(c *smt.Ctx, v in) out {
			var r []*smt.Expr
			for range v.a {
				r = append(r, v.z)
			}
			return out{s: concSeq(c, r)}
		}},
	{name: "chars", fam: "text", params: []string{pTextRef}, ret: "charlist", body: "Gib die Buchstaben in a zurück.", observe: "ret", keepsA: true,
		doc: "Buchstaben_TextRef_BuchstabenListe", dom: always,
		spec: func(c *smt.Ctx, v in) out { return out{s: concSeq(c, v.a)} }},
	{name: "tidx", fam: "text", params: []string{pTextRef, pZ}, ret: "zahl", body: "Gib den Index von z in a zurück.", observe: "ret", keepsA: true,
		doc: "Text_Index_Von_Buchstabe_Ref: first index or -1", dom: always,
		spec: func(c *smt.Ctx, v in) out { return out{v: specIndexOf(c, v.a, v.z)} }},
	{name: "tidxt", fam: "text", params: []string{pTextRef, pTextB}, ret: "zahl", body: "Gib den Index von b in a zurück.", observe: "ret", keepsA: true, minA: 1, maxB: 2,
		doc: "Text_Index_Von_Text for non-empty texts: first index or -1", dom: nonEmptyB,
		spec: func(c *smt.Ctx, v in) out { return out{v: specIndexOfSeq(c, v.a, v.b)} }},
	{name: "padl", fam: "text", params: []string{pTextRef, pZ, pX}, ret: "text", body: "Gib a mit x z links gepolstert zurück.", observe: "ret", keepsA: true, maxA: 2,
		doc: "Polster_Links up to a final length of len+2 (value parameter: the caller's text is unchanged)",
		dom: func(c *smt.Ctx, v in) *smt.Expr {
			return c.And(c.SLE(v.x, bv(c, len(v.a)+2)), c.SGT(v.x, c.BVs(64, -(1<<62))))
		},
		spec: func(c *smt.Ctx, v in) out {
			n := len(v.a)
			pad := clampS(c, c.Sub(v.x, bv(c, n)), bv(c, 0), bv(c, 2))
			return out{s: mkSeq(c, n+2, c.Add(bv(c, n), pad), 32, func(k int) *smt.Expr {
				return c.Ite(c.SLT(bv(c, k), pad), v.z, orDefault(c, sel(c, v.a, c.Sub(bv(c, k), pad)), 32))
			})}
		}},
	{name: "padr", fam: "text", params: []string{pTextRef, pZ, pX}, ret: "text", body: "Gib a mit x z rechts gepolstert zurück.", observe: "ret", keepsA: true, maxA: 2,
		doc: "Polster_Rechts up to a final length of len+2 (value parameter: the caller's text is unchanged)",
		dom: func(c *smt.Ctx, v in) *smt.Expr {
			return c.And(c.SLE(v.x, bv(c, len(v.a)+2)), c.SGT(v.x, c.BVs(64, -(1<<62))))
		},
		spec: func(c *smt.Ctx, v in) out {
			n := len(v.a)
			pad := clampS(c, c.Sub(v.x, bv(c, n)), bv(c, 0), bv(c, 2))
			return out{s: mkSeq(c, n+2, c.Add(bv(c, n), pad), 32, func(k int) *smt.Expr {
				if k < n {
					return v.a[k]
				}
				return v.z
			})}
		}},
	{name: "remf", fam: "text", params: []string{pTextRef, pX}, ret: "nichts", body: "Entferne x Buchstaben am Anfang von a.", observe: "a",
		doc: "Entferne_Anzahl_Vorne_Mutierend: counts below 0 count as 0, counts above the length empty the text", dom: always,
		spec: func(c *smt.Ctx, v in) out {
			n := bv(c, len(v.a))
			k := clampS(c, v.x, bv(c, 0), n)
			return out{s: specSub(c, v.a, k, c.Sub(n, k), 32)}
		}},
	{name: "remb", fam: "text", params: []string{pTextRef, pX}, ret: "nichts", body: "Entferne x Buchstaben am Ende von a.", observe: "a",
		doc: "Entferne_Anzahl_Hinten_Mutierend: counts below 0 count as 0, counts above the length empty the text", dom: always,
		spec: func(c *smt.Ctx, v in) out {
			n := bv(c, len(v.a))
			k := clampS(c, v.x, bv(c, 0), n)
			return out{s: specSub(c, v.a, bv(c, 0), c.Sub(n, k), 32)}
		}},
	{name: "split", maxW: 2, fam: "text", params: []string{pTextRef, pZ}, ret: "textlist", body: "Gib a an z gespalten zurück.", observe: "ret", keepsA: true, minA: 1,
		doc: "Spalte: the pieces between the occurrences of the character (non-empty text)", dom: always,
		spec: specSplit},
	{name: "lowerc", fam: "text", params: []string{pZ}, ret: "char", body: "Gib z als kleiner Buchstabe zurück.", observe: "ret", maxA: -1,
		doc: "Kleingeschrieben: A-Z, Ä, Ö, Ü become lower case, every other character is returned unchanged", dom: always,
		spec: func(c *smt.Ctx, v in) out { return out{v: specLower(c, v.z)} }},
	{name: "upperc", fam: "text", params: []string{pZ}, ret: "char", body: "Gib z als großer Buchstabe zurück.", observe: "ret", maxA: -1,
		doc: "Großgeschrieben: a-z, ä, ö, ü become upper case, every other character is returned unchanged", dom: always,
		spec: func(c *smt.Ctx, v in) out { return out{v: specUpper(c, v.z)} }},
	{name: "lower", fam: "text", params: []string{pTextRef}, ret: "text", body: "Gib a klein geschrieben zurück.", observe: "ret", keepsA: true, maxA: 2,
		doc: "Kleinschreiben_Wert", dom: always,
		spec: func(c *smt.Ctx, v in) out {
			var r []*smt.Expr
			for _, e := range v.a {
				r = append(r, specLower(c, e))
			}
			return out{s: concSeq(c, r)}
		}},
	{name: "upper", fam: "text", params: []string{pTextRef}, ret: "nichts", body: "Schreibe a groß.", observe: "a", maxA: 2,
		doc: "Großschreiben", dom: always,
		spec: func(c *smt.Ctx, v in) out {
			var r []*smt.Expr
			for _, e := range v.a {
				r = append(r, specUpper(c, e))
			}
			return out{s: concSeq(c, r)}
		}},
	{name: "join", fam: "text", params: []string{pTextL, pZ}, ret: "text", body: "Gib l mit dem Trennzeichen z zum Text verbunden zurück.", observe: "ret",
		doc: "Verbinden_Text: the elements with the separator between neighbours", dom: always,
		spec: func(c *smt.Ctx, v in) out {
			var r []*smt.Expr
			for k, p := range v.parts {
				if k > 0 {
					r = append(r, v.z)
				}
				r = append(r, p...)
			}
			return out{s: concSeq(c, r)}
		}},
	{name: "splitt", maxW: 2, fam: "text", params: []string{pTextRef, pTextB}, ret: "textlist", body: "Gib a an b gespalten zurück.", observe: "ret", keepsA: true, minA: 1, maxB: 2, thorough: true,
		doc: "Spalte_Text: the pieces between the non-overlapping occurrences (from the left) of a separator of two characters", dom: func(c *smt.Ctx, v in) *smt.Expr { return c.BoolC(len(v.b) == 2) },
		spec: specSplitText},
	{name: "hamm", fam: "text", params: []string{pTextRef, pTextB}, ret: "zahl", body: "Gib die Hamming-Distanz zwischen a und b zurück.", observe: "ret", keepsA: true, maxB: 2,
		doc: "Hamming_Distanz: number of differing positions, -1 for different lengths", dom: always,
		spec: func(c *smt.Ctx, v in) out {
			if len(v.a) != len(v.b) {
				return out{v: c.BVs(64, -1)}
			}
			r := bv(c, 0)
			for k := range v.a {
				r = c.Add(r, c.Ite(c.Eq(v.a[k], v.b[k]), bv(c, 0), bv(c, 1)))
			}
			return out{v: r}
		}},
	{name: "cmp", fam: "text", params: []string{pTextRef, pTextB}, ret: "zahl", body: "Gib a mit b verglichen zurück.", observe: "ret", keepsA: true, maxB: 2,
		doc: "Vergleiche_Text: 0 for equal texts, the sign of the first differing character, -1/1 when one text is a proper prefix of the other", dom: always,
		spec: func(c *smt.Ctx, v in) out {
			return out{rel: func(got *smt.Expr) *smt.Expr {
				// lexicographic comparison by code points
				less, greater := c.False(), c.False()
				eqSoFar := c.True()
				k := 0
				for ; k < len(v.a) && k < len(v.b); k++ {
					less = c.Or(less, c.And(eqSoFar, c.ULT(v.a[k], v.b[k])))
					greater = c.Or(greater, c.And(eqSoFar, c.UGT(v.a[k], v.b[k])))
					eqSoFar = c.And(eqSoFar, c.Eq(v.a[k], v.b[k]))
				}
				var prefix *smt.Expr
				switch {
				case len(v.a) < len(v.b):
					prefix = c.Eq(got, c.BVs(64, -1))
				case len(v.a) > len(v.b):
					prefix = c.Eq(got, bv(c, 1))
				default:
					prefix = c.Eq(got, bv(c, 0))
				}
				zero := bv(c, 0)
				return c.And(c.Implies(less, c.SLT(got, zero)), c.Implies(greater, c.SGT(got, zero)), c.Implies(eqSoFar, prefix))
			}}
		}},
}

// specSplitText enumerates which offsets of a hold an occurrence of b; under each pattern the
// separators are chosen greedily from the left and the pieces are concrete index ranges of a.
func specSplitText(c *smt.Ctx, v in) out {
	n, m := len(v.a), len(v.b)
	var o out
	offs := n - m + 1
	if offs < 0 {
		offs = 0
	}
	for mask := 0; mask < 1<<offs; mask++ {
		cond := c.True()
		for k := 0; k < offs; k++ {
			if mask&(1<<k) != 0 {
				cond = c.And(cond, occursAt(c, v.a, v.b, k))
			} else {
				cond = c.And(cond, c.Not(occursAt(c, v.a, v.b, k)))
			}
		}
		var pieces [][2]int
		start := 0
		for k := 0; k < offs; {
			if mask&(1<<k) != 0 {
				pieces = append(pieces, [2]int{start, k})
				start = k + m
				k += m
			} else {
				k++
			}
		}
		pieces = append(pieces, [2]int{start, n})
		o.alts = append(o.alts, out{cond: cond, pieces: pieces})
	}
	return o
}

func inRange(c *smt.Ctx, v *smt.Expr, lo, hi uint64) *smt.Expr {
	return c.And(c.UGE(v, c.BV(32, lo)), c.ULE(v, c.BV(32, hi)))
}

func isOneOf(c *smt.Ctx, v *smt.Expr, xs ...uint64) *smt.Expr {
	r := c.False()
	for _, x := range xs {
		r = c.Or(r, c.Eq(v, c.BV(32, x)))
	}
	return r
}

func specLower(c *smt.Ctx, v *smt.Expr) *smt.Expr {
	return c.Ite(c.Or(inRange(c, v, 'A', 'Z'), isOneOf(c, v, 196, 214, 220)), c.Add(v, c.BV(32, 32)), v)
}

func specUpper(c *smt.Ctx, v *smt.Expr) *smt.Expr {
	return c.Ite(c.Or(inRange(c, v, 'a', 'z'), isOneOf(c, v, 228, 246, 252)), c.Sub(v, c.BV(32, 32)), v)
}

func nonEmptyB(c *smt.Ctx, v in) *smt.Expr { return c.BoolC(len(v.b) >= 1 && len(v.a) >= 1) }

func b2u(b bool) uint64 {
	if b {
		return 1
	}
	return 0
}

// specSplit enumerates the equality patterns of a against z; under each pattern the pieces are
// concrete index ranges of a.
func specSplit(c *smt.Ctx, v in) out {
	n := len(v.a)
	var o out
	for mask := 0; mask < 1<<n; mask++ {
		cond := c.True()
		var pieces [][2]int
		start := 0
		for k := 0; k < n; k++ {
			if mask&(1<<k) != 0 {
				cond = c.And(cond, c.Eq(v.a[k], v.z))
				pieces = append(pieces, [2]int{start, k})
				start = k + 1
			} else {
				cond = c.And(cond, c.Not(c.Eq(v.a[k], v.z)))
			}
		}
		pieces = append(pieces, [2]int{start, n})
		o.alts = append(o.alts, out{cond: cond, pieces: pieces})
	}
	return o
}
