package c01

import (
	"fmt"

	"verif/engine/llread"
	"verif/engine/llse"
	"verif/engine/props/ddp"
	"verif/engine/props/llh"
	"verif/engine/smt"
)

const sinkDecl = `Die Funktion c01_sink mit dem Parameter x vom Typ Zahl, gibt einen Wahrheitswert zurück,
ist in "c01_sink.c" definiert
Und kann so benutzt werden:
	"c01_sink <x>"

Die Funktion c01_emit mit dem Parameter x vom Typ Zahl, gibt nichts zurück,
ist in "c01_sink.c" definiert
Und kann so benutzt werden:
	"c01_emit <x>"

Die Funktion c01_emitb mit dem Parameter x vom Typ Byte, gibt nichts zurück,
ist in "c01_sink.c" definiert
Und kann so benutzt werden:
	"c01_emitb <x>"

`

func (x *ctx) newH(opt int, name string, mod *llread.Module) *llh.H {
	h := llh.NewH(x.r, fmt.Sprintf("O%d/%s", opt, name), x.timeout, diffRate(x.r), append([]*llread.Module{mod, x.lists}, x.rt...)...)
	h.Ex.Sink("c01_sink")
	h.Ex.Sink("c01_emit")
	h.Ex.Sink("c01_emitb")
	h.R.Stub("c01_sink/c01_emit = event-recording extern sinks")
	return h
}

func (x *ctx) controlCells() []llh.CellFn {
	var cells []llh.CellFn
	// short circuit
	for _, op := range []string{"und", "oder"} {
		op := op
		cells = append(cells, func() { x.cellShortCircuit(op) })
	}
	for _, step := range []int{0, 1, 2, 3, -1, -2, -3} {
		step := step
		cells = append(cells, func() { x.cellFor(step) })
	}
	cells = append(cells, x.cellForByte, x.cellRepeat, x.cellWhile)
	for n := 0; n <= 3; n++ {
		n := n
		cells = append(cells, func() { x.cellForEach(n) })
	}
	return cells
}

func (x *ctx) cellShortCircuit(op string) {
	src := sinkDecl + ddp.Func("c01_sc_"+op, []ddp.Param{{"a", "Wahrheitswert"}, {"x", "Zahl"}}, "einen Wahrheitswert", "Gib a "+op+" (c01_sink x) zurück.")
	for _, opt := range x.levels {
		mod := x.compile("c01_sc_"+op, src, opt)
		if mod == nil {
			return
		}
		h := x.newH(opt, "shortcircuit_"+op, mod)
		c := h.C
		a := h.Var("a", 1)
		xv := h.Var("x", 64)
		res := h.Run("c01_sc_"+op, []llse.Val{{E: a}, {E: xv}})
		aTrue := c.Eq(a, c.BV(1, 1))
		evalRight := aTrue
		if op == "oder" {
			evalRight = c.Not(aTrue)
		}
		for _, s := range res {
			h.On(s)
			if s.Term != llse.TermReturn {
				h.Fail("must-return")
				continue
			}
			switch len(s.Events) {
			case 0:
				h.Holds("right-operand-skipped-only-when-decided", s.PC, c.Not(evalRight))
				h.Holds("value", s.PC, c.Eq(s.Ret.E, a))
			case 1:
				h.Holds("right-operand-evaluated-only-when-needed", s.PC, evalRight)
				h.Holds("argument-passed", s.PC, c.Eq(s.Events[0].Args[0].E, xv))
				// the value is that of the right operand
				h.Holds("value-is-right-operand", s.PC, c.Eq(s.Ret.E, s.Events[0].Ret.E))
			default:
				h.Fail("right-operand-evaluated-more-than-once")
			}
		}
		if len(res) < 2 {
			x.r.EngineFailf("%s: vacuity guard: expected two paths, got %d", h.Cell, len(res))
		}
		x.finish(h, res, nil)
		h.Close()
	}
}

// cellFor: Für jede Zahl i von a bis b [mit Schrittgröße s]: emits a, a+s, ... while <= b (>= b for s < 0).
func (x *ctx) cellFor(step int) {
	stepTxt := ""
	name := "for_default"
	if step != 0 {
		stepTxt = fmt.Sprintf(" mit Schrittgröße %d", step)
		name = fmt.Sprintf("for_step_%d", step)
		if step < 0 {
			name = fmt.Sprintf("for_step_m%d", -step)
		}
	}
	fn := "c01_" + name
	src := sinkDecl + ddp.Func(fn, []ddp.Param{{"a", "Zahl"}, {"b", "Zahl"}}, "nichts", "Für jede Zahl i von a bis b"+stepTxt+", mache:\n\t\tc01_emit i.")
	s64 := int64(step)
	if step == 0 {
		s64 = 1
	}
	for _, opt := range x.levels {
		mod := x.compile(fn, src, opt)
		if mod == nil {
			return
		}
		h := x.newH(opt, name, mod)
		c := h.C
		a := h.Var("a", 64)
		d := h.Var("d", 64)
		h.St.Assume(c.And(c.SGE(a, c.BVs(64, -(1<<61))), c.SLE(a, c.BVs(64, 1<<61))))
		h.St.Assume(c.And(c.SGE(d, c.BVs(64, -7)), c.SLE(d, c.BVs(64, 7))))
		b := c.Add(a, d)
		res := h.Run(fn, []llse.Val{{E: a}, {E: b}})
		inRange := func(v *smt.Expr) *smt.Expr {
			if s64 > 0 {
				return c.SLE(v, b)
			}
			return c.SGE(v, b)
		}
		counts := map[int]bool{}
		for _, s := range res {
			h.On(s)
			if s.Term != llse.TermReturn {
				h.Fail("loop-must-terminate-normally")
				continue
			}
			n := len(s.Events)
			counts[n] = true
			ok := c.True()
			for k := 0; k < n; k++ {
				v := c.Add(a, c.BVs(64, int64(k)*s64))
				ok = c.And(ok, c.Eq(s.Events[k].Args[0].E, v), inRange(v))
			}
			ok = c.And(ok, c.Not(inRange(c.Add(a, c.BVs(64, int64(n)*s64)))))
			h.Holds(fmt.Sprintf("iteration-sequence-%d", n), s.PC, ok)
		}
		if len(counts) < 3 {
			x.r.EngineFailf("%s: vacuity guard: only %d distinct trip counts", h.Cell, len(counts))
		}
		x.r.Sample(map[string]any{"cell": h.Cell, "trip_counts_seen": len(counts), "symbolic": "a (62 bit), b-a in [-7,7]"})
		x.finish(h, res, nil)
		h.Close()
	}
}

func (x *ctx) cellForByte() {
	fn := "c01_for_byte"
	src := sinkDecl + ddp.Func(fn, []ddp.Param{{"a", "Byte"}, {"b", "Byte"}}, "nichts", "Für jeden Byte i von a bis b, mache:\n\t\tc01_emitb i.")
	for _, opt := range x.levels {
		mod := x.compile(fn, src, opt)
		if mod == nil {
			return
		}
		h := x.newH(opt, "for_byte", mod)
		c := h.C
		a := h.Var("a", 8)
		b := h.Var("b", 8)
		// at most 6 iterations: b - a <= 5 as numbers, including the top of the range (250..255)
		h.St.Assume(c.Or(c.ULT(b, a), c.ULE(c.Sub(b, a), c.BV(8, 5))))
		res := h.Run(fn, []llse.Val{{E: a}, {E: b}})
		counts := map[int]bool{}
		for _, s := range res {
			h.On(s)
			if s.Term != llse.TermReturn {
				h.Fail("loop-must-terminate-normally")
				continue
			}
			n := len(s.Events)
			counts[n] = true
			a9, b9 := c.ZExt(a, 16), c.ZExt(b, 16)
			ok := c.True()
			for k := 0; k < n; k++ {
				v := c.Add(a9, c.BV(16, uint64(k)))
				ok = c.And(ok, c.Eq(c.ZExt(s.Events[k].Args[0].E, 16), v), c.ULE(v, b9))
			}
			ok = c.And(ok, c.UGT(c.Add(a9, c.BV(16, uint64(n))), b9))
			h.Holds(fmt.Sprintf("byte-iteration-sequence-%d", n), s.PC, ok)
		}
		if len(counts) < 3 {
			x.r.EngineFailf("%s: vacuity guard: only %d distinct trip counts", h.Cell, len(counts))
		}
		x.finish(h, res, nil)
		h.Close()
	}
}

func (x *ctx) cellRepeat() {
	fn := "c01_repeat"
	src := sinkDecl + ddp.Func(fn, []ddp.Param{{"n", "Zahl"}, {"v", "Zahl"}}, "nichts", "Wiederhole:\n\t\tc01_emit v.\n\tn Mal.")
	for _, opt := range x.levels {
		mod := x.compile(fn, src, opt)
		if mod == nil {
			return
		}
		h := x.newH(opt, "repeat", mod)
		c := h.C
		n := h.Var("n", 64)
		v := h.Var("v", 64)
		// negative counts are outside the claim: the pinned lowering counts down to zero, i.e. wraps around
		h.St.Assume(c.And(c.SGE(n, c.BVs(64, 0)), c.SLE(n, c.BVs(64, 5))))
		res := h.Run(fn, []llse.Val{{E: n}, {E: v}})
		counts := map[int]bool{}
		for _, s := range res {
			h.On(s)
			if s.Term != llse.TermReturn {
				h.Fail("loop-must-terminate-normally")
				continue
			}
			k := len(s.Events)
			counts[k] = true
			want := c.Ite(c.SLT(n, c.BV(64, 0)), c.BV(64, 0), n)
			ok := c.Eq(want, c.BV(64, uint64(k)))
			for _, e := range s.Events {
				ok = c.And(ok, c.Eq(e.Args[0].E, v))
			}
			h.Holds(fmt.Sprintf("repeat-count-%d", k), s.PC, ok)
		}
		if len(counts) < 3 {
			x.r.EngineFailf("%s: vacuity guard: only %d distinct counts", h.Cell, len(counts))
		}
		x.finish(h, res, nil)
		h.Close()
	}
}

func (x *ctx) cellWhile() {
	fn := "c01_while"
	src := sinkDecl + ddp.Func(fn, []ddp.Param{{"a", "Zahl"}, {"b", "Zahl"}}, "nichts", "Die Zahl i ist a.\n\tSolange i kleiner als b ist, mache:\n\t\tc01_emit i.\n\t\tErhöhe i um 1.")
	for _, opt := range x.levels {
		mod := x.compile(fn, src, opt)
		if mod == nil {
			return
		}
		h := x.newH(opt, "while", mod)
		c := h.C
		a := h.Var("a", 64)
		d := h.Var("d", 64)
		h.St.Assume(c.And(c.SGE(a, c.BVs(64, -(1<<61))), c.SLE(a, c.BVs(64, 1<<61))))
		h.St.Assume(c.And(c.SGE(d, c.BVs(64, -3)), c.SLE(d, c.BVs(64, 5))))
		b := c.Add(a, d)
		res := h.Run(fn, []llse.Val{{E: a}, {E: b}})
		counts := map[int]bool{}
		for _, s := range res {
			h.On(s)
			if s.Term != llse.TermReturn {
				h.Fail("loop-must-terminate-normally")
				continue
			}
			n := len(s.Events)
			counts[n] = true
			ok := c.True()
			for k := 0; k < n; k++ {
				v := c.Add(a, c.BV(64, uint64(k)))
				ok = c.And(ok, c.Eq(s.Events[k].Args[0].E, v), c.SLT(v, b))
			}
			ok = c.And(ok, c.Not(c.SLT(c.Add(a, c.BV(64, uint64(n))), b)))
			h.Holds(fmt.Sprintf("while-sequence-%d", n), s.PC, ok)
		}
		if len(counts) < 3 {
			x.r.EngineFailf("%s: vacuity guard: only %d distinct trip counts", h.Cell, len(counts))
		}
		x.finish(h, res, nil)
		h.Close()
	}
}

func (x *ctx) cellForEach(n int) {
	fn := "c01_foreach"
	src := sinkDecl + ddp.Func(fn, []ddp.Param{{"l", "Zahlen Liste"}}, "nichts", "Für jede Zahl z in l, mache:\n\t\tc01_emit z.")
	for _, opt := range x.levels {
		mod := x.compile(fn, src, opt)
		if mod == nil {
			return
		}
		h := x.newH(opt, fmt.Sprintf("foreach_len%d", n), mod)
		c := h.C
		cp := n
		if n > 0 {
			cp = n + 2
		}
		l := h.ConcList("l", 8, n, cp, false)
		var el []*smt.Expr
		for k := 0; k < n; k++ {
			v := h.Var(fmt.Sprintf("e%d", k), 64)
			el = append(el, v)
			h.SetElem(l, k, v)
		}
		res := h.Run(fn, []llse.Val{h.Ptr(l.Hdr)})
		for _, s := range res {
			h.On(s)
			if s.Term != llse.TermReturn {
				h.Fail("loop-must-terminate-normally")
				continue
			}
			if len(s.Events) != n {
				h.Fail(fmt.Sprintf("foreach-visits-%d-instead-of-%d", len(s.Events), n))
				continue
			}
			ok := c.True()
			for k := 0; k < n; k++ {
				ok = c.And(ok, c.Eq(s.Events[k].Args[0].E, el[k]))
			}
			h.Holds("foreach-order", s.PC, ok)
		}
		if len(res) == 0 {
			x.r.EngineFailf("%s: vacuity guard: no path", h.Cell)
		}
		x.finish(h, res, nil)
		h.Close()
	}
}
