// Package c01: compiled programs behave as DDP's evaluation rules prescribe (template cells).
package c01

import (
	"verif/engine/llse"
	"verif/engine/props/llh"
	"verif/engine/smt"
)

// T is a scalar DDP type.
type T int

const (
	Z T = iota // Zahl
	K          // Kommazahl
	B          // Byte
	W          // Wahrheitswert
	C          // Buchstabe
)

var tName = map[T]string{Z: "Zahl", K: "Kommazahl", B: "Byte", W: "Wahrheitswert", C: "Buchstabe"}
var tKey = map[T]string{Z: "z", K: "k", B: "b", W: "w", C: "c"}
var tRet = map[T]string{Z: "eine Zahl", K: "eine Kommazahl", B: "einen Byte", W: "einen Wahrheitswert", C: "einen Buchstaben"}
var tBits = map[T]int{Z: 64, K: 64, B: 8, W: 1, C: 32}
var tC = map[T]string{Z: "ddpint", K: "ddpfloat", B: "ddpbyte", W: "ddpbool", C: "ddpchar"}

func symArg(h *llh.H, t T, name string) llse.Val {
	if t == K {
		return llse.Val{E: h.FVar(name)}
	}
	v := h.Var(name, tBits[t])
	if t == C {
		// a Buchstabe holds a Unicode scalar value
		c := h.C
		h.St.Assume(c.And(c.ULE(v, c.BV(32, 0x10ffff)), c.Or(c.ULT(v, c.BV(32, 0xd800)), c.UGT(v, c.BV(32, 0xdfff)))))
	}
	return llse.Val{E: v}
}

// toK converts a numeric operand to double exactly as the value rules say (Byte is unsigned).
func toK(c *smt.Ctx, t T, e *smt.Expr) *smt.Expr {
	switch t {
	case K:
		return e
	case B:
		return c.UIToFP(e)
	default:
		return c.SIToFP(e)
	}
}

// toZ converts an integer operand to a 64-bit Zahl (Byte zero-extended).
func toZ(c *smt.Ctx, t T, e *smt.Expr) *smt.Expr {
	switch t {
	case B, W:
		return c.ZExt(e, 64)
	case C:
		return c.SExt(e, 64)
	}
	return e
}

// sameValue: integers bit-identical; doubles equal as numbers or both NaN.
func sameValue(c *smt.Ctx, t T, a, b *smt.Expr) *smt.Expr {
	if t == K {
		return c.Or(c.FEq(a, b), c.And(c.FIsNaN(a), c.FIsNaN(b)))
	}
	return c.Eq(a, b)
}
