package c01

import (
	"fmt"

	"verif/engine/smt"
)

type refFn func(c *smt.Ctx, a []*smt.Expr) *smt.Expr

type cell struct {
	name   string
	ptypes []T
	ret    T
	expr   string // DDP expression over the parameters a, b, c
	pre    string // statements in front of the returning statement (may be empty)
	top    string // declarations in front of the function (may be empty)
	ref    refFn
	group  string
}

var pnames = []string{"a", "b", "c"}

func arithT(t1, t2 T) T {
	switch {
	case t1 == K || t2 == K:
		return K
	case t1 == B && t2 == B:
		return B
	}
	return Z
}

var numeric = []T{Z, K, B}
var integer = []T{Z, B}

func isNum(t T) bool { return t == Z || t == K || t == B }

// conv brings an operand of type t to the arithmetic type r.
func conv(c *smt.Ctx, t, r T, e *smt.Expr) *smt.Expr {
	switch r {
	case K:
		return toK(c, t, e)
	case Z:
		return toZ(c, t, e)
	}
	return e
}

func scalarCells() []cell {
	var cells []cell
	add := func(group, name string, pt []T, ret T, expr string, ref refFn) {
		cells = append(cells, cell{name: name, ptypes: pt, ret: ret, expr: expr, ref: ref, group: group})
	}
	// --- arithmetic: plus, minus, mal
	type bop struct {
		key, fmt string
		i        func(c *smt.Ctx, a, b *smt.Expr) *smt.Expr
		f        func(c *smt.Ctx, a, b *smt.Expr) *smt.Expr
	}
	ar := []bop{
		{"plus", "a plus b", (*smt.Ctx).Add, (*smt.Ctx).FAdd},
		{"minus", "a minus b", (*smt.Ctx).Sub, (*smt.Ctx).FSub},
		{"mal", "a mal b", (*smt.Ctx).Mul, (*smt.Ctx).FMul},
	}
	for _, o := range ar {
		o := o
		for _, t1 := range numeric {
			for _, t2 := range numeric {
				t1, t2 := t1, t2
				r := arithT(t1, t2)
				add("arith", fmt.Sprintf("%s_%s%s", o.key, tKey[t1], tKey[t2]), []T{t1, t2}, r, o.fmt, func(c *smt.Ctx, a []*smt.Expr) *smt.Expr {
					x, y := conv(c, t1, r, a[0]), conv(c, t2, r, a[1])
					if r == K {
						return o.f(c, x, y)
					}
					return o.i(c, x, y)
				})
			}
		}
	}
	// --- durch, hoch, Logarithmus: always Kommazahl
	for _, t1 := range numeric {
		for _, t2 := range numeric {
			t1, t2 := t1, t2
			add("arith", fmt.Sprintf("durch_%s%s", tKey[t1], tKey[t2]), []T{t1, t2}, K, "a durch b", func(c *smt.Ctx, a []*smt.Expr) *smt.Expr {
				return c.FDiv(toK(c, t1, a[0]), toK(c, t2, a[1]))
			})
			add("arith", fmt.Sprintf("hoch_%s%s", tKey[t1], tKey[t2]), []T{t1, t2}, K, "a hoch b", func(c *smt.Ctx, a []*smt.Expr) *smt.Expr {
				return c.App("libm.pow", smt.FP, toK(c, t1, a[0]), toK(c, t2, a[1]))
			})
			add("arith", fmt.Sprintf("log_%s%s", tKey[t1], tKey[t2]), []T{t1, t2}, K, "der Logarithmus von a zur Basis b", func(c *smt.Ctx, a []*smt.Expr) *smt.Expr {
				return c.FDiv(c.App("libm.log10", smt.FP, toK(c, t1, a[0])), c.App("libm.log10", smt.FP, toK(c, t2, a[1])))
			})
		}
	}
	// --- modulo and the bitwise operators on Zahl/Byte
	for _, t1 := range integer {
		for _, t2 := range integer {
			t1, t2 := t1, t2
			r := arithT(t1, t2)
			add("arith", fmt.Sprintf("modulo_%s%s", tKey[t1], tKey[t2]), []T{t1, t2}, r, "a modulo b", func(c *smt.Ctx, a []*smt.Expr) *smt.Expr {
				if r == B {
					return c.URem(a[0], a[1])
				}
				return c.SRem(toZ(c, t1, a[0]), toZ(c, t2, a[1]))
			})
			for _, o := range []struct {
				key, fmt string
				f        func(c *smt.Ctx, a, b *smt.Expr) *smt.Expr
			}{{"lund", "a logisch und b", (*smt.Ctx).BAnd}, {"loder", "a logisch oder b", (*smt.Ctx).BOr}, {"lkontra", "a logisch kontra b", (*smt.Ctx).BXor}} {
				o := o
				add("bitwise", fmt.Sprintf("%s_%s%s", o.key, tKey[t1], tKey[t2]), []T{t1, t2}, r, o.fmt, func(c *smt.Ctx, a []*smt.Expr) *smt.Expr {
					return o.f(c, conv(c, t1, r, a[0]), conv(c, t2, r, a[1]))
				})
			}
			// shifts: the result has the type of the left operand; the amount is taken as a number
			for _, o := range []struct {
				key, fmt string
				left     bool
			}{{"lshift", "a um b Bit nach links verschoben", true}, {"rshift", "a um b Bit nach rechts verschoben", false}} {
				o := o
				add("bitwise", fmt.Sprintf("%s_%s%s", o.key, tKey[t1], tKey[t2]), []T{t1, t2}, t1, o.fmt, func(c *smt.Ctx, a []*smt.Expr) *smt.Expr {
					amt := a[1]
					w := tBits[t1]
					if amt.Sort.W > w {
						amt = c.Trunc(amt, w)
					} else if amt.Sort.W < w {
						amt = c.ZExt(amt, w)
					}
					if o.left {
						return c.Shl(a[0], amt)
					}
					// right shift is logical: a Zahl is shifted as a bit pattern (frozen from the pinned tree)
					return c.LShr(a[0], amt)
				})
			}
		}
	}
	// --- comparisons on numeric operands of every mix
	for _, o := range []struct {
		key, fmt string
		s        func(c *smt.Ctx, a, b *smt.Expr) *smt.Expr
		u        func(c *smt.Ctx, a, b *smt.Expr) *smt.Expr
		f        func(c *smt.Ctx, a, b *smt.Expr) *smt.Expr
	}{
		{"kleiner", "a kleiner als b ist", (*smt.Ctx).SLT, (*smt.Ctx).ULT, (*smt.Ctx).FLt},
		{"groesser", "a größer als b ist", (*smt.Ctx).SGT, (*smt.Ctx).UGT, (*smt.Ctx).FGt},
		{"kleinergleich", "a kleiner als, oder b ist", (*smt.Ctx).SLE, (*smt.Ctx).ULE, (*smt.Ctx).FLe},
		{"groessergleich", "a größer als, oder b ist", (*smt.Ctx).SGE, (*smt.Ctx).UGE, (*smt.Ctx).FGe},
	} {
		o := o
		for _, t1 := range numeric {
			for _, t2 := range numeric {
				t1, t2 := t1, t2
				r := arithT(t1, t2)
				add("compare", fmt.Sprintf("%s_%s%s", o.key, tKey[t1], tKey[t2]), []T{t1, t2}, W, o.fmt, func(c *smt.Ctx, a []*smt.Expr) *smt.Expr {
					x, y := conv(c, t1, r, a[0]), conv(c, t2, r, a[1])
					var b *smt.Expr
					switch r {
					case K:
						b = o.f(c, x, y)
					case B:
						b = o.u(c, x, y)
					default:
						b = o.s(c, x, y)
					}
					return c.BoolToBV(b, 1)
				})
			}
		}
	}
	// --- equality on every scalar type
	for _, t := range []T{Z, K, B, W, C} {
		t := t
		eq := func(c *smt.Ctx, a []*smt.Expr) *smt.Expr {
			if t == K {
				return c.FEq(a[0], a[1])
			}
			return c.Eq(a[0], a[1])
		}
		add("equality", "gleich_"+tKey[t], []T{t, t}, W, "a gleich b ist", func(c *smt.Ctx, a []*smt.Expr) *smt.Expr { return c.BoolToBV(eq(c, a), 1) })
		add("equality", "ungleich_"+tKey[t], []T{t, t}, W, "a ungleich b ist", func(c *smt.Ctx, a []*smt.Expr) *smt.Expr { return c.BoolToBV(c.Not(eq(c, a)), 1) })
	}
	// --- truth values
	add("logic", "und", []T{W, W}, W, "a und b", func(c *smt.Ctx, a []*smt.Expr) *smt.Expr { return c.BAnd(a[0], a[1]) })
	add("logic", "oder", []T{W, W}, W, "a oder b", func(c *smt.Ctx, a []*smt.Expr) *smt.Expr { return c.BOr(a[0], a[1]) })
	add("logic", "entweder", []T{W, W}, W, "entweder a, oder b", func(c *smt.Ctx, a []*smt.Expr) *smt.Expr { return c.BXor(a[0], a[1]) })
	add("logic", "nicht", []T{W}, W, "nicht a", func(c *smt.Ctx, a []*smt.Expr) *smt.Expr { return c.BNot(a[0]) })
	// --- unary
	add("unary", "betrag_z", []T{Z}, Z, "der Betrag von a", func(c *smt.Ctx, a []*smt.Expr) *smt.Expr {
		return c.Ite(c.SLT(a[0], c.BV(64, 0)), c.Neg(a[0]), a[0])
	})
	add("unary", "betrag_k", []T{K}, K, "der Betrag von a", func(c *smt.Ctx, a []*smt.Expr) *smt.Expr { return c.FAbs(a[0]) })
	add("unary", "betrag_b", []T{B}, Z, "der Betrag von a", func(c *smt.Ctx, a []*smt.Expr) *smt.Expr { return c.ZExt(a[0], 64) })
	add("unary", "negate_z", []T{Z}, Z, "-a", func(c *smt.Ctx, a []*smt.Expr) *smt.Expr { return c.Neg(a[0]) })
	add("unary", "negate_k", []T{K}, K, "-a", func(c *smt.Ctx, a []*smt.Expr) *smt.Expr { return c.FNeg(a[0]) })
	add("unary", "negate_b", []T{B}, Z, "-a", func(c *smt.Ctx, a []*smt.Expr) *smt.Expr { return c.Neg(c.ZExt(a[0], 64)) })
	add("unary", "lnicht_z", []T{Z}, Z, "logisch nicht a", func(c *smt.Ctx, a []*smt.Expr) *smt.Expr { return c.BNot(a[0]) })
	add("unary", "lnicht_b", []T{B}, B, "logisch nicht a", func(c *smt.Ctx, a []*smt.Expr) *smt.Expr { return c.BNot(a[0]) })
	// --- zwischen (exclusive, bounds in either order) on every numeric mix
	for _, t1 := range numeric {
		for _, t2 := range numeric {
			for _, t3 := range numeric {
				t1, t2, t3 := t1, t2, t3
				r := arithT(arithT(t1, t2), t3)
				add("ternary", fmt.Sprintf("zwischen_%s%s%s", tKey[t1], tKey[t2], tKey[t3]), []T{t1, t2, t3}, W, "a zwischen b und c ist", func(c *smt.Ctx, a []*smt.Expr) *smt.Expr {
					x, m, y := conv(c, t1, r, a[0]), conv(c, t2, r, a[1]), conv(c, t3, r, a[2])
					var lt func(p, q *smt.Expr) *smt.Expr
					switch r {
					case K:
						lt = c.FLt
					case B:
						lt = c.ULT
					default:
						lt = c.SLT
					}
					in := c.Or(c.And(lt(m, x), lt(x, y)), c.And(lt(y, x), lt(x, m)))
					return c.BoolToBV(in, 1)
				})
			}
		}
	}
	// --- conditional expression on every scalar type
	for _, t := range []T{Z, K, B, W, C} {
		t := t
		add("ternary", "falls_"+tKey[t], []T{t, W, t}, t, "a, falls b, ansonsten c", func(c *smt.Ctx, a []*smt.Expr) *smt.Expr {
			return c.Ite(c.BVToBool(a[1]), a[0], a[2])
		})
	}
	// --- casts between scalar types (the frontend decides which exist)
	castRef := func(from, to T) refFn {
		return func(c *smt.Ctx, a []*smt.Expr) *smt.Expr {
			x := a[0]
			switch to {
			case Z:
				switch from {
				case K:
					return c.FPToSI(x, 64) // toward zero; values outside the Zahl range are not judged
				case W:
					return c.ZExt(x, 64)
				case C:
					return c.SExt(x, 64)
				}
				return toZ(c, from, x)
			case K:
				return toK(c, from, x)
			case B:
				switch from {
				case Z:
					return c.Trunc(x, 8)
				case K:
					return c.FPToUI(x, 8)
				case W:
					return c.ZExt(x, 8)
				case C:
					return c.Trunc(x, 8)
				}
				return x
			case W:
				switch from {
				case Z, B:
					return c.BoolToBV(c.Ne(x, c.BV(x.Sort.W, 0)), 1)
				}
				return x
			case C:
				switch from {
				case Z:
					return c.Trunc(x, 32)
				case B:
					return c.ZExt(x, 32)
				}
				return x
			}
			return x
		}
	}
	for _, from := range []T{Z, K, B, W, C} {
		for _, to := range []T{Z, K, B, W, C} {
			add("cast", fmt.Sprintf("als_%s_%s", tKey[from], tKey[to]), []T{from}, to, "a als "+tName[to], castRef(from, to))
		}
	}
	// --- Variable contents: two Variablen are equal exactly when they hold values of the same
	// type that are equal. Kommazahl contents are compared bitwise by the runtime; NaN and
	// signed zeros make the Kommazahl/Kommazahl cell a matter of convention: it is left out.
	for _, t1 := range []T{Z, K, B, W, C} {
		for _, t2 := range []T{Z, K, B, W, C} {
			t1, t2 := t1, t2
			if t1 == K && t2 == K {
				continue
			}
			for _, neg := range []bool{false, true} {
				neg := neg
				key, op := "anyeq", "gleich"
				if neg {
					key, op = "anyne", "ungleich"
				}
				cells = append(cells, cell{name: fmt.Sprintf("%s_%s%s", key, tKey[t1], tKey[t2]), ptypes: []T{t1, t2}, ret: W, group: "variable",
					pre: "Die Variable u ist a.\n\tDie Variable v ist b.\n\t", expr: "u " + op + " v ist",
					ref: func(c *smt.Ctx, a []*smt.Expr) *smt.Expr {
						eq := c.BoolC(false)
						if t1 == t2 {
							eq = c.Eq(a[0], a[1])
						}
						if neg {
							eq = c.Not(eq)
						}
						return c.BoolToBV(eq, 1)
					}})
			}
		}
	}
	// --- Kombinationen: two values are equal exactly when all their fields are equal, each field
	// by the equality of its type (a Kommazahl field by numeric equality: -0,0 equals 0,0 and an
	// undefined value equals nothing)
	type kfield struct {
		decl, lit string
		t         T
	}
	fk := kfield{"der Kommazahl", "0,0", K}
	fz := kfield{"der Zahl", "0", Z}
	fw := kfield{"dem Wahrheitswert", "falsch", W}
	for _, fs := range [][2]kfield{{fk, fk}, {fz, fk}, {fk, fz}, {fw, fk}, {fz, fz}} {
		fs := fs
		top := "Wir nennen die Kombination aus\n\t" + fs[0].decl + " x mit Standardwert " + fs[0].lit + ",\n\t" + fs[1].decl + " y mit Standardwert " + fs[1].lit +
			",\nein Paar, und erstellen sie so:\n\t\"ein Paar mit x gleich <x> und y gleich <y>\"\n\n"
		for _, neg := range []bool{false, true} {
			neg := neg
			key, op := "kombeq", "gleich"
			if neg {
				key, op = "kombne", "ungleich"
			}
			cells = append(cells, cell{name: fmt.Sprintf("%s_%s%s", key, tKey[fs[0].t], tKey[fs[1].t]), ptypes: []T{fs[0].t, fs[1].t, fs[0].t}, ret: W, group: "kombination", top: top,
				pre: "Das Paar u ist ein Paar mit x gleich a und y gleich b.\n\tDas Paar v ist ein Paar mit x gleich c und y gleich b.\n\t", expr: "u " + op + " v ist",
				ref: func(c *smt.Ctx, a []*smt.Expr) *smt.Expr {
					feq := func(t T, x, y *smt.Expr) *smt.Expr {
						if t == K {
							return c.FEq(x, y)
						}
						return c.Eq(x, y)
					}
					eq := c.And(feq(fs[0].t, a[0], a[2]), feq(fs[1].t, a[1], a[1]))
					if neg {
						eq = c.Not(eq)
					}
					return c.BoolToBV(eq, 1)
				}})
		}
	}
	return cells
}

// ---- operator grouping (precedence and associativity), frozen from the pinned parser ladder

type infix struct {
	key   string
	level int
	put   func(l, r string) string
	sem   func(c *smt.Ctx, a, b *smt.Expr) *smt.Expr
}

func zInfix() []infix {
	return []infix{
		{"loder", 1, func(l, r string) string { return l + " logisch oder " + r }, (*smt.Ctx).BOr},
		{"lkontra", 2, func(l, r string) string { return l + " logisch kontra " + r }, (*smt.Ctx).BXor},
		{"lund", 3, func(l, r string) string { return l + " logisch und " + r }, (*smt.Ctx).BAnd},
		{"lshift", 6, func(l, r string) string { return l + " um " + r + " Bit nach links verschoben" }, (*smt.Ctx).Shl},
		{"rshift", 6, func(l, r string) string { return l + " um " + r + " Bit nach rechts verschoben" }, (*smt.Ctx).LShr},
		{"plus", 7, func(l, r string) string { return l + " plus " + r }, (*smt.Ctx).Add},
		{"minus", 7, func(l, r string) string { return l + " minus " + r }, (*smt.Ctx).Sub},
		{"mal", 8, func(l, r string) string { return l + " mal " + r }, (*smt.Ctx).Mul},
		{"modulo", 8, func(l, r string) string { return l + " modulo " + r }, (*smt.Ctx).SRem},
	}
}

func groupingCells() []cell {
	var cells []cell
	ops := zInfix()
	for _, o1 := range ops {
		for _, o2 := range ops {
			o1, o2 := o1, o2
			var expr string
			if o2.key == "lshift" || o2.key == "rshift" {
				// "a OP1 b um c Bit nach ... verschoben": the shift keyword frame surrounds its right operand only
				expr = o2.put(o1.put("a", "b"), "c")
			} else {
				expr = o2.put(o1.put("a", "b"), "c")
			}
			if o1.key == "lshift" || o1.key == "rshift" {
				expr = o2.put(o1.put("a", "b"), "c")
			}
			cells = append(cells, cell{group: "grouping", name: "grp_" + o1.key + "_" + o2.key, ptypes: []T{Z, Z, Z}, ret: Z, expr: expr,
				ref: func(c *smt.Ctx, a []*smt.Expr) *smt.Expr {
					if o2.level > o1.level && !(o1.key == "lshift" || o1.key == "rshift") {
						// the tighter operator on the right groups first: a o1 (b o2 c)
						return o1.sem(c, a[0], o2.sem(c, a[1], a[2]))
					}
					if o2.level > o1.level {
						// a shift's right operand is a term: "a um b OP2 c Bit ..." cannot be written in this
						// template; the text is "(a um b Bit ... verschoben) OP2 c", which groups left
						return o2.sem(c, o1.sem(c, a[0], a[1]), a[2])
					}
					return o2.sem(c, o1.sem(c, a[0], a[1]), a[2])
				}})
		}
	}
	// truth values: und binds tighter than oder
	cells = append(cells,
		cell{group: "grouping", name: "grp_oder_und", ptypes: []T{W, W, W}, ret: W, expr: "a oder b und c", ref: func(c *smt.Ctx, a []*smt.Expr) *smt.Expr { return c.BOr(a[0], c.BAnd(a[1], a[2])) }},
		cell{group: "grouping", name: "grp_und_oder", ptypes: []T{W, W, W}, ret: W, expr: "a und b oder c", ref: func(c *smt.Ctx, a []*smt.Expr) *smt.Expr { return c.BOr(c.BAnd(a[0], a[1]), a[2]) }},
		cell{group: "grouping", name: "grp_nicht_und", ptypes: []T{W, W}, ret: W, expr: "nicht a und b", ref: func(c *smt.Ctx, a []*smt.Expr) *smt.Expr { return c.BAnd(c.BNot(a[0]), a[1]) }},
		cell{group: "grouping", name: "grp_cmp_und", ptypes: []T{Z, Z, W}, ret: W, expr: "a kleiner als b ist und c", ref: func(c *smt.Ctx, a []*smt.Expr) *smt.Expr {
			return c.BAnd(c.BoolToBV(c.SLT(a[0], a[1]), 1), a[2])
		}},
		cell{group: "grouping", name: "grp_plus_cmp", ptypes: []T{Z, Z, Z}, ret: W, expr: "a plus b kleiner als c ist", ref: func(c *smt.Ctx, a []*smt.Expr) *smt.Expr {
			return c.BoolToBV(c.SLT(c.Add(a[0], a[1]), a[2]), 1)
		}},
		cell{group: "grouping", name: "grp_cmp_gleich", ptypes: []T{Z, Z, W}, ret: W, expr: "a kleiner als b ist gleich c ist", ref: func(c *smt.Ctx, a []*smt.Expr) *smt.Expr {
			return c.BoolToBV(c.Eq(c.BoolToBV(c.SLT(a[0], a[1]), 1), a[2]), 1)
		}},
		cell{group: "grouping", name: "grp_neg_hoch", ptypes: []T{K, K}, ret: K, expr: "-a hoch b", ref: func(c *smt.Ctx, a []*smt.Expr) *smt.Expr {
			return c.FNeg(c.App("libm.pow", smt.FP, a[0], a[1]))
		}},
	)
	// Kommazahl arithmetic: grouping matters bit for bit
	for _, p := range [][2]string{{"plus", "plus"}, {"minus", "minus"}, {"minus", "plus"}, {"plus", "mal"}, {"mal", "plus"}, {"durch", "durch"}, {"durch", "mal"}, {"mal", "durch"}, {"minus", "durch"}} {
		p := p
		f := func(c *smt.Ctx, k string, x, y *smt.Expr) *smt.Expr {
			switch k {
			case "plus":
				return c.FAdd(x, y)
			case "minus":
				return c.FSub(x, y)
			case "mal":
				return c.FMul(x, y)
			}
			return c.FDiv(x, y)
		}
		lvl := map[string]int{"plus": 7, "minus": 7, "mal": 8, "durch": 8}
		cells = append(cells, cell{group: "grouping", name: "grpk_" + p[0] + "_" + p[1], ptypes: []T{K, K, K}, ret: K, expr: "a " + p[0] + " b " + p[1] + " c",
			ref: func(c *smt.Ctx, a []*smt.Expr) *smt.Expr {
				if lvl[p[1]] > lvl[p[0]] {
					return f(c, p[0], a[0], f(c, p[1], a[1], a[2]))
				}
				return f(c, p[1], f(c, p[0], a[0], a[1]), a[2])
			}})
	}
	// --- Kombinationen: two values are equal exactly when all their fields are equal, each field
	// by the equality of its type (a Kommazahl field by numeric equality: -0,0 equals 0,0 and an
	// undefined value equals nothing)
	type kfield struct {
		decl, lit string
		t         T
	}
	fk := kfield{"der Kommazahl", "0,0", K}
	fz := kfield{"der Zahl", "0", Z}
	fw := kfield{"dem Wahrheitswert", "falsch", W}
	for _, fs := range [][2]kfield{{fk, fk}, {fz, fk}, {fk, fz}, {fw, fk}, {fz, fz}} {
		fs := fs
		top := "Wir nennen die Kombination aus\n\t" + fs[0].decl + " x mit Standardwert " + fs[0].lit + ",\n\t" + fs[1].decl + " y mit Standardwert " + fs[1].lit +
			",\nein Paar, und erstellen sie so:\n\t\"ein Paar mit x gleich <x> und y gleich <y>\"\n\n"
		for _, neg := range []bool{false, true} {
			neg := neg
			key, op := "kombeq", "gleich"
			if neg {
				key, op = "kombne", "ungleich"
			}
			cells = append(cells, cell{name: fmt.Sprintf("%s_%s%s", key, tKey[fs[0].t], tKey[fs[1].t]), ptypes: []T{fs[0].t, fs[1].t, fs[0].t}, ret: W, group: "kombination", top: top,
				pre: "Das Paar u ist ein Paar mit x gleich a und y gleich b.\n\tDas Paar v ist ein Paar mit x gleich c und y gleich b.\n\t", expr: "u " + op + " v ist",
				ref: func(c *smt.Ctx, a []*smt.Expr) *smt.Expr {
					feq := func(t T, x, y *smt.Expr) *smt.Expr {
						if t == K {
							return c.FEq(x, y)
						}
						return c.Eq(x, y)
					}
					eq := c.And(feq(fs[0].t, a[0], a[2]), feq(fs[1].t, a[1], a[1]))
					if neg {
						eq = c.Not(eq)
					}
					return c.BoolToBV(eq, 1)
				}})
		}
	}
	return cells
}
