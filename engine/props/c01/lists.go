package c01

import (
	"fmt"

	"verif/engine/llse"
	"verif/engine/props/ddp"
	"verif/engine/props/llh"
	"verif/engine/smt"
)

type listT struct {
	key, ddpList, ddpElem, retList, cList, cElem string
	size                                         int
	t                                            T
}

var listTs = []listT{
	{"zahl", "Zahlen Liste", "Zahl", "eine Zahlen Liste", "ddpintlist", "ddpint", 8, Z},
	{"komma", "Kommazahlen Liste", "Kommazahl", "eine Kommazahlen Liste", "ddpfloatlist", "ddpfloat", 8, K},
	{"byte", "Byte Liste", "Byte", "eine Byte Liste", "ddpbytelist", "ddpbyte", 1, B},
	{"bool", "Wahrheitswert Liste", "Wahrheitswert", "eine Wahrheitswert Liste", "ddpboollist", "ddpbool", 1, W},
	{"buch", "Buchstaben Liste", "Buchstabe", "eine Buchstaben Liste", "ddpcharlist", "ddpchar", 4, C},
}

func (x *ctx) listCells() []llh.CellFn {
	var cells []llh.CellFn
	maxN := 3
	for _, lt := range listTs {
		lt := lt
		for n1 := 0; n1 <= maxN; n1++ {
			for n2 := 0; n2 <= maxN; n2++ {
				n1, n2 := n1, n2
				cells = append(cells, func() { x.cellListEq(lt, n1, n2) })
			}
		}
		for n1 := 0; n1 <= 2; n1++ {
			n1 := n1
			cells = append(cells, func() { x.cellLen(lt, n1) })
			for n2 := 0; n2 <= 2; n2++ {
				n2 := n2
				cells = append(cells, func() { x.cellConcatLL(lt, n1, n2) })
			}
			cells = append(cells, func() { x.cellConcatLE(lt, n1, true) })
			cells = append(cells, func() { x.cellConcatLE(lt, n1, false) })
		}
		cells = append(cells, func() { x.cellConcatEE(lt) })
	}
	return cells
}

// elems creates n symbolic elements of a list (as the byte patterns stored in the array).
func listElems(h *llh.H, lt listT, l *llh.List, prefix string, n int) []*smt.Expr {
	c := h.C
	var el []*smt.Expr
	for k := 0; k < n; k++ {
		var v *smt.Expr
		if lt.t == K {
			v = h.FVar(fmt.Sprintf("%s%d", prefix, k))
			// bitwise list comparison is not judged on NaN / signed zero elements
			h.St.Assume(c.And(c.Not(c.FIsNaN(v)), c.Not(c.Eq(v, c.FPBitsC(1<<63)))))
		} else {
			v = h.Var(fmt.Sprintf("%s%d", prefix, k), 8*lt.size)
			if lt.t == W {
				h.St.Assume(c.ULE(v, c.BV(8, 1)))
			}
		}
		el = append(el, v)
		h.SetElem(l, k, v)
	}
	return el
}

func elemEq(c *smt.Ctx, lt listT, a, b *smt.Expr) *smt.Expr {
	if lt.t == K {
		return c.FEq(a, b)
	}
	return c.Eq(a, b)
}

func capFor(n int) int {
	if n == 0 {
		return 0
	}
	return n + 1
}

func (x *ctx) cellListEq(lt listT, n1, n2 int) {
	fn := "c01_leq_" + lt.key
	src := ddp.Func(fn, []ddp.Param{{"a", lt.ddpList}, {"b", lt.ddpList}}, "einen Wahrheitswert", "Gib a gleich b ist zurück.") +
		ddp.Func("c01_lne_"+lt.key, []ddp.Param{{"a", lt.ddpList}, {"b", lt.ddpList}}, "einen Wahrheitswert", "Gib a ungleich b ist zurück.")
	for _, opt := range x.levels {
		mod := x.compile(fn, src, opt)
		if mod == nil {
			return
		}
		for _, neg := range []bool{false, true} {
			name := fn
			if neg {
				name = "c01_lne_" + lt.key
			}
			h := llh.NewH(x.r, fmt.Sprintf("O%d/%s_%d_%d", opt, name[4:], n1, n2), x.timeout, diffRate(x.r), append(x.rtMods(), mod)...)
			c := h.C
			la := h.ConcList("a", lt.size, n1, capFor(n1), false)
			lb := h.ConcList("b", lt.size, n2, capFor(n2), false)
			ea := listElems(h, lt, la, "a", n1)
			eb := listElems(h, lt, lb, "b", n2)
			res := h.Run(name, []llse.Val{h.Ptr(la.Hdr), h.Ptr(lb.Hdr)})
			want := c.BoolC(n1 == n2)
			if n1 == n2 {
				for k := 0; k < n1; k++ {
					want = c.And(want, elemEq(c, lt, ea[k], eb[k]))
				}
			}
			if neg {
				want = c.Not(want)
			}
			for _, s := range res {
				h.On(s)
				if s.Term != llse.TermReturn {
					h.Fail("must-return")
					continue
				}
				h.Holds("list-equality", s.PC, c.Eq(s.Ret.E, c.BoolToBV(want, 1)))
			}
			if len(res) == 0 {
				x.r.EngineFailf("%s: vacuity guard: no path", h.Cell)
			}
			opt := opt
			x.finish(h, res, func(f *llh.Failure) (string, bool) {
				return x.replayLists(h, f, name, src, opt, "ddpbool", []lrep{{lt, n1, ea}, {lt, n2, eb}}, nil)
			})
			h.Close()
		}
	}
}

func (x *ctx) cellLen(lt listT, n int) {
	fn := "c01_len_" + lt.key
	src := ddp.Func(fn, []ddp.Param{{"a", lt.ddpList}}, "eine Zahl", "Gib die Länge von a zurück.")
	for _, opt := range x.levels {
		mod := x.compile(fn, src, opt)
		if mod == nil {
			return
		}
		h := llh.NewH(x.r, fmt.Sprintf("O%d/len_%s_%d", opt, lt.key, n), x.timeout, diffRate(x.r), append(x.rtMods(), mod)...)
		c := h.C
		la := h.ConcList("a", lt.size, n, capFor(n), false)
		listElems(h, lt, la, "a", n)
		res := h.Run(fn, []llse.Val{h.Ptr(la.Hdr)})
		for _, s := range res {
			h.On(s)
			if s.Term != llse.TermReturn {
				h.Fail("must-return")
				continue
			}
			h.Holds("length", s.PC, c.Eq(s.Ret.E, c.BV(64, uint64(n))))
		}
		x.finish(h, res, nil)
		h.Close()
	}
}

// checkResultList verifies that the list header behind ret holds exactly the expected elements.
func (x *ctx) checkResultList(h *llh.H, s *llse.State, lt listT, ret *llse.Object, want []*smt.Expr) {
	c := h.C
	if !h.Holds("result-length", s.PC, c.Eq(h.ReadI64(s, ret, 8).E, c.BV(64, uint64(len(want))))) {
		return
	}
	if len(want) == 0 {
		return
	}
	arrp := h.ReadPtr(s, ret, 0)
	for k, w := range want {
		bs, ok := h.ReadBytesAtGuarded(s, arrp, k*lt.size, lt.size, c.True())
		if !ok {
			h.Fail(fmt.Sprintf("result-element-%d-readable", k))
			continue
		}
		var got *smt.Expr
		for _, b := range bs {
			if got == nil {
				got = b
			} else {
				got = c.Concat(b, got)
			}
		}
		ww := w
		if lt.t == K {
			ww = c.FPToBits(w)
		}
		h.Holds(fmt.Sprintf("result-element-%d", k), s.PC, c.Eq(got, ww))
	}
}

func (x *ctx) cellConcatLL(lt listT, n1, n2 int) {
	fn := "c01_cat_ll_" + lt.key
	src := ddp.Func(fn, []ddp.Param{{"a", lt.ddpList}, {"b", lt.ddpList}}, lt.retList, "Gib a verkettet mit b zurück.")
	for _, opt := range x.levels {
		mod := x.compile(fn, src, opt)
		if mod == nil {
			return
		}
		h := llh.NewH(x.r, fmt.Sprintf("O%d/cat_ll_%s_%d_%d", opt, lt.key, n1, n2), x.timeout, diffRate(x.r), append(x.rtMods(), mod)...)
		la := h.ConcList("a", lt.size, n1, capFor(n1), false)
		lb := h.ConcList("b", lt.size, n2, capFor(n2), false)
		ea := listElems(h, lt, la, "a", n1)
		eb := listElems(h, lt, lb, "b", n2)
		ret := h.St.NewObject(h.C, llse.ObjStack, "ret", llh.ListHdr)
		res := h.Run(fn, []llse.Val{h.Ptr(ret), h.Ptr(la.Hdr), h.Ptr(lb.Hdr)})
		for _, s := range res {
			h.On(s)
			if s.Term != llse.TermReturn {
				h.Fail("must-return")
				continue
			}
			x.checkResultList(h, s, lt, ret, append(append([]*smt.Expr{}, ea...), eb...))
		}
		if len(res) == 0 {
			x.r.EngineFailf("%s: vacuity guard: no path", h.Cell)
		}
		x.finish(h, res, nil)
		h.Close()
	}
}

func (x *ctx) cellConcatLE(lt listT, n int, listFirst bool) {
	fn := "c01_cat_le_" + lt.key
	params := []ddp.Param{{"a", lt.ddpList}, {"b", lt.ddpElem}}
	if !listFirst {
		fn = "c01_cat_el_" + lt.key
		params = []ddp.Param{{"a", lt.ddpElem}, {"b", lt.ddpList}}
	}
	src := ddp.Func(fn, params, lt.retList, "Gib a verkettet mit b zurück.")
	for _, opt := range x.levels {
		mod := x.compile(fn, src, opt)
		if mod == nil {
			return
		}
		h := llh.NewH(x.r, fmt.Sprintf("O%d/%s_%d", opt, fn[4:], n), x.timeout, diffRate(x.r), append(x.rtMods(), mod)...)
		l := h.ConcList("l", lt.size, n, capFor(n), false)
		el := listElems(h, lt, l, "l", n)
		e := symArg(h, lt.t, "e")
		ret := h.St.NewObject(h.C, llse.ObjStack, "ret", llh.ListHdr)
		var args []llse.Val
		var want []*smt.Expr
		ev := e.E
		if lt.t != K && ev.Sort.W < 8*lt.size {
			ev = h.C.ZExt(ev, 8*lt.size)
		}
		if listFirst {
			args = []llse.Val{h.Ptr(ret), h.Ptr(l.Hdr), e}
			want = append(append([]*smt.Expr{}, el...), ev)
		} else {
			args = []llse.Val{h.Ptr(ret), e, h.Ptr(l.Hdr)}
			want = append([]*smt.Expr{ev}, el...)
		}
		res := h.Run(fn, args)
		for _, s := range res {
			h.On(s)
			if s.Term != llse.TermReturn {
				h.Fail("must-return")
				continue
			}
			x.checkResultList(h, s, lt, ret, want)
		}
		if len(res) == 0 {
			x.r.EngineFailf("%s: vacuity guard: no path", h.Cell)
		}
		x.finish(h, res, nil)
		h.Close()
	}
}

func (x *ctx) cellConcatEE(lt listT) {
	if lt.t == C {
		return // Buchstabe verkettet mit Buchstabe is a Text (C12)
	}
	fn := "c01_cat_ee_" + lt.key
	src := ddp.Func(fn, []ddp.Param{{"a", lt.ddpElem}, {"b", lt.ddpElem}}, lt.retList, "Gib a verkettet mit b zurück.")
	for _, opt := range x.levels {
		mod := x.compile(fn, src, opt)
		if mod == nil {
			return
		}
		h := llh.NewH(x.r, fmt.Sprintf("O%d/cat_ee_%s", opt, lt.key), x.timeout, diffRate(x.r), append(x.rtMods(), mod)...)
		a := symArg(h, lt.t, "a")
		b := symArg(h, lt.t, "b")
		ret := h.St.NewObject(h.C, llse.ObjStack, "ret", llh.ListHdr)
		res := h.Run(fn, []llse.Val{h.Ptr(ret), a, b})
		ext := func(e *smt.Expr) *smt.Expr {
			if lt.t != K && e.Sort.W < 8*lt.size {
				return h.C.ZExt(e, 8*lt.size)
			}
			return e
		}
		for _, s := range res {
			h.On(s)
			if s.Term != llse.TermReturn {
				h.Fail("must-return")
				continue
			}
			x.checkResultList(h, s, lt, ret, []*smt.Expr{ext(a.E), ext(b.E)})
		}
		if len(res) == 0 {
			x.r.EngineFailf("%s: vacuity guard: no path", h.Cell)
		}
		x.finish(h, res, nil)
		h.Close()
	}
}
