package c01

import (
	"fmt"
	"strconv"
	"strings"
	"sync"
	"time"

	"verif/engine/build"
	"verif/engine/llread"
	"verif/engine/llse"
	"verif/engine/props/core"
	"verif/engine/props/ddp"
	"verif/engine/props/llh"
	"verif/engine/smt"
)

type ctx struct {
	r       *core.Report
	env     *build.Env
	lists   *llread.Module
	rt      []*llread.Module
	timeout time.Duration
	levels  []int
	mu      sync.Mutex
	undef   map[string]int
	skipped []string
	uncomp  []string
}

func cellSource(cl cell) string {
	var ps []ddp.Param
	for i, t := range cl.ptypes {
		ps = append(ps, ddp.Param{Name: pnames[i], Type: tName[t]})
	}
	return cl.top + ddp.Func("c01_"+cl.name, ps, tRet[cl.ret], cl.pre+"Gib "+cl.expr+" zurück.")
}

// Run executes the C01 check.
func Run(r *core.Report, env *build.Env) {
	r.Level = "translation_validation"
	x := &ctx{r: r, env: env, timeout: 30 * time.Second, levels: []int{0}, undef: map[string]int{}}
	if r.Tier == "thorough" {
		x.levels = []int{0, 1, 2}
		x.timeout = 120 * time.Second
	}
	r.Bounds["operands"] = "all values of each operand type (64-bit Zahl, IEEE double, 8-bit Byte, Wahrheitswert, Unicode scalar value)"
	r.Bounds["opt_levels"] = fmt.Sprint(x.levels)
	r.Bounds["lists"] = "lengths 0..3 on both sides, elements symbolic"
	r.Bounds["loops"] = "start symbolic (62 bit), end-start in [-7,7], step in {default,1,2,3,-1,-2,-3}; repeat count in [0,5]"
	r.Outside = append(r.Outside, "whole programs, statement nesting, Kombinationen, Variable contents", "printing (Schreibe) and number formatting",
		"exactness of libm functions (pow, log10 are uninterpreted on both sides)", "operations LLVM leaves undefined (x modulo 0, INT_MIN modulo -1, shift amounts >= width, Kommazahl->Zahl outside the range): recorded under undefined_in_ir, not judged",
		"cells the frontend rejects (skipped) and cells kddp cannot compile (listed under uncompilable_cells: a C02 matter)",
		"negative repeat counts (the pinned lowering loops until the counter wraps)", "Kommazahlen Liste equality on NaN and signed zero elements (bitwise comparison; observation only)")
	r.Assumptions = append(r.Assumptions, "reference semantics written as SMT terms: Zahl two's complement i64, Byte unsigned 8 bit (zero-extended, unsigned->double), Kommazahl IEEE binary64 RNE; result types: Zahl/Zahl->Zahl, Byte/Byte->Byte, any Kommazahl->Kommazahl, mixed Zahl/Byte->Zahl",
		"operator grouping table frozen from the pinned parser ladder (detects later changes, does not justify the pinned one)",
		"right shift of a Zahl is logical (frozen from the pinned tree)")
	var err error
	if x.lists, err = env.ListDefs(); err != nil {
		r.EngineFailf("list defs: %v", err)
		return
	}
	if x.rt, err = env.RuntimeIR(); err != nil {
		r.EngineFailf("runtime IR: %v", err)
		return
	}
	var cells []llh.CellFn
	all := append(scalarCells(), groupingCells()...)
	for _, cl := range all {
		cl := cl
		cells = append(cells, func() { x.runScalar(cl) })
	}
	cells = append(cells, x.controlCells()...)
	cells = append(cells, x.listCells()...)
	llh.RunParallel(llh.Wrap(r, cells), 16)
	r.Extra["undefined_in_ir"] = x.undef
	r.Extra["cells_rejected_by_frontend"] = x.skipped
	r.Extra["uncompilable_cells"] = x.uncomp
	r.Extra["cells_total"] = len(all)
}

func wrap(r *core.Report, cells []llh.CellFn) []llh.CellFn {
	out := make([]llh.CellFn, len(cells))
	for i, f := range cells {
		f := f
		out[i] = func() {
			defer func() {
				if p := recover(); p != nil {
					r.EngineFailf("panic in cell: %v", p)
				}
			}()
			f()
		}
	}
	return out
}

// compile compiles one cell module at one level; returns nil when the cell does not exist at that level.
func (x *ctx) compile(name, src string, opt int) *llread.Module {
	cm, err := x.env.CompileDDP(name, src, opt)
	if err != nil {
		x.r.EngineFailf("%s: %v", name, err)
		return nil
	}
	if cm.Mod == nil {
		x.mu.Lock()
		defer x.mu.Unlock()
		if strings.Contains(cm.Stderr, "could not parse llvm ir") || strings.Contains(cm.Stderr, "Unerwarteter Fehler") || strings.Contains(cm.Stderr, "panic") || cm.Code < 0 {
			if opt == x.levels[0] {
				x.uncomp = append(x.uncomp, name+": "+lastLine(cm.Stderr))
			}
		} else if opt == x.levels[0] {
			x.skipped = append(x.skipped, name)
		}
		return nil
	}
	x.r.Programs++
	return cm.Mod
}

func lastLine(s string) string {
	ls := strings.Split(strings.TrimSpace(s), "\n")
	for i := len(ls) - 1; i >= 0; i-- {
		if strings.TrimSpace(ls[i]) != "" {
			l := strings.TrimSpace(ls[i])
			if len(l) > 160 {
				l = l[:160]
			}
			return l
		}
	}
	return ""
}

var notJudged = map[string]bool{"undefined-srem": true, "undefined-urem": true, "undefined-sdiv": true, "undefined-udiv": true, "poison-shift": true, "poison-fptosi": true, "poison-fptoui": true}

// finish converts failures and executor faults into violations after native replay.
func (x *ctx) finish(h *llh.H, res []*llse.State, replay func(f *llh.Failure) (string, bool)) {
	for _, s := range res {
		for _, f := range s.Faults {
			if notJudged[f.Kind] {
				x.mu.Lock()
				x.undef[f.Kind+" in "+h.Cell]++
				x.mu.Unlock()
				continue
			}
			x.r.Oblige(1)
			h.Failed = append(h.Failed, llh.Failure{Obligation: "memory:" + f.Kind, Model: f.Model, Detail: f.Where, Path: s, Asserts: append(append([]*smt.Expr{}, f.PC...), f.Cond)})
		}
	}
	for i := range h.Failed {
		f := &h.Failed[i]
		txt, confirmed := "(no native replay for this cell kind)", false
		if replay != nil {
			txt, confirmed = replay(f)
		}
		key := h.Cell + "/" + f.Obligation
		if i := strings.Index(key, "/"); i >= 0 {
			key = key[i+1:]
		}
		what := fmt.Sprintf("%s: obligation %q fails; model %s %s", h.Cell, f.Obligation, h.ModelString(f.Model), f.Detail)
		if confirmed {
			x.r.Replayed++
			x.r.Violate(key, what, txt)
		} else {
			x.r.Unconfirmedf("%s (replay: %s)", what, firstLines(txt, 3))
		}
	}
}

func firstLines(s string, n int) string {
	ls := strings.SplitN(s, "\n", n+1)
	if len(ls) > n {
		ls = ls[:n]
	}
	return strings.Join(ls, " | ")
}

func (x *ctx) runScalar(cl cell) {
	src := cellSource(cl)
	for _, opt := range x.levels {
		mod := x.compile("c01_"+cl.name, src, opt)
		if mod == nil {
			return
		}
		h := llh.NewH(x.r, fmt.Sprintf("O%d/%s", opt, cl.name), x.timeout, diffRate(x.r), append([]*llread.Module{mod, x.lists}, x.rt...)...)
		c := h.C
		var args []llse.Val
		var es []*smt.Expr
		for i, t := range cl.ptypes {
			a := symArg(h, t, pnames[i])
			args = append(args, a)
			es = append(es, a.E)
		}
		res := h.Run("c01_"+cl.name, args)
		want := cl.ref(c, es)
		sawRet := false
		for _, s := range res {
			h.On(s)
			switch s.Term {
			case llse.TermReturn:
				sawRet = true
				if s.Ret.E == nil || s.Ret.E.Sort != want.Sort {
					h.Fail("result-type")
					continue
				}
				h.Holds("value", s.PC, sameValue(c, cl.ret, s.Ret.E, want))
			case llse.TermRuntimeError, llse.TermExit, llse.TermUnreachable:
				h.Fail("scalar-operator-must-not-stop-the-program")
			}
		}
		if !sawRet {
			x.r.EngineFailf("%s: vacuity guard: no returning path", h.Cell)
		}
		x.r.Sample(map[string]any{"cell": h.Cell, "ddp": "Gib " + cl.expr + " zurück.", "operand_types": fmt.Sprint(cl.ptypes), "paths": len(res)})
		opt := opt
		x.finish(h, res, func(f *llh.Failure) (string, bool) { return x.replayScalar(h, f, cl, src, opt, es) })
		h.Close()
	}
}

func diffRate(r *core.Report) int {
	if r.Tier == "thorough" {
		return 1
	}
	return 10
}

// replayScalar runs the cell natively with the model's operands and compares with the value
// the symbolic run predicts on the failing path.
func (x *ctx) replayScalar(h *llh.H, f *llh.Failure, cl cell, src string, opt int, es []*smt.Expr) (string, bool) {
	m := h.Refine(f, nil, nil)
	if m == nil {
		return "no model", false
	}
	nc := &llh.NativeCall{Fn: "c01_" + cl.name, DDPSrc: src, Opt: opt, RetC: tC[cl.ret]}
	for i, t := range cl.ptypes {
		v, _ := llh.ValOf(m, es[i])
		if t == K {
			nc.Args = append(nc.Args, llh.CArg{Kind: "double", Bits: v})
		} else {
			nc.Args = append(nc.Args, llh.CArg{Kind: "int", CType: tC[t], Bits: v})
		}
	}
	nr := llh.RunNative(x.env, nc)
	var sb strings.Builder
	fmt.Fprintf(&sb, "model: %s\nnative: exit=%d err=%q stdout=%q stderr=%q\n", h.ModelString(m), nr.Exit, nr.Err, nr.Stdout, nr.Stderr)
	if nr.Err != "" || f.Path == nil {
		return sb.String(), false
	}
	if f.Path.Term != llse.TermReturn {
		return sb.String(), (f.Path.Term == llse.TermRuntimeError) == nr.RuntimeError()
	}
	ret := f.Path.Ret.E
	if ret == nil {
		return sb.String(), false
	}
	if ret.Sort.K == smt.KFP {
		ret = h.C.FPToBits(ret)
	}
	want := cl.ref(h.C, es)
	if want.Sort.K == smt.KFP {
		want = h.C.FPToBits(want)
	}
	mm := h.EvalUnder(f.Path.PC, m, es, []*smt.Expr{ret, want})
	if mm == nil {
		return sb.String() + "could not evaluate the predicted value\n", false
	}
	pv, _ := llh.ValOf(mm, ret)
	rv, _ := llh.ValOf(mm, want)
	got, ok := nr.Field("RET")
	if !ok {
		return sb.String(), false
	}
	g, _ := strconv.ParseUint(got, 16, 64)
	if ret.Sort.W < 64 {
		g &= (1 << uint(ret.Sort.W)) - 1
	}
	fmt.Fprintf(&sb, "reference value %#x, symbolic run predicts %#x, native run returned %#x\n--- driver.c ---\n%s\n--- cell ---\n%s", rv, pv, g, nr.Driver, src)
	// confirmed when the real build returns what the encoding predicted and that differs from the reference
	// (libm results are uninterpreted: cells through pow/log10 cannot be confirmed by value)
	return sb.String(), g == pv && g != rv
}

func (x *ctx) rtMods() []*llread.Module {
	return append([]*llread.Module{x.lists}, x.rt...)
}

type lrep struct {
	lt listT
	n  int
	el []*smt.Expr
}

// replayLists runs a list cell natively with the model's elements.
func (x *ctx) replayLists(h *llh.H, f *llh.Failure, fn, src string, opt int, retC string, ls []lrep, scalars []*smt.Expr) (string, bool) {
	m := h.Refine(f, nil, nil)
	if m == nil {
		return "no model", false
	}
	nc := &llh.NativeCall{Fn: fn, DDPSrc: src, Opt: opt, RetC: retC}
	var fixed []*smt.Expr
	for _, l := range ls {
		arg := llh.CArg{Kind: "list", CType: l.lt.cList, ElemC: l.lt.cElem, Len: l.n, Cap: capFor(l.n)}
		for _, e := range l.el {
			v, _ := llh.ValOf(m, e)
			arg.Elems = append(arg.Elems, v)
			fixed = append(fixed, e)
		}
		nc.Args = append(nc.Args, arg)
	}
	nr := llh.RunNative(x.env, nc)
	var sb strings.Builder
	fmt.Fprintf(&sb, "model: %s\nnative: exit=%d err=%q stdout=%q stderr=%q\n--- driver.c ---\n%s\n--- cell ---\n%s", h.ModelString(m), nr.Exit, nr.Err, nr.Stdout, nr.Stderr, nr.Driver, src)
	if nr.Err != "" || f.Path == nil || f.Path.Term != llse.TermReturn || f.Path.Ret.E == nil {
		return sb.String(), false
	}
	mm := h.EvalUnder(f.Path.PC, m, fixed, []*smt.Expr{f.Path.Ret.E})
	if mm == nil {
		return sb.String(), false
	}
	pv, _ := llh.ValOf(mm, f.Path.Ret.E)
	got, ok := nr.Field("RET")
	if !ok {
		return sb.String(), false
	}
	g, _ := strconv.ParseUint(got, 16, 64)
	fmt.Fprintf(&sb, "\nsymbolic run predicts %#x, native run returned %#x\n", pv, g)
	return sb.String(), g == pv
}
