// Package c03: the frontend is total (no input crashes or hangs it).
package c03

import (
	"time"

	"verif/engine/build"
	"verif/engine/gose"
	"verif/engine/props/core"
	"verif/engine/props/goh"
)

func Run(r *core.Report, env *build.Env) {
	r.Level = "model_checking"
	s := &goh.Suite{R: r, Env: env, Patterns: []string{"./src/scanner", "./src/parser/..."}, Files: map[string]string{
		"src/parser/zz_verif_c03.go": "parser/zz_verif_c03.go",
		"src/parser/zz_verif_c19.go": "parser/zz_verif_c19.go",
	}}
	if !s.Load() {
		return
	}
	r.Assumptions = append(r.Assumptions, "every path has an instruction budget (2 million SSA instructions); exhausting it is reported as possible non-termination",
		"implicit obligations on every path: no index/slice fault, nil dereference, failed type assertion, division by zero, or panic reaching the caller; a ParserError returned by Parse counts as a crash")
	r.Outside = append(r.Outside, "sources longer than the byte bound and token sequences longer than the token bound (near-valid whole programs)", "import graphs, missing files, directories, cycles (file system)",
		"stack exhaustion and memory growth (not observable in the interpreter)", "generic instantiation on arbitrary input")
	sc := gose.ModPath + "/src/scanner."
	sum := []string{sc + "isAlpha", sc + "isDigit", sc + "isAlphaNumeric", sc + "isSpace", sc + "isUpper"}
	pk := "src/parser"
	hs := []goh.Harness{
		{Pkg: pk, Func: "VerifC03LexN1", Bound: "scanner + literal helpers: all byte strings of length 1"},
		{Pkg: pk, Func: "VerifC03LexN2", Bound: "scanner + literal helpers: all byte strings of length 2"},
		{Pkg: pk, Func: "VerifC03LexN3", Bound: "scanner + literal helpers: all byte strings of length 3"},
		{Pkg: pk, Func: "VerifC03ParseN1", Bound: "whole frontend (scan, parse, resolve, typecheck): all sources of 1 byte"},
		{Pkg: pk, Func: "VerifC03ParseN2", Bound: "whole frontend: all sources of 2 bytes"},
		{Pkg: pk, Func: "VerifC03Tokens1", Bound: "parser/resolver/typechecker: every token kind as a 1-token program"},
		{Pkg: pk, Func: "VerifC03Tokens2", Bound: "parser/resolver/typechecker: every sequence of 2 token kinds"},
		{Pkg: pk, Func: "VerifC03AfterPrefix1", Bound: "24 concrete openings of declarations/statements continued by every token kind"},
		{Pkg: pk, Func: "VerifC03AliasText2", Bound: "a function declaration whose alias text ends in 2 arbitrary bytes"},
		{Pkg: pk, Func: "VerifC03AliasTextBool2", Bound: "the same for a function returning a Wahrheitswert (negation markers)"},
		{Pkg: pk, Func: "VerifC03AfterPrefix2", Bound: "24 concrete openings continued by every sequence of 2 token kinds"},
	}
	if r.Tier == "thorough" {
		hs = append(hs,
			goh.Harness{Pkg: pk, Func: "VerifC03LexN4", Bound: "scanner + literal helpers: all byte strings of length 4", Opts: gose.Options{Deadline: 30 * time.Minute}},
			goh.Harness{Pkg: pk, Func: "VerifC03LexAliasN3", Bound: "scanner (alias mode) + literal helpers: all byte strings of length 3"},
			goh.Harness{Pkg: pk, Func: "VerifC03ParseN3", Bound: "whole frontend: all sources of 3 bytes", Opts: gose.Options{Deadline: 40 * time.Minute}},
			goh.Harness{Pkg: pk, Func: "VerifC03Tokens3", Bound: "parser/resolver/typechecker: every sequence of 3 token kinds", Opts: gose.Options{Deadline: 40 * time.Minute}},
			goh.Harness{Pkg: pk, Func: "VerifC03AliasTextBool3", Bound: "alias text of a Wahrheitswert function ending in 3 arbitrary bytes", Opts: gose.Options{Deadline: 40 * time.Minute}},
			goh.Harness{Pkg: pk, Func: "VerifC03Tokens3Indented", Bound: "every sequence of 3 token kinds, second line indented", Opts: gose.Options{Deadline: 40 * time.Minute}},
		)
	}
	for _, h := range hs {
		h.Opts.Summarize = sum
		s.Run(h)
	}
}
