// Package c18: foreign C functions see the published value representation.
package c18

import (
	"fmt"
	"strings"
	"time"

	"verif/engine/build"
	"verif/engine/llread"
	"verif/engine/llse"
	"verif/engine/props/core"
	"verif/engine/props/ddp"
	"verif/engine/props/llh"
	"verif/engine/smt"
)

// kind describes one parameter kind of an extern signature.
type kind struct {
	key   string
	ddpT  string // DDP type in the extern declaration
	cT    string // C parameter type from the published header
	isRef bool
	prim  bool
	bits  int
	fp    bool
}

var kinds = []kind{
	{"zahl", "Zahl", "ddpint", false, true, 64, false},
	{"komma", "Kommazahl", "ddpfloat", false, true, 64, true},
	{"byte", "Byte", "ddpbyte", false, true, 8, false},
	{"bool", "Wahrheitswert", "ddpbool", false, true, 1, false},
	{"buch", "Buchstabe", "ddpchar", false, true, 32, false},
	{"text", "Text", "ddpstring *", false, false, 0, false},
	{"liste", "Zahlen Liste", "ddpintlist *", false, false, 0, false},
	{"zahlref", "Zahlen Referenz", "ddpint *", true, true, 64, false},
	{"textref", "Text Referenz", "ddpstring *", true, false, 0, false},
	{"listref", "Zahlen Listen Referenz", "ddpintlist *", true, false, 0, false},
	{"kommalistref", "Kommazahlen Listen Referenz", "ddpfloatlist *", true, false, 0, false},
	{"textlistref", "Text Listen Referenz", "ddpstringlist *", true, false, 0, false},
	{"byteref", "Byte Referenz", "ddpbyte *", true, true, 8, false},
	{"buchref", "Buchstaben Referenz", "ddpchar *", true, true, 32, false},
}

type retKind struct {
	key, ddpRet, cT string
	bits            int
	fp              bool
}

var rets = []retKind{
	{"nichts", "nichts", "void", 0, false},
	{"zahl", "eine Zahl", "ddpint", 64, false},
	{"komma", "eine Kommazahl", "ddpfloat", 64, true},
	{"byte", "einen Byte", "ddpbyte", 8, false},
	{"bool", "einen Wahrheitswert", "ddpbool", 1, false},
	{"buch", "einen Buchstaben", "ddpchar", 32, false},
	{"text", "einen Text", "text", 0, false},
	{"liste", "eine Zahlen Liste", "liste", 0, false},
}

// retLoop: a Wahrheitswert result used as the condition of a Solange loop (the call is evaluated
// once per test of the condition)
var retLoop = retKind{"boolloop", "einen Wahrheitswert", "ddpbool", 1, false}

type sig struct {
	params []kind
	ret    retKind
}

func (s sig) name() string {
	var ks []string
	for _, p := range s.params {
		ks = append(ks, p.key)
	}
	return strings.Join(ks, "_") + "__" + s.ret.key
}

// sources renders the DDP module (extern declaration + wrapper with primitive parameters) and
// the C module (callee recording what it received).
func (s sig) sources() (string, string, []string) {
	var dps []ddp.Param
	var wps []ddp.Param // wrapper params
	var pre, call []string
	var cparams, cbody, cglobals []string
	var wargs []string // kinds of wrapper params ("z" ascii, "zahl", "komma", "byte", "bool", "buch")
	cglobals = append(cglobals, "int c18_called;")
	if s.ret.cT == "text" || s.ret.cT == "liste" {
		if s.ret.cT == "text" {
			cparams = append(cparams, "ddpstring *ret")
		} else {
			cparams = append(cparams, "ddpintlist *ret")
		}
	}
	for i, p := range s.params {
		pn := fmt.Sprintf("p%d", i)
		dps = append(dps, ddp.Param{Name: pn, Type: p.ddpT})
		cparams = append(cparams, fmt.Sprintf("%s %s", p.cT, pn))
		switch p.key {
		case "zahl", "komma", "byte", "bool", "buch":
			wps = append(wps, ddp.Param{Name: pn, Type: p.ddpT})
			wargs = append(wargs, p.key)
			call = append(call, pn)
			cglobals = append(cglobals, fmt.Sprintf("%s c18_sink%d;", p.cT, i))
			cbody = append(cbody, fmt.Sprintf("c18_sink%d = %s;", i, pn))
		case "text":
			wps = append(wps, ddp.Param{Name: pn + "z", Type: "Zahl"})
			wargs = append(wargs, "z")
			pre = append(pre, fmt.Sprintf("Der Text %sv ist ((%sz als Buchstabe) als Text) verkettet mit \"t\".", pn, pn))
			call = append(call, pn+"v")
			cglobals = append(cglobals, fmt.Sprintf("ddpstring c18_sink%d; char c18_sinkb%d[4];", i, i))
			cbody = append(cbody, fmt.Sprintf("c18_sink%d = *%s; c18_sinkb%d[0] = %s->str[0]; c18_sinkb%d[1] = %s->str[1]; c18_sinkb%d[2] = %s->str[2];", i, pn, i, pn, i, pn, i, pn))
		case "liste":
			wps = append(wps, ddp.Param{Name: pn + "z", Type: "Zahl"})
			wargs = append(wargs, "zahl")
			pre = append(pre, fmt.Sprintf("Die Zahlen Liste %sv ist eine Liste, die aus %sz, 7 besteht.", pn, pn))
			call = append(call, pn+"v")
			cglobals = append(cglobals, fmt.Sprintf("ddpintlist c18_sink%d; ddpint c18_sinke%d[2];", i, i))
			cbody = append(cbody, fmt.Sprintf("c18_sink%d = *%s; c18_sinke%d[0] = %s->arr[0]; c18_sinke%d[1] = %s->arr[1];", i, pn, i, pn, i, pn))
		case "zahlref":
			wps = append(wps, ddp.Param{Name: pn + "z", Type: "Zahl"})
			wargs = append(wargs, "zahl")
			pre = append(pre, fmt.Sprintf("Die Zahl %sv ist %sz.", pn, pn))
			call = append(call, pn+"v")
			cglobals = append(cglobals, fmt.Sprintf("ddpint c18_sink%d;", i))
			cbody = append(cbody, fmt.Sprintf("c18_sink%d = *%s; *%s = *%s + 1000;", i, pn, pn, pn))
		case "textref":
			wps = append(wps, ddp.Param{Name: pn + "z", Type: "Zahl"})
			wargs = append(wargs, "z")
			pre = append(pre, fmt.Sprintf("Der Text %sv ist ((%sz als Buchstabe) als Text) verkettet mit \"t\".", pn, pn))
			call = append(call, pn+"v")
			cglobals = append(cglobals, fmt.Sprintf("char c18_sinkb%d[4];", i))
			cbody = append(cbody, fmt.Sprintf("c18_sinkb%d[0] = %s->str[0]; c18_sinkb%d[1] = %s->str[1]; %s->str[1] = 'R';", i, pn, i, pn, pn))
		case "kommalistref":
			wps = append(wps, ddp.Param{Name: pn + "z", Type: "Kommazahl"})
			wargs = append(wargs, "komma")
			pre = append(pre, fmt.Sprintf("Die Kommazahlen Liste %sv ist eine Liste, die aus %sz, 7,5 besteht.", pn, pn))
			call = append(call, pn+"v")
			cglobals = append(cglobals, fmt.Sprintf("ddpfloat c18_sinkf%d; ddpint c18_sinkl%d;", i, i))
			cbody = append(cbody, fmt.Sprintf("c18_sinkf%d = %s->arr[0]; c18_sinkl%d = %s->len; %s->len = 1;", i, pn, i, pn, pn))
		case "textlistref":
			wps = append(wps, ddp.Param{Name: pn + "z", Type: "Zahl"})
			wargs = append(wargs, "z")
			pre = append(pre, fmt.Sprintf("Die Text Liste %sv ist eine Liste, die aus ((%sz als Buchstabe) als Text), \"zwei\" besteht.", pn, pn))
			call = append(call, pn+"v")
			cglobals = append(cglobals, fmt.Sprintf("char c18_sinkc%d; ddpint c18_sinkl%d;", i, i))
			cbody = append(cbody, fmt.Sprintf("c18_sinkc%d = %s->arr[0].str[0]; c18_sinkl%d = %s->len; %s->arr[1].str[0] = 'Z';", i, pn, i, pn, pn))
		case "byteref":
			wps = append(wps, ddp.Param{Name: pn + "z", Type: "Byte"})
			wargs = append(wargs, "byte")
			pre = append(pre, fmt.Sprintf("Der Byte %sv ist %sz.", pn, pn))
			call = append(call, pn+"v")
			cglobals = append(cglobals, fmt.Sprintf("ddpbyte c18_sink%d;", i))
			cbody = append(cbody, fmt.Sprintf("c18_sink%d = *%s; *%s = 77;", i, pn, pn))
		case "buchref":
			wps = append(wps, ddp.Param{Name: pn + "z", Type: "Buchstabe"})
			wargs = append(wargs, "buch")
			pre = append(pre, fmt.Sprintf("Der Buchstabe %sv ist %sz.", pn, pn))
			call = append(call, pn+"v")
			cglobals = append(cglobals, fmt.Sprintf("ddpchar c18_sink%d;", i))
			cbody = append(cbody, fmt.Sprintf("c18_sink%d = *%s; *%s = 'Q';", i, pn, pn))
		case "listref":
			wps = append(wps, ddp.Param{Name: pn + "z", Type: "Zahl"})
			wargs = append(wargs, "zahl")
			pre = append(pre, fmt.Sprintf("Die Zahlen Liste %sv ist eine Liste, die aus %sz, 7 besteht.", pn, pn))
			call = append(call, pn+"v")
			cglobals = append(cglobals, fmt.Sprintf("ddpint c18_sinke%d[2];", i))
			cbody = append(cbody, fmt.Sprintf("c18_sinke%d[0] = %s->arr[0]; c18_sinke%d[1] = %s->arr[1]; %s->arr[0] = %s->arr[0] + 1000;", i, pn, i, pn, pn, pn))
		}
	}
	fn := "c18_ext"
	var sb strings.Builder
	sb.WriteString(ddp.Extern(fn, dps, s.ret.ddpRet, "c18_ext.c"))
	// wrapper: returns the callee's result; Referenz variables are folded into an observation sum
	body := strings.Join(pre, "\n\t")
	if body != "" {
		body += "\n\t"
	}
	invoke := strings.TrimSpace(fn + " " + strings.Join(call, " "))
	wret := s.ret.ddpRet
	var refObs []string
	for i, p := range s.params {
		switch p.key {
		case "zahlref":
			refObs = append(refObs, fmt.Sprintf("p%dv", i))
		case "listref":
			refObs = append(refObs, fmt.Sprintf("(p%dv an der Stelle 1)", i))
		case "textref":
			refObs = append(refObs, fmt.Sprintf("((p%dv an der Stelle 2) als Zahl)", i))
		case "kommalistref":
			refObs = append(refObs, fmt.Sprintf("(die Länge von p%dv)", i))
		case "textlistref":
			refObs = append(refObs, fmt.Sprintf("(((p%dv an der Stelle 2) an der Stelle 1) als Zahl)", i))
		case "byteref":
			refObs = append(refObs, fmt.Sprintf("(p%dv als Zahl)", i))
		case "buchref":
			refObs = append(refObs, fmt.Sprintf("(p%dv als Zahl)", i))
		}
	}
	if s.ret.key == "boolloop" {
		body += "Die Zahl n ist 0.\n\tSolange (" + invoke + ") und (n kleiner als 2 ist), mache:\n\t\tErhöhe n um 1.\n\tGib n zurück."
		wret = "eine Zahl"
	} else if s.ret.key == "nichts" || len(refObs) > 0 {
		// observe the Referenz variables after the call (their sum), the result itself is dropped
		if s.ret.key == "nichts" {
			body += invoke + ".\n\t"
		} else if s.ret.cT == "text" || s.ret.cT == "liste" {
			body += "Die Variable ergebnis ist (" + invoke + ").\n\t"
		} else {
			body += "Die Variable ergebnis ist (" + invoke + ").\n\t"
		}
		obs := "0"
		if len(refObs) > 0 {
			obs = strings.Join(refObs, " plus ")
		}
		body += "Gib " + obs + " zurück."
		wret = "eine Zahl"
	} else {
		body += "Gib (" + invoke + ") zurück."
	}
	if len(call) == 0 && s.ret.key != "nichts" && len(refObs) == 0 {
		body = "Gib " + fn + " zurück."
	}
	sb.WriteString(ddp.Func("c18_wrap", wps, wret, body))
	// C side
	var cs strings.Builder
	cs.WriteString("#include \"DDP/ddptypes.h\"\n#include \"DDP/ddpmemory.h\"\n")
	cs.WriteString(strings.Join(cglobals, "\n") + "\n")
	rt := s.ret.cT
	retStmt := ""
	switch s.ret.cT {
	case "void":
	case "text":
		rt = "void"
		retStmt = "ddp_string_from_constant(ret, \"ok\");"
	case "liste":
		rt = "void"
		retStmt = "ret->arr = ddp_reallocate(NULL, 0, sizeof(ddpint) * 2); ret->len = 2; ret->cap = 2; ret->arr[0] = 11; ret->arr[1] = 22;"
	default:
		cs.WriteString(fmt.Sprintf("extern %s c18_rv;\n", s.ret.cT))
		retStmt = "return c18_rv;"
	}
	cs.WriteString(fmt.Sprintf("%s %s(%s) {\n\tc18_called++;\n\t%s\n\t%s\n}\n", rt, fn, strings.Join(cparams, ", "), strings.Join(cbody, "\n\t"), retStmt))
	if len(cparams) == 0 {
		return sb.String(), strings.Replace(cs.String(), fn+"()", fn+"(void)", 1), wargs
	}
	return sb.String(), cs.String(), wargs
}

type ctx struct {
	r       *core.Report
	env     *build.Env
	rt      []*llread.Module
	lists   *llread.Module
	timeout time.Duration
	opts    []int
}

func Run(r *core.Report, env *build.Env) {
	r.Level = "model_checking"
	x := &ctx{r: r, env: env, timeout: 30 * time.Second, opts: []int{0}}
	if r.Tier == "thorough" {
		x.timeout = 120 * time.Second
		x.opts = []int{0, 2}
	}
	var err error
	if x.rt, err = env.RuntimeIR(); err != nil {
		r.EngineFailf("runtime IR: %v", err)
		return
	}
	if x.lists, err = env.ListDefs(); err != nil {
		r.EngineFailf("list defs: %v", err)
		return
	}
	r.Bounds["signatures"] = "every single-parameter signature with every return kind, three signatures called inside the condition of a Solange loop (evaluated up to three times), every ordered pair of parameter kinds (return Zahl), selected signatures of arity 0, 3 and 4 (thorough: arity up to 6)"
	r.Bounds["values"] = "scalar arguments fully symbolic; Text arguments of two characters (first symbolic ASCII), Zahlen Listen of two elements (first symbolic)"
	r.Assumptions = append(r.Assumptions, "the C side is compiled by clang-14 against the real headers lib/runtime/include/DDP (the x86-64 parameter lowering is clang's)", "realloc never fails")
	r.Outside = append(r.Outside, "the machine-level calling convention beyond what LLVM IR shows (e.g. zeroext of i1)", "gcc vs clang struct layout", "calls from an importing module", "Kombination and Variable parameters")
	var sigs []sig
	for _, rk := range rets {
		sigs = append(sigs, sig{nil, rk})
		for _, k := range kinds {
			sigs = append(sigs, sig{[]kind{k}, rk})
		}
	}
	for _, a := range kinds[:10] {
		for _, b := range kinds[:10] {
			sigs = append(sigs, sig{[]kind{a, b}, rets[1]})
		}
	}
	km := map[string]kind{}
	for _, k := range kinds {
		km[k.key] = k
	}
	sigs = append(sigs, sig{[]kind{km["text"]}, retLoop}, sig{[]kind{km["liste"]}, retLoop}, sig{[]kind{km["text"], km["zahl"]}, retLoop})
	mix := func(ret string, keys ...string) sig {
		var ps []kind
		for _, k := range keys {
			ps = append(ps, km[k])
		}
		for _, rk := range rets {
			if rk.key == ret {
				return sig{ps, rk}
			}
		}
		return sig{ps, rets[0]}
	}
	sigs = append(sigs, mix("text", "zahlref", "text", "bool"), mix("liste", "text", "listref", "komma"), mix("komma", "byte", "buch", "text", "zahl"), mix("nichts", "textref", "liste", "zahlref", "text"))
	if r.Tier == "thorough" {
		sigs = append(sigs, mix("zahl", "zahl", "komma", "byte", "bool", "buch", "text"), mix("text", "liste", "text", "zahlref", "textref", "listref", "komma"), mix("bool", "text", "text", "liste", "liste", "zahlref", "zahlref"))
	}
	var cells []llh.CellFn
	for _, s := range sigs {
		for _, opt := range x.opts {
			s, opt := s, opt
			cells = append(cells, func() { x.cell(s, opt) })
		}
	}
	llh.RunParallel(llh.Wrap(r, cells), 16)
}

func (x *ctx) cell(s sig, opt int) {
	dsrc, csrc, wargs := s.sources()
	name := "c18_" + s.name()
	cm, err := x.env.CompileDDP(name, dsrc, opt)
	if err != nil || cm == nil {
		x.r.EngineFailf("%s: compile error %v", name, err)
		return
	}
	if cm.Mod == nil {
		x.r.Notef("signature %s not compilable: %s", s.name(), lastLine(cm.Stderr))
		return
	}
	cmod, err := x.env.CompileC(name+fmt.Sprint(opt), csrc)
	if err != nil {
		x.r.EngineFailf("%s: C side: %v", name, err)
		return
	}
	x.r.Programs++
	mods := append([]*llread.Module{cm.Mod, cmod, x.lists}, x.rt...)
	diff := 10
	if x.r.Tier == "thorough" {
		diff = 1
	}
	h := llh.NewH(x.r, fmt.Sprintf("O%d/%s", opt, s.name()), x.timeout, diff, mods...)
	defer h.Close()
	h.InstallUTF8Stubs()
	c := h.C
	// static comparison of the two prototypes
	decl, def := cm.Mod.Funcs["c18_ext"], cmod.Funcs["c18_ext"]
	if decl == nil || def == nil {
		x.r.EngineFailf("%s: extern symbol c18_ext missing (declared: %v, defined: %v): name mangling?", h.Cell, decl != nil, def != nil)
		return
	}
	x.r.Oblige(1)
	if msg := protoMismatch(decl, def); msg != "" {
		h.On(h.St)
		h.Failed = append(h.Failed, llh.Failure{Obligation: "declared prototype matches the C prototype: " + msg})
	} else {
		x.r.Discharge(1)
	}
	var args []llse.Val
	var ins []*smt.Expr
	var retObj *llse.Object
	wretText, wretList := false, false
	hasRefObs := false
	for _, p := range s.params {
		if p.isRef {
			hasRefObs = true
		}
	}
	if s.ret.key != "nichts" && !hasRefObs {
		if s.ret.cT == "text" {
			wretText = true
			retObj = h.St.NewObject(c, llse.ObjStack, "ret", llh.TextHdr)
			args = append(args, h.Ptr(retObj))
		} else if s.ret.cT == "liste" {
			wretList = true
			retObj = h.St.NewObject(c, llse.ObjStack, "ret", llh.ListHdr)
			args = append(args, h.Ptr(retObj))
		}
	}
	for i, k := range wargs {
		nm := fmt.Sprintf("in%d", i)
		switch k {
		case "z":
			v := h.Var(nm, 64)
			h.St.Assume(c.And(c.SGE(v, c.BV(64, 1)), c.SLE(v, c.BV(64, 0x7f))))
			args = append(args, llse.Val{E: v})
			ins = append(ins, v)
		case "zahl":
			v := h.Var(nm, 64)
			args = append(args, llse.Val{E: v})
			ins = append(ins, v)
		case "komma":
			v := h.FVar(nm)
			args = append(args, llse.Val{E: v})
			ins = append(ins, v)
		case "byte":
			v := h.Var(nm, 8)
			args = append(args, llse.Val{E: v})
			ins = append(ins, v)
		case "bool":
			v := h.Var(nm, 1)
			args = append(args, llse.Val{E: v})
			ins = append(ins, v)
		case "buch":
			v := h.Var(nm, 32)
			h.St.Assume(c.And(c.ULE(v, c.BV(32, 0x10ffff)), c.Or(c.ULT(v, c.BV(32, 0xd800)), c.UGT(v, c.BV(32, 0xdfff)))))
			args = append(args, llse.Val{E: v})
			ins = append(ins, v)
		}
	}
	res := h.Run("c18_wrap", args)
	nret := 0
	for _, st := range res {
		h.On(st)
		if st.Term != llse.TermReturn {
			h.Fail("the call must return normally")
			continue
		}
		nret++
		if s.ret.key == "boolloop" {
			// only the ownership obligation: whatever the number of evaluations of the condition,
			// every argument copy has been released when the wrapper returns
			x.auditLive(h, st, nil)
			continue
		}
		glob := func(name string, off int64, n int) *smt.Expr {
			o := h.Ex.GlobalObject(st, name)
			if o == nil {
				return nil
			}
			bs, ok := h.ReadBytesAtGuarded(st, st.PtrTo(c, st.Objs[o.ID], 0), int(off), n, c.True())
			if !ok {
				return nil
			}
			var acc *smt.Expr
			for _, b := range bs {
				if acc == nil {
					acc = b
				} else {
					acc = c.Concat(b, acc)
				}
			}
			return acc
		}
		called := glob("c18_called", 0, 4)
		if called != nil {
			h.Holds("the C function is called exactly once", st.PC, c.Eq(called, c.BV(32, 1)))
		}
		refSum := c.BV(64, 0)
		for i, p := range s.params {
			in := ins[i]
			switch p.key {
			case "zahl", "byte", "buch":
				got := glob(fmt.Sprintf("c18_sink%d", i), 0, (p.bits+7)/8)
				h.Holds(fmt.Sprintf("parameter %d (%s) arrives by value", i, p.ddpT), st.PC, c.Eq(got, in))
			case "bool":
				got := glob(fmt.Sprintf("c18_sink%d", i), 0, 1)
				h.Holds(fmt.Sprintf("parameter %d (%s) arrives by value", i, p.ddpT), st.PC, c.Eq(got, c.ZExt(in, 8)))
			case "komma":
				got := glob(fmt.Sprintf("c18_sink%d", i), 0, 8)
				h.Holds(fmt.Sprintf("parameter %d (%s) arrives by value", i, p.ddpT), st.PC, c.Eq(c.FPFromBits(got), in))
			case "text", "textref":
				b0 := glob(fmt.Sprintf("c18_sinkb%d", i), 0, 1)
				b1 := glob(fmt.Sprintf("c18_sinkb%d", i), 1, 1)
				h.Holds(fmt.Sprintf("parameter %d (%s) arrives as a pointer to the Text", i, p.ddpT), st.PC, c.And(c.Eq(b0, c.Trunc(in, 8)), c.Eq(b1, c.BV(8, 't'))))
				if p.key == "text" {
					capv := glob(fmt.Sprintf("c18_sink%d", i), 8, 8)
					h.Holds(fmt.Sprintf("parameter %d: Text capacity as published", i), st.PC, c.Eq(capv, c.BV(64, 3)))
				} else {
					refSum = c.Add(refSum, c.BV(64, 'R'))
				}
			case "liste", "listref":
				e0 := glob(fmt.Sprintf("c18_sinke%d", i), 0, 8)
				e1 := glob(fmt.Sprintf("c18_sinke%d", i), 8, 8)
				h.Holds(fmt.Sprintf("parameter %d (%s) arrives as a pointer to the list", i, p.ddpT), st.PC, c.And(c.Eq(e0, in), c.Eq(e1, c.BV(64, 7))))
				if p.key == "liste" {
					ln := glob(fmt.Sprintf("c18_sink%d", i), 8, 8)
					h.Holds(fmt.Sprintf("parameter %d: list length as published", i), st.PC, c.Eq(ln, c.BV(64, 2)))
				} else {
					refSum = c.Add(refSum, c.Add(in, c.BV(64, 1000)))
				}
			case "zahlref":
				got := glob(fmt.Sprintf("c18_sink%d", i), 0, 8)
				h.Holds(fmt.Sprintf("parameter %d (%s) points to the caller's value", i, p.ddpT), st.PC, c.Eq(got, in))
				refSum = c.Add(refSum, c.Add(in, c.BV(64, 1000)))
			case "kommalistref":
				got := glob(fmt.Sprintf("c18_sinkf%d", i), 0, 8)
				ln := glob(fmt.Sprintf("c18_sinkl%d", i), 0, 8)
				h.Holds(fmt.Sprintf("parameter %d (%s) points to the caller's list", i, p.ddpT), st.PC, c.And(c.Eq(c.FPFromBits(got), in), c.Eq(ln, c.BV(64, 2))))
				refSum = c.Add(refSum, c.BV(64, 1))
			case "textlistref":
				got := glob(fmt.Sprintf("c18_sinkc%d", i), 0, 1)
				ln := glob(fmt.Sprintf("c18_sinkl%d", i), 0, 8)
				h.Holds(fmt.Sprintf("parameter %d (%s) points to the caller's list", i, p.ddpT), st.PC, c.And(c.Eq(got, c.Trunc(in, 8)), c.Eq(ln, c.BV(64, 2))))
				refSum = c.Add(refSum, c.BV(64, 'Z'))
			case "byteref":
				got := glob(fmt.Sprintf("c18_sink%d", i), 0, 1)
				h.Holds(fmt.Sprintf("parameter %d (%s) points to the caller's value", i, p.ddpT), st.PC, c.Eq(got, in))
				refSum = c.Add(refSum, c.BV(64, 77))
			case "buchref":
				got := glob(fmt.Sprintf("c18_sink%d", i), 0, 4)
				h.Holds(fmt.Sprintf("parameter %d (%s) points to the caller's value", i, p.ddpT), st.PC, c.Eq(got, in))
				refSum = c.Add(refSum, c.BV(64, 'Q'))
			}
		}
		var roots []rootT
		switch {
		case hasRefObs || s.ret.key == "nichts":
			if hasRefObs {
				h.Holds("writes through Referenz parameters reach the caller's own variables", st.PC, c.Eq(st.Ret.E, refSum))
			}
		case wretText:
			x.textIs(h, st, retObj, "ok")
			roots = append(roots, rootT{retObj, "text"})
		case wretList:
			ln := h.ReadI64(st, retObj, 8).E
			h.Holds("result list as written by the C side", st.PC, c.Eq(ln, c.BV(64, 2)))
			roots = append(roots, rootT{retObj, "list"})
		default:
			rv := glob("c18_rv", 0, (s.ret.bits+7)/8)
			if rv != nil && st.Ret.E != nil {
				got := st.Ret.E
				if s.ret.fp {
					got = c.FPToBits(got)
				} else if s.ret.bits == 1 {
					// a C bool object holds 0 or 1
					h.Holds("the result is what the C function returned", append(append([]*smt.Expr{}, st.PC...), c.ULE(rv, c.BV(8, 1))), c.Eq(got, c.Extract(rv, 0, 0)))
					rv = nil
				}
				if rv != nil {
					h.Holds("the result is what the C function returned", st.PC, c.Eq(got, rv))
				}
			}
		}
		x.auditLive(h, st, roots)
	}
	if nret == 0 {
		x.r.EngineFailf("%s: vacuity guard: no returning path", h.Cell)
	}
	x.r.Sample(map[string]any{"cell": h.Cell, "ddp": dsrc, "c": csrc})
	x.finish(h, res, s, opt, dsrc, csrc, wargs, ins)
}

type rootT struct {
	obj  *llse.Object
	kind string
}

// auditLive: after the wrapper returned, the only live heap blocks belong to the result: every
// non-Referenz argument copy has been released exactly once by the caller.
func (x *ctx) auditLive(h *llh.H, st *llse.State, roots []rootT) {
	owned := map[int]bool{}
	for _, r := range roots {
		p := h.ReadPtr(st, r.obj, 0)
		if p.Obj != 0 {
			owned[p.Obj] = true
		}
	}
	x.r.Oblige(1)
	ok := true
	for _, o := range st.LiveHeap() {
		if !owned[o.ID] {
			ok = false
			h.Fail(fmt.Sprintf("argument or temporary block not released after the extern call (%s bytes)", o.Size.Short()))
		}
	}
	if ok {
		x.r.Discharge(1)
	}
}

func (x *ctx) textIs(h *llh.H, st *llse.State, hdr *llse.Object, want string) {
	c := h.C
	capv := h.ReadI64(st, hdr, 8).E
	if !h.Holds("result Text capacity", st.PC, c.Eq(capv, c.BV(64, uint64(len(want)+1)))) {
		return
	}
	bs, ok := h.ReadBytesAtGuarded(st, h.ReadPtr(st, hdr, 0), 0, len(want), c.True())
	if !ok {
		h.Fail("result Text readable")
		return
	}
	eq := c.True()
	for i := range want {
		eq = c.And(eq, c.Eq(bs[i], c.BV(8, uint64(want[i]))))
	}
	h.Holds("result Text as written by the C side", st.PC, eq)
}

func protoMismatch(decl, def *llread.Func) string {
	if len(decl.Params) != len(def.Params) {
		return fmt.Sprintf("%d parameters declared, the C function takes %d", len(decl.Params), len(def.Params))
	}
	for i := range decl.Params {
		a, b := decl.Params[i].Type, def.Params[i].Type
		if a.Kind != b.Kind || (a.Kind == llread.TInt && a.Bits != b.Bits) {
			return fmt.Sprintf("parameter %d: declared %s, C side %s", i, a, b)
		}
		// a narrow integer is widened to a register by the caller: stating the opposite extension of
		// what the C function was compiled for hands over another value (wahr as 255)
		if a.Kind == llread.TInt && a.Bits < 32 && i < len(decl.SignExt) && i < len(def.SignExt) {
			if (decl.SignExt[i] && def.ZeroExt[i]) || (decl.ZeroExt[i] && def.SignExt[i]) {
				return fmt.Sprintf("parameter %d: declared with the opposite integer extension (signext/zeroext) of the C function", i)
			}
		}
	}
	ra, rb := decl.Type.Ret, def.Type.Ret
	if ra.Kind != rb.Kind || (ra.Kind == llread.TInt && ra.Bits != rb.Bits) {
		return fmt.Sprintf("result: declared %s, C side %s", ra, rb)
	}
	return ""
}

func lastLine(s string) string {
	ls := strings.Split(strings.TrimSpace(s), "\n")
	if len(ls) == 0 {
		return ""
	}
	l := ls[len(ls)-1]
	if len(l) > 160 {
		l = l[:160]
	}
	return l
}

func (x *ctx) finish(h *llh.H, res []*llse.State, s sig, opt int, dsrc, csrc string, wargs []string, ins []*smt.Expr) {
	for _, st := range res {
		for _, f := range st.Faults {
			x.r.Oblige(1)
			h.Failed = append(h.Failed, llh.Failure{Obligation: "memory:" + f.Kind, Model: f.Model, Detail: f.Where, Path: st, Asserts: append(append([]*smt.Expr{}, f.PC...), f.Cond)})
		}
	}
	seen := map[string]bool{}
	for i := range h.Failed {
		f := &h.Failed[i]
		ob := f.Obligation
		if k := strings.Index(ob, " ("); k > 0 && strings.Contains(ob, "not released") {
			ob = ob[:k]
		}
		key := s.name() + "/" + ob
		if seen[key] {
			continue
		}
		seen[key] = true
		txt, ok := x.replay(h, f, s, opt, dsrc, csrc, wargs, ins)
		what := fmt.Sprintf("%s: obligation %q fails; inputs %s %s", h.Cell, f.Obligation, h.ModelString(f.Model), f.Detail)
		if ok {
			x.r.Replayed++
			x.r.Violate(key, what, txt)
		} else {
			x.r.Unconfirmedf("%s (replay: %s)", what, firstLines(txt, 6))
		}
	}
}

func firstLines(s string, n int) string {
	ls := strings.SplitN(s, "\n", n+1)
	if len(ls) > n {
		ls = ls[:n]
	}
	return strings.Join(ls, " | ")
}

// replay: the DDP module is compiled to an object by the fresh kddp, the C callee and a driver are
// compiled by gcc, ddp_reallocate is wrapped to count blocks; the observations are compared with
// the published convention computed here from the inputs.
func (x *ctx) replay(h *llh.H, f *llh.Failure, s sig, opt int, dsrc, csrc string, wargs []string, ins []*smt.Expr) (string, bool) {
	var m *smt.Model
	if f.Asserts != nil {
		m = h.Refine(f, nil, nil)
	}
	val := func(i int) uint64 {
		if m == nil {
			return 0x41
		}
		v, _ := llh.ValOf(m, ins[i])
		return v
	}
	nc := &llh.NativeCall{Fn: "c18_wrap", DDPSrc: dsrc, Opt: opt, RetC: "void", Track: true}
	hasRef := false
	for _, p := range s.params {
		if p.isRef {
			hasRef = true
		}
	}
	switch {
	case hasRef || s.ret.key == "nichts":
		nc.RetC = "ddpint"
	case s.ret.cT == "text":
		nc.Args = append(nc.Args, llh.CArg{Kind: "outtext"})
	case s.ret.cT == "liste":
		nc.Args = append(nc.Args, llh.CArg{Kind: "outlist", CType: "ddpintlist", ElemC: "ddpint"})
	default:
		nc.RetC = s.ret.cT
	}
	for i, k := range wargs {
		switch k {
		case "z", "zahl":
			nc.Args = append(nc.Args, llh.CArg{Kind: "int", CType: "ddpint", Bits: val(i)})
		case "komma":
			nc.Args = append(nc.Args, llh.CArg{Kind: "double", Bits: val(i)})
		case "byte":
			nc.Args = append(nc.Args, llh.CArg{Kind: "int", CType: "ddpbyte", Bits: val(i)})
		case "bool":
			nc.Args = append(nc.Args, llh.CArg{Kind: "int", CType: "ddpbool", Bits: val(i)})
		case "buch":
			nc.Args = append(nc.Args, llh.CArg{Kind: "int", CType: "ddpchar", Bits: val(i)})
		}
	}
	// the callee (without its headers, the driver has them) plus a definition of the returned value
	callee := strings.Replace(csrc, "#include \"DDP/ddptypes.h\"\n#include \"DDP/ddpmemory.h\"\n", "", 1)
	callee = strings.Replace(callee, "extern "+s.ret.cT+" c18_rv;", s.ret.cT+" c18_rv = ("+s.ret.cT+")90;", 1)
	var rep strings.Builder
	rep.WriteString("static void c18_report(void) {\n\tprintf(\"CALLED %d\\n\", c18_called);\n")
	var expect []string
	expect = append(expect, "CALLED 1")
	refSum := uint64(0)
	for i, p := range s.params {
		switch p.key {
		case "zahl", "byte", "buch", "bool":
			fmt.Fprintf(&rep, "\tprintf(\"SINK%d %%llx\\n\", (unsigned long long)(uint64_t)c18_sink%d);\n", i, i)
			v := val(i)
			if p.bits < 64 {
				v &= (1 << uint(p.bits)) - 1
			}
			if p.key == "buch" {
				v = uint64(int64(int32(v))) // printed through a signed 32-bit type
			}
			expect = append(expect, fmt.Sprintf("SINK%d %x", i, v))
		case "komma":
			fmt.Fprintf(&rep, "\tprintf(\"SINK%d %%llx\\n\", (unsigned long long)d2u(c18_sink%d));\n", i, i)
			expect = append(expect, fmt.Sprintf("SINK%d %x", i, val(i)))
		case "text", "textref":
			fmt.Fprintf(&rep, "\tprintf(\"SINK%d %%02x%%02x\\n\", (unsigned char)c18_sinkb%d[0], (unsigned char)c18_sinkb%d[1]);\n", i, i, i)
			expect = append(expect, fmt.Sprintf("SINK%d %02x74", i, val(i)&0xff))
			if p.key == "textref" {
				refSum += 'R'
			}
		case "liste", "listref":
			fmt.Fprintf(&rep, "\tprintf(\"SINK%d %%llx %%llx\\n\", (unsigned long long)c18_sinke%d[0], (unsigned long long)c18_sinke%d[1]);\n", i, i, i)
			expect = append(expect, fmt.Sprintf("SINK%d %x 7", i, val(i)))
			if p.key == "listref" {
				refSum += val(i) + 1000
			}
		case "zahlref":
			fmt.Fprintf(&rep, "\tprintf(\"SINK%d %%llx\\n\", (unsigned long long)c18_sink%d);\n", i, i)
			expect = append(expect, fmt.Sprintf("SINK%d %x", i, val(i)))
			refSum += val(i) + 1000
		case "kommalistref":
			fmt.Fprintf(&rep, "\tprintf(\"SINK%d %%llx len %%lld\\n\", (unsigned long long)d2u(c18_sinkf%d), (long long)c18_sinkl%d);\n", i, i, i)
			expect = append(expect, fmt.Sprintf("SINK%d %x len 2", i, val(i)))
			refSum += 1
		case "textlistref":
			fmt.Fprintf(&rep, "\tprintf(\"SINK%d %%02x len %%lld\\n\", (unsigned char)c18_sinkc%d, (long long)c18_sinkl%d);\n", i, i, i)
			expect = append(expect, fmt.Sprintf("SINK%d %02x len 2", i, val(i)&0xff))
			refSum += 'Z'
		case "byteref":
			fmt.Fprintf(&rep, "\tprintf(\"SINK%d %%llx\\n\", (unsigned long long)c18_sink%d);\n", i, i)
			expect = append(expect, fmt.Sprintf("SINK%d %x", i, val(i)&0xff))
			refSum += 77
		case "buchref":
			fmt.Fprintf(&rep, "\tprintf(\"SINK%d %%llx\\n\", (unsigned long long)(uint32_t)c18_sink%d);\n", i, i)
			expect = append(expect, fmt.Sprintf("SINK%d %x", i, val(i)&0xffffffff))
			refSum += 'Q'
		}
	}
	rep.WriteString("}\n")
	switch {
	case hasRef:
		expect = append(expect, fmt.Sprintf("RET %x", refSum))
	case s.ret.key == "nichts":
	case s.ret.cT == "text":
		expect = append(expect, "TEXT0 6f6b cap 3")
	case s.ret.cT == "liste":
		expect = append(expect, "LIST0 len 2")
	case s.ret.fp:
		expect = append(expect, fmt.Sprintf("RET %x", uint64(0x4056800000000000)))
	case s.ret.bits == 1:
		expect = append(expect, "RET 1")
	default:
		expect = append(expect, "RET 5a")
	}
	nc.ExtraC = callee + rep.String()
	nc.PostCall = "c18_report();"
	nr := llh.RunNativeOpt(x.env, nc, strings.HasPrefix(f.Obligation, "memory:"))
	txt := fmt.Sprintf("signature %s\ninputs: %s\nexpected observations: %v and TRACK bad=0 live=0\nnative: exit=%d err=%q\nstdout:\n%s\nstderr:\n%s\n--- ddp ---\n%s\n--- driver ---\n%s", s.name(), h.ModelString(m), expect, nr.Exit, nr.Err, nr.Stdout, clipS(nr.Stderr, 2000), dsrc, nr.Driver)
	if nr.Err != "" {
		return txt, false
	}
	bad := nr.Exit != 0
	for _, e := range expect {
		if !strings.Contains(nr.Stdout+"\n", e+"\n") {
			bad = true
		}
	}
	if tr, ok := nr.Field("TRACK"); ok && !strings.Contains(tr, "bad=0 live=0") {
		bad = true
	}
	return txt, bad
}

func clipS(s string, n int) string {
	if len(s) > n {
		return s[:n] + "..."
	}
	return s
}
