// Package goh runs GoSE harnesses (in-package Go functions overlaid into the repository) and
// turns their results into report entries, replaying every counterexample natively.
package goh

import (
	"encoding/json"
	"fmt"
	"os"
	"os/exec"
	"path/filepath"
	"sort"
	"strings"
	"time"

	"verif/engine/build"
	"verif/engine/gose"
	"verif/engine/props/core"
)

var HarnessDir = "/verif/harness/go"

type Harness struct {
	Pkg   string // package directory relative to the repository, e.g. "src/scanner"
	Func  string
	Bound string // human readable bound of this harness
	Opts  gose.Options
	// Key names the failing obligation of a violation (default: Func + "/" + message). A harness
	// whose inputs select a cell of a table puts the cell into the key, so that every cell is a
	// finding of its own.
	Key func(v gose.Violation) string
	// Confirm is consulted after the native replay reproduced the violation; it may veto (e.g.
	// LLVM accepts the module that the harness's own rule rejected). dir is the replay directory.
	Confirm func(v gose.Violation, dir string, out string) (note string, ok bool)
	// ReplayEnv is added to the environment of the native replay.
	ReplayEnv []string
}

type Suite struct {
	R        *core.Report
	Env      *build.Env
	Patterns []string
	Files    map[string]string // virtual path (relative to the repository) -> harness file under HarnessDir
	prog     *gose.Program
	overlay  map[string]string
}

// Load reads the harness files and builds SSA for the repository packages.
func (s *Suite) Load() bool {
	s.overlay = map[string]string{}
	for virt, real := range s.Files {
		b, err := os.ReadFile(filepath.Join(HarnessDir, real))
		if err != nil {
			s.R.EngineFailf("harness file %s: %v", real, err)
			return false
		}
		s.overlay[virt] = string(b)
	}
	p, err := gose.Load(build.Repo, s.overlay, s.Patterns...)
	if err != nil {
		s.R.EngineFailf("loading packages: %v", err)
		return false
	}
	s.prog = p
	s.R.Extra["ssa_load_s"] = p.LoadS
	return true
}

// Run explores one harness and reports.
func (s *Suite) Run(h Harness) *gose.Stats {
	if only := os.Getenv("VERIF_ONLY"); only != "" && !strings.Contains(h.Func, only) {
		return &gose.Stats{}
	}
	opts := h.Opts
	if opts.Timeout == 0 {
		opts.Timeout = 20 * time.Second
		if s.R.Tier == "thorough" {
			opts.Timeout = 60 * time.Second
		}
	}
	if opts.DiffRate == 0 {
		opts.DiffRate = 50
		if s.R.Tier == "thorough" {
			opts.DiffRate = 5
		}
	}
	opts.KeepPaths = 2
	if h.Key != nil && opts.KeyFn == nil {
		opts.KeyFn = h.Key
	}
	st := s.prog.Explore(gose.ModPath+"/"+h.Pkg, h.Func, opts)
	s.R.AddPaths(st.Paths, st.Branches)
	s.R.Oblige(st.Asserts + st.Paths) // explicit assertions + one implicit "no fault, terminates" obligation per path
	s.R.Discharge(st.Proved + st.Paths - st.Aborted)
	s.R.Func(h.Pkg + "." + h.Func)
	s.R.Bounds[h.Func] = h.Bound
	for _, p := range st.SamplePaths {
		s.R.Sample(map[string]any{"harness": h.Func, "path": p})
	}
	if st.Truncated {
		s.R.Inconclusivef("%s: exploration truncated after %d paths (bound not completed)", h.Func, st.Paths)
	}
	seen := map[string]bool{}
	for _, m := range st.Incon {
		if !seen[m] {
			seen[m] = true
			s.R.Inconclusivef("%s: %s", h.Func, m)
		}
	}
	// discharge is reduced by every violation found
	for _, v := range st.Violations {
		s.R.Discharge(-1)
		key := h.Func + "/" + v.Msg
		if h.Key != nil {
			key = h.Key(v)
		}
		if s.R.IsKnown(key) {
			s.R.Violate(key, "", "")
			continue
		}
		txt, confirmed := s.Replay(h, v)
		what := fmt.Sprintf("%s: %s: %s; inputs %s", h.Func, v.Kind, v.Msg, gose.ModelString(v.Model))
		if confirmed {
			s.R.Replayed++
			s.R.Violate(key, what, txt)
		} else {
			s.R.Unconfirmedf("%s (native replay: %s)", what, firstLines(txt, 4))
		}
	}
	s.R.Notef("%s: %d paths, %d decisions, %d assertions (%d proved), max depth %d, %.1fs", h.Func, st.Paths, st.Branches, st.Asserts, st.Proved, st.MaxDepth, st.Wall.Seconds())
	return st
}

func firstLines(s string, n int) string {
	ls := strings.Split(s, "\n")
	var keep []string
	for _, l := range ls {
		if strings.TrimSpace(l) != "" {
			keep = append(keep, strings.TrimSpace(l))
		}
		if len(keep) >= n {
			break
		}
	}
	return strings.Join(keep, " | ")
}

// Replay runs the harness natively (go test -overlay) with the model's inputs.
func (s *Suite) Replay(h Harness, v gose.Violation) (string, bool) {
	dir, err := os.MkdirTemp(s.Env.Dir, "goreplay_")
	if err != nil {
		return err.Error(), false
	}
	rtPath := filepath.Join(dir, "rt.go")
	os.WriteFile(rtPath, []byte(gose.RtSource), 0o644)
	pkgName := ""
	for virt, src := range s.overlay {
		if filepath.Dir(virt) == h.Pkg {
			for _, l := range strings.Split(src, "\n") {
				if strings.HasPrefix(l, "package ") {
					pkgName = strings.TrimSpace(strings.TrimPrefix(l, "package "))
					break
				}
			}
		}
	}
	if pkgName == "" {
		return "cannot determine the package name of the harness", false
	}
	testSrc := fmt.Sprintf("package %s\n\nimport \"testing\"\n\nfunc TestVerifReplay(t *testing.T) { %s() }\n", pkgName, h.Func)
	testPath := filepath.Join(dir, "zz_verif_replay_test.go")
	os.WriteFile(testPath, []byte(testSrc), 0o644)
	repl := map[string]string{
		filepath.Join(build.Repo, "src/zzverif/rt/rt.go"):           rtPath,
		filepath.Join(build.Repo, h.Pkg, "zz_verif_replay_test.go"): testPath,
	}
	i := 0
	for virt, src := range s.overlay {
		i++
		p := filepath.Join(dir, fmt.Sprintf("h%d.go", i))
		os.WriteFile(p, []byte(src), 0o644)
		repl[filepath.Join(build.Repo, virt)] = p
	}
	ovb, _ := json.Marshal(map[string]any{"Replace": repl})
	ovPath := filepath.Join(dir, "overlay.json")
	os.WriteFile(ovPath, ovb, 0o644)
	model := map[string]uint64{}
	var keys []string
	for k, val := range v.Model {
		model[k] = val
		keys = append(keys, k)
	}
	sort.Strings(keys)
	mb, _ := json.Marshal(model)
	modelPath := filepath.Join(dir, "model.json")
	os.WriteFile(modelPath, mb, 0o644)
	cmd := exec.Command("go", "test", "-vet=off", "-count=1", "-run", "^TestVerifReplay$", "-overlay", ovPath, "./"+h.Pkg)
	cmd.Dir = build.Repo
	cmd.Env = append(append(append(os.Environ(), build.GoEnv()...), "VERIF_REPLAY="+modelPath, "VERIF_IR_OUT="+filepath.Join(dir, "module")), h.ReplayEnv...)
	done := make(chan struct{})
	var out []byte
	go func() { out, err = cmd.CombinedOutput(); close(done) }()
	select {
	case <-done:
	case <-time.After(replayLimit(v.Kind)):
		cmd.Process.Kill()
		return "native replay timed out (possible non-termination reproduced)", v.Kind == "budget"
	}
	txt := fmt.Sprintf("harness %s.%s\nviolation: %s: %s\ninputs: %s\nreplay: cd %s && VERIF_REPLAY=<model.json> go test -run TestVerifReplay -overlay <overlay.json> ./%s\nmodel.json: %s\n--- output ---\n%s", h.Pkg, h.Func, v.Kind, v.Msg, gose.ModelString(v.Model), build.Repo, h.Pkg, string(mb), clip(string(out), 6000))
	o := string(out)
	if strings.Contains(o, "VERIF-ASSUME-FAILED") || strings.Contains(o, "[build failed]") || strings.Contains(o, "setup failed") {
		return txt, false
	}
	failed := err != nil && strings.Contains(o, "FAIL")
	if v.Kind == "budget" {
		// the native run finished: only a crash (e.g. stack exhaustion) confirms
		return txt, failed && (strings.Contains(o, "stack overflow") || strings.Contains(o, "out of memory"))
	}
	if v.Kind == "assert" {
		ok := failed && strings.Contains(o, "VERIF-ASSERT: "+v.Msg)
		if ok && h.Confirm != nil {
			note, keep := h.Confirm(v, dir, o)
			return txt + "\n--- confirmation ---\n" + note, keep
		}
		return txt, ok
	}
	// implicit obligation: any panic of the real code reproduces it
	return txt, failed && strings.Contains(o, "panic")
}

// replayLimit: a candidate for non-termination is given 90 s natively (compile included); any
// other replay five minutes.
func replayLimit(kind string) time.Duration {
	if kind == "budget" {
		return 90 * time.Second
	}
	return 5 * time.Minute
}

func clip(s string, n int) string {
	if len(s) > n {
		return s[:n] + "\n...(truncated)"
	}
	return s
}

// RunQuiet explores a harness without reporting violations (used for lemmas).
func (s *Suite) RunQuiet(h Harness) *gose.Stats {
	opts := h.Opts
	if opts.Timeout == 0 {
		opts.Timeout = 20 * time.Second
	}
	return s.prog.Explore(gose.ModPath+"/"+h.Pkg, h.Func, opts)
}
