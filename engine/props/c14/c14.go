// Package c14: type equivalence is lawful; aliases transparent, definitions opaque.
package c14

import (
	"verif/engine/build"
	"verif/engine/props/core"
	"verif/engine/props/goh"
)

func Run(r *core.Report, env *build.Env) {
	r.Level = "model_checking"
	s := &goh.Suite{R: r, Env: env, Patterns: []string{"./src/parser/typechecker", "./src/ddptypes"}, Files: map[string]string{
		"src/parser/typechecker/zz_verif_c14.go": "typechecker/zz_verif_c14.go",
		"src/parser/typechecker/zz_verif_c07.go": "typechecker/zz_verif_c07.go",
	}}
	if !s.Load() {
		return
	}
	r.Assumptions = append(r.Assumptions, "type terms are built lazily: the constructor at each node is chosen by a solver-enumerated selector, primitive kinds stay symbolic")
	r.Outside = append(r.Outside, "generic types (C15)", "the parser's type syntax", "type terms deeper than the stated depth")
	pk := "src/parser/typechecker"
	hs := []goh.Harness{
		{Pkg: pk, Func: "VerifC14Laws", Bound: "triples of type terms of depth <= 1 over {primitive (symbolic kind), Variable, two same-named Kombinationen, list-of, alias-of, definition-of}"},
		{Pkg: pk, Func: "VerifC14Positions", Bound: "ordered pairs of type terms of depth <= 1, initialiser and assignment position"},
		{Pkg: pk, Func: "VerifC14Definitions", Bound: "definitions over bases of depth <= 1 against other types of depth <= 1, implicit and explicit conversion"},
	}
	if r.Tier == "thorough" {
		hs = append(hs, goh.Harness{Pkg: pk, Func: "VerifC14Deep", Bound: "pairs of type terms of depth <= 2"})
	}
	for _, h := range hs {
		s.Run(h)
	}
}
