// Package c02: every program the frontend accepts is compiled completely.
package c02

import (
	"fmt"
	"os"
	"os/exec"
	"path/filepath"
	"sort"
	"strconv"
	"strings"
	"time"

	"verif/engine/build"
	"verif/engine/gose"
	"verif/engine/props/core"
	"verif/engine/props/goh"
)

// cellKey names the failing cell: harness, the selector values in the order they were drawn,
// and the obligation.
func cellKey(fn string) func(v gose.Violation) string {
	return func(v gose.Violation) string {
		type kv struct {
			seq  int
			text string
		}
		var sel []kv
		for k, val := range v.Model {
			name, seq := k, 0
			if i := strings.LastIndex(k, "#"); i >= 0 {
				name = k[:i]
				seq, _ = strconv.Atoi(k[i+1:])
			}
			sel = append(sel, kv{seq, fmt.Sprintf("%s=%d", name, int64(val))})
		}
		sort.Slice(sel, func(i, j int) bool { return sel[i].seq < sel[j].seq })
		var parts []string
		for _, s := range sel {
			parts = append(parts, s.text)
		}
		return fn + "[" + strings.Join(parts, ",") + "]/" + v.Msg
	}
}

// confirm: a module that the harness's own IR rules reject is an alarm only if LLVM's assembler
// rejects the printed module too.
func confirm(v gose.Violation, dir string, out string) (string, bool) {
	if !strings.Contains(v.Msg, "well-formed LLVM IR") {
		return "reproduced natively", true
	}
	files, _ := filepath.Glob(filepath.Join(dir, "module.*.ll"))
	if len(files) == 0 {
		return "no module was written by the native replay", false
	}
	for _, f := range files {
		o, err := exec.Command("/usr/lib/llvm-14/bin/llvm-as", "-o", os.DevNull, f).CombinedOutput()
		if err != nil {
			return "llvm-as rejects the module: " + strings.TrimSpace(string(o)), true
		}
	}
	return "llvm-as accepts every module the generator printed (the harness rule is stricter than LLVM)", false
}

func Run(r *core.Report, env *build.Env) {
	r.Level = "model_checking"
	s := &goh.Suite{R: r, Env: env, Patterns: []string{"./src/compiler"}, Files: map[string]string{
		"src/compiler/llvm/string.go":     "compiler/llvm_stub.go",
		"src/compiler/llvm_bindings.go":   "compiler/bindings_stub.go",
		"src/compiler/interface.go":       "compiler/interface_stub.go",
		"src/compiler/zz_verif_c02.go":    "compiler/zz_verif_c02.go",
		"src/compiler/zz_verif_c02_ir.go": "compiler/zz_verif_c02_ir.go",
	}}
	if !s.Load() {
		return
	}
	r.Assumptions = append(r.Assumptions,
		"the IR generator runs up to the point where the printed module is handed to LLVM; LLVM's verifier is represented by the rules of vC02Verify (operand/result typing of every instruction kind the generator emits, terminators, phi nodes, dominance of uses) and the linker by the rule that every mangled DDP symbol a module declares is defined with external linkage by a module of the program; an alarm on the IR rules is raised only after llvm-as rejected the module printed in the native replay",
		"cgo bindings replaced by pure-Go stubs: llvm.Type sizes of the x86-64 data layout (TargetData.TypeAllocSize); the driver around LLVM (interface.go, llvm_bindings.go) is not executed",
		"operand types, operator phrases and statement forms are selectors: the solver enumerates their feasible values and each value is one concrete run of frontend and generator (a finite case split, not a quantification over values); the token harnesses fork where the real parser inspects a symbolic token kind")
	r.Outside = append(r.Outside, "LLVM's optimiser and code generator, the object file and the system linker themselves", "programs outside the template families and longer than the token bound", "Duden modules (file system)", "extern C functions")
	pk := "src/compiler"
	env0 := []string{"CGO_ENABLED=0"}
	hs := []goh.Harness{
		{Func: "VerifC02Tokens1", Bound: "initialiser of 1 token of symbolic kind after a prelude declaring a variable of every primitive type, Text, list, Variable"},
		{Func: "VerifC02Tokens2", Bound: "initialiser of 2 tokens of symbolic kind"},
		{Func: "VerifC02InitAssign", Bound: "18 x 18 types x 4 forms of initialisation/assignment"},
		{Func: "VerifC02ArgReturn", Bound: "18 x 18 types x 5 forms of argument passing and return, -O 0 and -O 2"},
		{Func: "VerifC02Binary", Bound: "26 binary operator phrases x 18 x 18 operand types"},
		{Func: "VerifC02Unary", Bound: "27 unary/cast/type-test phrases x 18 types x 3 uses"},
		{Func: "VerifC02Compound", Bound: "20 compound/element/field assignments x 18 x 18 types"},
		{Func: "VerifC02Loops", Bound: "17 loop/condition forms (bounds, steps, counts and conditions that are variables or expressions needing several basic blocks) x 18 x 18 types"},
		{Func: "VerifC02Literals", Bound: "8 literal/constant forms (incl. Kombination literals passing fields whose defaults have another numeric type) x 18 x 18 types"},
		{Func: "VerifC02Scopes", Bound: "5 shadowing/nesting forms x 18 types, -O 0 and -O 2"},
		{Func: "VerifC02Functions", Bound: "8 forms with user-defined operators, generic functions (also with list and Referenz parameters), nested returns, forward declarations x 18 x 18 types"},
		{Func: "VerifC02Modules", Bound: "two modules (library with and without a generic function): 17 uses of public declarations of the imported module (incl. a generic Kombination instantiated with types only the importing module knows) x 2 positions, -O 0 and -O 2"},
	}
	// statements of 3 symbolic tokens and initialisers of 4 did not complete within the session's
	// budget and are not registered
	if r.Tier == "thorough" {
		hs = append(hs,
			goh.Harness{Func: "VerifC02Tokens3", Bound: "initialiser of 3 tokens of symbolic kind", Opts: gose.Options{Deadline: 60 * time.Minute}},
			goh.Harness{Func: "VerifC02FunctionsO2", Bound: "the Functions family with the -O 2 annotator", Opts: gose.Options{Deadline: 60 * time.Minute}},
			goh.Harness{Func: "VerifC02Ternary", Bound: "5 ternary phrases x 18^3 operand types", Opts: gose.Options{Deadline: 60 * time.Minute}},
			goh.Harness{Func: "VerifC02TokensCond2", Bound: "Wahrheitswert initialiser of 2 symbolic tokens after a nested block", Opts: gose.Options{Deadline: 60 * time.Minute}},
		)
	}
	for _, h := range hs {
		h.Pkg = pk
		h.Key = cellKey(h.Func)
		h.Confirm = confirm
		h.ReplayEnv = env0
		h.Opts.MaxSteps = 60_000_000 // frontend + generator + printing of a module with several Kombinationen
		if h.Opts.Deadline == 0 {
			h.Opts.Deadline = 20 * time.Minute
		}
		s.Run(h)
	}
}
