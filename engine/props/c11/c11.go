// Package c11: optimisation level does not change program behaviour (bounded translation
// validation between the IR emitted at -O0, -O1 and -O2 on the same symbolic inputs).
package c11

import (
	"fmt"
	"strings"
	"time"

	"verif/engine/build"
	"verif/engine/llread"
	"verif/engine/llse"
	"verif/engine/props/c05"
	"verif/engine/props/c08"
	"verif/engine/props/core"
	"verif/engine/props/llh"
	"verif/engine/smt"
)

type fnSpec struct {
	name   string
	ret    string
	params []string
}

type family struct {
	name  string
	src   string
	fns   []fnSpec
	sinks []string
	mods  map[int]*llread.Module
}

type ctx struct {
	r       *core.Report
	env     *build.Env
	rt      []*llread.Module
	lists   *llread.Module
	timeout time.Duration
}

func Run(r *core.Report, env *build.Env) {
	r.Level = "translation_validation"
	x := &ctx{r: r, env: env, timeout: 30 * time.Second}
	if r.Tier == "thorough" {
		x.timeout = 120 * time.Second
	}
	r.Bounds["levels"] = "-O0 against -O1 and -O2 (pairwise on identical symbolic inputs)"
	r.Bounds["programs"] = "the template families of C05 (ownership wrappers) and C08 (value semantics), all inputs symbolic within those families' bounds"
	r.Outside = append(r.Outside, "link modes (--module-linken, --list-defs-linken): after linking the code is identical, nothing symbolic to decide", "programs using the Duden library", "LLVM IR flags (nsw, inbounds) are executed as wrapping/plain: poison-based miscompilations are not seen",
		"LLVM's code generator and the linker")
	r.Assumptions = append(r.Assumptions, "same assumptions as C05/C08 on inputs and stubs")
	var err error
	if x.rt, err = env.RuntimeIR(); err != nil {
		r.EngineFailf("runtime IR: %v", err)
		return
	}
	if x.lists, err = env.ListDefs(); err != nil {
		r.EngineFailf("list defs: %v", err)
		return
	}
	var fams []*family
	{
		src, specs := c08.Specs()
		f := &family{name: "c08", src: src, mods: map[int]*llread.Module{}}
		for _, s := range specs {
			wk := "zahl"
			if s.Kind == "text" {
				wk = "char7"
			}
			f.fns = append(f.fns, fnSpec{name: s.Name, ret: s.Kind, params: []string{"zascii_" + s.Kind, "zascii_" + s.Kind, wk, "idx12", "bool"}})
		}
		fams = append(fams, f)
	}
	{
		src, specs := c05.Specs()
		f := &family{name: "c05", src: src, mods: map[int]*llread.Module{}, sinks: []string{"c05_sink"}}
		for _, s := range specs {
			f.fns = append(f.fns, fnSpec{name: s.Name, ret: s.Ret, params: s.Params})
		}
		fams = append(fams, f)
	}
	var cells []llh.CellFn
	for _, f := range fams {
		for _, opt := range []int{0, 1, 2} {
			cm, err := env.CompileDDP("c11_"+f.name, f.src, opt)
			if err != nil || cm == nil || cm.Mod == nil {
				r.EngineFailf("family %s at -O%d does not compile: %v", f.name, opt, err)
				return
			}
			f.mods[opt] = cm.Mod
			r.Programs++
		}
		for _, fn := range f.fns {
			f, fn := f, fn
			for _, other := range []int{1, 2} {
				other := other
				if r.Tier != "thorough" && other == 1 {
					continue
				}
				cells = append(cells, func() { x.cell(f, fn, other) })
			}
		}
	}
	llh.RunParallel(llh.Wrap(r, cells), 16)
}

type outcome struct {
	st   *llse.State
	ret  *llse.Object
	kind string
}

func (x *ctx) setup(h *llh.H, f *family, fn fnSpec, args []llse.Val, retKind string, mod *llread.Module) (*llse.Object, []llse.Val) {
	c := h.C
	for _, s := range f.sinks {
		h.Ex.Sink(s)
	}
	var ret *llse.Object
	var all []llse.Val
	switch retKind {
	case "text":
		ret = h.St.NewObject(c, llse.ObjStack, "ret", llh.TextHdr)
		all = append(all, h.Ptr(ret))
	case "textlist":
		ret = h.St.NewObject(c, llse.ObjStack, "ret", llh.ListHdr)
		all = append(all, h.Ptr(ret))
	}
	all = append(all, args...)
	// module initialisers (globals)
	for name, fd := range mod.Funcs {
		if strings.HasPrefix(name, "ddp_") && strings.HasSuffix(name, "_init") && !fd.Decl {
			h.Ex.Call(h.St, fd, nil)
			res0 := h.Ex.Run(h.St)
			if len(res0) == 1 && res0[0].Term == llse.TermReturn {
				h.St = res0[0]
				h.St.Term = llse.Running
			}
		}
	}
	return ret, all
}

func (x *ctx) cell(f *family, fn fnSpec, other int) {
	mods0 := append([]*llread.Module{f.mods[0], x.lists}, x.rt...)
	modsB := append([]*llread.Module{f.mods[other], x.lists}, x.rt...)
	diff := 10
	if x.r.Tier == "thorough" {
		diff = 1
	}
	h0 := llh.NewH(x.r, fmt.Sprintf("O0~O%d/%s", other, fn.name), x.timeout, diff, mods0...)
	defer h0.Close()
	h0.InstallUTF8Stubs()
	c := h0.C
	var args []llse.Val
	var assumes []*smt.Expr
	for i, p := range fn.params {
		name := fmt.Sprintf("p%d", i)
		switch p {
		case "ascii", "zascii_text":
			v := h0.Var(name, 64)
			assumes = append(assumes, c.And(c.SGE(v, c.BV(64, 1)), c.SLE(v, c.BV(64, 0x7f))))
			args = append(args, llse.Val{E: v})
		case "zascii_zahl", "zahl":
			args = append(args, llse.Val{E: h0.Var(name, 64)})
		case "zahl02":
			v := h0.Var(name, 64)
			assumes = append(assumes, c.And(c.SGE(v, c.BV(64, 0)), c.SLE(v, c.BV(64, 2))))
			args = append(args, llse.Val{E: v})
		case "idx12":
			v := h0.Var(name, 64)
			assumes = append(assumes, c.And(c.SGE(v, c.BV(64, 1)), c.SLE(v, c.BV(64, 2))))
			args = append(args, llse.Val{E: v})
		case "bool":
			args = append(args, llse.Val{E: h0.Var(name, 1)})
		case "char7":
			v := h0.Var(name, 32)
			assumes = append(assumes, c.And(c.UGE(v, c.BV(32, 1)), c.ULE(v, c.BV(32, 0x7f))))
			args = append(args, llse.Val{E: v})
		case "char":
			v := h0.Var(name, 32)
			assumes = append(assumes, c.And(c.UGE(v, c.BV(32, 1)), c.ULE(v, c.BV(32, 0x10ffff)), c.Or(c.ULT(v, c.BV(32, 0xd800)), c.UGT(v, c.BV(32, 0xdfff)))))
			args = append(args, llse.Val{E: v})
		}
	}
	hB := llh.NewHShared(h0, h0.Cell, modsB...)
	hB.InstallUTF8Stubs()
	for _, a := range assumes {
		h0.St.Assume(a)
		hB.St.Assume(a)
	}
	ret0, all0 := x.setup(h0, f, fn, args, fn.ret, f.mods[0])
	retB, allB := x.setup(hB, f, fn, args, fn.ret, f.mods[other])
	res0 := h0.Run(fn.name, all0)
	resB := hB.Run(fn.name, allB)
	if len(res0) == 0 || len(resB) == 0 {
		x.r.EngineFailf("%s: vacuity guard: no path at one level", h0.Cell)
		return
	}
	pairs := 0
	for _, a := range res0 {
		for _, b := range resB {
			pc := append(append([]*smt.Expr{}, a.PC...), b.PC...)
			if r, _, _ := h0.P.Check(pc, nil); r != smt.Sat {
				continue
			}
			pairs++
			h0.On(b)
			if a.Term == llse.TermAbort || b.Term == llse.TermAbort {
				continue // already reported as inconclusive / fault
			}
			if a.Term != b.Term {
				x.r.Oblige(1)
				// some input reaches different terminal classes at the two levels
				h0.Failed = append(h0.Failed, llh.Failure{Obligation: "same terminal class (normal / Laufzeitfehler)", Asserts: pc, Path: b})
				if _, m, _ := h0.P.Check(pc, h0.Vars); m != nil {
					h0.Failed[len(h0.Failed)-1].Model = m
				}
				continue
			}
			if a.Term != llse.TermReturn {
				continue
			}
			same := c.True()
			switch fn.ret {
			case "zahl", "bool":
				if a.Ret.E != nil && b.Ret.E != nil {
					same = c.Eq(a.Ret.E, b.Ret.E)
				}
			case "text":
				same = x.sameText(h0, a, ret0, 0, hB, b, retB, 0)
			case "textlist":
				la, lb := h0.ReadI64(a, ret0, 8).E, hB.ReadI64(b, retB, 8).E
				same = c.Eq(la, lb)
				if n, ok := la.ConstU(); ok {
					pa, pb := h0.ReadPtr(a, ret0, 0), hB.ReadPtr(b, retB, 0)
					for k := uint64(0); k < n && pa.Obj != 0 && pb.Obj != 0; k++ {
						same = c.And(same, x.sameText(h0, a, a.Objs[pa.Obj], int64(k)*16, hB, b, b.Objs[pb.Obj], int64(k)*16))
					}
				}
			}
			// events (sink calls)
			if len(a.Events) != len(b.Events) {
				same = c.False()
			} else {
				for k := range a.Events {
					for j := range a.Events[k].Args {
						ea, eb := a.Events[k].Args[j], b.Events[k].Args[j]
						if ea.Obj == 0 && eb.Obj == 0 && ea.E != nil && eb.E != nil && ea.E.Sort == eb.E.Sort {
							same = c.And(same, c.Eq(ea.E, eb.E))
						}
					}
				}
			}
			h0.Holds("same result at both optimisation levels", pc, same)
		}
	}
	if pairs == 0 {
		x.r.EngineFailf("%s: vacuity guard: no compatible path pair", h0.Cell)
	}
	x.r.Sample(map[string]any{"cell": h0.Cell, "paths_O0": len(res0), fmt.Sprintf("paths_O%d", other): len(resB), "compatible_pairs": pairs})
	for i := range h0.Failed {
		fl := &h0.Failed[i]
		key := fn.name + "/" + fl.Obligation
		what := fmt.Sprintf("%s: %s; inputs %s", h0.Cell, fl.Obligation, h0.ModelString(fl.Model))
		txt, ok := x.replay(h0, fl, f, fn, other)
		if ok {
			x.r.Replayed++
			x.r.Violate(key, what, txt)
		} else {
			x.r.Unconfirmedf("%s (replay: %s)", what, firstLines(txt, 6))
		}
	}
}

func (x *ctx) sameText(ha *llh.H, a *llse.State, oa *llse.Object, offa int64, hb *llh.H, b *llse.State, ob *llse.Object, offb int64) *smt.Expr {
	c := ha.C
	ca, cb := ha.ReadI64(a, oa, offa+8).E, hb.ReadI64(b, ob, offb+8).E
	same := c.Eq(ca, cb)
	n, ok := ca.ConstU()
	if !ok || n == 0 || n > 64 {
		return same
	}
	pa, pb := ha.ReadPtr(a, oa, offa), hb.ReadPtr(b, ob, offb)
	ba, ok1 := ha.ReadBytesAtGuarded(a, pa, 0, int(n), c.True())
	bb, ok2 := hb.ReadBytesAtGuarded(b, pb, 0, int(n), c.True())
	if !ok1 || !ok2 {
		return c.BoolC(ok1 == ok2)
	}
	for k := range ba {
		same = c.And(same, c.Eq(ba[k], bb[k]))
	}
	return same
}

func firstLines(s string, n int) string {
	ls := strings.SplitN(s, "\n", n+1)
	if len(ls) > n {
		ls = ls[:n]
	}
	return strings.Join(ls, " | ")
}

// replay runs the function natively at both levels with the model's inputs and compares the
// observable output (return value / result text / exit status).
func (x *ctx) replay(h *llh.H, f *llh.Failure, fam *family, fn fnSpec, other int) (string, bool) {
	m := h.Refine(f, nil, nil)
	if m == nil {
		return "no model", false
	}
	run := func(opt int) *llh.NativeResult {
		nc := &llh.NativeCall{Fn: fn.name, DDPSrc: fam.src, Opt: opt, RetC: "void", InitFn: "auto"}
		switch fn.ret {
		case "text":
			nc.Args = append(nc.Args, llh.CArg{Kind: "outtext"})
		case "textlist":
			nc.Args = append(nc.Args, llh.CArg{Kind: "outlist", CType: "ddpstringlist", ElemC: "ddpstring"})
		case "zahl":
			nc.RetC = "ddpint"
		case "bool":
			nc.RetC = "ddpbool"
		}
		for i, p := range fn.params {
			v := m.Vals[fmt.Sprintf("p%d", i)]
			ct := "ddpint"
			switch p {
			case "bool":
				ct = "ddpbool"
			case "char", "char7":
				ct = "ddpchar"
			}
			nc.Args = append(nc.Args, llh.CArg{Kind: "int", CType: ct, Bits: v})
		}
		for _, s := range fam.sinks {
			nc.ExtraC += fmt.Sprintf("ddpbool %s(ddpstring *x) { printf(\"SINK %%lld\\n\", (long long)x->cap); return 1; }\n", s)
		}
		return llh.RunNative(x.env, nc)
	}
	a, b := run(0), run(other)
	txt := fmt.Sprintf("inputs: %s\n-O0: exit=%d err=%q\n%s\n%s\n-O%d: exit=%d err=%q\n%s\n%s\n", h.ModelString(m), a.Exit, a.Err, a.Stdout, a.Stderr, other, b.Exit, b.Err, b.Stdout, b.Stderr)
	if a.Err != "" || b.Err != "" {
		return txt, false
	}
	return txt, a.Exit != b.Exit || a.Stdout != b.Stdout
}
