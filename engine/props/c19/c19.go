// Package c19: every literal denotes its written value.
package c19

import (
	"verif/engine/build"
	"verif/engine/gose"
	"verif/engine/props/core"
	"verif/engine/props/goh"
)

func Run(r *core.Report, env *build.Env) {
	r.Level = "model_checking"
	s := &goh.Suite{R: r, Env: env, Patterns: []string{"./src/scanner", "./src/parser"}, Files: map[string]string{"src/parser/zz_verif_c19.go": "parser/zz_verif_c19.go"}}
	if !s.Load() {
		return
	}
	r.Assumptions = append(r.Assumptions, "unicode/utf8 modelled by the UTF-8 specification", "strconv.ParseInt interpreted from its source (trusted standard library)", "fmt.Sprintf opaque")
	r.Outside = append(r.Outside, "Kommazahl literals longer than dd,dd, in particular literals beyond the range of a double (strconv.ParseFloat runs concretely on each solver-chosen digit string)", "constants in generated code and run-time printing",
		"text bodies longer than the bound; truth-value and list literals")
	pk := "src/parser"
	hs := []goh.Harness{
		{Pkg: pk, Func: "VerifC19Text0", Bound: "empty text literal"},
		{Pkg: pk, Func: "VerifC19Text1", Bound: "text literal bodies: all 1-byte strings"},
		{Pkg: pk, Func: "VerifC19Text2", Bound: "text literal bodies: all 2-byte strings"},
		{Pkg: pk, Func: "VerifC19Text3", Bound: "text literal bodies: all 3-byte strings"},
		{Pkg: pk, Func: "VerifC19CharPlain", Bound: "character literal 'c' for every Unicode scalar value c"},
		{Pkg: pk, Func: "VerifC19CharEscape", Bound: "character literal '\\c' for every Unicode scalar value c"},
		{Pkg: pk, Func: "VerifC19IntShort", Bound: "all Zahl literals of 3 digits"},
		{Pkg: pk, Func: "VerifC19IntZero", Bound: "all Zahl literals 0ddd"},
		{Pkg: pk, Func: "VerifC19IntZeros", Bound: "all Zahl literals 00dd"},
		{Pkg: pk, Func: "VerifC19IntMax", Bound: "all Zahl literals 922337203685477dddd (around 2^63)"},
		{Pkg: pk, Func: "VerifC19Float11", Bound: "all Kommazahl literals d,d through the whole frontend"},
		{Pkg: pk, Func: "VerifC19Float12", Bound: "all Kommazahl literals d,dd"},
		{Pkg: pk, Func: "VerifC19Float21", Bound: "all Kommazahl literals dd,d"},
		{Pkg: pk, Func: "VerifC19FloatHugeInside", Bound: "Kommazahl literals d1 d2 followed by 305 zeros (inside the range of a double): accepted, finite"},
		{Pkg: pk, Func: "VerifC19FloatHugeBeyond", Bound: "Kommazahl literals d1 d2 followed by 308 zeros (beyond the largest double): rejected with a diagnostic"},
		{Pkg: pk, Func: "VerifC19IntOver", Bound: "all Zahl literals 1844674407370955dddd (around 2^64)"},
	}
	if r.Tier == "thorough" {
		hs = append(hs,
			goh.Harness{Pkg: pk, Func: "VerifC19Text4", Bound: "text literal bodies: all 4-byte strings"},
			goh.Harness{Pkg: pk, Func: "VerifC19Float22", Bound: "all Kommazahl literals dd,dd"},
			goh.Harness{Pkg: pk, Func: "VerifC19IntMax3", Bound: "all Zahl literals 9223372036854775ddd"},
			goh.Harness{Pkg: pk, Func: "VerifC19IntLong", Bound: "all Zahl literals 12345678901234567dd"},
			goh.Harness{Pkg: pk, Func: "VerifC19IntLongZero", Bound: "all Zahl literals 000000000000000000ddd"},
		)
	}
	sc := gose.ModPath + "/src/scanner."
	for _, h := range hs {
		h.Opts.Summarize = []string{sc + "isAlpha", sc + "isDigit", sc + "isAlphaNumeric", sc + "isSpace", sc + "isUpper"}
		s.Run(h)
	}
}
