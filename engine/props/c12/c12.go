// Package c12: a Text is a sequence of Unicode code points.
package c12

import (
	"fmt"
	"os"
	"strings"
	"sync"
	"time"

	"verif/engine/build"
	"verif/engine/llread"
	"verif/engine/llse"
	"verif/engine/props/core"
	"verif/engine/props/ddp"
	"verif/engine/props/llh"
	"verif/engine/smt"
)

type ctx struct {
	r       *core.Report
	env     *build.Env
	rt      []*llread.Module
	lists   *llread.Module
	tmpl    map[int]*llread.Module
	timeout time.Duration
	maxK    int
	mu      sync.Mutex
	src     string
}

const tmplSrc = `Die Funktion c12_emit mit dem Parameter x vom Typ Buchstabe, gibt nichts zurück,
ist in "c12_sink.c" definiert
Und kann so benutzt werden:
	"c12_emit <x>"

`

func Run(r *core.Report, env *build.Env) {
	r.Level = "model_checking"
	x := &ctx{r: r, env: env, timeout: 30 * time.Second, maxK: 2, tmpl: map[int]*llread.Module{}}
	if r.Tier == "thorough" {
		x.maxK = 3
		x.timeout = 120 * time.Second
	}
	r.Bounds["texts"] = fmt.Sprintf("0..%d code points per text, every combination of 1-4 byte encodings, scalar values fully symbolic (surrogates and NUL excluded)", x.maxK)
	r.Bounds["per_character"] = "all 2^32 values of a Buchstabe for utf8_num_bytes_char; all scalar values per encoding length for the byte-level classifiers"
	r.Assumptions = append(r.Assumptions, "texts satisfy the representation invariant: {NULL,0} or a block of exactly cap bytes holding valid UTF-8 and one terminating NUL (cap = bytes+1)",
		"c32rtomb/mbrtoc32 = UTF-8 specification (the runtime selects a UTF-8 locale)", "a Buchstabe argument is a Unicode scalar value other than NUL", "realloc never fails")
	r.Outside = append(r.Outside, "texts longer than the bound", "invalid UTF-8 inside texts and invalid Buchstabe values", "printing and number<->text conversions (sprintf/strtoll)")
	var err error
	if x.rt, err = env.RuntimeIR(); err != nil {
		r.EngineFailf("runtime IR: %v", err)
		return
	}
	if x.lists, err = env.ListDefs(); err != nil {
		r.EngineFailf("list defs: %v", err)
		return
	}
	x.src = tmplSrc + ddp.Func("c12_foreach", []ddp.Param{{Name: "t", Type: "Text"}}, "nichts", "Für jeden Buchstaben b in t, mache:\n\t\tc12_emit b.")
	levels := []int{0}
	if r.Tier == "thorough" {
		levels = []int{0, 2}
	}
	for _, opt := range levels {
		cm, err := env.CompileDDP("c12", x.src, opt)
		if err != nil || cm.Mod == nil {
			r.EngineFailf("template module: %v %v", err, cm)
			return
		}
		x.tmpl[opt] = cm.Mod
		r.Programs++
	}
	var cells []llh.CellFn
	cells = append(cells, x.cellNumBytesChar, x.cellCharToString)
	for n := 1; n <= 4; n++ {
		n := n
		cells = append(cells, func() { x.cellByteClassifiers(n) })
	}
	for k := 0; k <= x.maxK; k++ {
		for _, sh := range llh.Shapes(k) {
			sh := sh
			cells = append(cells, func() { x.cellLength(sh) })
			cells = append(cells, func() { x.cellSlice(sh) })
			cells = append(cells, func() { x.cellReplace(sh, "") })
			cells = append(cells, func() { x.cellReplace(sh, "equal") })
			cells = append(cells, func() { x.cellReplace(sh, "concat") })
			cells = append(cells, func() { x.cellReplace(sh, "length") })
			cells = append(cells, func() { x.cellCharConcat(sh, true) })
			cells = append(cells, func() { x.cellCharConcat(sh, false) })
			for _, opt := range levels {
				opt := opt
				cells = append(cells, func() { x.cellForEach(sh, opt) })
			}
		}
	}
	// a block that is released and handed out again for another text of the same byte size: the
	// runtime must not remember anything about the text that lived there (pairs of shapes of 2..3
	// code points with equal byte size and different layouts)
	for k := 2; k <= x.maxK && k <= 3; k++ {
		for _, sa := range llh.Shapes(k) {
			for _, sb := range llh.Shapes(k) {
				sa, sb := sa, sb
				ta, tb, same := 0, 0, true
				for i := range sa {
					ta += sa[i]
					tb += sb[i]
					if sa[i] != sb[i] {
						same = false
					}
				}
				if ta != tb || same || ta > 6 {
					continue
				}
				cells = append(cells, func() { x.cellReuse(sa, sb) })
			}
		}
	}
	// binary operations on pairs of texts: both up to min(maxK,2) code points
	kk := x.maxK
	if kk > 2 {
		kk = 2
	}
	for k1 := 0; k1 <= kk; k1++ {
		for k2 := 0; k2 <= kk; k2++ {
			for _, s1 := range llh.Shapes(k1) {
				for _, s2 := range llh.Shapes(k2) {
					s1, s2 := s1, s2
					cells = append(cells, func() { x.cellConcat(s1, s2) })
					cells = append(cells, func() { x.cellEqual(s1, s2) })
				}
			}
		}
	}
	llh.RunParallel(llh.Wrap(r, cells), 16)
}

func wrap(r *core.Report, cells []llh.CellFn) []llh.CellFn {
	out := make([]llh.CellFn, len(cells))
	for i, f := range cells {
		f := f
		out[i] = func() {
			defer func() {
				if p := recover(); p != nil {
					r.EngineFailf("panic in cell: %v", p)
				}
			}()
			f()
		}
	}
	return out
}

func (x *ctx) newH(cell string, extra ...*llread.Module) *llh.H {
	mods := append(append([]*llread.Module{}, extra...), x.rt...)
	mods = append(mods, x.lists)
	h := llh.NewH(x.r, cell, x.timeout, diffRate(x.r), mods...)
	h.InstallUTF8Stubs()
	return h
}

func diffRate(r *core.Report) int {
	if r.Tier == "thorough" {
		return 1
	}
	return 10
}

func (x *ctx) symText(h *llh.H, name string, sh []int) ([]llh.CP, *llh.Text) {
	var cps []llh.CP
	for k, n := range sh {
		cps = append(cps, h.SymCP(fmt.Sprintf("%s_cp%d", name, k), n))
	}
	return cps, h.TextOfCPs(name, cps, nil, 0)
}

func scalarChar(h *llh.H, name string) *smt.Expr {
	c := h.C
	ch := h.Var(name, 32)
	h.St.Assume(c.And(c.UGE(ch, c.BV(32, 1)), c.ULE(ch, c.BV(32, 0x10ffff)), c.Or(c.ULT(ch, c.BV(32, 0xd800)), c.UGT(ch, c.BV(32, 0xdfff)))))
	return ch
}

// finish: failures and executor faults become violations after native replay.
func (x *ctx) finish(h *llh.H, res []*llse.State, replay func(f *llh.Failure) (string, bool)) {
	for _, s := range res {
		for _, f := range s.Faults {
			x.r.Oblige(1)
			h.Failed = append(h.Failed, llh.Failure{Obligation: "memory:" + f.Kind, Model: f.Model, Detail: f.Where, Path: s, Asserts: append(append([]*smt.Expr{}, f.PC...), f.Cond)})
		}
	}
	seen := map[string]bool{}
	for i := range h.Failed {
		f := &h.Failed[i]
		key := h.Cell + "/" + f.Obligation
		if seen[key] {
			continue
		}
		seen[key] = true
		txt, confirmed := "(no native replay for this cell kind)", false
		if replay != nil {
			txt, confirmed = replay(f)
		}
		what := fmt.Sprintf("%s: obligation %q fails; model %s %s", h.Cell, f.Obligation, h.ModelString(f.Model), f.Detail)
		if confirmed {
			x.r.Replayed++
			x.r.Violate(key, what, txt)
		} else {
			x.r.Unconfirmedf("%s (replay: %s)", what, firstLines(txt, 3))
		}
	}
}

func firstLines(s string, n int) string {
	ls := strings.SplitN(s, "\n", n+1)
	if len(ls) > n {
		ls = ls[:n]
	}
	return strings.Join(ls, " | ")
}

// textInvariant: the ddpstring behind hdr holds exactly want bytes, NUL terminated, cap = len+1,
// in a live heap block of exactly cap bytes (or {NULL,0} when want is empty).
func (x *ctx) textInvariant(h *llh.H, s *llse.State, hdr *llse.Object, hdrOff int64, want []*smt.Expr, what string) {
	c := h.C
	capv := h.ReadI64(s, hdr, hdrOff+8).E
	ptr := h.ReadPtr(s, hdr, hdrOff)
	if len(want) == 0 {
		// an empty text is {NULL,0}; a one-byte block holding only NUL is tolerated by every consumer as empty too
		isNull := c.Eq(ptr.E, c.BV(64, 0))
		if !h.Holds(what+": empty text has no bytes", s.PC, c.Or(c.And(isNull, c.Eq(capv, c.BV(64, 0))), c.Eq(capv, c.BV(64, 1)))) {
			return
		}
		return
	}
	if !h.Holds(what+": cap = bytes+1", s.PC, c.Eq(capv, c.BV(64, uint64(len(want)+1)))) {
		return
	}
	if ptr.Obj == 0 {
		h.On(s)
		h.Fail(what + ": text pointer has no block")
		return
	}
	o := s.Objs[ptr.Obj]
	if !o.Live || o.Kind != llse.ObjHeap {
		h.Fail(what + ": text block is not a live heap block")
		return
	}
	h.Holds(what+": block has exactly cap bytes", s.PC, c.And(c.Eq(o.Size, capv), c.Eq(ptr.Off, c.BV(64, 0))))
	bs, ok := h.ReadBytesAtGuarded(s, ptr, 0, len(want)+1, c.True())
	if !ok {
		h.Fail(what + ": text bytes readable")
		return
	}
	eq := c.Eq(bs[len(want)], c.BV(8, 0))
	for i, w := range want {
		eq = c.And(eq, c.Eq(bs[i], w))
	}
	h.Holds(what+": bytes are the code point sequence", s.PC, eq)
}

func cpBytes(c *smt.Ctx, cps []llh.CP) []*smt.Expr {
	var out []*smt.Expr
	for _, cp := range cps {
		out = append(out, llh.EncodeCP(c, cp)...)
	}
	return out
}

// ---- per-character cells

func (x *ctx) cellNumBytesChar() {
	h := x.newH("num_bytes_char")
	defer h.Close()
	c := h.C
	ch := h.Var("ch", 32)
	res := h.Run("utf8_num_bytes_char", []llse.Val{{E: ch}})
	_, want := llh.EncodeAny(c, ch)
	// negative values (as int32) are invalid too
	want = c.Ite(c.SLT(ch, c.BV(32, 0)), c.BVs(64, -1), want)
	for _, s := range res {
		h.On(s)
		if s.Term != llse.TermReturn {
			h.Fail("must-return")
			continue
		}
		h.Holds("encoded length for every 32-bit value", s.PC, c.Eq(s.Ret.E, want))
	}
	if len(res) == 0 {
		x.r.EngineFailf("%s: no path", h.Cell)
	}
	x.r.Sample(map[string]any{"cell": h.Cell, "symbolic": "ch: all 2^32 values", "paths": len(res)})
	x.finish(h, res, nil)
}

func (x *ctx) cellCharToString() {
	h := x.newH("char_to_string")
	defer h.Close()
	c := h.C
	ch := scalarChar(h, "ch")
	ret := h.St.NewObject(c, llse.ObjStack, "ret", llh.TextHdr)
	res := h.Run("ddp_char_to_string", []llse.Val{h.Ptr(ret), {E: ch}})
	bytes, n := llh.EncodeAny(c, ch)
	for _, s := range res {
		h.On(s)
		if s.Term != llse.TermReturn {
			h.Fail("must-return")
			continue
		}
		// the path fixes the encoded length
		for k := 1; k <= 4; k++ {
			if r, _, _ := h.P.Check(append(append([]*smt.Expr{}, s.PC...), c.Eq(n, c.BV(64, uint64(k)))), nil); r == smt.Sat {
				s2 := h.Ex.Fork(s)
				s2.Assume(c.Eq(n, c.BV(64, uint64(k))))
				x.textInvariant(h, s2, ret, 0, bytes[:k], fmt.Sprintf("Buchstabe als Text (%d bytes)", k))
			}
		}
	}
	if len(res) < 4 {
		x.r.EngineFailf("%s: vacuity guard: %d paths, expected one per encoded length", h.Cell, len(res))
	}
	x.finish(h, res, func(f *llh.Failure) (string, bool) { return x.replayOp(h, f, "char_to_string", nil, []*smt.Expr{ch}) })
}

// cellByteClassifiers: utf8_num_bytes / utf8_indicated_num_bytes / utf8_string_to_char on the
// encoding of every scalar value of length n.
func (x *ctx) cellByteClassifiers(n int) {
	for _, fn := range []string{"utf8_num_bytes", "utf8_indicated_num_bytes", "utf8_string_to_char"} {
		h := x.newH(fmt.Sprintf("%s_len%d", fn, n))
		c := h.C
		cp := h.SymCP("cp", n)
		t := h.TextOfCPs("t", []llh.CP{cp}, nil, 0)
		var res []*llse.State
		var out *llse.Object
		switch fn {
		case "utf8_num_bytes":
			res = h.Run(fn, []llse.Val{h.Ptr(t.Str)})
		case "utf8_indicated_num_bytes":
			res = h.Run(fn, []llse.Val{{E: t.Bytes[0]}})
		default:
			out = h.St.NewObject(c, llse.ObjStack, "out", 4)
			res = h.Run(fn, []llse.Val{h.Ptr(t.Str), h.Ptr(out)})
		}
		for _, s := range res {
			h.On(s)
			if s.Term != llse.TermReturn {
				h.Fail("must-return")
				continue
			}
			h.Holds("number of bytes of the first character", s.PC, c.Eq(c.ZExt(c.Trunc(s.Ret.E, 32), 64), c.BV(64, uint64(n))))
			if out != nil {
				bs, ok := h.ReadBytesAtGuarded(s, h.St.PtrTo(c, s.Objs[out.ID], 0), 0, 4, c.True())
				if ok {
					got := c.Concat(bs[3], c.Concat(bs[2], c.Concat(bs[1], bs[0])))
					h.Holds("decoded code point", s.PC, c.Eq(got, cp.V))
				}
			}
		}
		if len(res) == 0 {
			x.r.EngineFailf("%s: no path", h.Cell)
		}
		x.finish(h, res, nil)
		h.Close()
	}
}

// ---- text cells

func (x *ctx) cellLength(sh []int) {
	h := x.newH("length_" + llh.ShapeName(sh))
	defer h.Close()
	c := h.C
	cps, t := x.symText(h, "t", sh)
	res := h.Run("ddp_string_length", []llse.Val{h.Ptr(t.Hdr)})
	for _, s := range res {
		h.On(s)
		if s.Term != llse.TermReturn {
			h.Fail("must-return")
			continue
		}
		h.Holds("length counts code points", s.PC, c.Eq(s.Ret.E, c.BV(64, uint64(len(sh)))))
	}
	if len(res) == 0 {
		x.r.EngineFailf("%s: no path", h.Cell)
	}
	x.finish(h, res, func(f *llh.Failure) (string, bool) { return x.replayOp(h, f, "length", [][]llh.CP{cps}, nil) })
}

func clampE(c *smt.Ctx, v, lo, hi *smt.Expr) *smt.Expr {
	t := c.Ite(c.SLT(v, lo), lo, v)
	return c.Ite(c.SGT(t, hi), hi, t)
}

func (x *ctx) cellSlice(sh []int) {
	h := x.newH("slice_" + llh.ShapeName(sh))
	defer h.Close()
	c := h.C
	cps, t := x.symText(h, "t", sh)
	k := len(sh)
	ret := h.St.NewObject(c, llse.ObjStack, "ret", llh.TextHdr)
	a, b := h.Var("a", 64), h.Var("b", 64)
	res := h.Run("ddp_string_slice", []llse.Val{h.Ptr(ret), h.Ptr(t.Hdr), {E: a}, {E: b}})
	one, ln := c.BV(64, 1), c.BV(64, uint64(k))
	c1, c2 := clampE(c, a, one, ln), clampE(c, b, one, ln)
	for _, s := range res {
		h.On(s)
		if s.Term != llse.TermReturn {
			continue // error class is C06's subject
		}
		if k == 0 {
			x.textInvariant(h, s, ret, 0, nil, "slice of the empty text")
			continue
		}
		// split by the concrete (c1,c2) the path allows
		for i1 := 1; i1 <= k; i1++ {
			for i2 := i1; i2 <= k; i2++ {
				g := c.And(c.Eq(c1, c.BV(64, uint64(i1))), c.Eq(c2, c.BV(64, uint64(i2))))
				if r, _, _ := h.P.Check(append(append([]*smt.Expr{}, s.PC...), g), nil); r != smt.Sat {
					continue
				}
				s2 := h.Ex.Fork(s)
				s2.Assume(g)
				x.textInvariant(h, s2, ret, 0, cpBytes(c, cps[i1-1:i2]), fmt.Sprintf("slice %d..%d", i1, i2))
			}
		}
		// the source text is untouched
		x.textInvariant(h, s, t.Hdr, 0, cpBytes(c, cps), "sliced text unchanged")
	}
	x.finish(h, res, func(f *llh.Failure) (string, bool) {
		return x.replayOp(h, f, "slice", [][]llh.CP{cps}, []*smt.Expr{a, b})
	})
}

// cellReplace: t an der Stelle i := ch; then optionally a second operation on the result.
func (x *ctx) cellReplace(sh []int, then string) {
	if len(sh) == 0 {
		return
	}
	name := "replace_" + llh.ShapeName(sh)
	if then != "" {
		name += "_then_" + then
	}
	h := x.newH(name)
	defer h.Close()
	c := h.C
	cps, t := x.symText(h, "t", sh)
	k := len(sh)
	i := h.Var("i", 64)
	h.St.Assume(c.And(c.SGE(i, c.BV(64, 1)), c.SLE(i, c.BV(64, uint64(k)))))
	ch := scalarChar(h, "ch")
	res := h.Run("ddp_replace_char_in_string", []llse.Val{h.Ptr(t.Hdr), {E: ch}, {E: i}})
	chBytes, chLen := llh.EncodeAny(c, ch)
	var all []*llse.State
	for _, s := range res {
		h.On(s)
		if s.Term != llse.TermReturn {
			h.Fail("in-domain replacement must not stop the program")
			continue
		}
		for pos := 1; pos <= k; pos++ {
			for n := 1; n <= 4; n++ {
				g := c.And(c.Eq(i, c.BV(64, uint64(pos))), c.Eq(chLen, c.BV(64, uint64(n))))
				if r, _, _ := h.P.Check(append(append([]*smt.Expr{}, s.PC...), g), nil); r != smt.Sat {
					continue
				}
				s2 := h.Ex.Fork(s)
				s2.Assume(g)
				want := append(append(append([]*smt.Expr{}, cpBytes(c, cps[:pos-1])...), chBytes[:n]...), cpBytes(c, cps[pos:])...)
				switch then {
				case "":
					x.textInvariant(h, s2, t.Hdr, 0, want, fmt.Sprintf("replace position %d by a %d-byte character", pos, n))
				case "length":
					x.thenLength(h, s2, t, k)
				case "equal":
					x.thenEqual(h, s2, t, want)
				case "concat":
					x.thenConcat(h, s2, t, want)
				}
				all = append(all, s2)
			}
		}
	}
	if len(res) == 0 {
		x.r.EngineFailf("%s: no path", h.Cell)
	}
	x.finish(h, append(res, all...), func(f *llh.Failure) (string, bool) { return x.replayReplace(h, f, sh, cps, i, ch, then) })
}

// thenLength: the length of the modified text is still k.
func (x *ctx) thenLength(h *llh.H, s *llse.State, t *llh.Text, k int) {
	c := h.C
	for _, e := range h.Ex.CallOn(s, h.Ex.FindFunc("ddp_string_length"), []llse.Val{s.PtrTo(c, s.Objs[t.Hdr.ID], 0)}) {
		h.On(e)
		if e.Term != llse.TermReturn {
			h.Fail("length after replace must return")
			continue
		}
		h.Holds("length after in-place replacement", e.PC, c.Eq(e.Ret.E, c.BV(64, uint64(k))))
		x.collectFaults(h, e)
	}
}

func (x *ctx) collectFaults(h *llh.H, e *llse.State) {
	for _, f := range e.Faults {
		x.r.Oblige(1)
		h.Failed = append(h.Failed, llh.Failure{Obligation: "memory:" + f.Kind, Model: f.Model, Detail: f.Where, Path: e, Asserts: append(append([]*smt.Expr{}, f.PC...), f.Cond)})
	}
}

// thenEqual: the modified text equals a freshly built text with the same code points.
func (x *ctx) thenEqual(h *llh.H, s *llse.State, t *llh.Text, want []*smt.Expr) {
	c := h.C
	// build the literal twin in state s
	hdr := s.NewObject(c, llse.ObjStack, "twin", llh.TextHdr)
	str := s.NewObject(c, llse.ObjHeap, "twin_str", int64(len(want)+1))
	h.Ex.WriteBytes(s, str, 0, append(append([]*smt.Expr{}, want...), c.BV(8, 0)))
	h.Ex.WriteVal(s, hdr, 0, s.PtrTo(c, str, 0), 8)
	h.Ex.WriteVal(s, hdr, 8, llse.Val{E: c.BV(64, uint64(len(want)+1))}, 8)
	for _, order := range []bool{true, false} {
		s2 := h.Ex.Fork(s)
		a, b := s2.PtrTo(c, s2.Objs[t.Hdr.ID], 0), s2.PtrTo(c, s2.Objs[hdr.ID], 0)
		if !order {
			a, b = b, a
		}
		for _, e := range h.Ex.CallOn(s2, h.Ex.FindFunc("ddp_string_equal"), []llse.Val{a, b}) {
			h.On(e)
			if e.Term != llse.TermReturn {
				h.Fail("equality after replace must return")
				continue
			}
			h.Holds("a text changed in place equals the literal with the same code points", e.PC, c.Eq(c.Trunc(e.Ret.E, 1), c.BV(1, 1)))
			x.collectFaults(h, e)
		}
	}
}

// thenConcat: modified text verkettet mit "z": bytes are want ++ 'z'.
func (x *ctx) thenConcat(h *llh.H, s *llse.State, t *llh.Text, want []*smt.Expr) {
	c := h.C
	hdr := s.NewObject(c, llse.ObjStack, "tail", llh.TextHdr)
	str := s.NewObject(c, llse.ObjHeap, "tail_str", 2)
	h.Ex.WriteBytes(s, str, 0, []*smt.Expr{c.BV(8, 'z'), c.BV(8, 0)})
	h.Ex.WriteVal(s, hdr, 0, s.PtrTo(c, str, 0), 8)
	h.Ex.WriteVal(s, hdr, 8, llse.Val{E: c.BV(64, 2)}, 8)
	ret := s.NewObject(c, llse.ObjStack, "ret", llh.TextHdr)
	for _, e := range h.Ex.CallOn(s, h.Ex.FindFunc("ddp_string_string_verkettet"), []llse.Val{s.PtrTo(c, ret, 0), s.PtrTo(c, s.Objs[t.Hdr.ID], 0), s.PtrTo(c, hdr, 0)}) {
		h.On(e)
		if e.Term != llse.TermReturn {
			h.Fail("concatenation after replace must return")
			continue
		}
		x.textInvariant(h, e, ret, 0, append(append([]*smt.Expr{}, want...), c.BV(8, 'z')), "concatenation after in-place replacement")
		x.collectFaults(h, e)
	}
}

func (x *ctx) cellConcat(s1, s2 []int) {
	h := x.newH("concat_" + llh.ShapeName(s1) + "_" + llh.ShapeName(s2))
	defer h.Close()
	c := h.C
	cps1, t1 := x.symText(h, "a", s1)
	cps2, t2 := x.symText(h, "b", s2)
	ret := h.St.NewObject(c, llse.ObjStack, "ret", llh.TextHdr)
	res := h.Run("ddp_string_string_verkettet", []llse.Val{h.Ptr(ret), h.Ptr(t1.Hdr), h.Ptr(t2.Hdr)})
	for _, s := range res {
		h.On(s)
		if s.Term != llse.TermReturn {
			h.Fail("must-return")
			continue
		}
		x.textInvariant(h, s, ret, 0, append(cpBytes(c, cps1), cpBytes(c, cps2)...), "concatenation")
		x.textInvariant(h, s, t2.Hdr, 0, cpBytes(c, cps2), "right operand unchanged")
	}
	if len(res) == 0 {
		x.r.EngineFailf("%s: no path", h.Cell)
	}
	x.finish(h, res, func(f *llh.Failure) (string, bool) { return x.replayOp(h, f, "concat", [][]llh.CP{cps1, cps2}, nil) })
}

func (x *ctx) cellCharConcat(sh []int, charFirst bool) {
	name := "text_char_" + llh.ShapeName(sh)
	fn := "ddp_string_char_verkettet"
	if charFirst {
		name = "char_text_" + llh.ShapeName(sh)
		fn = "ddp_char_string_verkettet"
	}
	h := x.newH(name)
	defer h.Close()
	c := h.C
	cps, t := x.symText(h, "t", sh)
	ch := scalarChar(h, "ch")
	ret := h.St.NewObject(c, llse.ObjStack, "ret", llh.TextHdr)
	var args []llse.Val
	if charFirst {
		args = []llse.Val{h.Ptr(ret), {E: ch}, h.Ptr(t.Hdr)}
	} else {
		args = []llse.Val{h.Ptr(ret), h.Ptr(t.Hdr), {E: ch}}
	}
	res := h.Run(fn, args)
	chBytes, chLen := llh.EncodeAny(c, ch)
	for _, s := range res {
		h.On(s)
		if s.Term != llse.TermReturn {
			h.Fail("must-return")
			continue
		}
		for n := 1; n <= 4; n++ {
			g := c.Eq(chLen, c.BV(64, uint64(n)))
			if r, _, _ := h.P.Check(append(append([]*smt.Expr{}, s.PC...), g), nil); r != smt.Sat {
				continue
			}
			s2 := h.Ex.Fork(s)
			s2.Assume(g)
			var want []*smt.Expr
			if charFirst {
				want = append(append([]*smt.Expr{}, chBytes[:n]...), cpBytes(c, cps)...)
			} else {
				want = append(cpBytes(c, cps), chBytes[:n]...)
			}
			x.textInvariant(h, s2, ret, 0, want, fmt.Sprintf("concatenation with a %d-byte character", n))
		}
	}
	if len(res) == 0 {
		x.r.EngineFailf("%s: no path", h.Cell)
	}
	opn := "text_char"
	if charFirst {
		opn = "char_text"
	}
	x.finish(h, res, func(f *llh.Failure) (string, bool) { return x.replayOp(h, f, opn, [][]llh.CP{cps}, []*smt.Expr{ch}) })
}

func (x *ctx) cellEqual(s1, s2 []int) {
	h := x.newH("equal_" + llh.ShapeName(s1) + "_" + llh.ShapeName(s2))
	defer h.Close()
	c := h.C
	cps1, t1 := x.symText(h, "a", s1)
	cps2, t2 := x.symText(h, "b", s2)
	res := h.Run("ddp_string_equal", []llse.Val{h.Ptr(t1.Hdr), h.Ptr(t2.Hdr)})
	want := c.BoolC(len(s1) == len(s2))
	if len(s1) == len(s2) {
		for k := range cps1 {
			want = c.And(want, c.Eq(cps1[k].V, cps2[k].V))
		}
	}
	for _, s := range res {
		h.On(s)
		if s.Term != llse.TermReturn {
			h.Fail("must-return")
			continue
		}
		h.Holds("texts are equal exactly when their code point sequences are", s.PC, c.Eq(c.Trunc(s.Ret.E, 1), c.BoolToBV(want, 1)))
	}
	if len(res) == 0 {
		x.r.EngineFailf("%s: no path", h.Cell)
	}
	x.finish(h, res, func(f *llh.Failure) (string, bool) { return x.replayOp(h, f, "equal", [][]llh.CP{cps1, cps2}, nil) })
}

func (x *ctx) cellForEach(sh []int, opt int) {
	h := x.newH(fmt.Sprintf("O%d/foreach_%s", opt, llh.ShapeName(sh)), x.tmpl[opt])
	defer h.Close()
	h.Ex.Sink("c12_emit")
	c := h.C
	cps, t := x.symText(h, "t", sh)
	res := h.Run("c12_foreach", []llse.Val{h.Ptr(t.Hdr)})
	for _, s := range res {
		h.On(s)
		if s.Term != llse.TermReturn {
			h.Fail("iteration over a valid text must not stop the program")
			continue
		}
		if len(s.Events) != len(cps) {
			h.Fail(fmt.Sprintf("iteration visits %d characters instead of %d", len(s.Events), len(cps)))
			continue
		}
		ok := c.True()
		for k := range cps {
			ok = c.And(ok, c.Eq(s.Events[k].Args[0].E, cps[k].V))
		}
		h.Holds("iteration visits the code points in order", s.PC, ok)
	}
	if len(res) == 0 {
		x.r.EngineFailf("%s: no path", h.Cell)
	}
	x.finish(h, res, nil)
}

// replayReplace: C driver: build the text, replace, then run the follow-up operation natively.
func (x *ctx) replayReplace(h *llh.H, f *llh.Failure, sh []int, cps []llh.CP, i, ch *smt.Expr, then string) (string, bool) {
	m := h.Refine(f, nil, nil)
	if m == nil {
		return "no model", false
	}
	var sb strings.Builder
	var orig []rune
	for _, cp := range cps {
		v, _ := llh.ValOf(m, cp.V)
		orig = append(orig, rune(v))
	}
	iv, _ := llh.ValOf(m, i)
	cv, _ := llh.ValOf(m, ch)
	want := append([]rune{}, orig...)
	if iv >= 1 && int(iv) <= len(want) {
		want[iv-1] = rune(cv)
	}
	src := fmt.Sprintf(`#include <stdio.h>
#include <string.h>
#include <locale.h>
#include "DDP/ddptypes.h"
#include "DDP/ddpmemory.h"
extern void ddp_replace_char_in_string(ddpstring*, ddpchar, ddpint);
extern ddpbool ddp_string_equal(ddpstring*, ddpstring*);
extern ddpint ddp_string_length(ddpstring*);
extern void ddp_string_string_verkettet(ddpstring*, ddpstring*, ddpstring*);
int main(void) {
	setlocale(LC_ALL, "C.UTF-8");
	ddpstring t, w, z, r;
	ddp_string_from_constant(&t, %s);
	ddp_string_from_constant(&w, %s);
	ddp_string_from_constant(&z, "z");
	ddp_replace_char_in_string(&t, (ddpchar)%d, (ddpint)%d);
	printf("CAP %%lld STRLEN %%lld\n", (long long)t.cap, (long long)strlen(t.str));
	printf("EQUAL %%d %%d\n", (int)ddp_string_equal(&t, &w), (int)ddp_string_equal(&w, &t));
	printf("LENGTH %%lld\n", (long long)ddp_string_length(&t));
	ddp_string_string_verkettet(&r, &t, &z);
	printf("CONCAT cap %%lld strlen %%lld\n", (long long)r.cap, (long long)strlen(r.str));
	return 0;
}
`, cString(string(orig)), cString(string(want)), cv, iv)
	nr, err := x.env.RunC("c12_replay", src)
	if err != nil {
		return err.Error(), false
	}
	fmt.Fprintf(&sb, "model: %s\ntext %q, position %d, new character U+%04X, expected %q\nexit=%d\nstdout:\n%s\nstderr:\n%s\n--- driver ---\n%s", h.ModelString(m), string(orig), iv, cv, string(want), nr.Exit, nr.Stdout, clip(nr.Stderr, 3000), src)
	wantBytes := len(string(want))
	bad := false
	if nr.CompileErr != "" {
		return sb.String() + nr.CompileErr, false
	}
	var capv, slen int
	fmt.Sscanf(fieldOf(nr.Stdout, "CAP"), "%d STRLEN %d", &capv, &slen)
	if capv != wantBytes+1 || slen != wantBytes {
		bad = true
	}
	if strings.Contains(nr.Stdout, "EQUAL") && !strings.Contains(nr.Stdout, "EQUAL 1 1") {
		bad = true
	}
	if !strings.Contains(nr.Stdout, fmt.Sprintf("LENGTH %d", len(want))) {
		bad = true
	}
	if !strings.Contains(nr.Stdout, fmt.Sprintf("CONCAT cap %d strlen %d", wantBytes+2, wantBytes+1)) {
		bad = true
	}
	if nr.Exit != 0 {
		bad = true // sanitizer report or crash
	}
	return sb.String(), bad
}

func fieldOf(out, key string) string {
	for _, l := range strings.Split(out, "\n") {
		if strings.HasPrefix(l, key+" ") {
			return l[len(key)+1:]
		}
	}
	return ""
}

func clip(s string, n int) string {
	if len(s) > n {
		return s[:n] + "..."
	}
	return s
}

func cString(s string) string {
	var sb strings.Builder
	sb.WriteString("\"")
	for _, b := range []byte(s) {
		fmt.Fprintf(&sb, "\\x%02x\"\"", b)
	}
	sb.WriteString("\"")
	return sb.String()
}

// replayOp runs one text operation natively (C driver against the freshly built runtime, ASan)
// and compares the result with the code-point view computed here from the model.
func (x *ctx) replayOp(h *llh.H, f *llh.Failure, op string, texts [][]llh.CP, ints []*smt.Expr) (string, bool) {
	m := h.Refine(f, nil, nil)
	if m == nil {
		return "no model", false
	}
	var rs [][]rune
	for _, t := range texts {
		var r []rune
		for _, cp := range t {
			v, _ := llh.ValOf(m, cp.V)
			r = append(r, rune(v))
		}
		rs = append(rs, r)
	}
	var iv []int64
	for _, e := range ints {
		v, _ := llh.ValOf(m, e)
		if e.Sort.W == 32 {
			iv = append(iv, int64(int32(v)))
		} else {
			iv = append(iv, int64(v))
		}
	}
	mk := func(name string, r []rune) string {
		if len(r) == 0 {
			return fmt.Sprintf("\tddpstring %s = {NULL, 0};\n", name)
		}
		return fmt.Sprintf("\tddpstring %s; ddp_string_from_constant(&%s, %s);\n", name, name, cString(string(r)))
	}
	dump := func(name string) string {
		return fmt.Sprintf("\tprintf(\"RES \"); for (ddpint j = 0; j + 1 < %s.cap; j++) printf(\"%%02x\", (unsigned char)%s.str[j]); printf(\" cap %%lld\\n\", (long long)%s.cap);\n", name, name, name)
	}
	var body, want string
	hexOf := func(r []rune) string {
		s := ""
		for _, b := range []byte(string(r)) {
			s += fmt.Sprintf("%02x", b)
		}
		return s
	}
	capOf := func(r []rune) int {
		if len(r) == 0 {
			return 0
		}
		return len(string(r)) + 1
	}
	clampI := func(v, lo, hi int64) int64 {
		if v < lo {
			v = lo
		}
		if v > hi {
			v = hi
		}
		return v
	}
	switch op {
	case "slice":
		body = mk("t", rs[0]) + "\tddpstring r;\n" + fmt.Sprintf("\tddp_string_slice(&r, &t, (ddpint)%dLL, (ddpint)%dLL);\n", iv[0], iv[1]) + dump("r")
		k := int64(len(rs[0]))
		var res []rune
		if k > 0 {
			c1, c2 := clampI(iv[0], 1, k), clampI(iv[1], 1, k)
			if c2 < c1 {
				return "model is in the error domain", false
			}
			res = rs[0][c1-1 : c2]
		}
		want = fmt.Sprintf("RES %s cap %d", hexOf(res), capOf(res))
	case "concat":
		body = mk("a", rs[0]) + mk("b", rs[1]) + "\tddpstring r;\n\tddp_string_string_verkettet(&r, &a, &b);\n" + dump("r")
		res := append(append([]rune{}, rs[0]...), rs[1]...)
		want = fmt.Sprintf("RES %s cap %d", hexOf(res), capOf(res))
	case "text_char":
		body = mk("t", rs[0]) + fmt.Sprintf("\tddpstring r;\n\tddp_string_char_verkettet(&r, &t, (ddpchar)%d);\n", iv[0]) + dump("r")
		res := append(append([]rune{}, rs[0]...), rune(iv[0]))
		want = fmt.Sprintf("RES %s cap %d", hexOf(res), capOf(res))
	case "char_text":
		body = mk("t", rs[0]) + fmt.Sprintf("\tddpstring r;\n\tddp_char_string_verkettet(&r, (ddpchar)%d, &t);\n", iv[0]) + dump("r")
		res := append([]rune{rune(iv[0])}, rs[0]...)
		want = fmt.Sprintf("RES %s cap %d", hexOf(res), capOf(res))
	case "char_to_string":
		body = fmt.Sprintf("\tddpstring r;\n\tddp_char_to_string(&r, (ddpchar)%d);\n", iv[0]) + dump("r")
		res := []rune{rune(iv[0])}
		want = fmt.Sprintf("RES %s cap %d", hexOf(res), capOf(res))
	case "equal":
		body = mk("a", rs[0]) + mk("b", rs[1]) + "\tprintf(\"RES %d\\n\", (int)ddp_string_equal(&a, &b));\n"
		eq := 0
		if string(rs[0]) == string(rs[1]) {
			eq = 1
		}
		want = fmt.Sprintf("RES %d", eq)
	case "length":
		body = mk("t", rs[0]) + "\tprintf(\"RES %lld\\n\", (long long)ddp_string_length(&t));\n"
		want = fmt.Sprintf("RES %d", len(rs[0]))
	default:
		return "no native replay for " + op, false
	}
	src := `#include <stdio.h>
#include <string.h>
#include <locale.h>
#include "DDP/ddptypes.h"
#include "DDP/ddpmemory.h"
extern void ddp_string_slice(ddpstring*, ddpstring*, ddpint, ddpint);
extern void ddp_string_string_verkettet(ddpstring*, ddpstring*, ddpstring*);
extern void ddp_string_char_verkettet(ddpstring*, ddpstring*, ddpchar);
extern void ddp_char_string_verkettet(ddpstring*, ddpchar, ddpstring*);
extern void ddp_char_to_string(ddpstring*, ddpchar);
extern ddpbool ddp_string_equal(ddpstring*, ddpstring*);
extern ddpint ddp_string_length(ddpstring*);
int main(void) {
	setlocale(LC_ALL, "C.UTF-8");
` + body + "\treturn 0;\n}\n"
	nr, err := x.env.RunC("c12_op", src)
	if err != nil {
		return err.Error(), false
	}
	txt := fmt.Sprintf("model: %s\noperation %s on %q with %v\nexpected (code-point view): %s\nnative: exit=%d\nstdout:\n%s\nstderr:\n%s\n%s\n--- driver ---\n%s", h.ModelString(m), op, rs, iv, want, nr.Exit, nr.Stdout, clip(nr.Stderr, 2500), nr.CompileErr, src)
	if nr.CompileErr != "" {
		return txt, false
	}
	return txt, nr.Exit != 0 || !strings.Contains(nr.Stdout, want)
}

// cellReuse: text A is indexed at its last position, then its block is released and handed out
// again (same address, same size - what an allocator may do) for text B; indexing B gives B's
// code points. Guards against state kept between calls (caches keyed by address).
func (x *ctx) cellReuse(shA, shB []int) {
	h := x.newH("reuse_" + llh.ShapeName(shA) + "_then_" + llh.ShapeName(shB))
	defer h.Close()
	c := h.C
	fn := h.Ex.FindFunc("ddp_string_index")
	if fn == nil || fn.Decl {
		x.r.EngineFailf("%s: ddp_string_index not found in the runtime IR", h.Cell)
		return
	}
	cpsA, t := x.symText(h, "a", shA)
	var cpsB []llh.CP
	for k, n := range shB {
		cpsB = append(cpsB, h.SymCP(fmt.Sprintf("b_cp%d", k), n))
	}
	kA, kB := len(shA), len(shB)
	i2 := h.Var("i2", 64)
	h.St.Assume(c.And(c.SGE(i2, c.BV(64, 1)), c.SLE(i2, c.BV(64, uint64(kB)))))
	res := h.Run("ddp_string_index", []llse.Val{h.Ptr(t.Hdr), {E: c.BV(64, uint64(kA))}})
	var all []*llse.State
	for _, s := range res {
		h.On(s)
		if s.Term != llse.TermReturn {
			h.Fail("in-domain indexing must not stop the program")
			continue
		}
		h.Holds("index of the first text", s.PC, c.Eq(s.Ret.E, cpsA[kA-1].V))
		// the block now holds text B
		h.Ex.WriteBytes(s, s.Objs[t.Str.ID], 0, append(cpBytes(c, cpsB), c.BV(8, 0)))
		for _, e := range h.Ex.CallOn(s, fn, []llse.Val{s.PtrTo(c, s.Objs[t.Hdr.ID], 0), {E: i2}}) {
			h.On(e)
			if e.Term != llse.TermReturn {
				h.Fail("in-domain indexing must not stop the program")
				continue
			}
			want := c.BV(32, 0)
			for j := kB - 1; j >= 0; j-- {
				want = c.Ite(c.Eq(i2, c.BV(64, uint64(j+1))), cpsB[j].V, want)
			}
			h.Holds("index after the block was handed out again", e.PC, c.Eq(e.Ret.E, want))
			x.collectFaults(h, e)
			all = append(all, e)
		}
	}
	if len(res) == 0 {
		x.r.EngineFailf("%s: no path", h.Cell)
	}
	x.finish(h, append(res, all...), func(f *llh.Failure) (string, bool) {
		m := h.Refine(f, nil, nil)
		if m == nil {
			return "no model", false
		}
		var a, b []rune
		for _, cp := range cpsA {
			v, _ := llh.ValOf(m, cp.V)
			a = append(a, rune(v))
		}
		for _, cp := range cpsB {
			v, _ := llh.ValOf(m, cp.V)
			b = append(b, rune(v))
		}
		iv, _ := llh.ValOf(m, i2)
		src := fmt.Sprintf(`#include <stdio.h>
#include <string.h>
#include <locale.h>
#include "DDP/ddptypes.h"
#include "DDP/ddpmemory.h"
extern ddpchar ddp_string_index(ddpstring*, ddpint);
int main(void) {
	setlocale(LC_ALL, "C.UTF-8");
	ddpstring t, u;
	ddp_string_from_constant(&t, %s);
	ddpchar first = ddp_string_index(&t, (ddpint)%d);
	/* the block is released and handed out again for a text of the same byte size: what glibc's
	   malloc does for a free/malloc pair of equal size; written in place here because the
	   sanitizer build of the replay quarantines freed blocks */
	ddp_string_from_constant(&u, %s);
	int same = u.cap == t.cap;
	if (same) memcpy(t.str, u.str, (size_t)u.cap);
	printf("SAMEBLOCK %%d\n", same);
	ddpchar got = ddp_string_index(&t, (ddpint)%d);
	printf("FIRST %%d GOT %%d\n", (int)first, (int)got);
	fflush(stdout);
	ddp_free_string(&t);
	ddp_free_string(&u);
	return 0;
}
`, cString(string(a)), kA, cString(string(b)), iv)
		nr, err := x.env.RunC("c12_reuse", src)
		if err != nil {
			return err.Error(), false
		}
		txt := fmt.Sprintf("model: %s\nfirst text %q indexed at %d, block handed out again for %q, indexed at %d (expected U+%04X)\nexit=%d\nstdout:\n%s\nstderr:\n%s\n--- driver ---\n%s", h.ModelString(m), string(a), kA, string(b), iv, b[iv-1], nr.Exit, nr.Stdout, clip(nr.Stderr, 2000), src)
		if os.Getenv("VERIF_DEBUG_REPLAY") != "" {
			fmt.Fprintln(os.Stderr, txt, nr.CompileErr)
		}
		if nr.CompileErr != "" {
			return txt + nr.CompileErr, false
		}
		if !strings.Contains(nr.Stdout, "SAMEBLOCK 1") {
			return txt + "\nthe allocator of the replay did not hand out the same block: not reproduced natively", false
		}
		return txt, !strings.Contains(nr.Stdout, fmt.Sprintf("GOT %d\n", int(b[iv-1])))
	})
}
