// Package c20: duplicate aliases are rejected, declared aliases stay callable.
package c20

import (
	"time"

	"verif/engine/build"
	"verif/engine/gose"
	"verif/engine/props/core"
	"verif/engine/props/goh"
)

func Run(r *core.Report, env *build.Env) {
	r.Level = "model_checking"
	s := &goh.Suite{R: r, Env: env, Patterns: []string{"./src/parser/..."}, Files: map[string]string{
		"src/parser/zz_verif_c20.go":             "parser/zz_verif_c20.go",
		"src/parser/ordered_map/zz_verif_c20.go": "ordered_map/zz_verif_c20.go",
		"src/parser/zz_verif_c09c.go":            "parser/zz_verif_c09c.go",
	}}
	if !s.Load() {
		return
	}
	r.Outside = append(r.Outside, "the parser's call of these structures (addAliases/aliasExists and the declaration sites)", "populations larger than the stated bounds",
		"key tokens beyond the pool: placeholders over 9 parameter types (incl. three same-named Kombinationen, an alias and a definition of Zahl), identifiers with a 1-byte symbolic name, two keywords")
	om, pk := "src/parser/ordered_map", "src/parser"
	hs := []goh.Harness{
		{Pkg: om, Func: "VerifC20Map2", Bound: "all histories of 2 Set operations, keys/values symbolic ints"},
		{Pkg: om, Func: "VerifC20Map3", Bound: "all histories of 3 Set operations"},
		{Pkg: om, Func: "VerifC20Map3Del", Bound: "3 Set operations and a Delete"},
		{Pkg: om, Func: "VerifC20Map4", Bound: "all histories of 4 Set operations"},
		{Pkg: pk, Func: "VerifC20RealMap2", Bound: "2 alias-key tokens from the pool, real predicates"},
		{Pkg: pk, Func: "VerifC20RealMap3", Bound: "3 alias-key tokens from the pool, real predicates"},
		{Pkg: pk, Func: "VerifC20Trie2", Bound: "2 aliases 'word <p>' over the pool"},
		{Pkg: pk, Func: "VerifC20Trie3Short", Bound: "2 aliases 'word <p>' and one alias 'word'"},
		{Pkg: pk, Func: "VerifC20Search2", Bound: "search over 2 aliases with a rejecting key generator"},
	}
	if r.Tier == "thorough" {
		hs = append(hs,
			goh.Harness{Pkg: om, Func: "VerifC20Map4Del", Bound: "4 Set operations and a Delete"},
			goh.Harness{Pkg: om, Func: "VerifC20Map5", Bound: "all histories of 5 Set operations", Opts: gose.Options{Deadline: 30 * time.Minute}},
			goh.Harness{Pkg: pk, Func: "VerifC20Trie3", Bound: "3 aliases 'word <p>' over the pool"},
		)
	}
	hs = append(hs, goh.Harness{Pkg: pk, Func: "VerifC09InstantiationOrder", Bound: "whole frontend: 3 earlier instantiations x 3 later declarations (Kombination constructor, function aliases) x 4 later uses of generic functions; the later use is judged alike with and without the earlier instantiation"})
	for _, h := range hs {
		s.Run(h)
	}
	// the predicate laws are a lemma: failures are evidence, never an alarm
	lemma := core.NewReport("C20-lemma", r.Tier, r.Seed, r.Level)
	ls := &goh.Suite{R: lemma, Env: env, Patterns: s.Patterns, Files: s.Files}
	if ls.Load() {
		st := ls.RunQuiet(goh.Harness{Pkg: pk, Func: "VerifC20Laws", Bound: "all pairs and triples of key tokens from the pool"})
		var failed []string
		for _, v := range st.Violations {
			failed = append(failed, v.Msg+" ["+gose.ModelString(v.Model)+"]")
		}
		r.Extra["lemma_key_predicate_laws"] = map[string]any{"paths": st.Paths, "assertions": st.Asserts, "proved": st.Proved, "failed_laws": failed}
	}
}
