// Package c09: calls resolve to the longest type-matching alias; overloads by exact types.
package c09

import (
	"verif/engine/build"
	"verif/engine/props/core"
	"verif/engine/props/goh"
)

func Run(r *core.Report, env *build.Env) {
	r.Level = "model_checking"
	s := &goh.Suite{R: r, Env: env, Patterns: []string{"./src/parser", "./src/parser/typechecker", "./src/ddptypes", "./src/ast"}, Files: map[string]string{
		"src/parser/zz_verif_c09.go":             "parser/zz_verif_c09.go",
		"src/parser/zz_verif_c09b.go":            "parser/zz_verif_c09b.go",
		"src/parser/zz_verif_c09c.go":            "parser/zz_verif_c09c.go",
		"src/parser/zz_verif_c19.go":             "parser/zz_verif_c19.go",
		"src/parser/typechecker/zz_verif_c09.go": "typechecker/zz_verif_c09.go",
		"src/parser/typechecker/zz_verif_c14.go": "typechecker/zz_verif_c14.go",
		"src/parser/typechecker/zz_verif_c04.go": "typechecker/zz_verif_c04.go",
		"src/parser/typechecker/zz_verif_c07.go": "typechecker/zz_verif_c07.go",
	}}
	if !s.Load() {
		return
	}
	r.Assumptions = append(r.Assumptions,
		"candidate ordering: token counts 1..3 (selector), Referenz and generic flags of two parameters per alias symbolic; sort.Slice is the standard library's insertion sort (populations of at most 12 candidates)",
		"overload lookup: parameter and operand types are type terms of depth <= 1 with symbolic primitive kinds, Referenz flags and assignability symbolic",
		"call sites: the program text is assembled from declarations and argument forms picked by symbolic selectors; inside one such program the parser runs on concrete tokens (a solver-enumerated finite case split, not symbolic data)")
	r.Outside = append(r.Outside, "imported versus local declarations (module handling, C10)", "generic overload instantiation", "more than 12 simultaneous candidates (pdqsort beyond its insertion-sort prefix)", "struct constructor aliases", "run-time argument passing (C08/C18)")
	hs := []goh.Harness{
		{Pkg: "src/parser", Func: "VerifC09SortAliases2", Bound: "2 candidates"},
		{Pkg: "src/parser", Func: "VerifC09SortAliases3", Bound: "3 candidates"},
		{Pkg: "src/parser", Func: "VerifC09OverloadTable2", Bound: "2 overloads registered in any order"},
		{Pkg: "src/parser", Func: "VerifC09OverloadTable3", Bound: "3 overloads registered in any order"},
		{Pkg: "src/parser/typechecker", Func: "VerifC09FindOverload1", Bound: "table of 1 overload x 2 operands"},
		{Pkg: "src/parser/typechecker", Func: "VerifC09FindOverload2", Bound: "table of 2 overloads x 2 operands"},
		{Pkg: "src/parser", Func: "VerifC09InstantiationOrder", Bound: "whole frontend: 3 earlier instantiations x 3 later declarations x 4 later uses of generic functions; calls in the later instantiation's body resolve alike with and without the earlier instantiation"},
		{Pkg: "src/parser", Func: "VerifC09CallSites", Bound: "populations of up to 3 of 11 alias declarations over the vocabulary 'stufe <a> [plus <b>]' (value/Referenz, Zahl/Text/type definition/Zahlen Liste, generic T and T Liste, a generic function whose instantiation fails for all but one argument type, permuted placeholders) x 8 argument forms per position"},
	}
	if r.Tier == "thorough" {
		hs = append(hs,
			goh.Harness{Pkg: "src/parser", Func: "VerifC09CallSitesAll", Bound: "every population of the 11 alias declarations x 8 argument forms per position"},
		)
	}
	for _, h := range hs {
		s.Run(h)
	}
}
