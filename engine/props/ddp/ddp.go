// Package ddp generates DDP source text for template functions.
package ddp

import (
	"fmt"
	"strings"
)

type Param struct{ Name, Type string }

func join(xs []string) string {
	switch len(xs) {
	case 0:
		return ""
	case 1:
		return xs[0]
	}
	return strings.Join(xs[:len(xs)-1], ", ") + " und " + xs[len(xs)-1]
}

// Func renders an externally visible function (no name mangling) with the alias "name <p1> <p2> ...".
// body lines are separated by "\n\t".
func Func(name string, params []Param, ret string, body string) string {
	return FuncOpt(name, params, ret, body, true)
}

func FuncOpt(name string, params []Param, ret string, body string, externVisible bool) string {
	var sb strings.Builder
	sb.WriteString("Die Funktion " + name)
	var names, types, ph []string
	for _, p := range params {
		names = append(names, p.Name)
		types = append(types, p.Type)
		ph = append(ph, "<"+p.Name+">")
	}
	switch len(params) {
	case 0:
	case 1:
		fmt.Fprintf(&sb, " mit dem Parameter %s vom Typ %s,", names[0], types[0])
	default:
		fmt.Fprintf(&sb, " mit den Parametern %s vom Typ %s,", join(names), join(types))
	}
	if ret == "nichts" {
		sb.WriteString(" gibt nichts zurück,")
	} else {
		sb.WriteString(" gibt " + ret + " zurück,")
	}
	if externVisible {
		sb.WriteString(" ist extern sichtbar,")
	}
	sb.WriteString(" macht:\n\t" + body + "\nUnd kann so benutzt werden:\n\t\"" + strings.TrimSpace(name+" "+strings.Join(ph, " ")) + "\"\n\n")
	return sb.String()
}

// Extern renders a function declared as defined in a C file.
func Extern(name string, params []Param, ret string, cfile string) string {
	var sb strings.Builder
	sb.WriteString("Die Funktion " + name)
	var names, types, ph []string
	for _, p := range params {
		names = append(names, p.Name)
		types = append(types, p.Type)
		ph = append(ph, "<"+p.Name+">")
	}
	switch len(params) {
	case 0:
	case 1:
		fmt.Fprintf(&sb, " mit dem Parameter %s vom Typ %s,", names[0], types[0])
	default:
		fmt.Fprintf(&sb, " mit den Parametern %s vom Typ %s,", join(names), join(types))
	}
	if ret == "nichts" {
		sb.WriteString(" gibt nichts zurück,")
	} else {
		sb.WriteString(" gibt " + ret + " zurück,")
	}
	sb.WriteString("\nist in \"" + cfile + "\" definiert\nUnd kann so benutzt werden:\n\t\"" + strings.TrimSpace(name+" "+strings.Join(ph, " ")) + "\"\n\n")
	return sb.String()
}
