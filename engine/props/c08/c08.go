// Package c08: values are copied; only Referenz parameters alias.
package c08

import (
	"fmt"
	"strings"
	"time"

	"verif/engine/build"
	"verif/engine/llread"
	"verif/engine/llse"
	"verif/engine/props/core"
	"verif/engine/props/ddp"
	"verif/engine/props/llh"
	"verif/engine/smt"
)

const decls = `Wir nennen die Kombination aus
	dem Text name mit Standardwert "n",
	der Zahlen Liste werte mit Standardwert eine leere Zahlen Liste,
einen Eintrag, und erstellen sie so:
	"ein Eintrag mit name gleich <name>" oder
	"ein Eintrag mit werte gleich <werte>"

Wir definieren eine Akte als einen Eintrag.

Der Text c08_global ist "gg".
Die Zahlen Liste c08_globalliste ist eine Liste, die aus 7, 8 besteht.

`

// helper functions called by the templates (not extern visible)
type helper struct {
	name   string
	params []ddp.Param
	ret    string
	body   string
}

var helpers = []helper{
	{"c08_mut", []ddp.Param{{Name: "t", Type: "Text"}, {Name: "c", Type: "Buchstabe"}}, "nichts", "Speichere c in t an der Stelle 1."},
	{"c08_mutl", []ddp.Param{{Name: "l", Type: "Zahlen Liste"}, {Name: "v", Type: "Zahl"}}, "nichts", "Speichere v in l an der Stelle 1."},
	{"c08_mutfield", []ddp.Param{{Name: "e", Type: "Eintrag"}, {Name: "v", Type: "Zahl"}}, "nichts", "Speichere v in werte von e an der Stelle 1."},
	{"c08_mutref", []ddp.Param{{Name: "r", Type: "Text Referenz"}, {Name: "c", Type: "Buchstabe"}}, "nichts", "Speichere c in r an der Stelle 1."},
	{"c08_mutlref", []ddp.Param{{Name: "r", Type: "Zahlen Listen Referenz"}, {Name: "v", Type: "Zahl"}}, "nichts", "Speichere v in r an der Stelle 1."},
	{"c08_two", []ddp.Param{{Name: "a", Type: "Zahlen Referenz"}, {Name: "b", Type: "Zahlen Referenz"}, {Name: "v", Type: "Zahl"}}, "eine Zahl", "Speichere 1 in a.\n\tSpeichere v in b.\n\tGib a zurück."},
	{"c08_twol", []ddp.Param{{Name: "a", Type: "Zahlen Listen Referenz"}, {Name: "b", Type: "Zahlen Listen Referenz"}, {Name: "v", Type: "Zahl"}}, "eine Zahl", "Speichere 1 in a an der Stelle 1.\n\tSpeichere v in b an der Stelle 1.\n\tGib a an der Stelle 1 zurück."},
	{"c08_id", []ddp.Param{{Name: "t", Type: "Text"}}, "einen Text", "Gib t zurück."},
	{"c08_valref", []ddp.Param{{Name: "v", Type: "Text"}, {Name: "r", Type: "Text Referenz"}, {Name: "c", Type: "Buchstabe"}}, "einen Text", "Speichere c in r an der Stelle 1.\n\tGib v zurück."},
	{"c08_valrefl", []ddp.Param{{Name: "v", Type: "Zahlen Liste"}, {Name: "r", Type: "Zahlen Listen Referenz"}, {Name: "x", Type: "Zahl"}}, "eine Zahl", "Speichere x in r an der Stelle 1.\n\tGib v an der Stelle 1 zurück."},
	{"c08_valrefelem", []ddp.Param{{Name: "v", Type: "Zahlen Liste"}, {Name: "r", Type: "Zahlen Referenz"}, {Name: "x", Type: "Zahl"}}, "eine Zahl", "Speichere x in r.\n\tGib v an der Stelle 1 zurück."},
	{"c08_valreffield", []ddp.Param{{Name: "v", Type: "Eintrag"}, {Name: "r", Type: "Text Referenz"}, {Name: "c", Type: "Buchstabe"}}, "einen Text", "Speichere c in r an der Stelle 1.\n\tGib name von v zurück."},
	{"c08_valrefelemdef", []ddp.Param{{Name: "v", Type: "Akte"}, {Name: "r", Type: "Zahlen Referenz"}, {Name: "x", Type: "Zahl"}}, "eine Zahl", "Speichere x in r.\n\tGib (werte von (v als Eintrag)) an der Stelle 1 zurück."},
	{"c08_valreffielddef", []ddp.Param{{Name: "v", Type: "Akte"}, {Name: "r", Type: "Text Referenz"}, {Name: "c", Type: "Buchstabe"}}, "einen Text", "Speichere c in r an der Stelle 1.\n\tGib name von (v als Eintrag) zurück."},
	{"c08_touchglobal", []ddp.Param{{Name: "v", Type: "Text"}, {Name: "c", Type: "Buchstabe"}}, "einen Text", "Speichere c in c08_global an der Stelle 1.\n\tGib v zurück."},
	{"c08_touchgloballiste", []ddp.Param{{Name: "v", Type: "Zahlen Liste"}, {Name: "x", Type: "Zahl"}}, "eine Zahl", "Speichere x in c08_globalliste an der Stelle 1.\n\tGib v an der Stelle 1 zurück."},
}

// a template: z0,z1 build the Text a (two ASCII characters) or the Zahlen Liste a (two numbers);
// c / v is the written value, i the written position (1..2), w a Wahrheitswert.
type tmpl struct {
	name string
	kind string // "text": returns a Text; "zahl": returns a Zahl
	body string
	// expected result: index into {orig0, orig1} per position, or "new" where the write is visible
	expect string // "orig": the original value; "written": original with position i (or 1) replaced
	pos1   bool   // the write goes to position 1 (helpers) instead of i
}

const mkA = "Der Text a ist ((z0 als Buchstabe) als Text) verkettet mit ((z1 als Buchstabe) als Text).\n\t"
const mkL = "Die Zahlen Liste a ist eine Liste, die aus z0, z1 besteht.\n\t"

var templates = []tmpl{
	// ---- Text: copy-introducing constructs, then a mutation of one holder; the other is observed
	{"init_mutcopy", "text", mkA + "Der Text b ist a.\n\tSpeichere c in b an der Stelle i.\n\tGib a zurück.", "orig", false},
	{"init_mutorig", "text", mkA + "Der Text b ist a.\n\tSpeichere c in a an der Stelle i.\n\tGib b zurück.", "orig", false},
	{"assign_mutcopy", "text", mkA + "Der Text b ist \"\".\n\tSpeichere a in b.\n\tSpeichere c in b an der Stelle i.\n\tGib a zurück.", "orig", false},
	{"assign_mutorig", "text", mkA + "Der Text b ist \"\".\n\tSpeichere a in b.\n\tSpeichere c in a an der Stelle i.\n\tGib b zurück.", "orig", false},
	{"valuearg", "text", mkA + "c08_mut a c.\n\tGib a zurück.", "orig", true},
	{"listelem_mutorig", "text", mkA + "Die Text Liste l ist eine Liste, die aus a besteht.\n\tSpeichere c in a an der Stelle i.\n\tGib l an der Stelle 1 zurück.", "orig", false},
	{"listelem_store_mutorig", "text", mkA + "Die Text Liste l ist eine Liste, die aus \"q\" besteht.\n\tSpeichere a in l an der Stelle 1.\n\tSpeichere c in a an der Stelle i.\n\tGib l an der Stelle 1 zurück.", "orig", false},
	{"listelem_read_mutcopy", "text", mkA + "Die Text Liste l ist eine Liste, die aus a besteht.\n\tDer Text b ist l an der Stelle 1.\n\tSpeichere c in b an der Stelle i.\n\tGib l an der Stelle 1 zurück.", "orig", false},
	{"field_mutorig", "text", mkA + "Der Eintrag e ist ein Eintrag mit name gleich a.\n\tSpeichere c in a an der Stelle i.\n\tGib name von e zurück.", "orig", false},
	{"field_read_mutcopy", "text", mkA + "Der Eintrag e ist ein Eintrag mit name gleich a.\n\tDer Text b ist name von e.\n\tSpeichere c in b an der Stelle i.\n\tGib name von e zurück.", "orig", false},
	{"structcopy_mutfield", "text", mkA + "Der Eintrag e ist ein Eintrag mit name gleich a.\n\tDer Eintrag f ist e.\n\tSpeichere \"neu\" in name von f.\n\tGib name von e zurück.", "orig", false},
	{"foreach_mutvar", "text", mkA + "Die Text Liste l ist eine Liste, die aus a, a besteht.\n\tFür jeden Text t in l, mache:\n\t\tSpeichere c in t an der Stelle i.\n\tGib l an der Stelle 2 zurück.", "orig", false},
	{"foreach_mutcollection", "text", mkA + "Der Text s ist \"\".\n\tFür jeden Buchstaben b in a, mache:\n\t\tSpeichere c in a an der Stelle 2.\n\t\tSpeichere s verkettet mit b in s.\n\tGib s zurück.", "orig", false},
	{"return_mutcopy", "text", mkA + "Der Text b ist (c08_id a).\n\tSpeichere c in b an der Stelle i.\n\tGib a zurück.", "orig", false},
	{"ifexpr_mutcopy", "text", mkA + "Der Text q ist a, falls w, ansonsten \"xy\".\n\tSpeichere c in q an der Stelle i.\n\tGib a zurück.", "orig", false},
	{"ifexpr_mutorig", "text", mkA + "Der Text q ist a, falls w, ansonsten \"xy\".\n\tSpeichere c in a an der Stelle i.\n\tGib q, falls w, ansonsten a zurück.", "ifexpr", false},
	{"variable_mutorig", "text", mkA + "Die Variable v ist a.\n\tSpeichere c in a an der Stelle i.\n\tGib v als Text zurück.", "orig", false},
	// ---- Referenz: the callee's write is visible in exactly that variable
	{"reference", "text", mkA + "c08_mutref a c.\n\tGib a zurück.", "written", true},
	{"reference_other_untouched", "text", mkA + "Der Text b ist a.\n\tc08_mutref b c.\n\tGib a zurück.", "orig", true},
	{"same_by_value_and_reference", "text", mkA + "Gib (c08_valref a a c) zurück.", "orig", true},
	{"same_by_value_and_reference_caller", "text", mkA + "Der Text r ist (c08_valref a a c).\n\tGib a zurück.", "written", true},
	{"global_by_value", "text", "Speichere ((z0 als Buchstabe) als Text) verkettet mit ((z1 als Buchstabe) als Text) in c08_global.\n\tGib (c08_touchglobal c08_global c) zurück.", "orig", true},
	// ---- Zahlen Liste
	{"l_init_mutcopy", "zahl", mkL + "Die Zahlen Liste b ist a.\n\tSpeichere v in b an der Stelle i.\n\tGib a an der Stelle i zurück.", "orig", false},
	{"l_assign_mutorig", "zahl", mkL + "Die Zahlen Liste b ist eine leere Zahlen Liste.\n\tSpeichere a in b.\n\tSpeichere v in a an der Stelle i.\n\tGib b an der Stelle i zurück.", "orig", false},
	{"l_valuearg", "zahl", mkL + "c08_mutl a v.\n\tGib a an der Stelle 1 zurück.", "orig", true},
	{"l_field_valuearg", "zahl", mkL + "Der Eintrag e ist ein Eintrag mit werte gleich a.\n\tc08_mutfield e v.\n\tGib (werte von e) an der Stelle 1 zurück.", "orig", true},
	{"l_reference", "zahl", mkL + "c08_mutlref a v.\n\tGib a an der Stelle 1 zurück.", "written", true},
	{"l_same_by_value_and_reference", "zahl", mkL + "Gib (c08_valrefl a a v) zurück.", "orig", true},
	{"l_by_value_and_element_reference", "zahl", mkL + "Gib (c08_valrefelem a (a an der Stelle 1) v) zurück.", "orig", true},
	{"field_by_value_and_field_reference", "text", mkA + "Der Eintrag e ist ein Eintrag mit name gleich a.\n\tGib (c08_valreffield e (name von e) c) zurück.", "orig", true},
	{"l_typedef_by_value_and_element_reference", "zahl", mkL + "Der Eintrag e ist ein Eintrag mit werte gleich a.\n\tDie Akte k ist e als Akte.\n\tGib (c08_valrefelemdef k (werte von (k als Eintrag) an der Stelle 1) v) zurück.", "orig", true},
	{"field_typedef_by_value_and_field_reference", "text", mkA + "Der Eintrag e ist ein Eintrag mit name gleich a.\n\tDie Akte k ist e als Akte.\n\tGib (c08_valreffielddef k (name von (k als Eintrag)) c) zurück.", "orig", true},
	{"l_global_by_value", "zahl", "Speichere z0 in c08_globalliste an der Stelle 1.\n\tGib (c08_touchgloballiste c08_globalliste v) zurück.", "orig", true},
	{"same_variable_as_two_references", "zahl", "Die Zahl x ist z0.\n\tGib (c08_two x x v) zurück.", "written", true},
	{"same_list_as_two_references", "zahl", mkL + "Gib (c08_twol a a v) zurück.", "written", true},
	{"l_foreach_mutcollection", "zahl", mkL + "Die Zahl s ist 0.\n\tFür jede Zahl e in a, mache:\n\t\tSpeichere v in a an der Stelle 2.\n\t\tSpeichere e in s.\n\tGib s zurück.", "last", false},
}

func source() string {
	var sb strings.Builder
	sb.WriteString(decls)
	for _, h := range helpers {
		sb.WriteString(ddp.FuncOpt(h.name, h.params, h.ret, h.body, false))
	}
	for _, t := range templates {
		ps := []ddp.Param{{Name: "z0", Type: "Zahl"}, {Name: "z1", Type: "Zahl"}}
		ret := "eine Zahl"
		if t.kind == "text" {
			ps = append(ps, ddp.Param{Name: "c", Type: "Buchstabe"})
			ret = "einen Text"
		} else {
			ps = append(ps, ddp.Param{Name: "v", Type: "Zahl"})
		}
		ps = append(ps, ddp.Param{Name: "i", Type: "Zahl"}, ddp.Param{Name: "w", Type: "Wahrheitswert"})
		sb.WriteString(ddp.Func("c08_"+t.name, ps, ret, t.body))
	}
	return sb.String()
}

type ctx struct {
	r       *core.Report
	env     *build.Env
	rt      []*llread.Module
	lists   *llread.Module
	tmpl    map[int]*llread.Module
	timeout time.Duration
	src     string
}

func Run(r *core.Report, env *build.Env) {
	r.Level = "model_checking"
	x := &ctx{r: r, env: env, timeout: 30 * time.Second, tmpl: map[int]*llread.Module{}}
	levels := []int{0, 2}
	if r.Tier == "thorough" {
		levels = []int{0, 1, 2}
		x.timeout = 120 * time.Second
	}
	r.Bounds["values"] = "Texts of two symbolic ASCII characters, Zahlen Listen of two symbolic numbers, written character/number symbolic, written position 1..2 symbolic, branch flag symbolic"
	r.Bounds["opt_levels"] = fmt.Sprint(levels)
	r.Assumptions = append(r.Assumptions, "realloc never fails", "c32rtomb/mbrtoc32 = UTF-8 specification")
	r.Outside = append(r.Outside, "programs beyond the template family", "Variable holding nested non-primitives deeper than one level", "longer values")
	var err error
	if x.rt, err = env.RuntimeIR(); err != nil {
		r.EngineFailf("runtime IR: %v", err)
		return
	}
	if x.lists, err = env.ListDefs(); err != nil {
		r.EngineFailf("list defs: %v", err)
		return
	}
	x.src = source()
	for _, opt := range levels {
		cm, err := env.CompileDDP("c08", x.src, opt)
		if err != nil || cm == nil || cm.Mod == nil {
			msg := ""
			if cm != nil {
				msg = cm.Stderr
			}
			r.EngineFailf("template module at -O%d: %v %s", opt, err, msg)
			return
		}
		x.tmpl[opt] = cm.Mod
		r.Programs++
	}
	var cells []llh.CellFn
	for _, opt := range levels {
		for _, t := range templates {
			t, opt := t, opt
			cells = append(cells, func() { x.cell(t, opt) })
		}
	}
	llh.RunParallel(llh.Wrap(r, cells), 16)
}

func (x *ctx) cell(t tmpl, opt int) {
	mods := append([]*llread.Module{x.tmpl[opt], x.lists}, x.rt...)
	diff := 10
	if x.r.Tier == "thorough" {
		diff = 1
	}
	h := llh.NewH(x.r, fmt.Sprintf("O%d/%s", opt, t.name), x.timeout, diff, mods...)
	defer h.Close()
	h.InstallUTF8Stubs()
	c := h.C
	z0, z1 := h.Var("z0", 64), h.Var("z1", 64)
	var args []llse.Val
	var ret *llse.Object
	var wr *smt.Expr
	if t.kind == "text" {
		for _, z := range []*smt.Expr{z0, z1} {
			h.St.Assume(c.And(c.SGE(z, c.BV(64, 1)), c.SLE(z, c.BV(64, 0x7f))))
		}
		ret = h.St.NewObject(c, llse.ObjStack, "ret", llh.TextHdr)
		args = append(args, h.Ptr(ret))
		wr = h.Var("c", 32)
		h.St.Assume(c.And(c.UGE(wr, c.BV(32, 1)), c.ULE(wr, c.BV(32, 0x7f))))
	} else {
		wr = h.Var("v", 64)
	}
	i := h.Var("i", 64)
	h.St.Assume(c.And(c.SGE(i, c.BV(64, 1)), c.SLE(i, c.BV(64, 2))))
	w := h.Var("w", 1)
	args = append(args, llse.Val{E: z0}, llse.Val{E: z1}, llse.Val{E: wr}, llse.Val{E: i}, llse.Val{E: w})
	// module initialisers set up the globals
	for name := range x.tmpl[opt].Funcs {
		if strings.HasPrefix(name, "ddp_") && strings.HasSuffix(name, "_init") && !strings.Contains(name, "runtime") {
			h.Ex.Call(h.St, x.tmpl[opt].Funcs[name], nil)
			res0 := h.Ex.Run(h.St)
			if len(res0) != 1 || res0[0].Term != llse.TermReturn {
				x.r.EngineFailf("%s: module initialiser did not return on a single path", h.Cell)
				return
			}
			h.St = res0[0]
			h.St.Term = llse.Running
		}
	}
	res := h.Run("c08_"+t.name, args)
	pos := i
	if t.pos1 {
		pos = c.BV(64, 1)
	}
	nret := 0
	for _, s := range res {
		h.On(s)
		if s.Term != llse.TermReturn {
			h.Fail("the template must return normally")
			continue
		}
		nret++
		if t.kind == "text" {
			b0, b1 := c.Trunc(z0, 8), c.Trunc(z1, 8)
			wb := c.Trunc(wr, 8)
			var e0, e1 *smt.Expr
			switch t.expect {
			case "orig":
				e0, e1 = b0, b1
			case "written":
				e0 = c.Ite(c.Eq(pos, c.BV(64, 1)), wb, b0)
				e1 = c.Ite(c.Eq(pos, c.BV(64, 2)), wb, b1)
			case "ifexpr":
				// q is a copy of a (w) or "xy": returns q if w (the copy: original) else a (mutated)
				e0 = c.Ite(c.Eq(w, c.BV(1, 1)), b0, c.Ite(c.Eq(pos, c.BV(64, 1)), wb, b0))
				e1 = c.Ite(c.Eq(w, c.BV(1, 1)), b1, c.Ite(c.Eq(pos, c.BV(64, 2)), wb, b1))
			}
			x.textIs(h, s, ret, []*smt.Expr{e0, e1})
		} else {
			var want *smt.Expr
			orig := c.Ite(c.Eq(pos, c.BV(64, 1)), z0, z1)
			switch t.expect {
			case "orig":
				want = orig
			case "written":
				want = wr
			case "last":
				// iterating a copy: the last element visited is the original second element
				want = z1
			}
			h.Holds("the untouched holder keeps its value / the Referenz write is visible", s.PC, c.Eq(s.Ret.E, want))
		}
	}
	if nret == 0 {
		x.r.EngineFailf("%s: vacuity guard: no returning path", h.Cell)
	}
	x.r.Sample(map[string]any{"cell": h.Cell, "template": t.body, "paths": len(res)})
	x.finish(h, res, t, opt, []*smt.Expr{z0, z1, wr, i, w})
}

func (x *ctx) textIs(h *llh.H, s *llse.State, hdr *llse.Object, want []*smt.Expr) {
	c := h.C
	capv := h.ReadI64(s, hdr, 8).E
	if !h.Holds("result length", s.PC, c.Eq(capv, c.BV(64, uint64(len(want)+1)))) {
		return
	}
	ptr := h.ReadPtr(s, hdr, 0)
	bs, ok := h.ReadBytesAtGuarded(s, ptr, 0, len(want), c.True())
	if !ok {
		h.Fail("result text readable (dangling or foreign block)")
		return
	}
	eq := c.True()
	for k := range want {
		eq = c.And(eq, c.Eq(bs[k], want[k]))
	}
	h.Holds("the untouched holder keeps its value / the Referenz write is visible", s.PC, eq)
}

func (x *ctx) finish(h *llh.H, res []*llse.State, t tmpl, opt int, vars []*smt.Expr) {
	for _, s := range res {
		for _, f := range s.Faults {
			x.r.Oblige(1)
			h.Failed = append(h.Failed, llh.Failure{Obligation: "memory:" + f.Kind, Model: f.Model, Detail: f.Where, Path: s, Asserts: append(append([]*smt.Expr{}, f.PC...), f.Cond)})
		}
	}
	seen := map[string]bool{}
	for k := range h.Failed {
		f := &h.Failed[k]
		key := t.name + "/" + f.Obligation
		if seen[key] {
			continue
		}
		seen[key] = true
		txt, confirmed := x.replay(h, f, t, opt, vars)
		what := fmt.Sprintf("%s: obligation %q fails; model %s %s", h.Cell, f.Obligation, h.ModelString(f.Model), f.Detail)
		if confirmed {
			x.r.Replayed++
			x.r.Violate(key, what, txt)
		} else {
			x.r.Unconfirmedf("%s (replay: %s)", what, firstLines(txt, 14))
		}
	}
}

func firstLines(s string, n int) string {
	ls := strings.SplitN(s, "\n", n+1)
	if len(ls) > n {
		ls = ls[:n]
	}
	return strings.Join(ls, " | ")
}

// replay: native run of the template with the model's values; the expected observation is
// computed here from the value semantics.
func (x *ctx) replay(h *llh.H, f *llh.Failure, t tmpl, opt int, vars []*smt.Expr) (string, bool) {
	m := h.Refine(f, nil, nil)
	if m == nil {
		return "no model", false
	}
	get := func(e *smt.Expr) uint64 { v, _ := llh.ValOf(m, e); return v }
	z0, z1, wr, i, w := get(vars[0]), get(vars[1]), get(vars[2]), get(vars[3]), get(vars[4])
	nc := &llh.NativeCall{Fn: "c08_" + t.name, DDPSrc: x.src, Opt: opt}
	if t.kind == "text" {
		nc.RetC = "void"
		nc.Args = append(nc.Args, llh.CArg{Kind: "outtext"})
	} else {
		nc.RetC = "ddpint"
	}
	wt := "ddpint"
	if t.kind == "text" {
		wt = "ddpchar"
	}
	nc.Args = append(nc.Args, llh.CArg{Kind: "int", CType: "ddpint", Bits: z0}, llh.CArg{Kind: "int", CType: "ddpint", Bits: z1}, llh.CArg{Kind: "int", CType: wt, Bits: wr},
		llh.CArg{Kind: "int", CType: "ddpint", Bits: i}, llh.CArg{Kind: "int", CType: "ddpbool", Bits: w})
	// the driver runs the module initialiser first (globals)
	initName := ""
	for name := range x.tmpl[opt].Funcs {
		if strings.HasPrefix(name, "ddp_") && strings.HasSuffix(name, "_init") {
			initName = name
		}
	}
	nc.InitFn = initName
	nr := llh.RunNativeOpt(x.env, nc, strings.HasPrefix(f.Obligation, "memory:"))
	pos := i
	if t.pos1 {
		pos = 1
	}
	var want string
	if t.kind == "text" {
		b := []byte{byte(z0), byte(z1)}
		switch t.expect {
		case "written":
			b[pos-1] = byte(wr)
		case "ifexpr":
			if w == 0 {
				b[pos-1] = byte(wr)
			}
		}
		want = fmt.Sprintf("TEXT0 %02x%02x cap 3", b[0], b[1])
	} else {
		v := z0
		if pos == 2 {
			v = z1
		}
		switch t.expect {
		case "written":
			v = wr
		case "last":
			v = z1
		}
		want = fmt.Sprintf("RET %x", v)
	}
	txt := fmt.Sprintf("model: %s\ntemplate:\n\t%s\nexpected by value semantics: %s\nnative: exit=%d err=%q\nstdout:\n%s\nstderr:\n%s\n--- driver.c ---\n%s", h.ModelString(m), t.body, want, nr.Exit, nr.Err, nr.Stdout, clipS(nr.Stderr, 2500), nr.Driver)
	if nr.Err != "" {
		return txt, false
	}
	if strings.HasPrefix(f.Obligation, "memory:") {
		return txt, nr.Exit == 99 || nr.Exit >= 128 || nr.Exit < 0 || !strings.Contains(nr.Stdout, want)
	}
	return txt, nr.Exit != 0 || !strings.Contains(nr.Stdout, want)
}

func clipS(s string, n int) string {
	if len(s) > n {
		return s[:n] + "..."
	}
	return s
}

// Spec describes a template for differential runs (C11).
type Spec struct {
	Name string
	Kind string // "text" | "zahl"
}

// Specs returns the source and the template functions (all take z0, z1, c|v, i, w).
func Specs() (string, []Spec) {
	var out []Spec
	for _, t := range templates {
		out = append(out, Spec{Name: "c08_" + t.name, Kind: t.kind})
	}
	return source(), out
}
