// Package c06: out-of-domain operations stop with a Laufzeitfehler, never silently.
package c06

import (
	"fmt"
	"strings"
	"time"

	"verif/engine/build"
	"verif/engine/llread"
	"verif/engine/llse"
	"verif/engine/props/core"
	"verif/engine/props/ddp"
	"verif/engine/props/llh"
	"verif/engine/smt"
)

type elemT struct {
	Key      string // short name used in function names
	DDPList  string // list type as written in DDP
	DDPElem  string // element type (parameter form)
	DDPRef   string // element reference type
	Size     int
	Bits     int
	FP       bool
	RetArt   string // return type phrase "eine Zahl"
	ListRet  string
	ListRefT string
}

var elems = []elemT{
	{Key: "zahl", DDPList: "Zahlen Liste", DDPElem: "Zahl", DDPRef: "Zahlen Referenz", Size: 8, Bits: 64, RetArt: "eine Zahl", ListRet: "eine Zahlen Liste", ListRefT: "Zahlen Listen Referenz"},
	{Key: "komma", DDPList: "Kommazahlen Liste", DDPElem: "Kommazahl", DDPRef: "Kommazahlen Referenz", Size: 8, Bits: 64, FP: true, RetArt: "eine Kommazahl", ListRet: "eine Kommazahlen Liste", ListRefT: "Kommazahlen Listen Referenz"},
	{Key: "byte", DDPList: "Byte Liste", DDPElem: "Byte", DDPRef: "Byte Referenz", Size: 1, Bits: 8, RetArt: "einen Byte", ListRet: "eine Byte Liste", ListRefT: "Byte Listen Referenz"},
	{Key: "bool", DDPList: "Wahrheitswert Liste", DDPElem: "Wahrheitswert", DDPRef: "Wahrheitswert Referenz", Size: 1, Bits: 1, RetArt: "einen Wahrheitswert", ListRet: "eine Wahrheitswert Liste", ListRefT: "Wahrheitswert Listen Referenz"},
	{Key: "buch", DDPList: "Buchstaben Liste", DDPElem: "Buchstabe", DDPRef: "Buchstaben Referenz", Size: 4, Bits: 32, RetArt: "einen Buchstaben", ListRet: "eine Buchstaben Liste", ListRefT: "Buchstaben Listen Referenz"},
}

const typedefDecl = "Wir definieren einen Meter als eine Zahl.\n\n"

const mkHeld = "Die Variable v ist x.\n\tWenn w, speichere (x als Meter) in v.\n\t"

func source() string {
	var sb strings.Builder
	sb.WriteString(typedefDecl)
	// a Variable that holds a Meter (w) or a Zahl (not w), converted to the definition / to its base
	sb.WriteString(ddp.Func("c06_cast_def", []ddp.Param{{"x", "Zahl"}, {"w", "Wahrheitswert"}}, "eine Zahl", mkHeld+"Gib (v als Meter) als Zahl zurück."))
	sb.WriteString(ddp.Func("c06_cast_base", []ddp.Param{{"x", "Zahl"}, {"w", "Wahrheitswert"}}, "eine Zahl", mkHeld+"Gib v als Zahl zurück."))
	for _, e := range elems {
		sb.WriteString(ddp.Func("c06_idx_"+e.Key, []ddp.Param{{"l", e.DDPList}, {"i", "Zahl"}}, e.RetArt, "Gib l an der Stelle i zurück."))
		sb.WriteString(ddp.Func("c06_asg_"+e.Key, []ddp.Param{{"l", e.ListRefT}, {"i", "Zahl"}, {"v", e.DDPElem}}, "nichts", "Speichere v in l an der Stelle i."))
		sb.WriteString(ddp.Func("c06_sink_"+e.Key, []ddp.Param{{"a", e.DDPRef}, {"v", e.DDPElem}}, "nichts", "Speichere v in a."))
		sb.WriteString(ddp.Func("c06_ref_"+e.Key, []ddp.Param{{"l", e.ListRefT}, {"i", "Zahl"}, {"v", e.DDPElem}}, "nichts", "c06_sink_"+e.Key+" (l an der Stelle i) v."))
		sb.WriteString(ddp.Func("c06_slice_"+e.Key, []ddp.Param{{"l", e.DDPList}, {"a", "Zahl"}, {"b", "Zahl"}}, e.ListRet, "Gib l im Bereich von a bis b zurück."))
		sb.WriteString(ddp.Func("c06_ab_"+e.Key, []ddp.Param{{"l", e.DDPList}, {"a", "Zahl"}}, e.ListRet, "Gib l ab dem a. Element zurück."))
		sb.WriteString(ddp.Func("c06_bis_"+e.Key, []ddp.Param{{"l", e.DDPList}, {"a", "Zahl"}}, e.ListRet, "Gib l bis zum a. Element zurück."))
	}
	// the index expression itself shortens the list: the bounds check has to use the length the
	// list has when the element is accessed
	sb.WriteString(ddp.Func("c06_shrink", []ddp.Param{{"l", "Zahlen Listen Referenz"}, {"i", "Zahl"}}, "eine Zahl", "Speichere l bis zum 1. Element in l.\n\tGib i zurück."))
	sb.WriteString(ddp.Func("c06_stale_asg", []ddp.Param{{"l", "Zahlen Listen Referenz"}, {"i", "Zahl"}, {"v", "Zahl"}}, "nichts", "Speichere v in l an der Stelle (c06_shrink l i)."))
	sb.WriteString(ddp.Func("c06_stale_ref", []ddp.Param{{"l", "Zahlen Listen Referenz"}, {"i", "Zahl"}, {"v", "Zahl"}}, "nichts", "c06_sink_zahl (l an der Stelle (c06_shrink l i)) v."))
	sb.WriteString(ddp.Func("c06_stale_idx", []ddp.Param{{"l", "Zahlen Listen Referenz"}, {"i", "Zahl"}}, "eine Zahl", "Gib l an der Stelle (c06_shrink l i) zurück."))
	sb.WriteString(textSource())
	sb.WriteString(ddp.Func("c06_todo", []ddp.Param{{"v", "Zahl"}}, "eine Zahl", "Wenn v gleich 3 ist, dann:\n\t\t...\n\tGib v zurück."))
	for _, t := range castTargets {
		sb.WriteString(ddp.Func("c06_cast_"+t.Key, []ddp.Param{{"v", "Variable"}}, t.RetArt, "Gib v als "+t.DDP+" zurück."))
	}
	return sb.String()
}

type castT struct {
	Key, DDP, RetArt, VT string
	Bits                 int
	FP                   bool
}

var castTargets = []castT{
	{"zahl", "Zahl", "eine Zahl", "ddpint_vtable", 64, false},
	{"komma", "Kommazahl", "eine Kommazahl", "ddpfloat_vtable", 64, true},
	// Variable -> Byte is accepted by the frontend but kddp emits IR that LLVM rejects
	// ("ret i64" in an i8 function): a C02 matter, not judged here; the cell cannot be compiled.
	{"bool", "Wahrheitswert", "einen Wahrheitswert", "ddpbool_vtable", 1, false},
	{"buch", "Buchstabe", "einen Buchstaben", "ddpchar_vtable", 32, false},
}

type ctx struct {
	r       *core.Report
	env     *build.Env
	mod     *llread.Module
	lists   *llread.Module
	rt      []*llread.Module
	timeout time.Duration
	src     string
	opt     int
}

func (x *ctx) mods() []*llread.Module {
	return append([]*llread.Module{x.mod, x.lists}, x.rt...)
}

func (x *ctx) newH(cell string) *llh.H {
	h := llh.NewH(x.r, fmt.Sprintf("O%d/%s", x.opt, cell), x.timeout, diffRate(x.r), x.mods()...)
	return h
}

func diffRate(r *core.Report) int {
	if r.Tier == "thorough" {
		return 1
	}
	return 10
}

// Run executes the check.
func Run(r *core.Report, env *build.Env) {
	r.Level = "model_checking"
	maxCap := uint64(1) << 31
	r.Bounds["list_len_cap"] = "0 <= len <= cap <= 2^31, cap >= 1 (symbolic) for index forms; len 0..3 (4 thorough) case split for slices"
	r.Bounds["index"] = "unconstrained 64-bit"
	r.Bounds["opt_levels"] = "0 (quick); 0,1,2 (thorough)"
	r.Outside = append(r.Outside, "message text and source position of the Laufzeitfehler", "stderr rendering and process exit (ddp_runtime_error is a terminal stub that records exit code and format)",
		"lists longer than the stated bounds for slices", "nested lists deeper than Text Liste")
	r.Assumptions = append(r.Assumptions, "documented slice clamping = indices clamped into 1..len, then crossed bounds are an error; an empty list/text yields an empty result (both independent implementations agree on it)",
		"realloc never fails", "the C runtime is read through clang-14 -O1 (the shipped library is built by gcc)")
	src := source()
	levels := []int{0}
	if r.Tier == "thorough" {
		levels = []int{0, 1, 2}
	}
	lists, err := env.ListDefs()
	if err != nil {
		r.EngineFailf("list defs: %v", err)
		return
	}
	rt, err := env.RuntimeIR()
	if err != nil {
		r.EngineFailf("runtime IR: %v", err)
		return
	}
	for _, opt := range levels {
		cm, err := env.CompileDDP("c06", src, opt)
		if err != nil {
			r.EngineFailf("compile: %v", err)
			return
		}
		if cm.Mod == nil {
			r.EngineFailf("template module rejected by kddp at -O%d: %s", opt, cm.Stderr)
			return
		}
		r.Programs++
		x := &ctx{r: r, env: env, mod: cm.Mod, lists: lists, rt: rt, timeout: 30 * time.Second, src: src, opt: opt}
		if r.Tier == "thorough" {
			x.timeout = 120 * time.Second
		}
		var cells []llh.CellFn
		for _, e := range elems {
			e := e
			cells = append(cells, func() { x.cellIndex(e, maxCap) })
			cells = append(cells, func() { x.cellAssign(e, maxCap, "asg") })
			cells = append(cells, func() { x.cellAssign(e, maxCap, "ref") })
			maxLen := 3
			if r.Tier == "thorough" {
				maxLen = 4
			}
			for n := 0; n <= maxLen; n++ {
				n := n
				for _, form := range []string{"slice", "ab", "bis"} {
					form := form
					cells = append(cells, func() { x.cellSlice(e, form, n) })
				}
			}
		}
		cells = append(cells, func() { x.cellTodo() })
		for _, form := range []string{"asg", "ref", "idx"} {
			form := form
			cells = append(cells, func() { x.cellStale(form) })
		}
		for _, t := range castTargets {
			t := t
			cells = append(cells, func() { x.cellCast(t) })
		}
		cells = append(cells, func() { x.cellCastDef("def", true) }, func() { x.cellCastDef("base", false) })
		cells = append(cells, x.textCells()...)
		llh.RunParallel(llh.Wrap(r, cells), 16)
	}
}

func wrap(r *core.Report, cells []llh.CellFn) []llh.CellFn {
	out := make([]llh.CellFn, len(cells))
	for i, f := range cells {
		f := f
		out[i] = func() {
			defer func() {
				if p := recover(); p != nil {
					r.EngineFailf("panic in cell: %v", p)
				}
			}()
			f()
		}
	}
	return out
}

// report turns recorded failures and executor faults of a finished cell into violations (after replay).
func (x *ctx) finish(h *llh.H, res []*llse.State, replay func(f *llh.Failure) (string, bool)) {
	for _, s := range res {
		for _, f := range s.Faults {
			x.r.Oblige(1)
			h.Failed = append(h.Failed, llh.Failure{Obligation: "memory:" + f.Kind, Model: f.Model, Detail: f.Where, Path: s, Asserts: append(append([]*smt.Expr{}, f.PC...), f.Cond)})
		}
	}
	for i := range h.Failed {
		f := &h.Failed[i]
		txt, confirmed := "(no native replay for this cell kind)", false
		if replay != nil {
			txt, confirmed = replay(f)
		}
		key := h.Cell + "/" + f.Obligation
		if i := strings.Index(key, "/"); i >= 0 {
			key = key[i+1:] // the optimisation level is not part of the finding identity
		}
		what := fmt.Sprintf("%s: obligation %q fails; model %s %s", h.Cell, f.Obligation, h.ModelString(f.Model), f.Detail)
		if confirmed {
			x.r.Replayed++
			x.r.Violate(key, what, txt)
		} else {
			x.r.Unconfirmedf("%s (replay: %s)", what, firstLine(txt))
		}
	}
}

func firstLine(s string) string {
	if i := strings.Index(s, "\n"); i >= 0 {
		return s[:i]
	}
	return s
}

func elemVar(h *llh.H, e elemT, name string) llse.Val {
	if e.FP {
		return llse.Val{E: h.FVar(name)}
	}
	return llse.Val{E: h.Var(name, e.Bits)}
}

func inDomain(c *smt.Ctx, i, ln *smt.Expr) *smt.Expr {
	return c.And(c.SLE(c.BV(64, 1), i), c.SLE(i, ln))
}

// isErr1: terminal state is a Laufzeitfehler with exit status 1
func isErr1(c *smt.Ctx, s *llse.State) bool {
	if s.Term != llse.TermRuntimeError {
		return false
	}
	k, ok := s.ErrCode.E.ConstU()
	return ok && k == 1
}

func (x *ctx) cellIndex(e elemT, maxCap uint64) {
	h := x.newH("idx_" + e.Key)
	defer h.Close()
	c := h.C
	l := h.SymList("l", e.Size, maxCap)
	arr0 := l.Arr.Arr
	i := h.Var("i", 64)
	res := h.Run("c06_idx_"+e.Key, []llse.Val{h.Ptr(l.Hdr), {E: i}})
	dom := inDomain(c, i, l.Len)
	sawErr, sawOK := false, false
	for _, s := range res {
		h.On(s)
		switch {
		case s.Term == llse.TermRuntimeError:
			sawErr = true
			if !isErr1(c, s) {
				h.Fail("exit-status-1")
			}
			h.Holds("error-only-outside-domain", s.PC, c.Not(dom))
		case s.Term == llse.TermReturn:
			sawOK = true
			h.Holds("return-only-inside-domain", s.PC, dom)
			ref := h.ArrRef(arr0, c.Mul(c.Sub(i, c.BV(64, 1)), c.BV(64, uint64(e.Size))), e.Size)
			var got *smt.Expr
			if e.FP {
				got = c.FPToBits(s.Ret.E)
			} else {
				got = c.ZExt(s.Ret.E, 8*e.Size)
				if e.Bits == 1 {
					// a Wahrheitswert is read as i1: only the low bit is defined
					ref = c.ZExt(c.Extract(ref, 0, 0), 8)
				}
			}
			h.Holds("element-value", s.PC, c.Eq(got, ref))
		}
	}
	if !sawErr || !sawOK {
		x.r.EngineFailf("%s: vacuity guard: error path seen=%v normal path seen=%v", h.Cell, sawErr, sawOK)
	}
	x.r.Sample(map[string]any{"cell": h.Cell, "function": "c06_idx_" + e.Key, "symbolic": "len, cap, i, array contents", "paths": len(res)})
	x.finish(h, res, func(f *llh.Failure) (string, bool) { return x.replayIndex(h, f, e, l, arr0, "idx", []*smt.Expr{i}) })
}

func (x *ctx) cellAssign(e elemT, maxCap uint64, form string) {
	h := x.newH(form + "_" + e.Key)
	defer h.Close()
	c := h.C
	l := h.SymList("l", e.Size, maxCap)
	arr0 := l.Arr.Arr
	i := h.Var("i", 64)
	v := elemVar(h, e, "v")
	res := h.Run("c06_"+form+"_"+e.Key, []llse.Val{h.Ptr(l.Hdr), {E: i}, v})
	dom := inDomain(c, i, l.Len)
	sawErr, sawOK := false, false
	for _, s := range res {
		h.On(s)
		switch {
		case s.Term == llse.TermRuntimeError:
			sawErr = true
			if !isErr1(c, s) {
				h.Fail("exit-status-1")
			}
			h.Holds("error-only-outside-domain", s.PC, c.Not(dom))
		case s.Term == llse.TermReturn:
			sawOK = true
			h.Holds("return-only-inside-domain", s.PC, dom)
			// the array afterwards is the old one with exactly element i-1 replaced
			off := c.Mul(c.Sub(i, c.BV(64, 1)), c.BV(64, uint64(e.Size)))
			var bits *smt.Expr
			if e.FP {
				bits = c.FPToBits(v.E)
			} else {
				bits = c.ZExt(v.E, 8*e.Size)
			}
			want := arr0
			for k := 0; k < e.Size; k++ {
				want = c.Store(want, c.Add(off, c.BV(64, uint64(k))), c.Extract(bits, 8*k+7, 8*k))
			}
			got := s.Objs[l.Arr.ID].Arr
			// compare at an arbitrary position
			j := c.Var("j_probe", smt.BVSort(64))
			h.Holds("array-updated-exactly-at-index", s.PC, c.Eq(c.Select(got, j), c.Select(want, j)))
			h.Holds("header-unchanged", s.PC, c.And(c.Eq(h.ReadI64(s, l.Hdr, 8).E, l.Len), c.Eq(h.ReadI64(s, l.Hdr, 16).E, l.Cap)))
		}
	}
	if !sawErr || !sawOK {
		x.r.EngineFailf("%s: vacuity guard: error path seen=%v normal path seen=%v", h.Cell, sawErr, sawOK)
	}
	x.finish(h, res, func(f *llh.Failure) (string, bool) { return x.replayIndex(h, f, e, l, arr0, form, []*smt.Expr{i, v.E}) })
}

func clampE(c *smt.Ctx, v, lo, hi *smt.Expr) *smt.Expr {
	t := c.Ite(c.SLT(v, lo), lo, v)
	return c.Ite(c.SGT(t, hi), hi, t)
}

func (x *ctx) cellSlice(e elemT, form string, n int) {
	h := x.newH(fmt.Sprintf("%s_%s_len%d", form, e.Key, n))
	defer h.Close()
	c := h.C
	cp := n
	if n > 0 {
		cp = n + 1 // capacity above length: slack must never be read
	}
	l := h.ConcList("l", e.Size, n, cp, false)
	var el []*smt.Expr
	for k := 0; k < n; k++ {
		var v *smt.Expr
		if e.FP {
			v = h.FVar(fmt.Sprintf("e%d", k))
		} else {
			v = h.Var(fmt.Sprintf("e%d", k), 8*e.Size)
			if e.Bits == 1 {
				h.St.Assume(c.ULE(v, c.BV(8, 1)))
			}
		}
		el = append(el, v)
		h.SetElem(l, k, v)
	}
	ret := h.St.NewObject(c, llse.ObjStack, "ret", llh.ListHdr)
	a := h.Var("a", 64)
	var b *smt.Expr
	args := []llse.Val{h.Ptr(ret), h.Ptr(l.Hdr), {E: a}}
	ln := c.BV(64, uint64(n))
	var i1, i2 *smt.Expr
	switch form {
	case "slice":
		b = h.Var("b", 64)
		args = append(args, llse.Val{E: b})
		i1, i2 = a, b
	case "ab":
		i1, i2 = a, ln
	case "bis":
		i1, i2 = c.BV(64, 1), a
	}
	res := h.Run("c06_"+form+"_"+e.Key, args)
	one := c.BV(64, 1)
	c1, c2 := clampE(c, i1, one, ln), clampE(c, i2, one, ln)
	wantErr := c.False()
	if n > 0 {
		wantErr = c.SLT(c2, c1)
	}
	sawOK := false
	for _, s := range res {
		h.On(s)
		switch {
		case s.Term == llse.TermRuntimeError:
			if !isErr1(c, s) {
				h.Fail("exit-status-1")
			}
			h.Holds("error-only-for-crossed-bounds", s.PC, wantErr)
		case s.Term == llse.TermReturn:
			sawOK = true
			h.Holds("return-only-for-ordered-bounds", s.PC, c.Not(wantErr))
			gotLen := h.ReadI64(s, ret, 8).E
			wantLen := c.BV(64, 0)
			if n > 0 {
				wantLen = c.Add(c.Sub(c2, c1), one)
			}
			if !h.Holds("slice-length", s.PC, c.Eq(gotLen, wantLen)) {
				continue
			}
			// elements: result[k] == l[c1-1+k] for k < wantLen
			arrp := h.ReadPtr(s, ret, 0)
			for k := 0; k < n; k++ {
				kk := c.BV(64, uint64(k))
				if r, _, _ := h.P.Check(append(append([]*smt.Expr{}, s.PC...), c.SLT(kk, wantLen)), nil); r != smt.Sat {
					continue
				}
				// this path may allow several lengths; read only under the guard k < len
				s2 := s
				bytes, ok := h.ReadBytesAtGuarded(s2, arrp, k*e.Size, e.Size, c.SLT(kk, wantLen))
				if !ok {
					h.Fail("result-array-readable")
					continue
				}
				var got *smt.Expr
				for _, bt := range bytes {
					if got == nil {
						got = bt
					} else {
						got = c.Concat(bt, got)
					}
				}
				// expected: element at source position c1-1+k
				var want *smt.Expr
				for j := n - 1; j >= 0; j-- {
					ej := el[j]
					if e.FP {
						ej = c.FPToBits(ej)
					}
					if want == nil {
						want = ej
					} else {
						want = c.Ite(c.Eq(c.Add(c.Sub(c1, one), kk), c.BV(64, uint64(j))), ej, want)
					}
				}
				h.Holds(fmt.Sprintf("slice-element-%d", k), append(append([]*smt.Expr{}, s.PC...), c.SLT(kk, wantLen)), c.Eq(got, want))
			}
		}
	}
	if !sawOK {
		x.r.EngineFailf("%s: vacuity guard: no normal path", h.Cell)
	}
	ivars := []*smt.Expr{a}
	if b != nil {
		ivars = append(ivars, b)
	}
	x.finish(h, res, func(f *llh.Failure) (string, bool) { return x.replaySlice(h, f, e, form, n, el, ivars) })
}

func (x *ctx) cellTodo() {
	h := x.newH("todo")
	defer h.Close()
	c := h.C
	v := h.Var("v", 64)
	res := h.Run("c06_todo", []llse.Val{{E: v}})
	is3 := c.Eq(v, c.BV(64, 3))
	sawErr, sawOK := false, false
	for _, s := range res {
		h.On(s)
		switch {
		case s.Term == llse.TermRuntimeError:
			sawErr = true
			if !isErr1(c, s) {
				h.Fail("exit-status-1")
			}
			h.Holds("todo-error-only-when-reached", s.PC, is3)
		case s.Term == llse.TermReturn:
			sawOK = true
			h.Holds("todo-always-stops", s.PC, c.Not(is3))
		}
	}
	if !sawErr || !sawOK {
		x.r.EngineFailf("%s: vacuity guard: error path seen=%v normal path seen=%v", h.Cell, sawErr, sawOK)
	}
	x.finish(h, res, nil)
}

var vtables = []string{"ddpint_vtable", "ddpfloat_vtable", "ddpbyte_vtable", "ddpbool_vtable", "ddpchar_vtable", "ddpstring_vtable", "ddpintlist_vtable"}

func (x *ctx) cellCast(t castT) {
	h := x.newH("cast_" + t.Key)
	defer h.Close()
	c := h.C
	// a Variable holding a small value: vtable pointer chosen symbolically among the built-in vtables
	sel := h.Var("held_type", 8)
	h.St.Assume(c.ULT(sel, c.BV(8, uint64(len(vtables)))))
	anyo := h.St.NewObject(c, llse.ObjStack, "v", llh.AnySize)
	var vt *smt.Expr
	target := -1
	for k := len(vtables) - 1; k >= 0; k-- {
		o := h.Ex.GlobalObject(h.St, vtables[k])
		if o == nil {
			x.r.EngineFailf("%s: vtable %s not found", h.Cell, vtables[k])
			return
		}
		addr := c.BV(64, o.Base)
		if vt == nil {
			vt = addr
		} else {
			vt = c.Ite(c.Eq(sel, c.BV(8, uint64(k))), addr, vt)
		}
		if vtables[k] == t.VT {
			target = k
		}
	}
	payload := h.Var("payload", 64)
	h.Ex.WriteVal(h.St, anyo, 0, llse.Val{E: vt}, 8)
	h.Ex.WriteVal(h.St, anyo, 8, llse.Val{E: payload}, 8)
	h.Ex.WriteVal(h.St, anyo, 16, llse.Val{E: c.BV(64, 0)}, 8)
	// only primitive holders are exercised on the success path (free of a small any is a no-op)
	res := h.Run("c06_cast_"+t.Key, []llse.Val{h.Ptr(anyo)})
	holds := c.Eq(sel, c.BV(8, uint64(target)))
	sawErr, sawOK := false, false
	for _, s := range res {
		h.On(s)
		switch {
		case s.Term == llse.TermRuntimeError:
			sawErr = true
			if !isErr1(c, s) {
				h.Fail("exit-status-1")
			}
			h.Holds("cast-error-only-on-type-mismatch", s.PC, c.Not(holds))
		case s.Term == llse.TermReturn:
			sawOK = true
			h.Holds("cast-succeeds-only-on-held-type", s.PC, holds)
			var got *smt.Expr
			if t.FP {
				got = c.FPToBits(s.Ret.E)
			} else {
				got = s.Ret.E
			}
			h.Holds("cast-value", s.PC, c.Eq(got, c.Extract(payload, got.Sort.W-1, 0)))
		}
	}
	if !sawErr || !sawOK {
		x.r.EngineFailf("%s: vacuity guard: error path seen=%v normal path seen=%v", h.Cell, sawErr, sawOK)
	}
	x.finish(h, res, nil)
}

// cellCastDef: a Variable holding a value of a type definition (w) or of its base type (not w)
// is converted to the definition (toDef) or to the base type: only the held type converts.
func (x *ctx) cellCastDef(key string, toDef bool) {
	h := x.newH("cast_typedef_" + key)
	defer h.Close()
	c := h.C
	v := h.Var("x", 64)
	w := h.Var("w", 1)
	res := h.Run("c06_cast_"+key, []llse.Val{{E: v}, {E: w}})
	holds := c.Eq(w, c.BV(1, 1))
	if !toDef {
		holds = c.Not(holds)
	}
	sawErr, sawOK := false, false
	for _, s := range res {
		h.On(s)
		switch {
		case s.Term == llse.TermRuntimeError:
			sawErr = true
			if !isErr1(c, s) {
				h.Fail("exit-status-1")
			}
			h.Holds("cast-error-only-on-type-mismatch", s.PC, c.Not(holds))
		case s.Term == llse.TermReturn:
			sawOK = true
			h.Holds("cast-succeeds-only-on-held-type", s.PC, holds)
			h.Holds("cast-value", s.PC, c.Eq(s.Ret.E, v))
		}
	}
	if !sawErr && !sawOK {
		x.r.EngineFailf("%s: vacuity guard: no terminal path", h.Cell)
	}
	x.finish(h, res, func(f *llh.Failure) (string, bool) {
		m := h.Refine(f, nil, nil)
		if m == nil {
			return "no model", false
		}
		xv, _ := llh.ValOf(m, v)
		wv, _ := llh.ValOf(m, w)
		nc := &llh.NativeCall{Fn: "c06_cast_" + key, DDPSrc: x.src, Opt: x.opt, RetC: "ddpint", InitAll: true,
			Args: []llh.CArg{{Kind: "int", CType: "ddpint", Bits: xv}, {Kind: "int", CType: "ddpbool", Bits: wv}}}
		nr := llh.RunNative(x.env, nc)
		expectOK := (wv == 1) == toDef
		txt := fmt.Sprintf("model: %s\nexpected: %s\nnative: exit=%d err=%q\nstdout:\n%s\nstderr:\n%s\n--- driver.c ---\n%s", h.ModelString(m),
			map[bool]string{true: fmt.Sprintf("RET %x", xv), false: "Laufzeitfehler (Falsche Typumwandlung), exit 1"}[expectOK], nr.Exit, nr.Err, nr.Stdout, nr.Stderr, nr.Driver)
		if nr.Err != "" {
			return txt, false
		}
		if expectOK {
			return txt, nr.Exit != 0 || !strings.Contains(nr.Stdout, fmt.Sprintf("RET %x\n", xv))
		}
		return txt, !nr.RuntimeError()
	})
}

// cellStale: the index expression of an element access shortens the list to one element before it
// yields the index; afterwards only index 1 is inside the list.
func (x *ctx) cellStale(form string) {
	h := x.newH("stale_" + form)
	defer h.Close()
	c := h.C
	l := h.ConcList("l", 8, 3, 4, false)
	var el []*smt.Expr
	for k := 0; k < 3; k++ {
		e := h.Var(fmt.Sprintf("e%d", k), 64)
		el = append(el, e)
		h.SetElem(l, k, e)
	}
	i := h.Var("i", 64)
	scalars := []*smt.Expr{i}
	args := []llse.Val{h.Ptr(l.Hdr), {E: i}}
	if form != "idx" {
		v := h.Var("v", 64)
		scalars = append(scalars, v)
		args = append(args, llse.Val{E: v})
	}
	res := h.Run("c06_stale_"+form, args)
	dom := c.Eq(i, c.BV(64, 1))
	sawErr, sawOK := false, false
	for _, s := range res {
		h.On(s)
		switch {
		case s.Term == llse.TermRuntimeError:
			sawErr = true
			h.Holds("error-only-outside-the-shortened-list", s.PC, c.Not(dom))
		case s.Term == llse.TermReturn:
			sawOK = true
			h.Holds("return-only-inside-the-shortened-list", s.PC, dom)
		}
	}
	if !sawErr || !sawOK {
		x.r.EngineFailf("%s: vacuity guard: error path seen=%v normal path seen=%v", h.Cell, sawErr, sawOK)
	}
	x.finish(h, res, func(f *llh.Failure) (string, bool) {
		m := h.Refine(f, nil, append(append([]*smt.Expr{}, el...), scalars...))
		if m == nil {
			return "no model for the native replay", false
		}
		arg := llh.CArg{Kind: "list", CType: cElem["zahl"][0], ElemC: cElem["zahl"][1], Len: 3, Cap: 4, Dump: form != "idx"}
		for k := 0; k < 3; k++ {
			v, _ := llh.ValOf(m, el[k])
			arg.Elems = append(arg.Elems, v)
		}
		arg.Elems = append(arg.Elems, 0)
		nc := &llh.NativeCall{Fn: "c06_stale_" + form, DDPSrc: x.src, Opt: x.opt, Args: []llh.CArg{arg}}
		fixed := append([]*smt.Expr{}, el...)
		for _, sc := range scalars {
			v, _ := llh.ValOf(m, sc)
			fixed = append(fixed, sc)
			nc.Args = append(nc.Args, llh.CArg{Kind: "int", CType: "ddpint", Bits: v})
		}
		nc.RetC = "void"
		if form == "idx" {
			nc.RetC = "ddpint"
		}
		nr := llh.RunNativeOpt(x.env, nc, strings.HasPrefix(f.Obligation, "memory:"))
		txt, ok := confirm(h, f, m, nr, fixed)
		return "model: " + h.ModelString(m) + "\n" + txt, ok
	})
}
