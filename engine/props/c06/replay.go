package c06

import (
	"fmt"
	"strconv"
	"strings"

	"verif/engine/llse"
	"verif/engine/props/llh"
	"verif/engine/smt"
)

var cElem = map[string][2]string{
	"zahl": {"ddpintlist", "ddpint"}, "komma": {"ddpfloatlist", "ddpfloat"}, "byte": {"ddpbytelist", "ddpbyte"},
	"bool": {"ddpboollist", "ddpbool"}, "buch": {"ddpcharlist", "ddpchar"},
}

// confirm compares the native run with what the symbolic run predicts for the failing path.
func confirm(h *llh.H, f *llh.Failure, m *smt.Model, nr *llh.NativeResult, fixed []*smt.Expr) (string, bool) {
	var sb strings.Builder
	fmt.Fprintf(&sb, "native: exit=%d err=%q\nstdout:\n%s\nstderr:\n%s\n--- driver.c ---\n%s\n", nr.Exit, nr.Err, nr.Stdout, nr.Stderr, nr.Driver)
	if nr.Err != "" || f.Path == nil {
		return sb.String(), false
	}
	if strings.HasPrefix(f.Obligation, "memory:") {
		// memory faults are confirmed by valgrind (exit 99) or a crash
		return sb.String(), nr.Exit == 99 || nr.Exit < 0 || nr.Exit >= 128
	}
	switch f.Path.Term {
	case llse.TermRuntimeError:
		return sb.String(), nr.RuntimeError()
	case llse.TermReturn:
		if nr.Exit != 0 || !strings.Contains(nr.Stdout, "DONE") {
			return sb.String(), false
		}
		if f.Path.Ret.E != nil {
			ret := f.Path.Ret.E
			if ret.Sort.K == smt.KFP {
				ret = h.C.FPToBits(ret)
			}
			mm := h.EvalUnder(f.Path.PC, m, fixed, []*smt.Expr{ret})
			if mm == nil {
				return sb.String() + "could not evaluate the predicted return value\n", false
			}
			want, _ := llh.ValOf(mm, ret)
			got, ok := nr.Field("RET")
			if !ok {
				return sb.String(), false
			}
			g, _ := strconv.ParseUint(got, 16, 64)
			fmt.Fprintf(&sb, "predicted RET %x, native RET %x\n", want, g)
			if ret.Sort.W < 64 {
				g &= (1 << uint(ret.Sort.W)) - 1
			}
			return sb.String(), g == want
		}
		return sb.String(), true
	}
	return sb.String(), false
}

func (x *ctx) replayIndex(h *llh.H, f *llh.Failure, e elemT, l *llh.List, arr0 *smt.Expr, form string, scalars []*smt.Expr) (string, bool) {
	c := h.C
	// small sizes for the native run
	extra := []*smt.Expr{c.ULE(l.Cap, c.BV(64, 6))}
	var sel []*smt.Expr
	for k := 0; k < 6*e.Size; k++ {
		sel = append(sel, c.Select(arr0, c.BV(64, uint64(k))))
	}
	m := h.Refine(f, extra, sel)
	if m == nil {
		return "no model with cap <= 6 for the native replay", false
	}
	ln, _ := llh.ValOf(m, l.Len)
	cp, _ := llh.ValOf(m, l.Cap)
	arg := llh.CArg{Kind: "list", CType: cElem[e.Key][0], ElemC: cElem[e.Key][1], Len: int(ln), Cap: int(cp), Dump: form != "idx"}
	for k := 0; k < int(cp); k++ {
		var v uint64
		for b := e.Size - 1; b >= 0; b-- {
			bv, _ := llh.ValOf(m, sel[k*e.Size+b])
			v = v<<8 | bv
		}
		arg.Elems = append(arg.Elems, v)
	}
	nc := &llh.NativeCall{Fn: "c06_" + form + "_" + e.Key, DDPSrc: x.src, Opt: x.opt, Args: []llh.CArg{arg}}
	fixed := append([]*smt.Expr{l.Len, l.Cap}, sel...)
	for i, s := range scalars {
		v, _ := llh.ValOf(m, s)
		fixed = append(fixed, s)
		if s.Sort.K == smt.KFP {
			nc.Args = append(nc.Args, llh.CArg{Kind: "double", Bits: v})
		} else if i == 0 {
			nc.Args = append(nc.Args, llh.CArg{Kind: "int", CType: "ddpint", Bits: v})
		} else {
			nc.Args = append(nc.Args, llh.CArg{Kind: "int", CType: cElem[e.Key][1], Bits: v})
		}
	}
	nc.RetC = "void"
	if form == "idx" {
		nc.RetC = cElem[e.Key][1]
	}
	nr := llh.RunNativeOpt(x.env, nc, strings.HasPrefix(f.Obligation, "memory:"))
	txt, ok := confirm(h, f, m, nr, fixed)
	return "model: " + h.ModelString(m) + "\n" + txt, ok
}

func (x *ctx) replaySlice(h *llh.H, f *llh.Failure, e elemT, form string, n int, el []*smt.Expr, ivars []*smt.Expr) (string, bool) {
	m := h.Refine(f, nil, nil)
	if m == nil {
		return "no model", false
	}
	cp := n
	if n > 0 {
		cp = n + 1
	}
	arg := llh.CArg{Kind: "list", CType: cElem[e.Key][0], ElemC: cElem[e.Key][1], Len: n, Cap: cp}
	for _, v := range el {
		b, _ := llh.ValOf(m, v)
		arg.Elems = append(arg.Elems, b)
	}
	out := llh.CArg{Kind: "outlist", CType: cElem[e.Key][0], ElemC: cElem[e.Key][1], Len: 0, Cap: 0}
	nc := &llh.NativeCall{Fn: "c06_" + form + "_" + e.Key, DDPSrc: x.src, Opt: x.opt, Args: []llh.CArg{out, arg}, RetC: "void"}
	for _, s := range ivars {
		v, _ := llh.ValOf(m, s)
		nc.Args = append(nc.Args, llh.CArg{Kind: "int", CType: "ddpint", Bits: v})
	}
	nr := llh.RunNativeOpt(x.env, nc, strings.HasPrefix(f.Obligation, "memory:"))
	txt, ok := confirm(h, f, m, nr, append(append([]*smt.Expr{}, el...), ivars...))
	return "model: " + h.ModelString(m) + "\n" + txt, ok
}

func (x *ctx) replayText(h *llh.H, f *llh.Failure, fn string, sh []int, cps []llh.CP, ivars []*smt.Expr, ret string) (string, bool) {
	m := h.Refine(f, nil, nil)
	if m == nil {
		return "no model", false
	}
	var bytes []byte
	fixed := append([]*smt.Expr{}, ivars...)
	for _, cp := range cps {
		v, _ := llh.ValOf(m, cp.V)
		bytes = append(bytes, []byte(string(rune(v)))...)
		fixed = append(fixed, cp.V)
	}
	if len(cps) == 0 {
		bytes = nil
	}
	// value arguments are owned (and freed) by the callee: only a Referenz argument is dumped afterwards
	targ := llh.CArg{Kind: "text", Bytes: bytes, Dump: fn == "c06_tasg"}
	nc := &llh.NativeCall{Fn: fn, DDPSrc: x.src, Opt: x.opt, RetC: "void"}
	if ret == "outtext" {
		nc.Args = append(nc.Args, llh.CArg{Kind: "outtext"})
	} else if ret != "void" {
		nc.RetC = ret
	}
	nc.Args = append(nc.Args, targ)
	for i, s := range ivars {
		v, _ := llh.ValOf(m, s)
		ct := "ddpint"
		if s.Sort.W == 32 {
			ct = "ddpchar"
		}
		_ = i
		nc.Args = append(nc.Args, llh.CArg{Kind: "int", CType: ct, Bits: v})
	}
	// c06_tasg takes (t, i, c) in that order already
	nr := llh.RunNativeOpt(x.env, nc, strings.HasPrefix(f.Obligation, "memory:"))
	txt, ok := confirm(h, f, m, nr, fixed)
	return "model: " + h.ModelString(m) + "\n" + txt, ok
}
