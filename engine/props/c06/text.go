package c06

import (
	"fmt"

	"verif/engine/llse"
	"verif/engine/props/ddp"
	"verif/engine/props/llh"
	"verif/engine/smt"
)

func textSource() string {
	s := ddp.Func("c06_tidx", []ddp.Param{{"t", "Text"}, {"i", "Zahl"}}, "einen Buchstaben", "Gib t an der Stelle i zurück.")
	s += ddp.Func("c06_tasg", []ddp.Param{{"t", "Text Referenz"}, {"i", "Zahl"}, {"c", "Buchstabe"}}, "nichts", "Speichere c in t an der Stelle i.")
	s += ddp.Func("c06_tslice", []ddp.Param{{"t", "Text"}, {"a", "Zahl"}, {"b", "Zahl"}}, "einen Text", "Gib t im Bereich von a bis b zurück.")
	s += ddp.Func("c06_tab", []ddp.Param{{"t", "Text"}, {"a", "Zahl"}}, "einen Text", "Gib t ab dem a. Element zurück.")
	s += ddp.Func("c06_tbis", []ddp.Param{{"t", "Text"}, {"a", "Zahl"}}, "einen Text", "Gib t bis zum a. Element zurück.")
	s += ddp.Func("c06_nested", []ddp.Param{{"l", "Text Liste"}, {"i", "Zahl"}, {"j", "Zahl"}}, "einen Buchstaben", "Gib (l an der Stelle i) an der Stelle j zurück.")
	return s
}

func (x *ctx) textCells() []llh.CellFn {
	maxK := 2
	if x.r.Tier == "thorough" {
		maxK = 3
	}
	x.r.Bounds["text"] = fmt.Sprintf("0..%d code points, every combination of 1-4 byte encodings, scalar values symbolic", maxK)
	var cells []llh.CellFn
	for k := 0; k <= maxK; k++ {
		for _, sh := range llh.Shapes(k) {
			sh := sh
			cells = append(cells, func() { x.cellTextIndex(sh) })
			cells = append(cells, func() { x.cellTextAssign(sh) })
			for _, form := range []string{"tslice", "tab", "tbis"} {
				form := form
				cells = append(cells, func() { x.cellTextSlice(sh, form) })
			}
		}
	}
	for n := 0; n <= 2; n++ {
		n := n
		cells = append(cells, func() { x.cellNested(n) })
	}
	return cells
}

func (x *ctx) symText(h *llh.H, name string, sh []int) ([]llh.CP, *llh.Text) {
	var cps []llh.CP
	for k, n := range sh {
		cps = append(cps, h.SymCP(fmt.Sprintf("%s_cp%d", name, k), n))
	}
	return cps, h.TextOfCPs(name, cps, nil, 0)
}

func (x *ctx) cellTextIndex(sh []int) {
	h := x.newH("tidx_" + llh.ShapeName(sh))
	defer h.Close()
	h.InstallUTF8Stubs()
	c := h.C
	cps, t := x.symText(h, "t", sh)
	i := h.Var("i", 64)
	res := h.Run("c06_tidx", []llse.Val{h.Ptr(t.Hdr), {E: i}})
	k := len(sh)
	dom := inDomain(c, i, c.BV(64, uint64(k)))
	sawErr, sawOK := false, false
	for _, s := range res {
		h.On(s)
		switch s.Term {
		case llse.TermRuntimeError:
			sawErr = true
			if !isErr1(c, s) {
				h.Fail("exit-status-1")
			}
			h.Holds("error-only-outside-domain", s.PC, c.Not(dom))
		case llse.TermReturn:
			sawOK = true
			h.Holds("return-only-inside-domain", s.PC, dom)
			want := c.BV(32, 0)
			for j := k - 1; j >= 0; j-- {
				want = c.Ite(c.Eq(i, c.BV(64, uint64(j+1))), cps[j].V, want)
			}
			h.Holds("indexed-code-point", s.PC, c.Eq(s.Ret.E, want))
		}
	}
	if !sawErr || (k > 0 && !sawOK) {
		x.r.EngineFailf("%s: vacuity guard: error path seen=%v normal path seen=%v", h.Cell, sawErr, sawOK)
	}
	x.finish(h, res, func(f *llh.Failure) (string, bool) {
		return x.replayText(h, f, "c06_tidx", sh, cps, []*smt.Expr{i}, "ddpchar")
	})
}

func (x *ctx) cellTextAssign(sh []int) {
	h := x.newH("tasg_" + llh.ShapeName(sh))
	defer h.Close()
	h.InstallUTF8Stubs()
	c := h.C
	cps, t := x.symText(h, "t", sh)
	i := h.Var("i", 64)
	ch := h.Var("ch", 32)
	// a Buchstabe is a Unicode scalar value other than NUL
	h.St.Assume(c.And(c.UGE(ch, c.BV(32, 1)), c.ULE(ch, c.BV(32, 0x10ffff)), c.Or(c.ULT(ch, c.BV(32, 0xd800)), c.UGT(ch, c.BV(32, 0xdfff)))))
	res := h.Run("c06_tasg", []llse.Val{h.Ptr(t.Hdr), {E: i}, {E: ch}})
	k := len(sh)
	dom := inDomain(c, i, c.BV(64, uint64(k)))
	sawErr, sawOK := false, false
	for _, s := range res {
		h.On(s)
		switch s.Term {
		case llse.TermRuntimeError:
			sawErr = true
			if !isErr1(c, s) {
				h.Fail("exit-status-1")
			}
			h.Holds("error-only-outside-domain", s.PC, c.Not(dom))
		case llse.TermReturn:
			sawOK = true
			h.Holds("return-only-inside-domain", s.PC, dom)
		}
	}
	if !sawErr || (k > 0 && !sawOK) {
		x.r.EngineFailf("%s: vacuity guard: error path seen=%v normal path seen=%v", h.Cell, sawErr, sawOK)
	}
	x.finish(h, res, func(f *llh.Failure) (string, bool) {
		return x.replayText(h, f, "c06_tasg", sh, cps, []*smt.Expr{i, ch}, "void")
	})
}

func (x *ctx) cellTextSlice(sh []int, form string) {
	h := x.newH(form + "_" + llh.ShapeName(sh))
	defer h.Close()
	h.InstallUTF8Stubs()
	c := h.C
	cps, t := x.symText(h, "t", sh)
	k := len(sh)
	ln := c.BV(64, uint64(k))
	ret := h.St.NewObject(c, llse.ObjStack, "ret", llh.TextHdr)
	a := h.Var("a", 64)
	args := []llse.Val{h.Ptr(ret), h.Ptr(t.Hdr), {E: a}}
	ivars := []*smt.Expr{a}
	var i1, i2 *smt.Expr
	switch form {
	case "tslice":
		b := h.Var("b", 64)
		args = append(args, llse.Val{E: b})
		ivars = append(ivars, b)
		i1, i2 = a, b
	case "tab":
		i1, i2 = a, ln
	case "tbis":
		i1, i2 = c.BV(64, 1), a
	}
	res := h.Run("c06_"+form, args)
	one := c.BV(64, 1)
	c1, c2 := clampE(c, i1, one, ln), clampE(c, i2, one, ln)
	wantErr := c.False()
	if k > 0 {
		wantErr = c.SLT(c2, c1)
	}
	sawOK := false
	for _, s := range res {
		h.On(s)
		switch s.Term {
		case llse.TermRuntimeError:
			if !isErr1(c, s) {
				h.Fail("exit-status-1")
			}
			h.Holds("error-only-for-crossed-bounds", s.PC, wantErr)
		case llse.TermReturn:
			sawOK = true
			h.Holds("return-only-for-ordered-bounds", s.PC, c.Not(wantErr))
			// length in bytes of the result: sum of encoded lengths of code points c1..c2
			wantBytes := c.BV(64, 0)
			for j := 0; j < k; j++ {
				jj := c.BV(64, uint64(j+1))
				inside := c.And(c.SLE(c1, jj), c.SLE(jj, c2))
				wantBytes = c.Add(wantBytes, c.Ite(inside, c.BV(64, uint64(sh[j])), c.BV(64, 0)))
			}
			gotCap := h.ReadI64(s, ret, 8).E
			wantCap := c.BV(64, 0)
			if k > 0 {
				wantCap = c.Add(wantBytes, one)
			}
			h.Holds("slice-capacity-is-bytes-plus-terminator", s.PC, c.Eq(gotCap, wantCap))
		}
	}
	if !sawOK {
		x.r.EngineFailf("%s: vacuity guard: no normal path", h.Cell)
	}
	_ = cps
	x.finish(h, res, func(f *llh.Failure) (string, bool) { return x.replayText(h, f, "c06_"+form, sh, cps, ivars, "outtext") })
}

// cellNested: (l an der Stelle i) an der Stelle j on a Text Liste of n one-character texts.
func (x *ctx) cellNested(n int) {
	h := x.newH(fmt.Sprintf("nested_len%d", n))
	defer h.Close()
	h.InstallUTF8Stubs()
	c := h.C
	l := h.ConcList("l", llh.TextHdr, n, n, false)
	var cps []llh.CP
	for k := 0; k < n; k++ {
		cp := h.SymCP(fmt.Sprintf("cp%d", k), 1+k%2)
		cps = append(cps, cp)
		h.TextOfCPs(fmt.Sprintf("e%d", k), []llh.CP{cp}, l.Arr, int64(k*llh.TextHdr))
	}
	i := h.Var("i", 64)
	j := h.Var("j", 64)
	res := h.Run("c06_nested", []llse.Val{h.Ptr(l.Hdr), {E: i}, {E: j}})
	dom := c.And(inDomain(c, i, c.BV(64, uint64(n))), c.Eq(j, c.BV(64, 1)))
	sawErr := false
	for _, s := range res {
		h.On(s)
		switch s.Term {
		case llse.TermRuntimeError:
			sawErr = true
			if !isErr1(c, s) {
				h.Fail("exit-status-1")
			}
			h.Holds("error-only-outside-domain", s.PC, c.Not(dom))
		case llse.TermReturn:
			h.Holds("return-only-inside-domain", s.PC, dom)
			want := c.BV(32, 0)
			for k := n - 1; k >= 0; k-- {
				want = c.Ite(c.Eq(i, c.BV(64, uint64(k+1))), cps[k].V, want)
			}
			h.Holds("nested-element", s.PC, c.Eq(s.Ret.E, want))
		}
	}
	if !sawErr {
		x.r.EngineFailf("%s: vacuity guard: no error path", h.Cell)
	}
	x.finish(h, res, nil)
}
