// Package c15: a generic call behaves like its monomorphic specialisation (differential
// symbolic execution of the two versions compiled by the freshly built kddp).
package c15

import (
	"fmt"
	"os"
	"path/filepath"
	"strings"
	"time"

	"verif/engine/build"
	"verif/engine/llread"
	"verif/engine/llse"
	"verif/engine/props/core"
	"verif/engine/props/ddp"
	"verif/engine/props/goh"
	"verif/engine/props/llh"
	"verif/engine/smt"
)

// the imported module: a generic function whose body names a type that is private to the
// library; the importing module has another type of the same name
const libSrc = `Wir nennen eine Zahl auch eine Einheit.

Die öffentliche generische Funktion g_unit mit dem Parameter a vom Typ T, gibt eine Zahl zurück, macht:
	Die Einheit e ist 7.
	Gib e logisch und 3 zurück.
Und kann so benutzt werden:
	"g_unit <a>"

Die öffentliche Funktion s_unit mit dem Parameter a vom Typ Zahl, gibt eine Zahl zurück, macht:
	Die Einheit e ist 7.
	Gib e logisch und 3 zurück.
Und kann so benutzt werden:
	"s_unit <a>"

Die öffentliche generische Funktion g_libid mit dem Parameter a vom Typ T, gibt ein T zurück, macht:
	Gib a zurück.
Und kann so benutzt werden:
	"g_libid <a>"
`

const decls = `Binde "Duden/C15Lib" ein.

Wir definieren einen Meter als eine Zahl.
Wir nennen eine Zahl auch eine Ganzzahl.
Wir nennen eine Kommazahl auch eine Einheit.

Wir nennen die generische Kombination aus
	dem T x,
	dem T y,
einen Vektor2, und erstellen sie so:
	"Vektor2(<x>, <y>)"

Wir nennen die Kombination aus
	der Zahl x mit Standardwert 0,
	der Zahl y mit Standardwert 0,
einen ZVektor2, und erstellen sie so:
	"ZVektor2(<x>, <y>)"

`

type gen struct {
	decl string // "Die generische Funktion ..." / specialised function text
}

func generic(name string, params []ddp.Param, ret, body string) string {
	s := ddp.FuncOpt(name, params, ret, body, false)
	return strings.Replace(s, "Die Funktion ", "Die generische Funktion ", 1)
}

func plain(name string, params []ddp.Param, ret, body string) string {
	return ddp.FuncOpt(name, params, ret, body, false)
}

func helpers() string {
	var sb strings.Builder
	P := func(n, t string) ddp.Param { return ddp.Param{Name: n, Type: t} }
	sb.WriteString(generic("g_id", []ddp.Param{P("a", "T")}, "ein T", "Gib a zurück."))
	sb.WriteString(plain("s_id_zahl", []ddp.Param{P("a", "Zahl")}, "eine Zahl", "Gib a zurück."))
	sb.WriteString(plain("s_id_text", []ddp.Param{P("a", "Text")}, "einen Text", "Gib a zurück."))
	sb.WriteString(generic("g_add", []ddp.Param{P("a", "T"), P("b", "T")}, "ein T", "Gib a plus b zurück."))
	sb.WriteString(plain("s_add_zahl", []ddp.Param{P("a", "Zahl"), P("b", "Zahl")}, "eine Zahl", "Gib a plus b zurück."))
	sb.WriteString(plain("s_add_komma", []ddp.Param{P("a", "Kommazahl"), P("b", "Kommazahl")}, "eine Kommazahl", "Gib a plus b zurück."))
	sb.WriteString(generic("g_idx", []ddp.Param{P("l", "T Liste"), P("i", "Zahl")}, "ein T", "Gib l an der Stelle i zurück."))
	sb.WriteString(plain("s_idx_zahl", []ddp.Param{P("l", "Zahlen Liste"), P("i", "Zahl")}, "eine Zahl", "Gib l an der Stelle i zurück."))
	sb.WriteString(generic("g_cast", []ddp.Param{P("v", "Variable"), P("muster", "T")}, "ein T", "Gib v als T zurück."))
	sb.WriteString(plain("s_cast_meter", []ddp.Param{P("v", "Variable"), P("muster", "Meter")}, "einen Meter", "Gib v als Meter zurück."))
	sb.WriteString(plain("s_cast_zahl", []ddp.Param{P("v", "Variable"), P("muster", "Zahl")}, "eine Zahl", "Gib v als Zahl zurück."))
	sb.WriteString(plain("s_cast_ganzzahl", []ddp.Param{P("v", "Variable"), P("muster", "Ganzzahl")}, "eine Ganzzahl", "Gib v als Ganzzahl zurück."))
	sb.WriteString(generic("g_swap", []ddp.Param{P("a", "T Referenz"), P("b", "T Referenz")}, "nichts", "Das T temp ist a.\n\tSpeichere b in a.\n\tSpeichere temp in b."))
	sb.WriteString(plain("s_swap_zahl", []ddp.Param{P("a", "Zahlen Referenz"), P("b", "Zahlen Referenz")}, "nichts", "Die Zahl temp ist a.\n\tSpeichere b in a.\n\tSpeichere temp in b."))
	sb.WriteString(generic("g_def", []ddp.Param{P("a", "T")}, "ein T", "Das T d ist der Standardwert von einem T.\n\tGib d zurück."))
	sb.WriteString(plain("s_def_zahl", []ddp.Param{P("a", "Zahl")}, "eine Zahl", "Die Zahl d ist der Standardwert von einer Zahl.\n\tGib d zurück."))
	sb.WriteString(plain("s_def_text", []ddp.Param{P("a", "Text")}, "einen Text", "Der Text d ist der Standardwert von einem Text.\n\tGib d zurück."))
	sb.WriteString(generic("g_twice", []ddp.Param{P("a", "T")}, "ein T", "Gib (g_id (g_id a)) zurück."))
	sb.WriteString(plain("s_twice_zahl", []ddp.Param{P("a", "Zahl")}, "eine Zahl", "Gib (s_id_zahl (s_id_zahl a)) zurück."))
	sb.WriteString(generic("g_count", []ddp.Param{P("a", "T"), P("n", "Zahl")}, "eine Zahl", "Wenn n kleiner als 1 ist, gib 0 zurück.\n\tGib 1 plus (g_count a (n minus 1)) zurück."))
	sb.WriteString(plain("s_count_zahl", []ddp.Param{P("a", "Zahl"), P("n", "Zahl")}, "eine Zahl", "Wenn n kleiner als 1 ist, gib 0 zurück.\n\tGib 1 plus (s_count_zahl a (n minus 1)) zurück."))
	sb.WriteString(generic("g_len", []ddp.Param{P("l", "T Liste")}, "eine Zahl", "Die Zahl n ist 0.\n\tFür jedes T e in l, erhöhe n um 1.\n\tGib n zurück."))
	sb.WriteString(plain("s_len_zahl", []ddp.Param{P("l", "Zahlen Liste")}, "eine Zahl", "Die Zahl n ist 0.\n\tFür jede Zahl e in l, erhöhe n um 1.\n\tGib n zurück."))
	return sb.String()
}

// a template pair: the same wrapper once over the generic function, once over the specialisation
type tmpl struct {
	name   string
	params []string // "zahl", "komma", "bool", "ascii", "n03"
	ret    string   // "zahl", "komma", "text"
	gbody  string
	sbody  string
}

const mkV = "Die Variable v ist x.\n\tWenn w, speichere (x als Meter) in v.\n\t"
const mkL = "Die Zahlen Liste l ist eine Liste, die aus x, y besteht.\n\t"

var templates = []tmpl{
	{"id_zahl", []string{"zahl"}, "zahl", "Gib (g_id x) zurück.", "Gib (s_id_zahl x) zurück."},
	{"id_text", []string{"ascii"}, "text", "Der Text a ist (x als Buchstabe) als Text.\n\tGib (g_id a) zurück.", "Der Text a ist (x als Buchstabe) als Text.\n\tGib (s_id_text a) zurück."},
	{"add_zahl", []string{"zahl", "zahl"}, "zahl", "Gib (g_add x y) zurück.", "Gib (s_add_zahl x y) zurück."},
	{"add_komma", []string{"komma", "komma"}, "komma", "Gib (g_add x y) zurück.", "Gib (s_add_komma x y) zurück."},
	{"idx_zahl", []string{"zahl", "zahl", "zahl"}, "zahl", mkL + "Gib (g_idx l z) zurück.", mkL + "Gib (s_idx_zahl l z) zurück."},
	{"cast_meter", []string{"zahl", "bool"}, "zahl", mkV + "Der Meter m ist 0 als Meter.\n\tGib (g_cast v m) als Zahl zurück.", mkV + "Der Meter m ist 0 als Meter.\n\tGib (s_cast_meter v m) als Zahl zurück."},
	{"cast_zahl", []string{"zahl", "bool"}, "zahl", mkV + "Gib (g_cast v 0) zurück.", mkV + "Gib (s_cast_zahl v 0) zurück."},
	{"cast_alias", []string{"zahl", "bool"}, "zahl", mkV + "Die Ganzzahl m ist 0.\n\tGib (g_cast v m) zurück.", mkV + "Die Ganzzahl m ist 0.\n\tGib (s_cast_ganzzahl v m) zurück."},
	{"swap_zahl", []string{"zahl", "zahl"}, "zahl", "g_swap x y.\n\tGib x mal 3 plus y zurück.", "s_swap_zahl x y.\n\tGib x mal 3 plus y zurück."},
	{"def_zahl", []string{"zahl"}, "zahl", "Gib (g_def x) zurück.", "Gib (s_def_zahl x) zurück."},
	{"def_text", []string{"ascii"}, "text", "Der Text a ist (x als Buchstabe) als Text.\n\tGib (g_def a) zurück.", "Der Text a ist (x als Buchstabe) als Text.\n\tGib (s_def_text a) zurück."},
	{"twice_zahl", []string{"zahl"}, "zahl", "Gib (g_twice x) zurück.", "Gib (s_twice_zahl x) zurück."},
	{"count_zahl", []string{"zahl", "n03"}, "zahl", "Gib (g_count x y) zurück.", "Gib (s_count_zahl x y) zurück."},
	{"len_zahl", []string{"zahl", "zahl"}, "zahl", mkL + "Gib (g_len l) zurück.", mkL + "Gib (s_len_zahl l) zurück."},
	{"struct_zahl", []string{"zahl", "zahl"}, "zahl", "Der Zahl-Vektor2 v ist Vektor2(x, y).\n\tDer Zahl-Vektor2 u ist v.\n\tGib (x von u) minus (y von u) zurück.", "Der ZVektor2 v ist ZVektor2(x, y).\n\tDer ZVektor2 u ist v.\n\tGib (x von u) minus (y von u) zurück."},
	{"struct_generic_arg", []string{"zahl", "zahl"}, "zahl", "Der Zahl-Vektor2 v ist Vektor2(x, y).\n\tDer Zahl-Vektor2 u ist (g_id v).\n\tGib (x von u) minus (y von u) zurück.", "Der ZVektor2 v ist ZVektor2(x, y).\n\tDer ZVektor2 u ist v.\n\tGib (x von u) minus (y von u) zurück."},
	// the generic function lives in an imported module and names a type private to that module
	{"imported_unit", []string{"zahl"}, "zahl", "Gib (g_unit x) zurück.", "Gib (s_unit x) zurück."},
	{"imported_id", []string{"zahl"}, "zahl", "Gib (g_libid x) zurück.", "Gib (s_id_zahl x) zurück."},
}

func paramList(t tmpl) []ddp.Param {
	names := []string{"x", "y", "z"}
	var ps []ddp.Param
	for i, p := range t.params {
		typ := "Zahl"
		switch p {
		case "komma":
			typ = "Kommazahl"
		case "bool":
			typ = "Wahrheitswert"
			ps = append(ps, ddp.Param{Name: "w", Type: typ})
			continue
		}
		ps = append(ps, ddp.Param{Name: names[i], Type: typ})
	}
	return ps
}

func retDDP(t tmpl) string {
	switch t.ret {
	case "komma":
		return "eine Kommazahl"
	case "text":
		return "einen Text"
	}
	return "eine Zahl"
}

func source(only map[string]bool) string {
	var sb strings.Builder
	sb.WriteString(decls)
	sb.WriteString(helpers())
	for _, t := range templates {
		if only != nil && !only[t.name] {
			continue
		}
		sb.WriteString(ddp.Func("c15_g_"+t.name, paramList(t), retDDP(t), t.gbody))
		sb.WriteString(ddp.Func("c15_s_"+t.name, paramList(t), retDDP(t), t.sbody))
	}
	return sb.String()
}

type ctx struct {
	r       *core.Report
	env     *build.Env
	rt      []*llread.Module
	lists   *llread.Module
	mod     *llread.Module
	src     string
	timeout time.Duration
}

func Run(r *core.Report, env *build.Env) {
	r.Level = "translation_validation"
	x := &ctx{r: r, env: env, timeout: 30 * time.Second}
	if r.Tier == "thorough" {
		x.timeout = 120 * time.Second
	}
	r.Bounds["templates"] = fmt.Sprintf("%d pairs (generic call / hand-specialised copy): identity, arithmetic, list indexing and iteration, cast of a Variable to the type parameter (typedef, alias, primitive), Referenz parameters, default value, nested and recursive instantiation (depth <= 3), generic Kombination, generic function of an imported module naming a module-private type", len(templates))
	r.Bounds["inputs"] = "all scalar arguments symbolic (full width); recursion count 0..3"
	r.Assumptions = append(r.Assumptions, "the specialisation is written by hand: the generic body with the type parameter replaced textually", "realloc never fails", "c32rtomb/mbrtoc32 = UTF-8 specification")
	r.Outside = append(r.Outside, "generic bodies beyond the template family", "type arguments that are lists of lists or instantiated generics of generics", "mutually recursive generics", "the unification rules themselves (covered by the GoSE harnesses VerifC15Unify*/VerifC15StructInstances)")
	if only := os.Getenv("VERIF_ONLY"); only == "" || strings.HasPrefix(only, "VerifC15") {
		typeLevel(r, env)
		if strings.HasPrefix(only, "VerifC15") {
			return
		}
	}
	var err error
	if x.rt, err = env.RuntimeIR(); err != nil {
		r.EngineFailf("runtime IR: %v", err)
		return
	}
	if x.lists, err = env.ListDefs(); err != nil {
		r.EngineFailf("list defs: %v", err)
		return
	}
	if err := os.WriteFile(filepath.Join(env.Inst, "Duden", "C15Lib.ddp"), []byte(libSrc), 0o644); err != nil {
		r.EngineFailf("writing the imported module: %v", err)
		return
	}
	x.src = source(nil)
	cm, err := env.CompileDDP("c15", x.src, 0)
	if err != nil {
		r.EngineFailf("compile: %v", err)
		return
	}
	if cm.Mod == nil {
		// the whole family is one module: find the pairs that are refused
		x.rejected(cm.Stderr)
		return
	}
	r.Programs++
	x.mod = cm.Mod
	only := os.Getenv("VERIF_ONLY")
	var cells []llh.CellFn
	for _, t := range templates {
		t := t
		if only != "" && !strings.Contains(t.name, only) {
			continue
		}
		cells = append(cells, func() { x.cell(t) })
	}
	llh.RunParallel(llh.Wrap(r, cells), 16)
}

// rejected: the module with all templates does not compile. Each pair is compiled alone, in two
// programs (generic wrapper only / specialised wrapper only): a pair whose specialised program is
// accepted while the generic one is refused is a violation.
func (x *ctx) rejected(stderr string) {
	found := false
	for _, t := range templates {
		var sbG, sbS strings.Builder
		sbG.WriteString(decls + helpers() + ddp.Func("c15_g_"+t.name, paramList(t), retDDP(t), t.gbody))
		sbS.WriteString(decls + helpers() + ddp.Func("c15_s_"+t.name, paramList(t), retDDP(t), t.sbody))
		cg, err1 := x.env.CompileDDP("c15g", sbG.String(), 0)
		cs, err2 := x.env.CompileDDP("c15s", sbS.String(), 0)
		if err1 != nil || err2 != nil {
			continue
		}
		x.r.Programs += 2
		x.r.Oblige(1)
		if cs.Mod != nil && cg.Mod == nil {
			found = true
			x.r.Replayed++
			x.r.Violate(t.name+"/the generic call is accepted like its specialisation", fmt.Sprintf("%s: kddp accepts the program with the hand-specialised function and refuses the same program with the generic call", t.name),
				fmt.Sprintf("template %s\n--- program with the generic call ---\n%s\n--- kddp ---\n%s\n", t.name, sbG.String(), cg.Stderr))
		} else {
			x.r.Discharge(1)
		}
	}
	if !found {
		x.r.EngineFailf("template module rejected by kddp: %s", stderr)
	}
}

func (x *ctx) cell(t tmpl) {
	mods := append([]*llread.Module{x.mod, x.lists}, x.rt...)
	diff := 10
	if x.r.Tier == "thorough" {
		diff = 1
	}
	hg := llh.NewH(x.r, t.name, x.timeout, diff, mods...)
	defer hg.Close()
	hg.InstallUTF8Stubs()
	c := hg.C
	var args []llse.Val
	var assumes []*smt.Expr
	for i, p := range t.params {
		name := fmt.Sprintf("p%d", i)
		switch p {
		case "zahl":
			args = append(args, llse.Val{E: hg.Var(name, 64)})
		case "komma":
			args = append(args, llse.Val{E: hg.FVar(name)})
		case "bool":
			args = append(args, llse.Val{E: hg.Var(name, 1)})
		case "ascii":
			v := hg.Var(name, 64)
			assumes = append(assumes, c.And(c.SGE(v, c.BV(64, 1)), c.SLE(v, c.BV(64, 0x7f))))
			args = append(args, llse.Val{E: v})
		case "n03":
			v := hg.Var(name, 64)
			assumes = append(assumes, c.And(c.SGE(v, c.BV(64, 0)), c.SLE(v, c.BV(64, 3))))
			args = append(args, llse.Val{E: v})
		}
	}
	hs := llh.NewHShared(hg, t.name, mods...)
	hs.InstallUTF8Stubs()
	for _, a := range assumes {
		hg.St.Assume(a)
		hs.St.Assume(a)
	}
	setup := func(h *llh.H) (*llse.Object, []llse.Val) {
		var ret *llse.Object
		var all []llse.Val
		if t.ret == "text" {
			ret = h.St.NewObject(c, llse.ObjStack, "ret", llh.TextHdr)
			all = append(all, h.Ptr(ret))
		}
		return ret, append(all, args...)
	}
	retG, allG := setup(hg)
	retS, allS := setup(hs)
	resG := hg.Run("c15_g_"+t.name, allG)
	resS := hs.Run("c15_s_"+t.name, allS)
	if len(resG) == 0 || len(resS) == 0 {
		x.r.EngineFailf("%s: vacuity guard: no path in one version", t.name)
		return
	}
	pairs := 0
	for _, a := range resG {
		for _, b := range resS {
			pc := append(append([]*smt.Expr{}, a.PC...), b.PC...)
			if r, _, _ := hg.P.Check(pc, nil); r != smt.Sat {
				continue
			}
			pairs++
			hg.On(a)
			if a.Term == llse.TermAbort || b.Term == llse.TermAbort {
				continue
			}
			if a.Term != b.Term {
				x.r.Oblige(1)
				fl := llh.Failure{Obligation: "same terminal class (normal / Laufzeitfehler)", Asserts: pc, Path: a}
				if _, m, _ := hg.P.Check(pc, hg.Vars); m != nil {
					fl.Model = m
				}
				hg.Failed = append(hg.Failed, fl)
				continue
			}
			if a.Term != llse.TermReturn {
				continue
			}
			same := c.True()
			switch t.ret {
			case "zahl":
				if a.Ret.E != nil && b.Ret.E != nil {
					same = c.Eq(a.Ret.E, b.Ret.E)
				}
			case "komma":
				same = c.Eq(c.FPToBits(a.Ret.E), c.FPToBits(b.Ret.E))
			case "text":
				ca, cb := hg.ReadI64(a, retG, 8).E, hs.ReadI64(b, retS, 8).E
				same = c.Eq(ca, cb)
				if n, ok := ca.ConstU(); ok && n > 0 && n < 64 {
					ba, ok1 := hg.ReadBytesAtGuarded(a, hg.ReadPtr(a, retG, 0), 0, int(n), c.True())
					bb, ok2 := hs.ReadBytesAtGuarded(b, hs.ReadPtr(b, retS, 0), 0, int(n), c.True())
					if ok1 && ok2 {
						for k := range ba {
							same = c.And(same, c.Eq(ba[k], bb[k]))
						}
					} else {
						same = c.BoolC(ok1 == ok2)
					}
				}
			}
			hg.Holds("the generic call returns what the specialisation returns", pc, same)
		}
	}
	if pairs == 0 {
		x.r.EngineFailf("%s: vacuity guard: no compatible path pair", t.name)
	}
	for _, res := range [][]*llse.State{resG, resS} {
		for _, s := range res {
			for _, ft := range s.Faults {
				x.r.Oblige(1)
				hg.Failed = append(hg.Failed, llh.Failure{Obligation: "memory:" + ft.Kind, Model: ft.Model, Detail: ft.Where, Path: s, Asserts: append(append([]*smt.Expr{}, ft.PC...), ft.Cond)})
			}
		}
	}
	x.r.Sample(map[string]any{"template": t.name, "generic": t.gbody, "specialised": t.sbody, "paths_generic": len(resG), "paths_specialised": len(resS), "compatible_pairs": pairs})
	seen := map[string]bool{}
	for i := range hg.Failed {
		fl := &hg.Failed[i]
		key := t.name + "/" + fl.Obligation
		if seen[key] {
			continue
		}
		seen[key] = true
		what := fmt.Sprintf("%s: %s; inputs %s %s", t.name, fl.Obligation, hg.ModelString(fl.Model), fl.Detail)
		txt, ok := x.replay(hg, fl, t)
		if ok {
			x.r.Replayed++
			x.r.Violate(key, what, txt)
		} else {
			x.r.Unconfirmedf("%s (replay: %s)", what, firstLines(txt, 8))
		}
	}
}

func firstLines(s string, n int) string {
	ls := strings.SplitN(s, "\n", n+1)
	if len(ls) > n {
		ls = ls[:n]
	}
	return strings.Join(ls, " | ")
}

// replay: both versions natively on the model's arguments; confirmed if they differ.
func (x *ctx) replay(h *llh.H, fl *llh.Failure, t tmpl) (string, bool) {
	m := h.Refine(fl, nil, nil)
	if m == nil {
		return "no model", false
	}
	run := func(fn string) *llh.NativeResult {
		nc := &llh.NativeCall{Fn: fn, DDPSrc: x.src, Opt: 0, RetC: "ddpint", InitAll: true, Name: "c15"}
		switch t.ret {
		case "text":
			nc.RetC = "void"
			nc.Args = append(nc.Args, llh.CArg{Kind: "outtext"})
		case "komma":
			nc.RetC = "ddpfloat"
		}
		for i, p := range t.params {
			v := m.Vals[fmt.Sprintf("p%d", i)]
			switch p {
			case "komma":
				nc.Args = append(nc.Args, llh.CArg{Kind: "double", Bits: v})
			case "bool":
				nc.Args = append(nc.Args, llh.CArg{Kind: "int", CType: "ddpbool", Bits: v})
			default:
				nc.Args = append(nc.Args, llh.CArg{Kind: "int", CType: "ddpint", Bits: v})
			}
		}
		return llh.RunNativeOpt(x.env, nc, strings.HasPrefix(fl.Obligation, "memory:"))
	}
	a, b := run("c15_g_"+t.name), run("c15_s_"+t.name)
	txt := fmt.Sprintf("template %s\ngeneric:\n\t%s\nspecialised:\n\t%s\ninputs: %s\ngeneric: exit=%d err=%q\n%s\n%s\nspecialised: exit=%d err=%q\n%s\n%s\n", t.name, t.gbody, t.sbody, h.ModelString(m), a.Exit, a.Err, a.Stdout, clip(a.Stderr, 1500), b.Exit, b.Err, b.Stdout, clip(b.Stderr, 1500))
	if a.Err != "" || b.Err != "" {
		return txt, false
	}
	return txt, a.Exit != b.Exit || a.Stdout != b.Stdout
}

func clip(s string, n int) string {
	if len(s) > n {
		return s[:n] + "..."
	}
	return s
}

// typeLevel: unification and struct instantiation over symbolic type terms (GoSE).
func typeLevel(r *core.Report, env *build.Env) {
	s := &goh.Suite{R: r, Env: env, Patterns: []string{"./src/parser", "./src/parser/typechecker", "./src/ddptypes", "./src/ast"}, Files: map[string]string{
		"src/parser/zz_verif_c15.go":             "parser/zz_verif_c15.go",
		"src/parser/typechecker/zz_verif_c15.go": "typechecker/zz_verif_c15.go",
		"src/parser/typechecker/zz_verif_c14.go": "typechecker/zz_verif_c14.go",
		"src/parser/typechecker/zz_verif_c07.go": "typechecker/zz_verif_c07.go",
		"src/parser/typechecker/zz_verif_c04.go": "typechecker/zz_verif_c04.go",
	}}
	if !s.Load() {
		return
	}
	for _, h := range []goh.Harness{
		{Pkg: "src/parser/typechecker", Func: "VerifC15UnifyTwice", Bound: "two argument types as type terms of depth <= 1 with symbolic primitive kinds; second parameter T or T Liste"},
		{Pkg: "src/parser/typechecker", Func: "VerifC15ListMismatch", Bound: "argument type term of depth <= 1 against the parameter 'T Liste'"},
		{Pkg: "src/parser", Func: "VerifC15GenericScope", Bound: "one declaration (variable/Konstante/function) each in the declaration context and at the instantiation site, symbolic 1-byte names, symbolic query"},
		{Pkg: "src/parser", Func: "VerifC15GenericTypeScope", Bound: "one type name each in the declaration context and at the instantiation site, symbolic 1-byte names, symbolic query"},
		{Pkg: "src/parser", Func: "VerifC15VerdictAgrees", Bound: "whole frontend on the generic and on the specialised program: 8 body shapes x 5 type arguments"},
		{Pkg: "src/parser/typechecker", Func: "VerifC15StructInstances", Bound: "two type arguments as type terms of depth <= 1 for a generic Kombination with fields T and T Liste"},
	} {
		s.Run(h)
	}
}
