// Package c13: the token stream is a faithful, positioned partition of the source.
package c13

import (
	"time"

	"verif/engine/build"
	"verif/engine/gose"
	"verif/engine/props/core"
	"verif/engine/props/goh"
)

func Run(r *core.Report, env *build.Env) {
	r.Level = "model_checking"
	s := &goh.Suite{R: r, Env: env, Patterns: []string{"./src/scanner"}, Files: map[string]string{"src/scanner/zz_verif_c13.go": "scanner/zz_verif_c13.go"}}
	if !s.Load() {
		return
	}
	r.Assumptions = append(r.Assumptions, "unicode/utf8 (DecodeRune, Valid, RuneCount) modelled by the UTF-8 specification with path decisions per byte class",
		"strings.ToLower exact for ASCII and Latin-1 letters, identity otherwise", "fmt.Sprintf opaque (message texts outside the claim)")
	r.Outside = append(r.Outside, "sources longer than the stated number of bytes", "diagnostic message texts")
	r.Stub("unicode/utf8.*=UTF-8 specification", "strings.ToLower=ASCII+Latin-1 model", "fmt.*=opaque")
	hs := []goh.Harness{
		{Pkg: "src/scanner", Func: "VerifC13N1", Bound: "all byte strings of length 1, normal mode"},
		{Pkg: "src/scanner", Func: "VerifC13N2", Bound: "all byte strings of length 2, normal mode"},
		{Pkg: "src/scanner", Func: "VerifC13N3", Bound: "all byte strings of length 3, normal mode"},
		{Pkg: "src/scanner", Func: "VerifC13AliasN1", Bound: "all byte strings of length 1, alias mode"},
		{Pkg: "src/scanner", Func: "VerifC13AliasN2", Bound: "all byte strings of length 2, alias mode"},
		{Pkg: "src/scanner", Func: "VerifC13StrictN2", Bound: "all byte strings of length 2, strict capitalisation mode"},
		{Pkg: "src/scanner", Func: "VerifC13Blanks6", Bound: "5 blanks (space, tab, CR, LF in every arrangement) and one token"},
	}
	if r.Tier == "thorough" {
		hs = append(hs,
			goh.Harness{Pkg: "src/scanner", Func: "VerifC13N4", Bound: "all byte strings of length 4, normal mode", Opts: gose.Options{Deadline: 40 * time.Minute}},
			goh.Harness{Pkg: "src/scanner", Func: "VerifC13AliasN3", Bound: "all byte strings of length 3, alias mode"},
			goh.Harness{Pkg: "src/scanner", Func: "VerifC13StrictN3", Bound: "all byte strings of length 3, strict capitalisation mode"},
			goh.Harness{Pkg: "src/scanner", Func: "VerifC13Blanks8", Bound: "7 blanks (space, tab, CR, LF in every arrangement) and one token"},
			goh.Harness{Pkg: "src/scanner", Func: "VerifC13Blanks9", Bound: "8 blanks (space, tab, CR, LF in every arrangement) and one token"},
		)
	}
	sc := gose.ModPath + "/src/scanner."
	for _, h := range hs {
		h.Opts.Summarize = []string{sc + "isAlpha", sc + "isDigit", sc + "isAlphaNumeric", sc + "isSpace", sc + "isUpper", sc + "vAlpha", sc + "vDigit", sc + "vIsBlank"}
		s.Run(h)
	}
	r.Notef("summarised (explored once, merged into one term): scanner.isAlpha/isDigit/isAlphaNumeric/isSpace/isUpper and the reference predicates")
}
