// Package core holds what all property checks share: the report/evidence writer, the
// known-findings policy, and the violation/replay bookkeeping.
package core

import (
	"encoding/json"
	"fmt"
	"os"
	"path/filepath"
	"sort"
	"strings"
	"sync"
	"sync/atomic"
	"time"

	"verif/engine/smt"
)

var VerifDir = "/verif"

type Finding struct {
	Property string   `json:"property"`
	ID       string   `json:"id"`
	Status   string   `json:"status"`          // "known" | "fixed"
	Match    string   `json:"match"`           // exact key of the failing obligation
	Cells    []string `json:"cells,omitempty"` // further exact keys of the same defect (one per failing input)
	Commit   string   `json:"commit,omitempty"`
	What     string   `json:"what"`
}

type Violation struct {
	Key    string
	What   string
	Replay string
	Known  bool
}

type Report struct {
	Property string
	Tier     string
	Seed     int
	Level    string
	Start    time.Time

	mu           sync.Mutex
	Obligations  int64
	Discharged   int64
	Inconclusive []string
	Paths        int64
	Branches     int64
	Programs     int64
	Replayed     int64
	Validated    int64 // traces / concrete runs compared against the native implementation
	Samples      []any
	Functions    map[string]bool
	Bounds       map[string]any
	Stubs        map[string]bool
	Assumptions  []string
	Outside      []string
	Notes        []string
	Violations   []Violation
	Unconfirmed  []string
	Extra        map[string]any
	EngineFail   []string
	known        []Finding
}

func NewReport(prop, tier string, seed int, level string) *Report {
	r := &Report{Property: prop, Tier: tier, Seed: seed, Level: level, Start: time.Now(), Functions: map[string]bool{}, Bounds: map[string]any{},
		Stubs: map[string]bool{}, Extra: map[string]any{}}
	b, err := os.ReadFile(filepath.Join(VerifDir, "known_findings.json"))
	if err == nil {
		var fs []Finding
		if json.Unmarshal(b, &fs) == nil {
			r.known = fs
		}
	}
	return r
}

func (r *Report) AddPaths(paths, branches int) {
	atomic.AddInt64(&r.Paths, int64(paths))
	atomic.AddInt64(&r.Branches, int64(branches))
}
func (r *Report) Oblige(n int)    { atomic.AddInt64(&r.Obligations, int64(n)) }
func (r *Report) Discharge(n int) { atomic.AddInt64(&r.Discharged, int64(n)) }

func (r *Report) Inconclusivef(format string, a ...any) {
	r.mu.Lock()
	defer r.mu.Unlock()
	r.Inconclusive = append(r.Inconclusive, fmt.Sprintf(format, a...))
}
func (r *Report) Notef(format string, a ...any) {
	r.mu.Lock()
	defer r.mu.Unlock()
	r.Notes = append(r.Notes, fmt.Sprintf(format, a...))
}
func (r *Report) EngineFailf(format string, a ...any) {
	r.mu.Lock()
	defer r.mu.Unlock()
	r.EngineFail = append(r.EngineFail, fmt.Sprintf(format, a...))
}
func (r *Report) Sample(s any) {
	r.mu.Lock()
	defer r.mu.Unlock()
	if len(r.Samples) < 12 {
		r.Samples = append(r.Samples, s)
	}
}
func (r *Report) Func(names ...string) {
	r.mu.Lock()
	defer r.mu.Unlock()
	for _, n := range names {
		r.Functions[n] = true
	}
}
func (r *Report) Stub(names ...string) {
	r.mu.Lock()
	defer r.mu.Unlock()
	for _, n := range names {
		r.Stubs[n] = true
	}
}
func (r *Report) Unconfirmedf(format string, a ...any) {
	r.mu.Lock()
	defer r.mu.Unlock()
	r.Unconfirmed = append(r.Unconfirmed, fmt.Sprintf(format, a...))
}

// Violate records a confirmed (replayed) violation. key identifies the failing obligation; a
// key listed as "known" in known_findings.json is reported as KNOWN-FINDING instead.
func (r *Report) Violate(key, what, replayContent string) {
	r.mu.Lock()
	defer r.mu.Unlock()
	for _, v := range r.Violations {
		if v.Key == key {
			return
		}
	}
	v := Violation{Key: key, What: what}
	if f := r.knownFor(key); f != nil {
		v.Known = true
		v.What = f.What
	}
	if !v.Known {
		dir := filepath.Join(VerifDir, "replays")
		os.MkdirAll(dir, 0o755)
		name := fmt.Sprintf("%s_%s.txt", r.Property, sanitize(key))
		v.Replay = filepath.Join(dir, name)
		os.WriteFile(v.Replay, []byte("property: "+r.Property+"\nobligation: "+key+"\n"+what+"\n\n"+replayContent), 0o644)
	}
	r.Violations = append(r.Violations, v)
}

// knownFor returns the listed known finding with exactly this key (nil if there is none).
func (r *Report) knownFor(key string) *Finding {
	for i := range r.known {
		f := &r.known[i]
		if f.Property != r.Property || f.Status != "known" {
			continue
		}
		if f.Match == key {
			return f
		}
		for _, c := range f.Cells {
			if c == key {
				return f
			}
		}
	}
	return nil
}

// IsKnown reports whether key is listed as a known finding (such a violation needs no replay: it
// was replayed when it was recorded).
func (r *Report) IsKnown(key string) bool {
	r.mu.Lock()
	defer r.mu.Unlock()
	return r.knownFor(key) != nil
}

func sanitize(s string) string {
	var sb strings.Builder
	for _, c := range s {
		if c >= 'a' && c <= 'z' || c >= 'A' && c <= 'Z' || c >= '0' && c <= '9' || c == '-' || c == '_' || c == '.' {
			sb.WriteRune(c)
		} else {
			sb.WriteByte('_')
		}
	}
	if sb.Len() > 100 {
		return sb.String()[:100]
	}
	return sb.String()
}

func keys(m map[string]bool) []string {
	var out []string
	for k := range m {
		out = append(out, k)
	}
	sort.Strings(out)
	return out
}

// Finish writes the evidence file, prints the verdict lines and returns the process exit code.
func (r *Report) Finish() int {
	wall := time.Since(r.Start).Seconds()
	unknownViol := 0
	knownCount := map[string]int{}
	for _, v := range r.Violations {
		if v.Known {
			knownCount[v.What]++
		}
	}
	for _, v := range r.Violations {
		if v.Known {
			// one line per listed finding (a finding of a table harness has one key per failing cell)
			if n := knownCount[v.What]; n > 0 {
				knownCount[v.What] = 0
				if n == 1 {
					fmt.Printf("KNOWN-FINDING: property=%s %s [%s]\n", r.Property, v.What, v.Key)
				} else {
					fmt.Printf("KNOWN-FINDING: property=%s %s [%d listed cells, first %s]\n", r.Property, v.What, n, v.Key)
				}
			}
		} else {
			unknownViol++
			fmt.Printf("VIOLATION property=%s replay=%s\n", r.Property, v.Replay)
			fmt.Printf("  %s: %s\n", v.Key, v.What)
		}
	}
	cov := map[string]any{
		"obligations":                   r.Obligations,
		"discharged":                    r.Discharged,
		"inconclusive":                  r.Inconclusive,
		"functions_encoded":             keys(r.Functions),
		"bounds":                        r.Bounds,
		"stubs":                         keys(r.Stubs),
		"outside_claim":                 r.Outside,
		"notes":                         r.Notes,
		"samples":                       r.Samples,
		"solver_queries":                atomic.LoadInt64(&smt.Global.Queries),
		"solver_sat":                    atomic.LoadInt64(&smt.Global.Sat),
		"solver_unsat":                  atomic.LoadInt64(&smt.Global.Unsat),
		"solver_unknown":                atomic.LoadInt64(&smt.Global.Unknown),
		"solver_hard_timeouts":          atomic.LoadInt64(&smt.Global.HardTimeouts),
		"solver_time_s":                 float64(atomic.LoadInt64(&smt.Global.NanosSum)) / 1e9,
		"solver_diffed":                 atomic.LoadInt64(&smt.Global.Diffed),
		"solver_disagreements":          atomic.LoadInt64(&smt.Global.DiffBad),
		"unconfirmed_models":            r.Unconfirmed,
		"engine_failures":               r.EngineFail,
		"known_findings_reported":       len(r.Violations) - unknownViol,
		"explanation":                   "bounded symbolic execution of the real code; every obligation is an SMT query over all values inside the stated bounds",
		"traces_validated_against_impl": r.Validated,
	}
	if len(cov["samples"].([]any)) == 0 {
		cov["samples"] = []any{"(no sample recorded)"}
	}
	for k, v := range r.Extra {
		cov[k] = v
	}
	switch r.Level {
	case "translation_validation":
		cov["programs"] = r.Programs
		cov["disagreements_checked"] = r.Replayed
	default:
		st := r.Paths
		if st < 1 {
			st = 1
		}
		tr := r.Branches
		if tr < 1 {
			tr = 1
		}
		cov["states"] = st
		cov["transitions"] = tr
	}
	ev := map[string]any{
		"property_id": r.Property,
		"tier":        r.Tier,
		"seed":        r.Seed,
		"level":       r.Level,
		"coverage":    cov,
		"assumptions": r.Assumptions,
		"wall_s":      wall,
		"violations":  unknownViol,
	}
	if len(r.Assumptions) == 0 {
		ev["assumptions"] = []string{"none beyond the trusted base stated in MANIFEST.level_note"}
	}
	b, _ := json.MarshalIndent(ev, "", " ")
	os.MkdirAll(filepath.Join(VerifDir, "evidence"), 0o755)
	os.WriteFile(filepath.Join(VerifDir, "evidence", r.Property+".json"), b, 0o644)
	fmt.Printf("%s tier=%s obligations=%d discharged=%d inconclusive=%d paths=%d queries=%d solver_s=%.1f wall_s=%.1f\n", r.Property, r.Tier,
		r.Obligations, r.Discharged, len(r.Inconclusive), r.Paths, smt.Global.Queries, float64(smt.Global.NanosSum)/1e9, wall)
	for _, s := range r.Inconclusive {
		fmt.Println("  inconclusive:", s)
	}
	for _, s := range r.EngineFail {
		fmt.Println("  ENGINE FAILURE:", s)
	}
	if len(r.EngineFail) > 0 {
		return 2
	}
	if unknownViol > 0 {
		return 1
	}
	return 0
}
