// Package c10: modules expose exactly their public names and initialise once, in order.
package c10

import (
	"fmt"
	"os"
	"sort"
	"strings"
	"time"

	"verif/engine/build"
	"verif/engine/llread"
	"verif/engine/llse"
	"verif/engine/props/core"
	"verif/engine/props/goh"
	"verif/engine/props/llh"
	"verif/engine/smt"
)

// Every module's global initialiser takes a value from the environment (c10_wert k: an arbitrary
// number, recorded as an event) and combines it with the globals of the modules it imports; the
// root module reports the combination (c10_melde). If an initialiser ran too late, twice or not at
// all, or if a top-level statement of an imported module ran, the event sequence or the reported
// value differs from the specification for some values.
const externs = `Die öffentliche Funktion c10_wert mit dem Parameter k vom Typ Zahl, gibt eine Zahl zurück,
ist in "c10ext.c" definiert
Und kann so benutzt werden:
	"c10_wert <k>"

Die öffentliche Funktion c10_melde mit dem Parameter v vom Typ Zahl, gibt nichts zurück,
ist in "c10ext.c" definiert
Und kann so benutzt werden:
	"c10_melde <v>"

`

// module texts: ext (the two extern functions), c (leaf), a, b (middle), main variants
type shape struct {
	name  string
	files map[string]string
	// spec: the reported value as a function of the environment values v[k]
	inits []int    // module ids whose initialiser must run exactly once
	order [][2]int // (x, y): event x before event y
	value func(c *smt.Ctx, v map[int]*smt.Expr) *smt.Expr
	never []int // event ids that must not occur
}

const modExt = externs

const modC = `Binde "c10ext" ein.

Die öffentliche Zahl c ist c10_wert 1.
Die Zahl c_privat ist 5.

c10_melde 91.
`

const modA = `Binde "c10ext" ein.
Binde "c10c" ein.

Die öffentliche Zahl a ist c plus (c10_wert 2).

c10_melde 92.
`

const modB = `Binde "c10ext" ein.
Binde "c10c" ein.

Die öffentliche Zahl b ist c mal 2 plus (c10_wert 3).

c10_melde 93.
`

// b depends on its sibling a
const modBdepA = `Binde "c10ext" ein.
Binde "c10a" ein.
Binde "c10c" ein.

Die öffentliche Zahl b ist a mal 2 plus c plus (c10_wert 3).

c10_melde 93.
`

// a middle module that imports the leaf and a sibling which imports the leaf too (the leaf listed
// first / last), and one that imports b (which depends on its sibling a) before a
const modTopLeafFirst = `Binde "c10ext" ein.
Binde "c10c" ein.
Binde "c10b" ein.

Die öffentliche Zahl t ist b plus c plus (c10_wert 5).

c10_melde 95.
`

const modTopLeafLast = `Binde "c10ext" ein.
Binde "c10b" ein.
Binde "c10c" ein.

Die öffentliche Zahl t ist b plus c plus (c10_wert 5).

c10_melde 95.
`

const modTopSibling = `Binde "c10ext" ein.
Binde "c10c" ein.
Binde "c10b" ein.
Binde "c10a" ein.

Die öffentliche Zahl t ist b plus a plus (c10_wert 5).

c10_melde 95.
`

func add(c *smt.Ctx, xs ...*smt.Expr) *smt.Expr {
	r := xs[0]
	for _, x := range xs[1:] {
		r = c.Add(r, x)
	}
	return r
}

func two(c *smt.Ctx, x *smt.Expr) *smt.Expr { return c.Mul(x, c.BV(64, 2)) }

var shapes = []shape{
	{name: "chain", files: map[string]string{"c10ext.ddp": modExt, "c10c.ddp": modC, "c10a.ddp": modA,
		"main.ddp": "Binde \"c10ext\" ein.\nBinde \"c10a\" ein.\n\nDie Zahl m ist a plus (c10_wert 4).\nc10_melde m.\n"},
		inits: []int{1, 2, 4}, order: [][2]int{{1, 2}, {2, 4}}, never: []int{91, 92},
		value: func(c *smt.Ctx, v map[int]*smt.Expr) *smt.Expr { return add(c, add(c, v[1], v[2]), v[4]) }},
	{name: "diamond", files: map[string]string{"c10ext.ddp": modExt, "c10c.ddp": modC, "c10a.ddp": modA, "c10b.ddp": modB,
		"main.ddp": "Binde \"c10ext\" ein.\nBinde \"c10a\" ein.\nBinde \"c10b\" ein.\n\nDie Zahl m ist a plus b plus (c10_wert 4).\nc10_melde m.\n"},
		inits: []int{1, 2, 3, 4}, order: [][2]int{{1, 2}, {1, 3}, {2, 4}, {3, 4}}, never: []int{91, 92, 93},
		value: func(c *smt.Ctx, v map[int]*smt.Expr) *smt.Expr {
			return add(c, add(c, add(c, v[1], v[2]), add(c, two(c, v[1]), v[3])), v[4])
		}},
	{name: "diamond_leaf_first", files: map[string]string{"c10ext.ddp": modExt, "c10c.ddp": modC, "c10a.ddp": modA, "c10b.ddp": modB,
		"main.ddp": "Binde \"c10ext\" ein.\nBinde \"c10c\" ein.\nBinde \"c10b\" ein.\nBinde \"c10a\" ein.\n\nDie Zahl m ist a plus b plus c plus (c10_wert 4).\nc10_melde m.\n"},
		inits: []int{1, 2, 3, 4}, order: [][2]int{{1, 2}, {1, 3}, {2, 4}, {3, 4}}, never: []int{91, 92, 93},
		value: func(c *smt.Ctx, v map[int]*smt.Expr) *smt.Expr {
			return add(c, add(c, add(c, add(c, v[1], v[2]), add(c, two(c, v[1]), v[3])), v[1]), v[4])
		}},
	{name: "diamond_leaf_last", files: map[string]string{"c10ext.ddp": modExt, "c10c.ddp": modC, "c10a.ddp": modA, "c10b.ddp": modB,
		"main.ddp": "Binde \"c10ext\" ein.\nBinde \"c10a\" ein.\nBinde \"c10b\" ein.\nBinde \"c10c\" ein.\n\nDie Zahl m ist a plus b plus c plus (c10_wert 4).\nc10_melde m.\n"},
		inits: []int{1, 2, 3, 4}, order: [][2]int{{1, 2}, {1, 3}, {2, 4}, {3, 4}}, never: []int{91, 92, 93},
		value: func(c *smt.Ctx, v map[int]*smt.Expr) *smt.Expr {
			return add(c, add(c, add(c, add(c, v[1], v[2]), add(c, two(c, v[1]), v[3])), v[1]), v[4])
		}},
	{name: "sibling_dependency", files: map[string]string{"c10ext.ddp": modExt, "c10c.ddp": modC, "c10a.ddp": modA, "c10b.ddp": modBdepA,
		"main.ddp": "Binde \"c10ext\" ein.\nBinde \"c10b\" ein.\nBinde \"c10a\" ein.\n\nDie Zahl m ist a plus b plus (c10_wert 4).\nc10_melde m.\n"},
		inits: []int{1, 2, 3, 4}, order: [][2]int{{1, 2}, {2, 3}, {1, 3}, {3, 4}}, never: []int{91, 92, 93},
		value: func(c *smt.Ctx, v map[int]*smt.Expr) *smt.Expr {
			a := add(c, v[1], v[2])
			b := add(c, add(c, two(c, a), v[1]), v[3])
			return add(c, add(c, a, b), v[4])
		}},
	{name: "nested_leaf_first", files: map[string]string{"c10ext.ddp": modExt, "c10c.ddp": modC, "c10b.ddp": modB, "c10t.ddp": modTopLeafFirst,
		"main.ddp": "Binde \"c10ext\" ein.\nBinde \"c10t\" ein.\n\nDie Zahl m ist t plus (c10_wert 4).\nc10_melde m.\n"},
		inits: []int{1, 3, 5, 4}, order: [][2]int{{1, 3}, {3, 5}, {1, 5}, {5, 4}}, never: []int{91, 93, 95},
		value: func(c *smt.Ctx, v map[int]*smt.Expr) *smt.Expr {
			return add(c, add(c, add(c, add(c, two(c, v[1]), v[3]), v[1]), v[5]), v[4])
		}},
	{name: "nested_leaf_last", files: map[string]string{"c10ext.ddp": modExt, "c10c.ddp": modC, "c10b.ddp": modB, "c10t.ddp": modTopLeafLast,
		"main.ddp": "Binde \"c10ext\" ein.\nBinde \"c10t\" ein.\n\nDie Zahl m ist t plus (c10_wert 4).\nc10_melde m.\n"},
		inits: []int{1, 3, 5, 4}, order: [][2]int{{1, 3}, {3, 5}, {1, 5}, {5, 4}}, never: []int{91, 93, 95},
		value: func(c *smt.Ctx, v map[int]*smt.Expr) *smt.Expr {
			return add(c, add(c, add(c, add(c, two(c, v[1]), v[3]), v[1]), v[5]), v[4])
		}},
	{name: "nested_sibling_dependency", files: map[string]string{"c10ext.ddp": modExt, "c10c.ddp": modC, "c10a.ddp": modA, "c10b.ddp": modBdepA, "c10t.ddp": modTopSibling,
		"main.ddp": "Binde \"c10ext\" ein.\nBinde \"c10t\" ein.\n\nDie Zahl m ist t plus (c10_wert 4).\nc10_melde m.\n"},
		inits: []int{1, 2, 3, 5, 4}, order: [][2]int{{1, 2}, {2, 3}, {1, 3}, {3, 5}, {2, 5}, {5, 4}}, never: []int{91, 92, 93, 95},
		value: func(c *smt.Ctx, v map[int]*smt.Expr) *smt.Expr {
			a := add(c, v[1], v[2])
			b := add(c, add(c, two(c, a), v[1]), v[3])
			return add(c, add(c, add(c, b, a), v[5]), v[4])
		}},
	{name: "selective", files: map[string]string{"c10ext.ddp": modExt, "c10c.ddp": modC, "c10a.ddp": modA, "c10b.ddp": modB,
		"main.ddp": "Binde \"c10ext\" ein.\nBinde b aus \"c10b\" ein.\nBinde a aus \"c10a\" ein.\n\nDie Zahl m ist a minus b plus (c10_wert 4).\nc10_melde m.\n"},
		inits: []int{1, 2, 3, 4}, order: [][2]int{{1, 2}, {1, 3}, {2, 4}, {3, 4}}, never: []int{91, 92, 93},
		value: func(c *smt.Ctx, v map[int]*smt.Expr) *smt.Expr {
			return add(c, c.Sub(add(c, v[1], v[2]), add(c, two(c, v[1]), v[3])), v[4])
		}},
	{name: "code_before_and_after_import", files: map[string]string{"c10ext.ddp": modExt, "c10c.ddp": modC, "c10a.ddp": modA,
		"main.ddp": "Binde \"c10ext\" ein.\nDie Zahl vorher ist c10_wert 4.\nBinde \"c10a\" ein.\n\nDie Zahl m ist a plus vorher plus (c10_wert 5).\nc10_melde m.\n"},
		inits: []int{1, 2, 4, 5}, order: [][2]int{{1, 2}, {2, 5}, {4, 5}}, never: []int{91, 92},
		value: func(c *smt.Ctx, v map[int]*smt.Expr) *smt.Expr { return add(c, add(c, add(c, v[1], v[2]), v[4]), v[5]) }},
}

type ctx struct {
	r     *core.Report
	env   *build.Env
	rt    []*llread.Module
	lists *llread.Module
}

func Run(r *core.Report, env *build.Env) {
	r.Level = "model_checking"
	r.Bounds["import_graphs"] = fmt.Sprintf("%d shapes over up to 6 modules: chain, diamond (leaf also imported directly, first or last; selective imports), sibling dependency, the same arrangements below a module the main module imports, code before and after an import", len(shapes))
	r.Bounds["values"] = "every module's initialiser obtains an unconstrained 64-bit number from the environment; the reported combination is compared for all values"
	r.Bounds["visibility"] = "two in-memory modules: every subset of 3 public and 3 private library declarations (function, variable, Konstante) x 8 import forms x 6 uses; two libraries with same-named private helpers"
	r.Assumptions = append(r.Assumptions, "c10_wert/c10_melde are extern functions modelled as event-recording stubs returning fresh symbolic numbers", "realloc never fails")
	r.Outside = append(r.Outside, "directory and recursive imports, missing files, import cycles (file system walks and recursive Parse)", "more than 5 modules", "name mangling collisions of module paths", "public type declarations")
	if only := os.Getenv("VERIF_ONLY"); only == "" || strings.HasPrefix(only, "VerifC10") {
		visibility(r, env)
		if strings.HasPrefix(only, "VerifC10") {
			return
		}
	}
	x := &ctx{r: r, env: env}
	var err error
	if x.rt, err = env.RuntimeIR(); err != nil {
		r.EngineFailf("runtime IR: %v", err)
		return
	}
	if x.lists, err = env.ListDefs(); err != nil {
		r.EngineFailf("list defs: %v", err)
		return
	}
	var cells []llh.CellFn
	for _, sh := range shapes {
		sh := sh
		if only := os.Getenv("VERIF_ONLY"); only != "" && !strings.Contains(sh.name, only) {
			continue
		}
		cells = append(cells, func() { x.cell(sh) })
	}
	llh.RunParallel(llh.Wrap(r, cells), 8)
}

func (x *ctx) cell(sh shape) {
	cm, err := x.env.CompileProject(sh.files, "main.ddp", 0)
	if err != nil {
		x.r.EngineFailf("%s: compile: %v", sh.name, err)
		return
	}
	if cm.Mod == nil {
		x.r.EngineFailf("%s: program rejected by kddp: %s", sh.name, cm.Stderr)
		return
	}
	x.r.Programs++
	mods := append([]*llread.Module{cm.Mod, x.lists}, x.rt...)
	h := llh.NewH(x.r, sh.name, 60*time.Second, 1, mods...)
	defer h.Close()
	c := h.C
	h.Ex.Sink("c10_wert")
	h.Ex.Sink("c10_melde")
	res := h.Run("ddp_ddpmain", nil)
	if len(res) == 0 {
		x.r.EngineFailf("%s: vacuity guard: no path", sh.name)
		return
	}
	for _, s := range res {
		h.On(s)
		if s.Term != llse.TermReturn {
			h.Fail("the program ends normally")
			continue
		}
		// events: c10_wert k (k concrete) and c10_melde v
		pos := map[int][]int{}
		vals := map[int]*smt.Expr{}
		var reported []*smt.Expr
		for i, ev := range s.Events {
			switch ev.Name {
			case "c10_wert":
				k, ok := ev.Args[0].E.ConstU()
				if !ok {
					h.Fail("initialiser identities are concrete")
					continue
				}
				pos[int(k)] = append(pos[int(k)], i)
				vals[int(k)] = ev.Ret.E
			case "c10_melde":
				if k, ok := ev.Args[0].E.ConstU(); ok && k >= 90 && k <= 99 {
					pos[int(k)] = append(pos[int(k)], i)
				} else {
					reported = append(reported, ev.Args[0].E)
				}
			}
		}
		okInit := true
		for _, k := range sh.inits {
			x.r.Oblige(1)
			if len(pos[k]) == 1 {
				x.r.Discharge(1)
			} else {
				okInit = false
				h.Failed = append(h.Failed, llh.Failure{Obligation: fmt.Sprintf("the global initialiser with identity %d runs exactly once", k), Path: s, Asserts: append([]*smt.Expr{}, s.PC...), Detail: fmt.Sprintf("ran %d times; events %s", len(pos[k]), eventString(s))})
			}
		}
		for _, k := range sh.never {
			x.r.Oblige(1)
			if len(pos[k]) == 0 {
				x.r.Discharge(1)
			} else {
				h.Failed = append(h.Failed, llh.Failure{Obligation: "top-level statements of imported modules are not executed", Path: s, Asserts: append([]*smt.Expr{}, s.PC...), Detail: "events " + eventString(s)})
			}
		}
		if okInit {
			for _, o := range sh.order {
				x.r.Oblige(1)
				if pos[o[0]][0] < pos[o[1]][0] {
					x.r.Discharge(1)
				} else {
					h.Failed = append(h.Failed, llh.Failure{Obligation: "a module is initialised after the modules it imports and before the importer's following code", Path: s, Asserts: append([]*smt.Expr{}, s.PC...), Detail: fmt.Sprintf("%d not before %d; events %s", o[0], o[1], eventString(s))})
				}
			}
			if len(reported) != 1 {
				h.Fail("the root module reports once")
			} else {
				h.Holds("the root module sees the initialised globals of its imports", s.PC, c.Eq(reported[0], sh.value(c, vals)))
			}
		}
	}
	x.r.Sample(map[string]any{"shape": sh.name, "main": sh.files["main.ddp"], "paths": len(res)})
	for _, s := range res {
		for _, ft := range s.Faults {
			x.r.Oblige(1)
			h.Failed = append(h.Failed, llh.Failure{Obligation: "memory:" + ft.Kind, Model: ft.Model, Detail: ft.Where, Path: s, Asserts: append(append([]*smt.Expr{}, ft.PC...), ft.Cond)})
		}
	}
	seen := map[string]bool{}
	for i := range h.Failed {
		fl := &h.Failed[i]
		key := sh.name + "/" + fl.Obligation
		if seen[key] {
			continue
		}
		seen[key] = true
		txt, ok := x.replay(sh, fl)
		what := fmt.Sprintf("%s: %s %s", sh.name, fl.Obligation, fl.Detail)
		if ok {
			x.r.Replayed++
			x.r.Violate(key, what, txt)
		} else {
			x.r.Unconfirmedf("%s (replay: %s)", what, firstLines(txt, 10))
		}
	}
}

func eventString(s *llse.State) string {
	var out []string
	for _, ev := range s.Events {
		if k, ok := ev.Args[0].E.ConstU(); ok {
			out = append(out, fmt.Sprintf("%s(%d)", strings.TrimPrefix(ev.Name, "c10_"), k))
		} else {
			out = append(out, strings.TrimPrefix(ev.Name, "c10_")+"(..)")
		}
	}
	return strings.Join(out, " ")
}

func firstLines(s string, n int) string {
	ls := strings.SplitN(s, "\n", n+1)
	if len(ls) > n {
		ls = ls[:n]
	}
	return strings.Join(ls, " | ")
}

// replay: the program natively with c10_wert k = 1000*k+7; the event log and the reported value
// are compared with the specification evaluated on those values.
func (x *ctx) replay(sh shape, fl *llh.Failure) (string, bool) {
	files := map[string]string{}
	for k, v := range sh.files {
		if k != "main.ddp" {
			files[k] = v
		}
	}
	nc := &llh.NativeCall{Fn: "ddp_ddpmain", RetC: "ddpint", DDPSrc: sh.files["main.ddp"], Name: "main", Files: files,
		ExtraC: "ddpint c10_wert(ddpint k) { printf(\"EV %lld\\n\", (long long)k); return 1000 * k + 7; }\nvoid c10_melde(ddpint v) { if (v >= 90 && v <= 99) printf(\"EV %lld\\n\", (long long)v); else printf(\"REPORT %lld\\n\", (long long)v); }\n"}
	nr := llh.RunNative(x.env, nc)
	// expected
	c := smt.NewCtx()
	vals := map[int]*smt.Expr{}
	for k := 1; k <= 9; k++ {
		vals[k] = c.BV(64, uint64(1000*k+7))
	}
	want, _ := smt.Eval(sh.value(c, vals), map[string]uint64{})
	var evs []int
	for _, l := range strings.Split(nr.Stdout, "\n") {
		var k int
		if n, _ := fmt.Sscanf(l, "EV %d", &k); n == 1 {
			evs = append(evs, k)
		}
	}
	bad := []string{}
	count := map[int]int{}
	first := map[int]int{}
	for i, k := range evs {
		if count[k] == 0 {
			first[k] = i
		}
		count[k]++
	}
	for _, k := range sh.inits {
		if count[k] != 1 {
			bad = append(bad, fmt.Sprintf("initialiser %d ran %d times", k, count[k]))
		}
	}
	for _, k := range sh.never {
		if count[k] != 0 {
			bad = append(bad, fmt.Sprintf("top-level statement %d of an imported module ran", k))
		}
	}
	for _, o := range sh.order {
		if count[o[0]] == 1 && count[o[1]] == 1 && first[o[0]] > first[o[1]] {
			bad = append(bad, fmt.Sprintf("%d ran after %d", o[0], o[1]))
		}
	}
	if !strings.Contains(nr.Stdout, fmt.Sprintf("REPORT %d\n", int64(want))) {
		bad = append(bad, fmt.Sprintf("reported value is not %d", int64(want)))
	}
	sort.Strings(bad)
	txt := fmt.Sprintf("import graph %s\n--- main.ddp ---\n%s\nexpected report: %d\nnative: exit=%d err=%q\ndeviations: %v\nstdout:\n%s\nstderr:\n%s\n", sh.name, sh.files["main.ddp"], int64(want), nr.Exit, nr.Err, bad, nr.Stdout, nr.Stderr)
	if nr.Err != "" {
		return txt, false
	}
	return txt, nr.Exit != 0 || len(bad) > 0
}

// visibility: the frontend part, executed by GoSE on two in-memory modules.
func visibility(r *core.Report, env *build.Env) {
	s := &goh.Suite{R: r, Env: env, Patterns: []string{"./src/parser", "./src/ast", "./src/ddptypes"}, Files: map[string]string{
		"src/parser/zz_verif_c10.go": "parser/zz_verif_c10.go",
		"src/parser/zz_verif_c19.go": "parser/zz_verif_c19.go",
	}}
	if !s.Load() {
		return
	}
	for _, h := range []goh.Harness{
		{Pkg: "src/parser", Func: "VerifC10Visibility", Bound: "every subset of 3 public and 3 private library declarations (function, variable, Konstante) x 8 import forms x 6 uses"},
		{Pkg: "src/parser", Func: "VerifC10DistinctPrivates", Bound: "two libraries with same-named private helpers and public functions using them, imported together"},
	} {
		s.Run(h)
	}
}
