package llh

import (
	"fmt"

	"verif/engine/llread"
	"verif/engine/llse"
	"verif/engine/smt"
)

// CP is a symbolic Unicode scalar value with a fixed encoded length.
type CP struct {
	V *smt.Expr // BV32
	N int
}

// SymCP declares a scalar value whose UTF-8 encoding has exactly n bytes (NUL and surrogates excluded).
func (h *H) SymCP(name string, n int) CP {
	c := h.C
	v := h.Var(name, 32)
	var lo, hi uint64
	switch n {
	case 1:
		lo, hi = 1, 0x7f
	case 2:
		lo, hi = 0x80, 0x7ff
	case 3:
		lo, hi = 0x800, 0xffff
	case 4:
		lo, hi = 0x10000, 0x10ffff
	}
	h.St.Assume(c.UGE(v, c.BV(32, lo)))
	h.St.Assume(c.ULE(v, c.BV(32, hi)))
	if n == 3 {
		h.St.Assume(c.Or(c.ULT(v, c.BV(32, 0xd800)), c.UGT(v, c.BV(32, 0xdfff))))
	}
	return CP{V: v, N: n}
}

// EncodeCP is the UTF-8 specification encoder for a scalar value of known length.
func EncodeCP(c *smt.Ctx, cp CP) []*smt.Expr {
	v := cp.V
	b := func(hi, lo int) *smt.Expr { return c.Extract(v, hi, lo) }
	cont := func(hi, lo int) *smt.Expr { return c.Concat(c.BV(2, 2), b(hi, lo)) }
	switch cp.N {
	case 1:
		return []*smt.Expr{c.Extract(v, 7, 0)}
	case 2:
		return []*smt.Expr{c.Concat(c.BV(3, 6), b(10, 6)), cont(5, 0)}
	case 3:
		return []*smt.Expr{c.Concat(c.BV(4, 14), b(15, 12)), cont(11, 6), cont(5, 0)}
	default:
		return []*smt.Expr{c.Concat(c.BV(5, 30), b(20, 18)), cont(17, 12), cont(11, 6), cont(5, 0)}
	}
}

// EncodeAny is the specification encoder for a scalar value of unknown length: returns up to
// four bytes and the length term (BV64); invalid scalar values give length -1.
func EncodeAny(c *smt.Ctx, v *smt.Expr) ([4]*smt.Expr, *smt.Expr) {
	var out [4]*smt.Expr
	is1 := c.ULE(v, c.BV(32, 0x7f))
	is2 := c.ULE(v, c.BV(32, 0x7ff))
	sur := c.And(c.UGE(v, c.BV(32, 0xd800)), c.ULE(v, c.BV(32, 0xdfff)))
	is3 := c.ULE(v, c.BV(32, 0xffff))
	is4 := c.ULE(v, c.BV(32, 0x10ffff))
	e1 := EncodeCP(c, CP{V: v, N: 1})
	e2 := EncodeCP(c, CP{V: v, N: 2})
	e3 := EncodeCP(c, CP{V: v, N: 3})
	e4 := EncodeCP(c, CP{V: v, N: 4})
	z := c.BV(8, 0)
	pick := func(k int) *smt.Expr {
		get := func(e []*smt.Expr) *smt.Expr {
			if k < len(e) {
				return e[k]
			}
			return z
		}
		return c.Ite(is1, get(e1), c.Ite(is2, get(e2), c.Ite(is3, get(e3), get(e4))))
	}
	for k := 0; k < 4; k++ {
		out[k] = pick(k)
	}
	n := c.Ite(is1, c.BV(64, 1), c.Ite(is2, c.BV(64, 2), c.Ite(sur, c.BVs(64, -1), c.Ite(is3, c.BV(64, 3), c.Ite(is4, c.BV(64, 4), c.BVs(64, -1))))))
	return out, n
}

// DecodeBytes is the specification decoder: the scalar value encoded by the first n bytes of bs.
func DecodeBytes(c *smt.Ctx, bs []*smt.Expr, n int) *smt.Expr {
	lo6 := func(b *smt.Expr) *smt.Expr { return c.Extract(b, 5, 0) }
	switch n {
	case 1:
		return c.ZExt(bs[0], 32)
	case 2:
		return c.ZExt(c.Concat(c.Extract(bs[0], 4, 0), lo6(bs[1])), 32)
	case 3:
		return c.ZExt(c.Concat(c.Extract(bs[0], 3, 0), c.Concat(lo6(bs[1]), lo6(bs[2]))), 32)
	default:
		return c.ZExt(c.Concat(c.Extract(bs[0], 2, 0), c.Concat(lo6(bs[1]), c.Concat(lo6(bs[2]), lo6(bs[3])))), 32)
	}
}

// TextOfCPs builds a ddpstring from code points (nil slice => the empty text {NULL,0}).
func (h *H) TextOfCPs(name string, cps []CP, hdr *llse.Object, off int64) *Text {
	if len(cps) == 0 {
		return h.NewText(name, nil, hdr, off)
	}
	var bytes []*smt.Expr
	for _, cp := range cps {
		bytes = append(bytes, EncodeCP(h.C, cp)...)
	}
	return h.NewText(name, bytes, hdr, off)
}

// Shapes enumerates all tuples of encoded lengths for k code points.
func Shapes(k int) [][]int {
	if k == 0 {
		return [][]int{{}}
	}
	var out [][]int
	for _, s := range Shapes(k - 1) {
		for n := 1; n <= 4; n++ {
			out = append(out, append(append([]int{}, s...), n))
		}
	}
	return out
}

func ShapeName(s []int) string {
	r := ""
	for _, n := range s {
		r += fmt.Sprint(n)
	}
	if r == "" {
		return "empty"
	}
	return r
}

// InstallUTF8Stubs models c32rtomb/mbrtoc32 by the UTF-8 specification (the runtime sets a UTF-8 locale).
func (h *H) InstallUTF8Stubs() {
	ex := h.Ex
	i8 := &llread.Type{Kind: llread.TInt, Bits: 8, Size: 1}
	i32 := &llread.Type{Kind: llread.TInt, Bits: 32, Size: 4}
	ex.Externs["c32rtomb"] = func(ex *llse.Exec, st *llse.State, in *llread.Inst, a []llse.Val) []*llse.State {
		c := ex.C
		bytes, n := EncodeAny(c, a[1].E)
		// fork on the length (at most 5 outcomes)
		var ks []int64
		for _, k := range []int64{1, 2, 3, 4, -1} {
			cond := c.Eq(n, c.BVs(64, k))
			if r, _, _ := ex.P.Check(append(append([]*smt.Expr{}, st.PC...), cond), nil); r == smt.Sat {
				ks = append(ks, k)
			}
		}
		if len(ks) == 0 {
			st.Term = llse.TermAbort
			st.TermMsg = "c32rtomb: no feasible length"
			return []*llse.State{st}
		}
		states := []*llse.State{st}
		for i := 1; i < len(ks); i++ {
			states = append(states, ex.Fork(st))
		}
		for i, k := range ks {
			s := states[i]
			s.Assume(c.Eq(n, c.BVs(64, k)))
			okw := true
			for j := int64(0); j < k && okw; j++ {
				okw = ex.Store(s, llse.Val{E: c.Add(a[0].E, c.BV(64, uint64(j))), Obj: a[0].Obj, Off: addOff(c, a[0], j)}, llse.Val{E: bytes[j]}, i8, "c32rtomb")
			}
			if !okw && s.Term == llse.Running {
				s.Term = llse.TermAbort
				s.TermMsg = "c32rtomb store failed (fault recorded)"
			}
			ex.SetResult(s, in, llse.Val{E: c.BVs(64, k)})
		}
		return states
	}
	ex.Externs["mbrtoc32"] = func(ex *llse.Exec, st *llse.State, in *llread.Inst, a []llse.Val) []*llse.State {
		c := ex.C
		// n (a[2]) is the number of bytes of the first character as computed by utf8_num_bytes
		states, vals := ex.Concretize(st, a[2].E, 8, "mbrtoc32 length")
		for i, s := range states {
			n := int(vals[i])
			if n == 0 || n > 4 {
				// nothing decoded, *out untouched (glibc returns -2 for n == 0)
				ex.SetResult(s, in, llse.Val{E: c.BVs(64, -2)})
				continue
			}
			var bs []*smt.Expr
			okr := true
			for j := 0; j < n && okr; j++ {
				v, ok := ex.Load(s, llse.Val{E: c.Add(a[1].E, c.BV(64, uint64(j))), Obj: a[1].Obj, Off: addOff(c, a[1], int64(j))}, i8, "mbrtoc32")
				okr = ok
				if ok {
					bs = append(bs, v.E)
				}
			}
			if !okr {
				if s.Term == llse.Running {
					s.Term = llse.TermAbort
					s.TermMsg = "mbrtoc32 load failed (fault recorded)"
				}
				continue
			}
			if !ex.Store(s, a[0], llse.Val{E: DecodeBytes(c, bs, n)}, i32, "mbrtoc32") {
				if s.Term == llse.Running {
					s.Term = llse.TermAbort
					s.TermMsg = "mbrtoc32 store failed (fault recorded)"
				}
				continue
			}
			ex.SetResult(s, in, llse.Val{E: c.BV(64, uint64(n))})
		}
		if len(states) == 0 {
			return []*llse.State{st}
		}
		return states
	}
	h.R.Stub("c32rtomb=UTF-8 specification encoder", "mbrtoc32=UTF-8 specification decoder")
}

func addOff(c *smt.Ctx, p llse.Val, k int64) *smt.Expr {
	if p.Obj == 0 {
		return nil
	}
	return c.Add(p.Off, c.BV(64, uint64(k)))
}
