// Package llh has the harness helpers shared by the LLVM-IR based checks: building DDP values
// (lists, texts) in the symbolic heap, running a cell, and turning terminal paths into obligations.
package llh

import (
	"fmt"
	"os"
	"runtime"
	"sort"
	"strings"
	"sync"
	"time"

	"verif/engine/llread"
	"verif/engine/llse"
	"verif/engine/props/core"
	"verif/engine/smt"
)

// H is the per-cell harness context (one solver, one expression context).
type H struct {
	C    *smt.Ctx
	P    *smt.Prover
	Ex   *llse.Exec
	St   *llse.State
	R    *core.Report
	Cell string
	Vars []*smt.Expr // model variables of the cell
	cur  *llse.State
	// result bookkeeping
	Failed []Failure
}

type Failure struct {
	Obligation string
	Model      *smt.Model
	Detail     string
	Asserts    []*smt.Expr // the satisfiable query (path condition and negated property)
	Path       *llse.State // the terminal path the obligation belongs to
}

func NewH(r *core.Report, cell string, timeout time.Duration, diff int, mods ...*llread.Module) *H {
	c := smt.NewCtx()
	p := smt.NewProver(c, timeout, diff)
	ex := llse.NewExec(c, p, mods...)
	h := &H{C: c, P: p, Ex: ex, R: r, Cell: cell}
	h.St = ex.NewState()
	if os.Getenv("VERIF_TRACE") != "" {
		ex.LogTrace = true
	}
	return h
}

func (h *H) Close() { h.P.Close() }

func (h *H) Var(name string, w int) *smt.Expr {
	v := h.C.Var(name, smt.BVSort(w))
	h.Vars = append(h.Vars, v)
	h.Ex.ModelVars = h.Vars
	return v
}
func (h *H) FVar(name string) *smt.Expr {
	v := h.C.Var(name, smt.FP)
	h.Vars = append(h.Vars, v)
	h.Ex.ModelVars = h.Vars
	return v
}

// Holds discharges the obligation pc ⇒ prop. A counter-model is recorded as a failure.
func (h *H) Holds(name string, pc []*smt.Expr, prop *smt.Expr) bool {
	h.R.Oblige(1)
	as := append(append([]*smt.Expr{}, pc...), h.C.Not(prop))
	r, m, note := h.P.Check(as, h.Vars)
	switch r {
	case smt.Unsat:
		h.R.Discharge(1)
		return true
	case smt.Sat:
		h.Failed = append(h.Failed, Failure{Obligation: name, Model: m, Detail: note, Asserts: as, Path: h.cur})
		return false
	default:
		h.R.Inconclusivef("%s/%s: solver %s %s", h.Cell, name, r, note)
		return true
	}
}

// Reachable is the vacuity guard: pc ∧ cond must be satisfiable.
func (h *H) Reachable(name string, pc []*smt.Expr, cond *smt.Expr) bool {
	as := append(append([]*smt.Expr{}, pc...), cond)
	r, _, note := h.P.Check(as, nil)
	if r == smt.Sat {
		return true
	}
	if r == smt.Unknown {
		h.R.Inconclusivef("%s/%s: reachability %s %s", h.Cell, name, r, note)
		return true
	}
	return false
}

// Run executes fn on the prepared state and returns terminal paths; executor statistics are
// folded into the report. Aborted paths are reported as inconclusive.
func (h *H) Run(fn string, args []llse.Val) []*llse.State {
	f := h.Ex.FindFunc(fn)
	if f == nil || f.Decl {
		h.R.EngineFailf("%s: function %s not found in the emitted IR", h.Cell, fn)
		return nil
	}
	h.Ex.Call(h.St, f, args)
	if f := os.Getenv("VERIF_CELL"); f != "" && !strings.Contains(h.Cell, f) {
		return nil
	}
	res := h.Ex.Run(h.St)
	if os.Getenv("VERIF_TRACE") != "" {
		for _, s := range res {
			if len(s.Faults) > 0 || s.Term == llse.TermAbort {
				fmt.Fprintf(os.Stderr, "=== %s term=%v %s faults=%v\n%s\n", h.Cell, s.Term, s.TermMsg, s.Faults, strings.Join(s.Trace, "\n"))
			}
		}
	}
	h.R.Func(fn)
	for n := range h.Ex.FuncsRun {
		h.R.Func(n)
	}
	for n := range h.Ex.StubsUsed {
		h.R.Stub(n)
	}
	h.R.AddPaths(len(res), h.Ex.Forks+len(res))
	for _, s := range res {
		if s.Term == llse.TermAbort {
			// a path that stopped because a recorded fault made it impossible is not inconclusive
			if len(s.Faults) > 0 && (strings.Contains(s.TermMsg, "fault recorded") || strings.Contains(s.TermMsg, "always out of bounds") ||
				strings.Contains(s.TermMsg, "invalid") || strings.Contains(s.TermMsg, "double free") || strings.Contains(s.TermMsg, "dead block") || strings.Contains(s.TermMsg, "interior")) {
				continue
			}
			h.R.Inconclusivef("%s: path aborted: %s", h.Cell, s.TermMsg)
		}
	}
	return res
}

// ---- DDP value builders

const (
	ListHdr = 24
	TextHdr = 16
	AnySize = 24
)

type List struct {
	Hdr      *llse.Object
	Arr      *llse.Object
	Len, Cap *smt.Expr
	ElemSize int
}

// SymList builds a list header whose array has symbolic length/capacity (array-backed contents).
// Assumes 0 <= len <= cap <= maxCap and cap >= 1.
func (h *H) SymList(name string, elemSize int, maxCap uint64) *List {
	c := h.C
	ln := h.Var(name+"_len", 64)
	cp := h.Var(name+"_cap", 64)
	h.St.Assume(c.SLE(c.BV(64, 0), ln))
	h.St.Assume(c.SLE(ln, cp))
	h.St.Assume(c.SLE(cp, c.BV(64, maxCap)))
	h.St.Assume(c.SGE(cp, c.BV(64, 1)))
	arr := h.St.NewSymObject(c, llse.ObjHeap, name+"_arr", c.Mul(cp, c.BV(64, uint64(elemSize))))
	hdr := h.St.NewObject(c, llse.ObjStack, name, ListHdr)
	h.Ex.WriteVal(h.St, hdr, 0, h.St.PtrTo(c, arr, 0), 8)
	h.Ex.WriteVal(h.St, hdr, 8, llse.Val{E: ln}, 8)
	h.Ex.WriteVal(h.St, hdr, 16, llse.Val{E: cp}, 8)
	return &List{Hdr: hdr, Arr: arr, Len: ln, Cap: cp, ElemSize: elemSize}
}

// ConcList builds a list of n elements (capacity cp) with the given element writer.
// An empty list with cp == 0 has a NULL array.
func (h *H) ConcList(name string, elemSize, n, cp int, heapHdr bool) *List {
	c := h.C
	kind := llse.ObjStack
	if heapHdr {
		kind = llse.ObjHeap
	}
	hdr := h.St.NewObject(c, kind, name, ListHdr)
	l := &List{Hdr: hdr, Len: c.BV(64, uint64(n)), Cap: c.BV(64, uint64(cp)), ElemSize: elemSize}
	if cp > 0 {
		l.Arr = h.St.NewObject(c, llse.ObjHeap, name+"_arr", int64(cp*elemSize))
		h.Ex.WriteVal(h.St, hdr, 0, h.St.PtrTo(c, l.Arr, 0), 8)
	} else {
		h.Ex.WriteVal(h.St, hdr, 0, llse.Val{E: c.BV(64, 0)}, 8)
	}
	h.Ex.WriteVal(h.St, hdr, 8, llse.Val{E: l.Len}, 8)
	h.Ex.WriteVal(h.St, hdr, 16, llse.Val{E: l.Cap}, 8)
	return l
}

func (h *H) Ptr(o *llse.Object) llse.Val { return h.St.PtrTo(h.C, o, 0) }

// SetElem writes a scalar element of a concrete list.
func (h *H) SetElem(l *List, i int, e *smt.Expr) {
	v := e
	n := l.ElemSize
	if e.Sort.K == smt.KBV && e.Sort.W < 8*n {
		v = h.C.ZExt(e, 8*n)
	}
	h.Ex.WriteVal(h.St, l.Arr, int64(i*l.ElemSize), llse.Val{E: v}, n)
}

type Text struct {
	Hdr   *llse.Object
	Str   *llse.Object
	Bytes []*smt.Expr // without the terminator
}

// NewText builds a ddpstring whose block holds the given bytes plus NUL, cap = len+1 exactly
// (the representation invariant); an empty byte slice with emptyNull gives {NULL, 0}.
func (h *H) NewText(name string, bytes []*smt.Expr, hdrInObj *llse.Object, hdrOff int64) *Text {
	c := h.C
	hdr := hdrInObj
	if hdr == nil {
		hdr = h.St.NewObject(c, llse.ObjStack, name, TextHdr)
		hdrOff = 0
	}
	t := &Text{Hdr: hdr, Bytes: bytes}
	if bytes == nil {
		h.Ex.WriteVal(h.St, hdr, hdrOff, llse.Val{E: c.BV(64, 0)}, 8)
		h.Ex.WriteVal(h.St, hdr, hdrOff+8, llse.Val{E: c.BV(64, 0)}, 8)
		return t
	}
	t.Str = h.St.NewObject(c, llse.ObjHeap, name+"_str", int64(len(bytes)+1))
	h.Ex.WriteBytes(h.St, t.Str, 0, append(append([]*smt.Expr{}, bytes...), c.BV(8, 0)))
	h.Ex.WriteVal(h.St, hdr, hdrOff, h.St.PtrTo(c, t.Str, 0), 8)
	h.Ex.WriteVal(h.St, hdr, hdrOff+8, llse.Val{E: c.BV(64, uint64(len(bytes)+1))}, 8)
	return t
}

// ReadI64 reads 8 bytes of an object at a concrete offset as a term.
func (h *H) ReadI64(st *llse.State, o *llse.Object, off int64) llse.Val {
	t := &llread.Type{Kind: llread.TInt, Bits: 64, Size: 8}
	v, _ := h.Ex.Load(st, st.PtrTo(h.C, st.Objs[o.ID], off), t, "harness read")
	return v
}

func (h *H) ReadPtr(st *llse.State, o *llse.Object, off int64) llse.Val {
	t := &llread.Type{Kind: llread.TPtr, Bits: 64, Size: 8, Elem: &llread.Type{Kind: llread.TInt, Bits: 8, Size: 1}}
	v, _ := h.Ex.Load(st, st.PtrTo(h.C, st.Objs[o.ID], off), t, "harness read")
	return v
}

// ReadBytesAt reads n bytes behind a pointer value in state st.
func (h *H) ReadBytesAt(st *llse.State, p llse.Val, n int) ([]*smt.Expr, bool) {
	t := &llread.Type{Kind: llread.TInt, Bits: 8, Size: 1}
	var out []*smt.Expr
	for k := 0; k < n; k++ {
		pv := llse.Val{E: h.C.Add(p.E, h.C.BV(64, uint64(k))), Obj: p.Obj}
		if p.Obj != 0 {
			pv.Off = h.C.Add(p.Off, h.C.BV(64, uint64(k)))
		}
		v, ok := h.Ex.Load(st, pv, t, "harness read")
		if !ok {
			return nil, false
		}
		out = append(out, v.E)
	}
	return out, true
}

// ArrRef builds the reference value of element size n bytes at byte offset off of an array term.
func (h *H) ArrRef(arr *smt.Expr, off *smt.Expr, n int) *smt.Expr {
	c := h.C
	var acc *smt.Expr
	for k := 0; k < n; k++ {
		b := c.Select(arr, c.Add(off, c.BV(64, uint64(k))))
		if acc == nil {
			acc = b
		} else {
			acc = c.Concat(b, acc)
		}
	}
	return acc
}

// ModelString renders the model of the cell's variables.
func (h *H) ModelString(m *smt.Model) string {
	if m == nil {
		return "(no model)"
	}
	var ks []string
	for k := range m.Vals {
		ks = append(ks, k)
	}
	sort.Strings(ks)
	var sb strings.Builder
	for _, k := range ks {
		fmt.Fprintf(&sb, "%s=%#x ", k, m.Vals[k])
	}
	return sb.String()
}

// ---- parallel cell runner

type CellFn func() // runs one cell, records into the shared report

func RunParallel(cells []CellFn, workers int) {
	if w := os.Getenv("VERIF_WORKERS"); w != "" {
		fmt.Sscan(w, &workers)
	}
	var wg sync.WaitGroup
	ch := make(chan CellFn)
	for w := 0; w < workers; w++ {
		wg.Add(1)
		go func() {
			defer wg.Done()
			for f := range ch {
				f()
			}
		}()
	}
	for _, c := range cells {
		ch <- c
	}
	close(ch)
	wg.Wait()
}

// ReadBytesAtGuarded reads n bytes at byte offset off behind p on a scratch copy of st in which
// guard is assumed (so that the read cannot pollute st with faults outside the guard).
func (h *H) ReadBytesAtGuarded(st *llse.State, p llse.Val, off, n int, guard *smt.Expr) ([]*smt.Expr, bool) {
	s2 := h.Ex.Fork(st)
	s2.Assume(guard)
	pv := llse.Val{E: h.C.Add(p.E, h.C.BV(64, uint64(off))), Obj: p.Obj}
	if p.Obj != 0 {
		pv.Off = h.C.Add(p.Off, h.C.BV(64, uint64(off)))
	}
	bs, ok := h.ReadBytesAt(s2, pv, n)
	if len(s2.Faults) > len(st.Faults) {
		return nil, false
	}
	return bs, ok
}

// On sets the terminal path that subsequent obligations belong to.
func (h *H) On(s *llse.State) { h.cur = s }

// Fail records a failure that needs no solver (e.g. a wrong constant exit status).
func (h *H) Fail(name string) {
	h.R.Oblige(1)
	h.Failed = append(h.Failed, Failure{Obligation: name, Path: h.cur, Asserts: append([]*smt.Expr{}, h.cur.PC...)})
}

// Refine re-solves a failed obligation under extra constraints (e.g. small sizes for replay)
// and returns the values of the cell variables and of the wanted terms.
func (h *H) Refine(f *Failure, extra []*smt.Expr, want []*smt.Expr) *smt.Model {
	as := append(append([]*smt.Expr{}, f.Asserts...), extra...)
	w := append(append([]*smt.Expr{}, h.Vars...), want...)
	r, m, _ := h.P.Check(as, w)
	if r != smt.Sat {
		return nil
	}
	return m
}

// ValOf reads the model value of a term requested through Refine/EvalUnder.
func ValOf(m *smt.Model, e *smt.Expr) (uint64, bool) {
	if e.Op == smt.OConst {
		return e.Val, true
	}
	k := fmt.Sprintf("#%d", e.ID)
	if e.Op == smt.OVar {
		k = e.Name
	}
	v, ok := m.Vals[k]
	return v, ok
}

// EvalUnder evaluates terms with the cell variables fixed to the model's values, under pc.
func (h *H) EvalUnder(pc []*smt.Expr, m *smt.Model, fixed []*smt.Expr, terms []*smt.Expr) *smt.Model {
	as := append([]*smt.Expr{}, pc...)
	for _, v := range fixed {
		val, ok := ValOf(m, v)
		if !ok {
			continue
		}
		switch v.Sort.K {
		case smt.KBV:
			as = append(as, h.C.Eq(v, h.C.BV(v.Sort.W, val)))
		case smt.KFP:
			as = append(as, h.C.Eq(v, h.C.FPBitsC(val)))
		case smt.KBool:
			as = append(as, h.C.Eq(v, h.C.BoolC(val != 0)))
		}
	}
	r, mm, _ := h.P.Check(as, terms)
	if r != smt.Sat {
		return nil
	}
	return mm
}

// Wrap makes cells panic-safe: a panic inside the harness machinery is an engine failure with
// the innermost frames of the stack.
func Wrap(r *core.Report, cells []CellFn) []CellFn {
	out := make([]CellFn, len(cells))
	for i, f := range cells {
		f := f
		out[i] = func() {
			defer func() {
				if p := recover(); p != nil {
					buf := make([]byte, 8192)
					n := runtime.Stack(buf, false)
					var keep []string
					for _, l := range strings.Split(string(buf[:n]), "\n") {
						if strings.Contains(l, "verif/engine") && !strings.Contains(l, "llh.Wrap") {
							keep = append(keep, strings.TrimSpace(l))
						}
						if len(keep) >= 6 {
							break
						}
					}
					r.EngineFailf("panic in cell: %v @ %s", p, strings.Join(keep, " <- "))
				}
			}()
			f()
		}
	}
	return out
}

// NewHShared creates a second harness context over other modules that shares the expression
// context, solver and input variables of h (for differential runs on the same symbolic inputs).
func NewHShared(h *H, cell string, mods ...*llread.Module) *H {
	ex := llse.NewExec(h.C, h.P, mods...)
	ex.ModelVars = h.Vars
	n := &H{C: h.C, P: h.P, Ex: ex, R: h.R, Cell: cell, Vars: h.Vars}
	n.St = ex.NewState()
	return n
}
