package llh

import (
	"fmt"
	"os"
	"os/exec"
	"path/filepath"
	"strings"
	"time"

	"verif/engine/build"
)

// CArg describes one argument of a native replay call, built in C from concrete model values.
type CArg struct {
	Kind  string   // "int" (any integer / char / bool / byte), "double", "list", "text", "any", "outlist", "outtext", "outany", "ref" (pointer to scalar)
	CType string   // C type of the scalar / list struct / element
	Bits  uint64   // scalar bits
	Elems []uint64 // list elements (bits)
	ElemC string   // C element type for lists
	Len   int
	Cap   int
	Bytes []byte // text bytes (without NUL); nil => empty text {NULL,0}
	Texts [][]byte
	VT    string // any: vtable symbol
	Dump  bool   // dump the pointee after the call
}

type NativeCall struct {
	Fn       string
	RetC     string // "void", "ddpint", "ddpfloat", "ddpbyte", "ddpbool", "ddpchar"
	Args     []CArg
	DDPSrc   string
	Opt      int
	ExtraC   string // additional C definitions (e.g. extern callbacks)
	Name     string
	Objects  []string
	PostCall string            // C statement executed after the call (e.g. a report function)
	InitFn   string            // module initialiser to call first (globals)
	Track    bool              // wrap ddp_reallocate: report wrong sizes, foreign releases and blocks left at the end
	Files    map[string]string // further modules written next to the program (imports)
	CallMain bool              // call ddp_ddpmain instead of Fn
	InitAll  bool              // call the initialiser of every module in the object (imports first), as ddp_ddpmain does
	InitFns  []string
}

type NativeResult struct {
	Exit   int
	Stdout string
	Stderr string
	Err    string
	Driver string
}

// RuntimeError reports whether the native run ended in a Laufzeitfehler with exit status 1.
func (n *NativeResult) RuntimeError() bool {
	return n.Exit == 1 && strings.Contains(n.Stderr, "Laufzeitfehler")
}

// Field returns the value printed as "KEY value" on stdout.
func (n *NativeResult) Field(key string) (string, bool) {
	for _, l := range strings.Split(n.Stdout, "\n") {
		if strings.HasPrefix(l, key+" ") {
			return strings.TrimSpace(l[len(key)+1:]), true
		}
	}
	return "", false
}

func cdouble(bits uint64) string {
	return fmt.Sprintf("u2d(0x%xULL)", bits)
}

// Driver renders the C driver.
func (nc *NativeCall) Driver() string {
	var sb strings.Builder
	sb.WriteString("#include <stdio.h>\n#include <stdlib.h>\n#include <string.h>\n#include <stdint.h>\n#include <locale.h>\n#include \"DDP/ddptypes.h\"\n#include \"DDP/ddpmemory.h\"\n#include \"DDP/runtime.h\"\n")
	sb.WriteString("static double u2d(uint64_t u){double d; memcpy(&d,&u,8); return d;}\nstatic uint64_t d2u(double d){uint64_t u; memcpy(&u,&d,8); return u;}\n")
	sb.WriteString("extern ddpvtable ddpint_vtable, ddpfloat_vtable, ddpbyte_vtable, ddpbool_vtable, ddpchar_vtable, ddpstring_vtable, ddpintlist_vtable;\n")
	sb.WriteString(nc.ExtraC)
	if nc.Track {
		sb.WriteString(`typedef struct { void *p; size_t n; int live; } vblk;
static vblk VB[8192]; static int vnb, vbad;
void *__real_ddp_reallocate(void *, size_t, size_t);
void *__wrap_ddp_reallocate(void *p, size_t oldn, size_t newn) {
	if (p) {
		int f = -1;
		for (int i = 0; i < vnb; i++) if (VB[i].live && VB[i].p == p) f = i;
		if (f < 0) { printf("BAD release or resize of a block that is not owned\n"); vbad++; }
		else { if (VB[f].n != oldn) { printf("BAD stated size %zu, true size %zu\n", oldn, VB[f].n); vbad++; } VB[f].live = 0; }
	} else if (oldn != 0) { printf("BAD old size %zu stated for NULL\n", oldn); vbad++; }
	if (p && vbad && newn == 0) { fflush(stdout); }
	void *r = __real_ddp_reallocate(p, oldn, newn);
	if (newn != 0 && r && vnb < 8192) { VB[vnb].p = r; VB[vnb].n = newn; VB[vnb].live = 1; vnb++; }
	return r;
}
static void vreport(void) { int live = 0; for (int i = 0; i < vnb; i++) if (VB[i].live) live++; printf("TRACK bad=%d live=%d\n", vbad, live); }
`)
	}
	// prototype
	var ptypes, callArgs []string
	var setup, dump strings.Builder
	for i, a := range nc.Args {
		v := fmt.Sprintf("a%d", i)
		switch a.Kind {
		case "int":
			ptypes = append(ptypes, a.CType)
			fmt.Fprintf(&setup, "\t%s %s = (%s)0x%xULL;\n", a.CType, v, a.CType, a.Bits)
			callArgs = append(callArgs, v)
		case "double":
			ptypes = append(ptypes, "ddpfloat")
			fmt.Fprintf(&setup, "\tddpfloat %s = %s;\n", v, cdouble(a.Bits))
			callArgs = append(callArgs, v)
		case "ref":
			ptypes = append(ptypes, a.CType+"*")
			if a.CType == "ddpfloat" {
				fmt.Fprintf(&setup, "\tddpfloat %s = %s;\n", v, cdouble(a.Bits))
				fmt.Fprintf(&dump, "\tprintf(\"REF%d %%llx\\n\", (unsigned long long)d2u(%s));\n", i, v)
			} else {
				fmt.Fprintf(&setup, "\t%s %s = (%s)0x%xULL;\n", a.CType, v, a.CType, a.Bits)
				fmt.Fprintf(&dump, "\tprintf(\"REF%d %%llx\\n\", (unsigned long long)(uint64_t)%s);\n", i, v)
			}
			callArgs = append(callArgs, "&"+v)
		case "list", "outlist":
			ptypes = append(ptypes, a.CType+"*")
			fmt.Fprintf(&setup, "\t%s %s; %s.len = %d; %s.cap = %d; %s.arr = %d ? ddp_reallocate(NULL, 0, sizeof(%s) * %d) : NULL;\n", a.CType, v, v, a.Len, v, a.Cap, v, a.Cap, a.ElemC, a.Cap)
			if a.ElemC == "ddpstring" {
				for k, t := range a.Texts {
					if t == nil {
						fmt.Fprintf(&setup, "\t%s.arr[%d].str = NULL; %s.arr[%d].cap = 0;\n", v, k, v, k)
					} else {
						fmt.Fprintf(&setup, "\t%s.arr[%d].cap = %d; %s.arr[%d].str = ddp_reallocate(NULL, 0, %d); memcpy(%s.arr[%d].str, %s, %d);\n", v, k, len(t)+1, v, k, len(t)+1, v, k, cbytes(append(append([]byte{}, t...), 0)), len(t)+1)
					}
				}
			} else {
				for k, e := range a.Elems {
					if a.ElemC == "ddpfloat" {
						fmt.Fprintf(&setup, "\t%s.arr[%d] = %s;\n", v, k, cdouble(e))
					} else {
						fmt.Fprintf(&setup, "\t%s.arr[%d] = (%s)0x%xULL;\n", v, k, a.ElemC, e)
					}
				}
			}
			callArgs = append(callArgs, "&"+v)
			if a.Dump || a.Kind == "outlist" {
				fmt.Fprintf(&dump, "\tprintf(\"LIST%d len %%lld\\n\", (long long)%s.len);\n", i, v)
				if a.ElemC == "ddpstring" {
					fmt.Fprintf(&dump, "\tfor (ddpint k = 0; k < %s.len; k++) { printf(\"LIST%d_%%lld \", (long long)k); for (ddpint j = 0; j + 1 < %s.arr[k].cap; j++) printf(\"%%02x\", (unsigned char)%s.arr[k].str[j]); printf(\" cap %%lld\\n\", (long long)%s.arr[k].cap); }\n", v, i, v, v, v)
				} else if a.ElemC == "ddpfloat" {
					fmt.Fprintf(&dump, "\tfor (ddpint k = 0; k < %s.len; k++) printf(\"LIST%d_%%lld %%llx\\n\", (long long)k, (unsigned long long)d2u(%s.arr[k]));\n", v, i, v)
				} else {
					fmt.Fprintf(&dump, "\tfor (ddpint k = 0; k < %s.len; k++) printf(\"LIST%d_%%lld %%llx\\n\", (long long)k, (unsigned long long)(uint64_t)%s.arr[k]);\n", v, i, v)
				}
			}
		case "text", "outtext", "reftext":
			ptypes = append(ptypes, "ddpstring*")
			if a.Bytes == nil {
				fmt.Fprintf(&setup, "\tddpstring %s = {NULL, 0};\n", v)
			} else {
				n := len(a.Bytes) + 1
				fmt.Fprintf(&setup, "\tddpstring %s; %s.cap = %d; %s.str = ddp_reallocate(NULL, 0, %d); memcpy(%s.str, %s, %d);\n", v, v, n, v, n, v, cbytes(append(append([]byte{}, a.Bytes...), 0)), n)
			}
			callArgs = append(callArgs, "&"+v)
			if a.Dump || a.Kind == "outtext" || a.Kind == "reftext" {
				fmt.Fprintf(&dump, "\tprintf(\"TEXT%d \"); for (ddpint j = 0; j + 1 < %s.cap; j++) printf(\"%%02x\", (unsigned char)%s.str[j]); printf(\" cap %%lld strlen %%lld\\n\", (long long)%s.cap, (long long)(%s.str ? strlen(%s.str) : 0));\n", i, v, v, v, v, v)
			}
		case "any":
			ptypes = append(ptypes, "ddpany*")
			fmt.Fprintf(&setup, "\tddpany %s; memset(&%s, 0, sizeof %s); %s.vtable_ptr = &%s; { uint64_t p = 0x%xULL; memcpy(%s.value, &p, 8); }\n", v, v, v, v, a.VT, a.Bits, v)
			callArgs = append(callArgs, "&"+v)
		}
	}
	fmt.Fprintf(&sb, "extern %s %s(%s);\n", nc.RetC, nc.Fn, strings.Join(ptypes, ", "))
	if nc.InitFn != "" {
		// the symbol is derived from the file path and need not be a C identifier
		fmt.Fprintf(&sb, "extern void vmodinit(void) __asm__(\"%s\");\n", nc.InitFn)
	}
	for i, f := range nc.InitFns {
		fmt.Fprintf(&sb, "extern void vmodinit%d(void) __asm__(\"%s\");\n", i, f)
	}
	sb.WriteString("int main(int argc, char **argv) {\n\tddp_init_runtime(argc, argv);\n")
	if nc.InitFn != "" {
		sb.WriteString("\tvmodinit();\n")
	}
	for i := range nc.InitFns {
		fmt.Fprintf(&sb, "\tvmodinit%d();\n", i)
	}
	sb.WriteString(setup.String())
	call := fmt.Sprintf("%s(%s)", nc.Fn, strings.Join(callArgs, ", "))
	switch nc.RetC {
	case "void":
		fmt.Fprintf(&sb, "\t%s;\n", call)
	case "ddpfloat":
		fmt.Fprintf(&sb, "\tddpfloat r = %s;\n\tprintf(\"RET %%llx\\n\", (unsigned long long)d2u(r));\n", call)
	case "ddpbool":
		fmt.Fprintf(&sb, "\tddpbool r = %s;\n\tprintf(\"RET %%llx\\n\", (unsigned long long)(r ? 1 : 0));\n", call)
	case "ddpchar":
		fmt.Fprintf(&sb, "\tddpchar r = %s;\n\tprintf(\"RET %%llx\\n\", (unsigned long long)(uint32_t)r);\n", call)
	case "ddpbyte":
		fmt.Fprintf(&sb, "\tddpbyte r = %s;\n\tprintf(\"RET %%llx\\n\", (unsigned long long)r);\n", call)
	default:
		fmt.Fprintf(&sb, "\t%s r = %s;\n\tprintf(\"RET %%llx\\n\", (unsigned long long)(uint64_t)r);\n", nc.RetC, call)
	}
	sb.WriteString(dump.String())
	if nc.PostCall != "" {
		sb.WriteString("\t" + nc.PostCall + "\n")
	}
	if nc.Track {
		for i, a := range nc.Args {
			v := fmt.Sprintf("a%d", i)
			switch a.Kind {
			case "outtext", "reftext":
				fmt.Fprintf(&sb, "\tddp_free_string(&%s);\n", v)
			case "outlist":
				fmt.Fprintf(&sb, "\tddp_free_%s(&%s);\n", a.CType, v)
			}
		}
		sb.WriteString("\tvreport();\n")
	}
	sb.WriteString("\tprintf(\"DONE\\n\");\n\tfflush(stdout);\n\treturn 0;\n}\n")
	return sb.String()
}

func cbytes(b []byte) string {
	var sb strings.Builder
	sb.WriteString("(const char[]){")
	for i, x := range b {
		if i > 0 {
			sb.WriteByte(',')
		}
		fmt.Fprintf(&sb, "(char)0x%02x", x)
	}
	sb.WriteString("}")
	return sb.String()
}

// RunNative compiles the DDP template module to an object with the freshly built kddp, links
// it with the driver and the freshly built runtime and runs it.
func RunNative(env *build.Env, nc *NativeCall) *NativeResult { return RunNativeOpt(env, nc, false) }

// RunNativeOpt optionally runs the replay under valgrind (memory faults: exit status 99).
func RunNativeOpt(env *build.Env, nc *NativeCall, valgrind bool) *NativeResult {
	res := &NativeResult{}
	if err := env.ReplayTree(); err != nil {
		res.Err = "replay tree: " + err.Error()
		return res
	}
	dir, err := os.MkdirTemp(env.Dir, "native_")
	if err != nil {
		res.Err = err.Error()
		return res
	}
	name := nc.Name
	if name == "" {
		name = "tmpl"
	}
	src := filepath.Join(dir, name+".ddp")
	os.WriteFile(src, []byte(nc.DDPSrc), 0o644)
	for fn, txt := range nc.Files {
		os.WriteFile(filepath.Join(dir, fn), []byte(txt), 0o644)
	}
	obj := filepath.Join(dir, name+".o")
	cmd := exec.Command(env.Kddp, "kompiliere", src, "-o", obj, "-O", fmt.Sprint(nc.Opt), "--list-defs-linken=false")
	cmd.Env = append(os.Environ(), "DDPPATH="+env.Inst)
	cmd.Dir = dir
	if out, err := cmd.CombinedOutput(); err != nil {
		res.Err = "kddp: " + err.Error() + " " + string(out)
		return res
	}
	if nc.InitFn != "" {
		// the module initialiser of the freshly compiled object
		nc.InitFn = ""
		if out, err := exec.Command("nm", "--defined-only", obj).Output(); err == nil {
			for _, l := range strings.Split(string(out), "\n") {
				f := strings.Fields(l)
				if len(f) == 3 && strings.HasPrefix(f[2], "ddp_") && strings.HasSuffix(f[2], "_init") {
					nc.InitFn = f[2]
				}
			}
		}
	}
	if nc.InitAll {
		nc.InitFns = nil
		var own []string
		if out, err := exec.Command("nm", "--defined-only", obj).Output(); err == nil {
			for _, l := range strings.Split(string(out), "\n") {
				f := strings.Fields(l)
				if len(f) == 3 && strings.HasPrefix(f[2], "ddp_") && strings.HasSuffix(f[2], "_init") {
					if strings.Contains(f[2], "_Duden_") {
						nc.InitFns = append(nc.InitFns, f[2])
					} else {
						own = append(own, f[2])
					}
				}
			}
		}
		nc.InitFns = append(nc.InitFns, own...)
	}
	res.Driver = nc.Driver()
	drv := filepath.Join(dir, "driver.c")
	os.WriteFile(drv, []byte(res.Driver), 0o644)
	exe := filepath.Join(dir, "replay")
	args := []string{"-O0", "-g", "-std=c11", "-D_POSIX_C_SOURCE=200809L", "-I" + filepath.Join(build.Repo, "lib", "runtime", "include"), "-o", exe, drv, obj}
	args = append(args, nc.Objects...)
	if nc.Track {
		args = append(args, "-Wl,--wrap=ddp_reallocate")
	}
	args = append(args, filepath.Join(env.Inst, "lib", "ddp_list_types_defs.o"), "-L"+filepath.Join(env.Inst, "lib"), "-lddpstdlib", "-lddpruntime", "-lm")
	if out, err := exec.Command("gcc", args...).CombinedOutput(); err != nil {
		res.Err = "link: " + err.Error() + " " + string(out)
		return res
	}
	c := exec.Command(exe)
	if valgrind {
		c = exec.Command("valgrind", "-q", "--error-exitcode=99", "--leak-check=no", exe)
	}
	c.Dir = dir
	var so, se strings.Builder
	c.Stdout, c.Stderr = &so, &se
	if err := c.Start(); err != nil {
		res.Err = err.Error()
		return res
	}
	done := make(chan error, 1)
	go func() { done <- c.Wait() }()
	select {
	case err := <-done:
		if ee, ok := err.(*exec.ExitError); ok {
			res.Exit = ee.ExitCode()
		} else if err != nil {
			res.Err = err.Error()
		}
	case <-time.After(60 * time.Second):
		c.Process.Kill()
		res.Err = "timeout"
	}
	res.Stdout, res.Stderr = so.String(), se.String()
	return res
}

// RunCValgrind compiles a C driver with gcc against the freshly built runtime library and the
// generated list functions and runs it under valgrind (errors: exit status 99).
func RunCValgrind(env *build.Env, name, src string) *NativeResult {
	res := &NativeResult{Driver: src}
	if err := env.ReplayTree(); err != nil {
		res.Err = "replay tree: " + err.Error()
		return res
	}
	dir, err := os.MkdirTemp(env.Dir, "cval_")
	if err != nil {
		res.Err = err.Error()
		return res
	}
	p := filepath.Join(dir, name+".c")
	os.WriteFile(p, []byte(src), 0o644)
	exe := filepath.Join(dir, name)
	args := []string{"-g", "-O0", "-std=c11", "-D_POSIX_C_SOURCE=200809L", "-I" + filepath.Join(build.Repo, "lib", "runtime", "include"), "-o", exe, p,
		filepath.Join(env.Inst, "lib", "libddpruntime.a"), filepath.Join(env.Inst, "lib", "ddp_list_types_defs.o"), "-lm"}
	if out, err := exec.Command("gcc", args...).CombinedOutput(); err != nil {
		res.Err = "gcc: " + err.Error() + " " + string(out)
		return res
	}
	c := exec.Command("valgrind", "-q", "--error-exitcode=99", "--leak-check=no", exe)
	c.Dir = dir
	var so, se strings.Builder
	c.Stdout, c.Stderr = &so, &se
	if err := c.Run(); err != nil {
		if ee, ok := err.(*exec.ExitError); ok {
			res.Exit = ee.ExitCode()
		} else {
			res.Err = err.Error()
		}
	}
	res.Stdout, res.Stderr = so.String(), se.String()
	return res
}
