package c05

import (
	"fmt"

	"verif/engine/llse"
	"verif/engine/props/llh"
	"verif/engine/smt"
)

// runtimeCells: one-step checks of runtime and generated list functions from a state that
// satisfies the representation invariant: memory safety, allocator contract, ownership forest.
func (x *ctx) runtimeCells() []llh.CellFn {
	var cells []llh.CellFn
	for n := 0; n <= 2; n++ {
		n := n
		cells = append(cells, func() { x.cellTextListFn("ddp_deep_copy_ddpstringlist", n, 0) })
		cells = append(cells, func() { x.cellTextListFn("ddp_free_ddpstringlist", n, 0) })
		cells = append(cells, func() { x.cellTextListFn("ddp_ddpstringlist_slice", n, 0) })
		cells = append(cells, func() { x.cellTextListFn("ddp_ddpstringlist_equal", n, n) })
		for m := 0; m <= 2; m++ {
			m := m
			cells = append(cells, func() { x.cellTextListFn("ddp_ddpstringlist_ddpstringlist_verkettet", n, m) })
		}
		cells = append(cells, func() { x.cellTextListFn("ddp_ddpstringlist_ddpstring_verkettet", n, 0) })
		cells = append(cells, func() { x.cellTextListFn("ddp_ddpstring_ddpstringlist_verkettet", n, 0) })
	}
	for n := 0; n <= 2; n++ {
		for m := 0; m <= 2; m++ {
			n, m := n, m
			cells = append(cells, func() { x.cellTextConcat(n, m) })
		}
	}
	cells = append(cells, func() { x.cellInvalidChar("ddp_char_string_verkettet") })
	cells = append(cells, func() { x.cellInvalidChar("ddp_string_char_verkettet") })
	cells = append(cells, x.cellInvalidCharReplace)
	return cells
}

func (x *ctx) textList(h *llh.H, name string, n int) *llh.List {
	c := h.C
	l := h.ConcList(name, llh.TextHdr, n, n+boolToInt(n > 0), false)
	for k := 0; k < n; k++ {
		b := h.Var(fmt.Sprintf("%s_e%d", name, k), 8)
		h.St.Assume(c.And(c.UGE(b, c.BV(8, 1)), c.ULE(b, c.BV(8, 0x7f))))
		if k%2 == 1 {
			// every second element is the empty text
			h.NewText(fmt.Sprintf("%s_e%d", name, k), nil, l.Arr, int64(k*llh.TextHdr))
		} else {
			h.NewText(fmt.Sprintf("%s_e%d", name, k), []*smt.Expr{b}, l.Arr, int64(k*llh.TextHdr))
		}
	}
	return l
}

func (x *ctx) cellTextListFn(fn string, n, m int) {
	h := x.newH(fmt.Sprintf("rt/%s_%d_%d", fn, n, m), x.levels[0])
	defer h.Close()
	c := h.C
	a := x.textList(h, "a", n)
	ret := h.St.NewObject(c, llse.ObjStack, "ret", llh.ListHdr)
	var args []llse.Val
	var roots []Root
	aRoot := Root{Obj: a.Hdr, Kind: "textlist", Name: "list a"}
	retRoot := Root{Obj: ret, Kind: "textlist", Name: "result"}
	switch fn {
	case "ddp_deep_copy_ddpstringlist":
		args = []llse.Val{h.Ptr(ret), h.Ptr(a.Hdr)}
		roots = []Root{retRoot, aRoot}
	case "ddp_free_ddpstringlist":
		args = []llse.Val{h.Ptr(a.Hdr)}
	case "ddp_ddpstringlist_slice":
		i, j := h.Var("i", 64), h.Var("j", 64)
		args = []llse.Val{h.Ptr(ret), h.Ptr(a.Hdr), {E: i}, {E: j}}
		roots = []Root{retRoot, aRoot}
	case "ddp_ddpstringlist_equal":
		b := x.textList(h, "b", m)
		args = []llse.Val{h.Ptr(a.Hdr), h.Ptr(b.Hdr)}
		roots = []Root{aRoot, {Obj: b.Hdr, Kind: "textlist", Name: "list b"}}
	case "ddp_ddpstringlist_ddpstringlist_verkettet":
		b := x.textList(h, "b", m)
		args = []llse.Val{h.Ptr(ret), h.Ptr(a.Hdr), h.Ptr(b.Hdr)}
		// the left operand is claimed, the right one stays with the caller
		roots = []Root{retRoot, {Obj: b.Hdr, Kind: "textlist", Name: "list b"}}
	case "ddp_ddpstringlist_ddpstring_verkettet":
		// the list operand is claimed, the Text operand is copied and stays with the caller
		t := asciiText(h, "t", 1)
		args = []llse.Val{h.Ptr(ret), h.Ptr(a.Hdr), h.Ptr(t.Hdr)}
		roots = []Root{retRoot, {Obj: t.Hdr, Kind: "text", Name: "text operand"}}
	case "ddp_ddpstring_ddpstringlist_verkettet":
		t := asciiText(h, "t", 1)
		args = []llse.Val{h.Ptr(ret), h.Ptr(t.Hdr), h.Ptr(a.Hdr)}
		roots = []Root{retRoot, {Obj: t.Hdr, Kind: "text", Name: "text operand"}}
	case "ddp_ddpstring_ddpstring_verkettet":
		t := asciiText(h, "t", 1)
		u := asciiText(h, "u", 2)
		args = []llse.Val{h.Ptr(ret), h.Ptr(t.Hdr), h.Ptr(u.Hdr)}
		roots = []Root{retRoot}
	}
	res := h.Run(fn, args)
	nret := 0
	for _, s := range res {
		h.On(s)
		if s.Term == llse.TermReturn {
			nret++
			rs := roots
			if fn == "ddp_ddpstringlist_ddpstringlist_verkettet" || fn == "ddp_ddpstringlist_ddpstring_verkettet" || fn == "ddp_ddpstring_ddpstringlist_verkettet" || fn == "ddp_ddpstring_ddpstring_verkettet" {
				// operands that were claimed must have been emptied, so auditing them as roots is harmless:
				// an operand left pointing into the result shows up as a block owned twice
				rs = append(append([]Root{}, roots...), aRoot)
				if fn == "ddp_ddpstring_ddpstring_verkettet" {
					rs = roots
				}
			}
			audit(h, s, rs, "after "+fn)
		}
	}
	if nret == 0 {
		x.r.EngineFailf("%s: vacuity guard: no returning path", h.Cell)
	}
	x.finish(h, res, nil)
}

// cellInvalidChar: concatenating a Buchstabe that is not a Unicode scalar value (reachable by
// converting an arbitrary Zahl) must stay memory safe.
func (x *ctx) cellInvalidChar(fn string) {
	for _, n := range []int{0, 1} {
		h := x.newH(fmt.Sprintf("rt/%s_anychar_n%d", fn, n), x.levels[0])
		c := h.C
		t := asciiText(h, "t", n)
		ch := h.Var("ch", 32)
		ret := h.St.NewObject(c, llse.ObjStack, "ret", llh.TextHdr)
		var args []llse.Val
		if fn == "ddp_char_string_verkettet" {
			args = []llse.Val{h.Ptr(ret), {E: ch}, h.Ptr(t.Hdr)}
		} else {
			args = []llse.Val{h.Ptr(ret), h.Ptr(t.Hdr), {E: ch}}
		}
		res := h.Run(fn, args)
		for _, s := range res {
			h.On(s)
			if s.Term == llse.TermReturn {
				if s.UninitReads > 0 {
					h.Fail("reads uninitialised memory for a Buchstabe that is not a Unicode scalar value")
				}
				audit(h, s, []Root{{Obj: ret, Kind: "text", Name: "result"}}, "after "+fn)
			}
		}
		x.finish(h, res, func(f *llh.Failure) (string, bool) { return x.replayInvalidChar(h, f, fn, n, ch) })
		h.Close()
	}
}

// cellInvalidCharReplace: storing an arbitrary Buchstabe (also one that is not a Unicode scalar
// value: 'n als Buchstabe' accepts every Zahl) into a Text stays memory safe - it either replaces
// the character or stops with a Laufzeitfehler.
func (x *ctx) cellInvalidCharReplace() {
	for _, n := range []int{1, 2} {
		h := x.newH(fmt.Sprintf("rt/ddp_replace_char_in_string_anychar_n%d", n), x.levels[0])
		c := h.C
		t := asciiText(h, "t", n)
		ch := h.Var("ch", 32)
		res := h.Run("ddp_replace_char_in_string", []llse.Val{h.Ptr(t.Hdr), {E: ch}, {E: c.BV(64, 1)}})
		for _, s := range res {
			h.On(s)
			if s.Term == llse.TermReturn {
				if s.UninitReads > 0 {
					h.Fail("reads uninitialised memory for a Buchstabe that is not a Unicode scalar value")
				}
				audit(h, s, []Root{{Obj: t.Hdr, Kind: "text", Name: "text"}}, "after ddp_replace_char_in_string")
			}
		}
		if len(res) == 0 {
			x.r.EngineFailf("%s: no path", h.Cell)
		}
		x.finish(h, res, func(f *llh.Failure) (string, bool) {
			m := h.Refine(f, nil, nil)
			var cv uint64 = 0xD800
			if m != nil {
				if v, ok := llh.ValOf(m, ch); ok {
					cv = v
				}
			}
			src := fmt.Sprintf(`#include <stdio.h>
#include <string.h>
#include "DDP/ddptypes.h"
extern void ddp_replace_char_in_string(ddpstring*, ddpchar, ddpint);
int main(void) {
	ddpstring t;
	ddp_string_from_constant(&t, "%s");
	ddp_replace_char_in_string(&t, (ddpchar)0x%x, 1);
	printf("cap %%lld\n", (long long)t.cap);
	ddp_free_string(&t);
	return 0;
}
`, "ab"[:n], cv)
			nr := llh.RunCValgrind(x.env, "c05_replace", src)
			txt := fmt.Sprintf("Buchstabe value %#x stored at position 1 of a text of %d characters\nnative under valgrind: exit=%d err=%q\nstdout:\n%s\nstderr:\n%s\n--- driver ---\n%s", cv, n, nr.Exit, nr.Err, nr.Stdout, clipS(nr.Stderr, 3000), src)
			return txt, nr.Err == "" && (nr.Exit == 99 || nr.Exit >= 128 || nr.Exit < 0)
		})
		h.Close()
	}
}

// replayInvalidChar: C driver linked with the freshly built runtime, run under valgrind
// (uninitialised reads and invalid accesses make it exit with status 99).
func (x *ctx) replayInvalidChar(h *llh.H, f *llh.Failure, fn string, n int, ch *smt.Expr) (string, bool) {
	m := h.Refine(f, nil, nil)
	var cv uint64 = 0xD800
	if m != nil {
		if v, ok := llh.ValOf(m, ch); ok {
			cv = v
		}
	}
	text := "ddpstring t = {NULL, 0};"
	if n > 0 {
		text = "ddpstring t; ddp_string_from_constant(&t, \"a\");"
	}
	call := fmt.Sprintf("%s(&r, (ddpchar)0x%x, &t);", fn, cv)
	if fn == "ddp_string_char_verkettet" {
		call = fmt.Sprintf("%s(&r, &t, (ddpchar)0x%x);", fn, cv)
	}
	src := fmt.Sprintf(`#include <stdio.h>
#include <string.h>
#include "DDP/ddptypes.h"
extern void ddp_char_string_verkettet(ddpstring*, ddpchar, ddpstring*);
extern void ddp_string_char_verkettet(ddpstring*, ddpstring*, ddpchar);
int main(void) {
	ddpstring r;
	%s
	%s
	printf("cap %%lld\n", (long long)r.cap);
	return 0;
}
`, text, call)
	nr := llh.RunCValgrind(x.env, "c05_char", src)
	txt := fmt.Sprintf("Buchstabe value %#x (not a Unicode scalar value), text of %d characters\nnative under valgrind: exit=%d err=%q\nstdout:\n%s\nstderr:\n%s\n--- driver ---\n%s", cv, n, nr.Exit, nr.Err, nr.Stdout, clipS(nr.Stderr, 3000), src)
	return txt, nr.Err == "" && (nr.Exit == 99 || nr.Exit >= 128)
}

// cellTextConcat: ddp_string_string_verkettet claims (and empties) its left operand and leaves
// the right one with the caller; afterwards result, left and right own disjoint blocks.
func (x *ctx) cellTextConcat(n, m int) {
	h := x.newH(fmt.Sprintf("rt/ddp_string_string_verkettet_%d_%d", n, m), x.levels[0])
	defer h.Close()
	c := h.C
	a := asciiText(h, "a", n)
	b := asciiText(h, "b", m)
	ret := h.St.NewObject(c, llse.ObjStack, "ret", llh.TextHdr)
	res := h.Run("ddp_string_string_verkettet", []llse.Val{h.Ptr(ret), h.Ptr(a.Hdr), h.Ptr(b.Hdr)})
	for _, s := range res {
		h.On(s)
		if s.Term == llse.TermReturn {
			audit(h, s, []Root{{Obj: ret, Kind: "text", Name: "result"}, {Obj: a.Hdr, Kind: "text", Name: "left operand"}, {Obj: b.Hdr, Kind: "text", Name: "right operand"}}, "after ddp_string_string_verkettet")
		}
	}
	if len(res) == 0 {
		x.r.EngineFailf("%s: no path", h.Cell)
	}
	x.finish(h, res, func(f *llh.Failure) (string, bool) {
		src := fmt.Sprintf(`#include <stdio.h>
#include <string.h>
#include "DDP/ddptypes.h"
extern void ddp_string_string_verkettet(ddpstring*, ddpstring*, ddpstring*);
int main(void) {
	ddpstring a, b, r;
	ddp_string_from_constant(&a, "%s");
	ddp_string_from_constant(&b, "%s");
	ddp_string_string_verkettet(&r, &a, &b);
	/* the caller of the generated code frees the result, the (claimed) left operand and the right operand */
	ddp_free_string(&r);
	ddp_free_string(&a);
	ddp_free_string(&b);
	printf("ok\\n");
	return 0;
}
`, "xy"[:n], "uv"[:m])
		nr := llh.RunCValgrind(x.env, "c05_cat", src)
		txt := fmt.Sprintf("left operand of %d bytes, right operand of %d bytes\nnative under valgrind: exit=%d err=%q\nstdout:\n%s\nstderr:\n%s\n--- driver ---\n%s", n, m, nr.Exit, nr.Err, nr.Stdout, clipS(nr.Stderr, 3000), src)
		return txt, nr.Err == "" && (nr.Exit == 99 || nr.Exit >= 128)
	})
}
