// Package c05: compiled programs release every heap block exactly once, state true sizes, and
// never touch memory outside a live block.
package c05

import (
	"fmt"

	"verif/engine/llse"
	"verif/engine/props/llh"
	"verif/engine/smt"
)

// Root names a value that owns heap blocks after a function returned.
type Root struct {
	Obj  *llse.Object
	Off  int64
	Kind string // "text", "list:<elemsize>", "textlist"
	Name string
}

// audit checks the ownership forest: every pointer of a root designates the base of a live heap
// block of exactly the recorded capacity, no block is owned twice, and no live heap block is
// left unowned (leak).
func audit(h *llh.H, s *llse.State, roots []Root, what string) {
	c := h.C
	owned := map[int]string{}
	claim := func(p llse.Val, size *smt.Expr, owner string) {
		if p.Obj == 0 {
			h.Fail(what + ": " + owner + " points to no block")
			return
		}
		o := s.Objs[p.Obj]
		if o.Kind != llse.ObjHeap || !o.Live {
			h.Fail(fmt.Sprintf("%s: %s points to a block that is not live heap memory", what, owner))
			return
		}
		if prev, dup := owned[o.ID]; dup {
			h.Fail(fmt.Sprintf("%s: block owned twice (%s and %s)", what, prev, owner))
			return
		}
		owned[o.ID] = owner
		h.Holds(what+": "+owner+" records the true size of its block", s.PC, c.And(c.Eq(p.Off, c.BV(64, 0)), c.Eq(o.Size, size)))
	}
	var text func(obj *llse.Object, off int64, owner string)
	text = func(obj *llse.Object, off int64, owner string) {
		ptr := h.ReadPtr(s, obj, off)
		capv := h.ReadI64(s, obj, off+8).E
		if v, ok := ptr.E.ConstU(); ok && v == 0 && ptr.Obj == 0 {
			h.Holds(what+": "+owner+" empty text has capacity 0", s.PC, c.Eq(capv, c.BV(64, 0)))
			return
		}
		claim(ptr, capv, owner)
	}
	for _, r := range roots {
		switch {
		case r.Kind == "text":
			text(r.Obj, r.Off, r.Name)
		case r.Kind == "textlist" || len(r.Kind) > 5 && r.Kind[:5] == "list:":
			es := int64(16)
			if r.Kind != "textlist" {
				fmt.Sscanf(r.Kind, "list:%d", &es)
			}
			arr := h.ReadPtr(s, r.Obj, r.Off)
			ln := h.ReadI64(s, r.Obj, r.Off+8).E
			cp := h.ReadI64(s, r.Obj, r.Off+16).E
			if v, ok := arr.E.ConstU(); ok && v == 0 && arr.Obj == 0 {
				h.Holds(what+": "+r.Name+" empty list has length and capacity 0", s.PC, c.And(c.Eq(ln, c.BV(64, 0)), c.Eq(cp, c.BV(64, 0))))
				continue
			}
			claim(arr, c.Mul(cp, c.BV(64, uint64(es))), r.Name)
			h.Holds(what+": "+r.Name+" length within capacity", s.PC, c.And(c.SLE(c.BV(64, 0), ln), c.SLE(ln, cp)))
			if r.Kind == "textlist" && arr.Obj != 0 {
				n, ok := ln.ConstU()
				if !ok {
					// the path may fix the length without the term being a constant: ask for the value
					// and prove it is the only one
					if r, m, _ := h.P.Check(append([]*smt.Expr{}, s.PC...), []*smt.Expr{ln}); r == smt.Sat && m != nil {
						v, _ := llh.ValOf(m, ln)
						if r2, _, _ := h.P.Check(append(append([]*smt.Expr{}, s.PC...), c.Ne(ln, c.BV(64, v))), nil); r2 == smt.Unsat {
							n, ok = v, true
						}
					}
				}
				if !ok {
					h.R.Inconclusivef("%s: %s: symbolic list length in audit", h.Cell, what)
					continue
				}
				ao := s.Objs[arr.Obj]
				for k := uint64(0); k < n; k++ {
					text(ao, int64(k)*16, fmt.Sprintf("%s[%d]", r.Name, k))
				}
			}
		}
	}
	h.R.Oblige(1)
	leaked := false
	defer func() {
		if !leaked {
			h.R.Discharge(1)
		}
	}()
	for _, o := range s.LiveHeap() {
		if _, ok := owned[o.ID]; !ok {
			leaked = true
		}
	}
	for _, o := range s.LiveHeap() {
		if _, ok := owned[o.ID]; !ok {
			h.Fail(fmt.Sprintf("%s: heap block leaked (%s, %s bytes, allocation #%d)", what, o.Name, o.Size.Short(), o.AllocSeq))
		}
	}
}
