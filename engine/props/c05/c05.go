package c05

import (
	"fmt"
	"strings"
	"sync"
	"time"

	"verif/engine/build"
	"verif/engine/llread"
	"verif/engine/llse"
	"verif/engine/props/core"
	"verif/engine/props/ddp"
	"verif/engine/props/llh"
	"verif/engine/smt"
)

type ctx struct {
	r       *core.Report
	env     *build.Env
	rt      []*llread.Module
	lists   *llread.Module
	tmpl    map[int]*llread.Module
	timeout time.Duration
	mu      sync.Mutex
	src     string
	levels  []int
}

const structDecl = `Wir nennen die Kombination aus
	dem Text name mit Standardwert "n",
	der Zahl wert mit Standardwert 0,
einen Eintrag, und erstellen sie so:
	"ein Eintrag mit name gleich <name>"

Die Funktion c05_sink mit dem Parameter x vom Typ Text, gibt einen Wahrheitswert zurück,
ist in "c05_sink.c" definiert
Und kann so benutzt werden:
	"c05_sink <x>"

`

type tmpl struct {
	name   string
	params []ddp.Param
	ret    string
	body   string
}

var W = "Wahrheitswert"

var templates = []tmpl{
	{"c05_early", []ddp.Param{{"t", "Text"}, {"a", W}, {"b", W}}, "einen Text",
		"Der Text x ist t verkettet mit \"a\".\n\tWenn a, dann:\n\t\tDer Text y ist x verkettet mit \"b\".\n\t\tWenn b, gib y zurück.\n\tGib x zurück."},
	{"c05_loop", []ddp.Param{{"l", "Text Liste"}, {"a", W}, {"b", W}}, "eine Zahl",
		"Die Zahl n ist 0.\n\tFür jeden Text e in l, mache:\n\t\tDer Text k ist e verkettet mit \"x\".\n\t\tWenn a, verlasse die Schleife.\n\t\tWenn b, fahre mit der Schleife fort.\n\t\tErhöhe n um 1.\n\tGib n zurück."},
	{"c05_loopret", []ddp.Param{{"l", "Text Liste"}, {"a", W}}, "einen Text",
		"Für jeden Text e in l, mache:\n\t\tDer Text k ist e verkettet mit \"x\".\n\t\tWenn a, gib k zurück.\n\tGib \"ende\" zurück."},
	{"c05_short", []ddp.Param{{"t", "Text"}, {"a", W}}, "einen Wahrheitswert", "Gib a und (t verkettet mit \"a\") gleich \"xa\" ist zurück."},
	{"c05_shortor", []ddp.Param{{"t", "Text"}, {"a", W}}, "einen Wahrheitswert", "Gib a oder (t verkettet mit \"a\") gleich \"xa\" ist zurück."},
	{"c05_make", []ddp.Param{{"t", "Text"}}, "einen Text", "Gib t verkettet mit t zurück."},
	{"c05_discard", []ddp.Param{{"t", "Text"}}, "nichts", "c05_make t.\n\tc05_sink (c05_make t)."},
	{"c05_setref", []ddp.Param{{"r", "Text Referenz"}, {"t", "Text"}}, "nichts", "Speichere t verkettet mit \"r\" in r."},
	{"c05_callref", []ddp.Param{{"t", "Text"}}, "einen Text", "Der Text x ist \"x\".\n\tc05_setref x t.\n\tGib x zurück."},
	{"c05_elem", []ddp.Param{{"l", "Text Liste"}, {"t", "Text"}, {"i", "Zahl"}}, "eine Text Liste", "Speichere t in l an der Stelle i.\n\tGib l zurück."},
	{"c05_field", []ddp.Param{{"t", "Text"}}, "einen Text", "Der Eintrag e ist ein Eintrag mit name gleich t.\n\tSpeichere t verkettet mit \"f\" in name von e.\n\tGib name von e zurück."},
	{"c05_any", []ddp.Param{{"t", "Text"}, {"a", W}}, "einen Text", "Die Variable v ist t.\n\tWenn a, Speichere 5 in v.\n\tWenn v ein Text ist, gib v als Text zurück.\n\tGib \"zahl\" zurück."},
	{"c05_ifexpr", []ddp.Param{{"t", "Text"}, {"a", W}}, "einen Text", "Der Text q ist t, falls a, ansonsten t verkettet mit \"q\".\n\tGib q zurück."},
	{"c05_selfassign", []ddp.Param{{"t", "Text"}}, "einen Text", "Der Text x ist t.\n\tSpeichere x in x.\n\tGib x zurück."},
	{"c05_while", []ddp.Param{{"t", "Text"}, {"n", "Zahl"}}, "einen Text", "Der Text acc ist \"\".\n\tDie Zahl i ist 0.\n\tSolange i kleiner als n ist, mache:\n\t\tSpeichere acc verkettet mit t in acc.\n\t\tErhöhe i um 1.\n\tGib acc zurück."},
	{"c05_listlocal", []ddp.Param{{"t", "Text"}, {"a", W}}, "eine Zahl", "Die Text Liste l ist eine Liste, die aus t, t verkettet mit \"1\" besteht.\n\tWenn a, gib 1 zurück.\n\tDie Text Liste m ist l verkettet mit t.\n\tGib die Länge von m zurück."},
	{"c05_slice", []ddp.Param{{"t", "Text"}, {"i", "Zahl"}, {"j", "Zahl"}}, "einen Text", "Gib t im Bereich von i bis j zurück."},
	{"c05_replace", []ddp.Param{{"t", "Text"}, {"c", "Buchstabe"}, {"i", "Zahl"}}, "einen Text", "Der Text x ist t.\n\tSpeichere c in x an der Stelle i.\n\tGib x zurück."},
	{"c05_forto", []ddp.Param{{"t", "Text"}, {"n", "Zahl"}}, "eine Zahl", "Die Zahl s ist 0.\n\tFür jede Zahl i von 1 bis (die Länge von (t verkettet mit \"ab\")), mache:\n\t\tErhöhe s um i.\n\tGib s zurück."},
	{"c05_catempty", []ddp.Param{{"t", "Text"}, {"a", W}}, "einen Text", "Der Text u ist \"\".\n\tWenn a, Speichere \"u\" in u.\n\tGib (t verkettet mit \"x\") verkettet mit u zurück."},
	{"c05_listcat", []ddp.Param{{"t", "Text"}, {"u", "Text"}}, "eine Text Liste", "Gib t verkettet mit u als Text Liste zurück."},
	// 'n Mal wert': a list of n copies of a temporary / of a variable, n = 0..2
	{"c05_times", []ddp.Param{{"t", "Text"}, {"n", "Zahl"}}, "eine Zahl", "Die Text Liste l ist n Mal (t verkettet mit \"m\").\n\tGib die Länge von l zurück."},
	{"c05_timesvar", []ddp.Param{{"t", "Text"}, {"n", "Zahl"}}, "eine Text Liste", "Die Text Liste l ist n Mal t.\n\tGib l zurück."},
	{"c05_timesstruct", []ddp.Param{{"t", "Text"}, {"n", "Zahl"}}, "eine Zahl", "Die Eintrag Liste l ist n Mal (ein Eintrag mit name gleich t).\n\tGib die Länge von l zurück."},
}

// textExpr builds a Text of n characters from the Zahl parameters z0..z(n-1) of a wrapper.
func textExpr(prefix string, n int) string {
	if n == 0 {
		return "\"\""
	}
	e := ""
	for k := 0; k < n; k++ {
		part := fmt.Sprintf("((%s%d als Buchstabe) als Text)", prefix, k)
		if k == 0 {
			e = part
		} else {
			e = "(" + e + " verkettet mit " + part + ")"
		}
	}
	return e
}

func wrapperName(t tmpl, n int) string { return fmt.Sprintf("c05_w_%s_n%d", t.name[4:], n) }

// wrapper renders a function with primitive parameters only that builds the non-primitive
// arguments, calls the template and returns its result: copying, passing and freeing of the
// arguments are all done by compiled code, under the optimisation level being checked.
func wrapper(t tmpl, n int) string {
	var ps []ddp.Param
	var pre []string
	var call []string
	for _, p := range t.params {
		switch p.Type {
		case "Text", "Text Referenz":
			for k := 0; k < n; k++ {
				ps = append(ps, ddp.Param{Name: fmt.Sprintf("%sz%d", p.Name, k), Type: "Zahl"})
			}
			pre = append(pre, fmt.Sprintf("Der Text %sv ist %s.", p.Name, textExpr(p.Name+"z", n)))
			call = append(call, p.Name+"v")
		case "Text Liste":
			for k := 0; k < n; k++ {
				ps = append(ps, ddp.Param{Name: fmt.Sprintf("%sz%d", p.Name, k), Type: "Zahl"})
			}
			if n == 0 {
				pre = append(pre, fmt.Sprintf("Die Text Liste %sv ist eine leere Text Liste.", p.Name))
			} else {
				var els []string
				for k := 0; k < n; k++ {
					els = append(els, fmt.Sprintf("((%sz%d als Buchstabe) als Text)", p.Name, k))
				}
				pre = append(pre, fmt.Sprintf("Die Text Liste %sv ist eine Liste, die aus %s besteht.", p.Name, strings.Join(els, ", ")))
			}
			call = append(call, p.Name+"v")
		default:
			ps = append(ps, p)
			call = append(call, p.Name)
		}
	}
	invoke := "(" + t.name + " " + strings.Join(call, " ") + ")"
	body := strings.Join(pre, "\n\t")
	if body != "" {
		body += "\n\t"
	}
	switch {
	case t.ret == "nichts" && t.name == "c05_setref":
		// the Referenz argument is returned so that its final value is owned by the caller
		body += t.name + " " + strings.Join(call, " ") + ".\n\tGib rv zurück."
		return ddp.Func(wrapperName(t, n), ps, "einen Text", body)
	case t.ret == "nichts":
		body += t.name + " " + strings.Join(call, " ") + ".\n\tGib 0 zurück."
		return ddp.Func(wrapperName(t, n), ps, "eine Zahl", body)
	}
	body += "Gib " + invoke + " zurück."
	return ddp.Func(wrapperName(t, n), ps, t.ret, body)
}

func (x *ctx) allSizes() map[string][]int {
	m := map[string][]int{}
	for _, t := range templates {
		m[t.name] = x.sizesFor(t)
	}
	return m
}

func (x *ctx) source() string {
	var sb strings.Builder
	sb.WriteString(structDecl)
	for _, t := range templates {
		sb.WriteString(ddp.FuncOpt(t.name, t.params, t.ret, t.body, false))
	}
	for _, t := range templates {
		for _, n := range x.sizesFor(t) {
			sb.WriteString(wrapper(t, n))
		}
	}
	return sb.String()
}

func Run(r *core.Report, env *build.Env) {
	r.Level = "model_checking"
	x := &ctx{r: r, env: env, timeout: 30 * time.Second, tmpl: map[int]*llread.Module{}, levels: []int{0, 2}}
	if r.Tier == "thorough" {
		x.timeout = 120 * time.Second
		x.levels = []int{0, 1, 2}
	}
	r.Bounds["texts"] = "argument texts of 0..2 symbolic bytes (valid ASCII range assumed for generated-code templates), list arguments of 0..2 texts"
	r.Bounds["paths"] = "branch conditions are symbolic Wahrheitswert parameters: every combination; loop counts 0..2"
	r.Assumptions = append(r.Assumptions, "inputs satisfy the representation invariant (Text: {NULL,0} or block of exactly cap bytes with one NUL at cap-1; list: block of exactly cap*elemsize bytes, 0<=len<=cap)",
		"realloc never fails", "callee owns its by-value non-primitive parameters (frees them), the caller owns the result and Referenz storage")
	r.Outside = append(r.Outside, "programs beyond the template family, recursion, the Duden library, allocation failure, libc internals", "frees performed at program exit for globals (module dispose)")
	var err error
	if x.rt, err = env.RuntimeIR(); err != nil {
		r.EngineFailf("runtime IR: %v", err)
		return
	}
	if x.lists, err = env.ListDefs(); err != nil {
		r.EngineFailf("list defs: %v", err)
		return
	}
	x.src = x.source()
	for _, opt := range x.levels {
		cm, err := env.CompileDDP("c05", x.src, opt)
		if err != nil || cm == nil || cm.Mod == nil {
			msg := ""
			if cm != nil {
				msg = cm.Stderr
			}
			r.EngineFailf("template module at -O%d: %v %s", opt, err, msg)
			return
		}
		x.tmpl[opt] = cm.Mod
		r.Programs++
	}
	var cells []llh.CellFn
	for _, opt := range x.levels {
		for _, t := range templates {
			t, opt := t, opt
			for _, n := range x.sizesFor(t) {
				n := n
				cells = append(cells, func() { x.cellTemplate(t, opt, n) })
			}
		}
	}
	cells = append(cells, x.runtimeCells()...)
	llh.RunParallel(llh.Wrap(r, cells), 16)
}

// sizesFor: the text-length / list-length case split for a template.
func (x *ctx) sizesFor(t tmpl) []int {
	switch t.name {
	case "c05_slice", "c05_replace":
		return []int{0, 1, 2, 3}
	}
	return []int{0, 1, 2}
}

func (x *ctx) newH(cell string, opt int) *llh.H {
	mods := append([]*llread.Module{x.tmpl[opt], x.lists}, x.rt...)
	h := llh.NewH(x.r, cell, x.timeout, diffRate(x.r), mods...)
	h.InstallUTF8Stubs()
	h.Ex.Sink("c05_sink")
	return h
}

func diffRate(r *core.Report) int {
	if r.Tier == "thorough" {
		return 1
	}
	return 10
}

func asciiText(h *llh.H, name string, n int) *llh.Text {
	if n == 0 {
		return h.NewText(name, nil, nil, 0)
	}
	c := h.C
	var bs []*smt.Expr
	for k := 0; k < n; k++ {
		b := h.Var(fmt.Sprintf("%s_b%d", name, k), 8)
		h.St.Assume(c.And(c.UGE(b, c.BV(8, 1)), c.ULE(b, c.BV(8, 0x7f))))
		bs = append(bs, b)
	}
	return h.NewText(name, bs, nil, 0)
}

// cellTemplate runs the wrapper of one template on symbolic characters/flags and audits the
// heap: when the wrapper returns, exactly the result's blocks are live.
func (x *ctx) cellTemplate(t tmpl, opt, n int) {
	h := x.newH(fmt.Sprintf("O%d/%s_n%d", opt, t.name[4:], n), opt)
	defer h.Close()
	c := h.C
	var args []llse.Val
	var roots []Root
	ret := t.ret
	if t.name == "c05_setref" {
		ret = "einen Text"
	}
	switch ret {
	case "einen Text":
		retObj := h.St.NewObject(c, llse.ObjStack, "ret", llh.TextHdr)
		args = append(args, h.Ptr(retObj))
		roots = append(roots, Root{Obj: retObj, Kind: "text", Name: "result"})
	case "eine Text Liste":
		retObj := h.St.NewObject(c, llse.ObjStack, "ret", llh.ListHdr)
		args = append(args, h.Ptr(retObj))
		roots = append(roots, Root{Obj: retObj, Kind: "textlist", Name: "result"})
	}
	asciiZahl := func(name string) llse.Val {
		v := h.Var(name, 64)
		h.St.Assume(c.And(c.SGE(v, c.BV(64, 1)), c.SLE(v, c.BV(64, 0x7f))))
		return llse.Val{E: v}
	}
	for _, p := range t.params {
		switch p.Type {
		case "Text", "Text Referenz", "Text Liste":
			for k := 0; k < n; k++ {
				args = append(args, asciiZahl(fmt.Sprintf("%sz%d", p.Name, k)))
			}
		case W:
			args = append(args, llse.Val{E: h.Var(p.Name, 1)})
		case "Zahl":
			v := h.Var(p.Name, 64)
			if t.name == "c05_while" || t.name == "c05_forto" || strings.HasPrefix(t.name, "c05_times") {
				h.St.Assume(c.And(c.SGE(v, c.BV(64, 0)), c.SLE(v, c.BV(64, 2))))
			}
			args = append(args, llse.Val{E: v})
		case "Buchstabe":
			ch := h.Var(p.Name, 32)
			h.St.Assume(c.And(c.UGE(ch, c.BV(32, 1)), c.ULE(ch, c.BV(32, 0x10ffff)), c.Or(c.ULT(ch, c.BV(32, 0xd800)), c.UGT(ch, c.BV(32, 0xdfff)))))
			args = append(args, llse.Val{E: ch})
		}
	}
	res := h.Run(wrapperName(t, n), args)
	nret, nerr := 0, 0
	for _, s := range res {
		h.On(s)
		if len(s.Faults) > 0 {
			nerr++ // a path cut short by a memory fault is reported as such
		}
		switch s.Term {
		case llse.TermReturn:
			nret++
			audit(h, s, roots, "at return")
		case llse.TermRuntimeError:
			nerr++ // a Laufzeitfehler ends the process: memory is not audited (C06 judges the error itself)
		}
	}
	if nret+nerr == 0 {
		x.r.EngineFailf("%s: vacuity guard: no terminating path", h.Cell)
	}
	x.r.Sample(map[string]any{"cell": h.Cell, "template": t.body, "paths": len(res)})
	x.finish(h, res, func(f *llh.Failure) (string, bool) { return x.replayTemplate(h, f, t, opt, n) })
}

func boolToInt(b bool) int {
	if b {
		return 1
	}
	return 0
}

func (x *ctx) finish(h *llh.H, res []*llse.State, replay func(f *llh.Failure) (string, bool)) {
	for _, s := range res {
		for _, f := range s.Faults {
			x.r.Oblige(1)
			h.Failed = append(h.Failed, llh.Failure{Obligation: "memory:" + f.Kind, Model: f.Model, Detail: f.Where, Path: s, Asserts: append(append([]*smt.Expr{}, f.PC...), f.Cond)})
		}
	}
	seen := map[string]bool{}
	for i := range h.Failed {
		f := &h.Failed[i]
		ob := f.Obligation
		if k := strings.Index(ob, "(heap,"); k > 0 {
			ob = ob[:k] // block identities vary between runs
		}
		key := h.Cell + "/" + ob
		if j := strings.Index(key, "/"); j >= 0 {
			key = key[j+1:]
		}
		if seen[key] {
			continue
		}
		seen[key] = true
		txt, confirmed := "(no native replay for this cell kind)", false
		if replay != nil {
			txt, confirmed = replay(f)
		}
		what := fmt.Sprintf("%s: obligation %q fails; model %s %s", h.Cell, f.Obligation, h.ModelString(f.Model), f.Detail)
		if confirmed {
			x.r.Replayed++
			x.r.Violate(key, what, txt)
		} else {
			x.r.Unconfirmedf("%s (replay: %s)", what, firstLines(txt, 4))
		}
	}
}

func firstLines(s string, n int) string {
	ls := strings.SplitN(s, "\n", n+1)
	if len(ls) > n {
		ls = ls[:n]
	}
	return strings.Join(ls, " | ")
}

// replayTemplate runs the template natively with the model's arguments under an allocation
// tracker (ddp_reallocate wrapped): confirmed when the real build leaks, releases a block it does
// not own, states a wrong size, or crashes.
func (x *ctx) replayTemplate(h *llh.H, f *llh.Failure, t tmpl, opt, n int) (string, bool) {
	m := h.Refine(f, nil, nil)
	if m == nil {
		return "no model", false
	}
	nc := &llh.NativeCall{Fn: t.name, DDPSrc: x.src, Opt: opt, RetC: "void", Track: true}
	switch t.ret {
	case "einen Text":
		nc.Args = append(nc.Args, llh.CArg{Kind: "outtext"})
	case "eine Text Liste":
		nc.Args = append(nc.Args, llh.CArg{Kind: "outlist", CType: "ddpstringlist", ElemC: "ddpstring"})
	case "eine Zahl":
		nc.RetC = "ddpint"
	case "einen Wahrheitswert":
		nc.RetC = "ddpbool"
	}
	val := func(name string) uint64 { return m.Vals[name] }
	nc.Fn = wrapperName(t, n)
	if t.name == "c05_setref" {
		nc.Args = append(nc.Args, llh.CArg{Kind: "outtext"})
	} else if t.ret == "nichts" {
		nc.RetC = "ddpint"
	}
	for _, p := range t.params {
		switch p.Type {
		case "Text", "Text Referenz", "Text Liste":
			for k := 0; k < n; k++ {
				nc.Args = append(nc.Args, llh.CArg{Kind: "int", CType: "ddpint", Bits: val(fmt.Sprintf("%sz%d", p.Name, k))})
			}
		case W:
			nc.Args = append(nc.Args, llh.CArg{Kind: "int", CType: "ddpbool", Bits: val(p.Name)})
		case "Zahl":
			nc.Args = append(nc.Args, llh.CArg{Kind: "int", CType: "ddpint", Bits: val(p.Name)})
		case "Buchstabe":
			nc.Args = append(nc.Args, llh.CArg{Kind: "int", CType: "ddpchar", Bits: val(p.Name)})
		}
	}
	nc.ExtraC = "ddpbool c05_sink(ddpstring *x) { return 1; }\n"
	nr := llh.RunNativeOpt(x.env, nc, true)
	txt := fmt.Sprintf("model: %s\ntemplate:\n\t%s\nnative (allocation tracker + valgrind): exit=%d err=%q\nstdout:\n%s\nstderr:\n%s\n--- driver.c ---\n%s", h.ModelString(m), t.body, nr.Exit, nr.Err, nr.Stdout, clipS(nr.Stderr, 3000), nr.Driver)
	if nr.Err != "" {
		return txt, false
	}
	if nr.RuntimeError() {
		return txt, false
	}
	bad := strings.Contains(nr.Stdout, "BAD ") || nr.Exit == 99 || nr.Exit >= 128 || nr.Exit < 0
	if tr, ok := nr.Field("TRACK"); ok {
		if !strings.Contains(tr, "bad=0 live=0") {
			bad = true
		}
	}
	return txt, bad
}

func clipS(s string, n int) string {
	if len(s) > n {
		return s[:n] + "..."
	}
	return s
}

// WSpec describes a wrapper for differential runs (C11).
type WSpec struct {
	Name   string
	Ret    string   // "text", "textlist", "zahl", "bool"
	Params []string // "ascii" (Zahl 1..127), "bool", "zahl02" (0..2), "zahl", "char"
}

func Specs() (string, []WSpec) {
	x := &ctx{}
	var out []WSpec
	for _, t := range templates {
		for _, n := range x.sizesFor(t) {
			w := WSpec{Name: wrapperName(t, n)}
			switch {
			case t.name == "c05_setref" || t.ret == "einen Text":
				w.Ret = "text"
			case t.ret == "eine Text Liste":
				w.Ret = "textlist"
			case t.ret == "einen Wahrheitswert":
				w.Ret = "bool"
			default:
				w.Ret = "zahl"
			}
			for _, p := range t.params {
				switch p.Type {
				case "Text", "Text Referenz", "Text Liste":
					for k := 0; k < n; k++ {
						w.Params = append(w.Params, "ascii")
					}
				case W:
					w.Params = append(w.Params, "bool")
				case "Zahl":
					if t.name == "c05_while" || t.name == "c05_forto" || strings.HasPrefix(t.name, "c05_times") {
						w.Params = append(w.Params, "zahl02")
					} else {
						w.Params = append(w.Params, "zahl")
					}
				case "Buchstabe":
					w.Params = append(w.Params, "char")
				}
			}
			out = append(out, w)
		}
	}
	return x.source(), out
}
