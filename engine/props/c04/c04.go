// Package c04: statically ill-formed programs are never accepted (unit level).
package c04

import (
	"verif/engine/build"
	"verif/engine/props/core"
	"verif/engine/props/goh"
)

func Run(r *core.Report, env *build.Env) {
	r.Level = "model_checking"
	s := &goh.Suite{R: r, Env: env, Patterns: []string{"./src/parser/typechecker", "./src/parser/resolver", "./src/ddptypes", "./src/ast", "./src/parser"}, Files: map[string]string{
		"src/parser/typechecker/zz_verif_c04.go": "typechecker/zz_verif_c04.go",
		"src/parser/typechecker/zz_verif_c14.go": "typechecker/zz_verif_c14.go",
		"src/parser/typechecker/zz_verif_c07.go": "typechecker/zz_verif_c07.go",
		"src/parser/resolver/zz_verif_c04.go":    "resolver/zz_verif_c04.go",
		"src/parser/zz_verif_c04.go":             "parser/zz_verif_c04.go",
	}}
	if !s.Load() {
		return
	}
	r.Assumptions = append(r.Assumptions, "the reference inadmissibility relation per operator is written in the harness from the language rules; only the direction 'inadmissible => error diagnostic and faulty module' is asserted",
		"operators are symbolic values of the operator enumeration; operand types are type terms of depth <= 1 with symbolic primitive kinds")
	r.Outside = append(r.Outside, "fault classes decided by the parser: leaving/continuing outside loops, missing final return, article/gender agreement, visibility across modules, constant protection in the expression parser",
		"whole programs: that no executable is produced")
	hs := []goh.Harness{
		{Pkg: "src/parser/typechecker", Func: "VerifC04Unary", Bound: "every unary operator x every operand type term of depth <= 1"},
		{Pkg: "src/parser/typechecker", Func: "VerifC04Binary", Bound: "every binary operator x every pair of operand type terms of depth <= 1"},
		{Pkg: "src/parser/typechecker", Func: "VerifC04Statements", Bound: "conditions of wenn/solange/mache, repeat counts, returned values: every type term of depth <= 1"},
		{Pkg: "src/parser/typechecker", Func: "VerifC07SilentRestores", Bound: "speculative (silent) evaluation of an ill-typed expression: all prior flag values; later errors are delivered again"},
		{Pkg: "src/parser/typechecker", Func: "VerifC04CallArgs", Bound: "call / Kombination literal with 2 arguments: one parameter/argument pair as type terms of depth <= 1 (the other Zahl/Zahl), Referenz flags and assignability of both symbolic"},
		{Pkg: "src/parser/resolver", Func: "VerifC04Scopes2", Bound: "2 declarations (variable/Konstante/function, symbolic 1-byte names) over 3 nested scopes, then a use or an assignment"},
		{Pkg: "src/parser/resolver", Func: "VerifC04Scopes3", Bound: "3 declarations over 3 nested scopes, then a use or an assignment"},
	}
	hs = append(hs,
		goh.Harness{Pkg: "src/parser", Func: "VerifC04FinalReturn", Bound: "whole frontend: function declared in one piece / declared first and defined later / generic and instantiated, returning Zahl or Text, 6 body shapes"},
		goh.Harness{Pkg: "src/parser", Func: "VerifC04LoopControl", Bound: "whole frontend: leave/continue x 8 placements x 4 loop forms"},
		goh.Harness{Pkg: "src/parser", Func: "VerifC04Articles", Bound: "whole frontend: 3 articles x 12 types (primitives, lists, Variable, type definition, type alias, Kombination)"},
		goh.Harness{Pkg: "src/parser", Func: "VerifC04Constants", Bound: "whole frontend: Konstante or variable x 7 uses (assignment, in-place change, Referenz argument, value argument, read)"},
		goh.Harness{Pkg: "src/parser", Func: "VerifC04ScopeUses", Bound: "whole frontend: 8 scope situations (block, use before declaration, parameter, loop variable, redeclaration, nesting, shadowing, foreign local)"},
	)
	if r.Tier == "thorough" {
		hs = append(hs,
			goh.Harness{Pkg: "src/parser/typechecker", Func: "VerifC04Ternary", Bound: "every ternary operator x every triple of operand type terms of depth <= 1"},
		)
	}
	for _, h := range hs {
		s.Run(h)
	}
}
