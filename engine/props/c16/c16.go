// Package c16: compilation is repeatable (map iteration order and sort instability do not show).
package c16

import (
	"time"

	"verif/engine/build"
	"verif/engine/gose"
	"verif/engine/props/core"
	"verif/engine/props/goh"
)

func Run(r *core.Report, env *build.Env) {
	r.Level = "model_checking"
	s := &goh.Suite{R: r, Env: env, Patterns: []string{"./src/ast", "./src/parser/typechecker", "./src/parser/resolver", "./src/ddptypes", "./src/parser"}, Files: map[string]string{
		"src/ast/zz_verif_c16.go":                "ast/zz_verif_c16.go",
		"src/parser/typechecker/zz_verif_c16.go": "typechecker/zz_verif_c16.go",
		"src/parser/typechecker/zz_verif_c14.go": "typechecker/zz_verif_c14.go",
		"src/parser/typechecker/zz_verif_c04.go": "typechecker/zz_verif_c04.go",
		"src/parser/typechecker/zz_verif_c07.go": "typechecker/zz_verif_c07.go",
		"src/parser/resolver/zz_verif_c16.go":    "resolver/zz_verif_c16.go",
		"src/parser/resolver/zz_verif_c04.go":    "resolver/zz_verif_c04.go",
		"src/parser/zz_verif_c16.go":             "parser/zz_verif_c16.go",
	}}
	if !s.Load() {
		return
	}
	r.Assumptions = append(r.Assumptions,
		"under the symbolic executor every range statement over a Go map follows a permutation chosen by fresh symbolic selectors; the same inputs are processed twice with independent permutations and the two observable outcomes are asserted equal (self-composition)",
		"sort.Slice is executed as the real pdqsort code of the Go standard library on the symbolic comparison outcomes")
	r.Outside = append(r.Outside, "map iterations inside the code generator and the linker driver (cgo / process level: src/compiler, cmd/internal/linker)", "maps with more entries than the bounds", "process-level repetition (address-dependent behaviour)")
	hs := []goh.Harness{
		{Pkg: "src/ast", Func: "VerifC16Decls2", Bound: "2 public declarations at symbolic positions (lines, columns 1..3), all map orders x 2 runs"},
		{Pkg: "src/ast", Func: "VerifC16Decls3", Bound: "3 public declarations at symbolic positions, all map orders x 2 runs"},
		{Pkg: "src/ast", Func: "VerifC16ModuleWalk", Bound: "4 modules, every acyclic import relation in both listing orders, all map orders x 2 runs"},
		{Pkg: "src/parser/typechecker", Func: "VerifC16CallArgs", Bound: "a call with 3 arguments, each well- or ill-typed (symbolic), Referenz or value parameter: diagnostics of 2 runs over all map orders"},
		{Pkg: "src/parser/typechecker", Func: "VerifC16StructArgs", Bound: "a Kombination literal with 3 fields, each argument well- or ill-typed: diagnostics of 2 runs over all map orders"},
		{Pkg: "src/parser/resolver", Func: "VerifC16ResolveArgs", Bound: "a call / Kombination literal with 3 arguments, each naming a declared or an undeclared variable: diagnostics of 2 runs over all map orders"},
	}
	hs = append(hs, goh.Harness{Pkg: "src/parser", Func: "VerifC16Frontend", Bound: "whole frontend twice on programs with 3 forward declarations (each defined or not) and one of 4 further fault groups; every map range in the frontend under its own symbolic order", Opts: gose.Options{StopAfter: 1, MaxPaths: 60000, Deadline: 15 * time.Minute}})
	if r.Tier == "thorough" {
		hs = append(hs, goh.Harness{Pkg: "src/ast", Func: "VerifC16Decls4", Bound: "4 public declarations at symbolic positions, all map orders x 2 runs"})
	}
	for _, h := range hs {
		s.Run(h)
	}
}
