// Package c07: failure is reported faithfully (flag, exit status, source ranges).
package c07

import (
	"time"

	"verif/engine/build"
	"verif/engine/gose"
	"verif/engine/props/core"
	"verif/engine/props/goh"
)

func Run(r *core.Report, env *build.Env) {
	r.Level = "model_checking"
	s := &goh.Suite{R: r, Env: env, Patterns: []string{"./src/scanner", "./src/ddperror", "./src/parser/..."}, Files: map[string]string{
		"src/scanner/zz_verif_c07.go":            "scanner/zz_verif_c07.go",
		"src/ddperror/zz_verif_c07.go":           "ddperror/zz_verif_c07.go",
		"src/parser/zz_verif_c07.go":             "parser/zz_verif_c07.go",
		"src/parser/zz_verif_c09b.go":            "parser/zz_verif_c09b.go",
		"src/parser/typechecker/zz_verif_c07.go": "typechecker/zz_verif_c07.go",
	}}
	if !s.Load() {
		return
	}
	r.Outside = append(r.Outside, "the range constructions inside the parser, resolver and typechecker on whole programs", "the equivalence errored <=> Faulty <=> exit status over whole compilations and kddp's CLI",
		"diagnostics of imported modules and generic instantiations")
	sc := gose.ModPath + "/src/scanner."
	sum := []string{sc + "isAlpha", sc + "isDigit", sc + "isAlphaNumeric", sc + "isSpace", sc + "isUpper"}
	hs := []goh.Harness{
		{Pkg: "src/scanner", Func: "VerifC07ScanN1", Bound: "scanner ranges: all byte strings of length 1"},
		{Pkg: "src/scanner", Func: "VerifC07ScanN2", Bound: "scanner ranges: all byte strings of length 2"},
		{Pkg: "src/scanner", Func: "VerifC07ScanN3", Bound: "scanner ranges: all byte strings of length 3"},
		{Pkg: "src/scanner", Func: "VerifC07ScanAliasN2", Bound: "scanner ranges, alias mode: all byte strings of length 2"},
		{Pkg: "src/ddperror", Func: "VerifC07Render2", Bound: "excerpt renderer: all sources of 2 characters over {a, ä, tab, CR, LF, space}, every in-file range"},
		{Pkg: "src/ddperror", Func: "VerifC07Render3", Bound: "excerpt renderer: all sources of 3 characters over the alphabet, every in-file range"},
		{Pkg: "src/parser", Func: "VerifC07ParserFlag", Bound: "parser.errVal / warn: all prior flag values and both levels"},
		{Pkg: "src/parser/typechecker", Func: "VerifC07SilentRestores", Bound: "Typechecker.EvaluateSilent: all prior flag values"},
		{Pkg: "src/parser", Func: "VerifC07ParseFlags1", Bound: "whole frontend on every source of 1 byte: faulty flag against delivered errors"},
		{Pkg: "src/parser", Func: "VerifC07ParseFlags2", Bound: "whole frontend on every source of 2 bytes: faulty flag against delivered errors"},
		{Pkg: "src/parser", Func: "VerifC07ParseFlags3", Bound: "whole frontend on every source of 3 bytes: faulty flag against delivered errors", Opts: gose.Options{Deadline: 30 * time.Minute}},
		{Pkg: "src/parser", Func: "VerifC07ExprRanges", Bound: "46 expression forms (every operator syntax) as ill-typed initial value and as ill-typed assigned value: ranges of all diagnostics"},
		{Pkg: "src/parser", Func: "VerifC07CallSiteFlags", Bound: "the call-site programs of C09 (populations of up to 2 of 11 alias declarations incl. a generic one whose instantiation fails, x 8 argument forms per position): faulty flag against delivered errors"},
		{Pkg: "src/parser", Func: "VerifC07ImportDiagnostics", Bound: "two modules in memory: every subset of 6 library and 3 local declarations x 5 import forms x both orders, with and without a call that passes over a generic candidate of the library; all diagnostics of the main module"},
	}
	if r.Tier == "thorough" {
		hs = append(hs,
			goh.Harness{Pkg: "src/scanner", Func: "VerifC07ScanN4", Bound: "scanner ranges: all byte strings of length 4"},
			goh.Harness{Pkg: "src/scanner", Func: "VerifC07ScanAliasN3", Bound: "scanner ranges, alias mode: all byte strings of length 3"},
			goh.Harness{Pkg: "src/scanner", Func: "VerifC07ScanStrictN3", Bound: "scanner ranges, strict mode: all byte strings of length 3"},
			goh.Harness{Pkg: "src/ddperror", Func: "VerifC07Render4", Bound: "excerpt renderer: all sources of 4 characters over the alphabet, every in-file range"},
		)
	}
	for _, h := range hs {
		h.Opts.Summarize = sum
		s.Run(h)
	}
}
