// Package build regenerates every artefact a check consumes from /repo's current working tree:
// the kddp compiler, the generated list functions as IR, the C runtime as IR (clang), compiled
// DDP templates, and (on demand) a minimal install tree to link and run replays.
package build

import (
	"bytes"
	"fmt"
	"os"
	"os/exec"
	"path/filepath"
	"strings"
	"sync"
	"time"

	"verif/engine/llread"
)

var Repo = "/repo"

type Env struct {
	Dir      string
	Inst     string
	Kddp     string
	mu       sync.Mutex
	n        int
	replayOK bool
	Timings  map[string]float64
}

func envRepo() {
	if r := os.Getenv("VERIF_REPO"); r != "" {
		Repo = r
	}
}

func NewEnv() (*Env, error) {
	envRepo()
	base := os.Getenv("VERIF_SCRATCH")
	if base == "" {
		base = "/var/tmp"
	}
	dir, err := os.MkdirTemp(base, "verif_")
	if err != nil {
		return nil, err
	}
	e := &Env{Dir: dir, Inst: filepath.Join(dir, "inst"), Timings: map[string]float64{}}
	for _, d := range []string{"bin", "lib"} {
		os.MkdirAll(filepath.Join(e.Inst, d), 0o755)
	}
	return e, nil
}

func (e *Env) Cleanup() {
	if os.Getenv("VERIF_KEEP") != "" {
		fmt.Fprintln(os.Stderr, "kept scratch dir", e.Dir)
		return
	}
	os.RemoveAll(e.Dir)
}

func run(dir string, env []string, timeout time.Duration, name string, args ...string) (string, string, int, error) {
	cmd := exec.Command(name, args...)
	cmd.Dir = dir
	cmd.Env = append(os.Environ(), env...)
	var so, se bytes.Buffer
	cmd.Stdout = &so
	cmd.Stderr = &se
	if err := cmd.Start(); err != nil {
		return "", "", -1, err
	}
	done := make(chan error, 1)
	go func() { done <- cmd.Wait() }()
	select {
	case err := <-done:
		code := 0
		if err != nil {
			if ee, ok := err.(*exec.ExitError); ok {
				code = ee.ExitCode()
				err = nil
			}
		}
		return so.String(), se.String(), code, err
	case <-time.After(timeout):
		cmd.Process.Kill()
		return so.String(), se.String(), -1, fmt.Errorf("timeout after %v: %s %v", timeout, name, args)
	}
}

func llvmConfig(args ...string) string {
	out, _ := exec.Command("llvm-config-14", args...).Output()
	return strings.TrimSpace(string(out))
}

// GoEnv is the environment for go commands on the repository (offline, cached 1.24 toolchain).
func GoEnv() []string {
	return []string{"GOFLAGS=-mod=mod", "GOPROXY=off", "GOTOOLCHAIN=auto"}
}

// BuildKddp builds cmd/kddp from the current working tree with the system LLVM 14.
func (e *Env) BuildKddp() error {
	t0 := time.Now()
	e.Kddp = filepath.Join(e.Inst, "bin", "kddp")
	env := append(GoEnv(),
		"CGO_CPPFLAGS="+llvmConfig("--cppflags"),
		"CGO_CXXFLAGS=-std=c++14",
		"CGO_LDFLAGS="+llvmConfig("--ldflags", "--libs", "--system-libs", "all"))
	tags := "byollvm"
	if t := os.Getenv("VERIF_TAGS"); t != "" {
		tags += "," + t
	}
	_, se, code, err := run(filepath.Join(Repo, "cmd", "kddp"), env, 10*time.Minute, "go", "build", "-o", e.Kddp, "-tags", tags, ".")
	if err != nil || code != 0 {
		return fmt.Errorf("building kddp failed (%v, exit %d): %s", err, code, se)
	}
	// Duden sources are needed by programs that import the standard library
	if _, se, code, err := run(e.Dir, nil, time.Minute, "rsync", "-a", filepath.Join(Repo, "lib", "stdlib", "Duden"), e.Inst+"/"); err != nil || code != 0 {
		return fmt.Errorf("copying Duden failed: %v %s", err, se)
	}
	e.Timings["build_kddp_s"] = time.Since(t0).Seconds()
	return nil
}

func (e *Env) kddpEnv() []string { return []string{"DDPPATH=" + e.Inst} }

// ListDefs emits the generated list functions as IR (and object) into the install tree.
func (e *Env) ListDefs() (*llread.Module, error) {
	t0 := time.Now()
	out := filepath.Join(e.Inst, "lib", "ddp_list_types_defs")
	_, se, code, err := run(e.Dir, e.kddpEnv(), 2*time.Minute, e.Kddp, "dump-list-defs", "-o", out, "--llvm-ir", "--object")
	if err != nil || code != 0 {
		return nil, fmt.Errorf("dump-list-defs failed (%v, %d): %s", err, code, se)
	}
	m, err := llread.ParseFile(out + ".ll")
	e.Timings["list_defs_s"] = time.Since(t0).Seconds()
	return m, err
}

// RuntimeIR compiles the C runtime (and selected stdlib files) to IR with clang -O1.
func (e *Env) RuntimeIR(stdlibFiles ...string) ([]*llread.Module, error) {
	t0 := time.Now()
	var mods []*llread.Module
	rt := filepath.Join(Repo, "lib", "runtime")
	files := []string{"source/DDP/operators.c", "source/DDP/ddptypes.c", "source/DDP/memory.c", "source/DDP/utf8/utf8.c"}
	outdir := filepath.Join(e.Dir, "rtir")
	os.MkdirAll(outdir, 0o755)
	compile := func(src string, incs ...string) error {
		out := filepath.Join(outdir, strings.ReplaceAll(strings.TrimSuffix(filepath.Base(src), ".c"), "/", "_")+".ll")
		args := []string{"-S", "-emit-llvm", "-O1", "-std=c11", "-D_POSIX_C_SOURCE=200809L", "-fno-vectorize", "-fno-slp-vectorize", "-fno-unroll-loops", "-fno-builtin"}
		for _, i := range incs {
			args = append(args, "-I"+i)
		}
		args = append(args, "-o", out, src)
		_, se, code, err := run(e.Dir, nil, 2*time.Minute, "clang-14", args...)
		if err != nil || code != 0 {
			return fmt.Errorf("clang %s failed (%v, %d): %s", src, err, code, se)
		}
		m, err := llread.ParseFile(out)
		if err != nil {
			return err
		}
		mods = append(mods, m)
		return nil
	}
	for _, f := range files {
		if err := compile(filepath.Join(rt, f), filepath.Join(rt, "include")); err != nil {
			return nil, err
		}
	}
	sl := filepath.Join(Repo, "lib", "stdlib")
	for _, f := range stdlibFiles {
		if err := compile(filepath.Join(sl, "source", "DDP", f), filepath.Join(sl, "include"), filepath.Join(rt, "include")); err != nil {
			return nil, err
		}
	}
	e.Timings["runtime_ir_s"] = time.Since(t0).Seconds()
	return mods, nil
}

// CompileC compiles a C source text against the real runtime headers to IR.
func (e *Env) CompileC(name, src string) (*llread.Module, error) {
	p := filepath.Join(e.Dir, name+".c")
	if err := os.WriteFile(p, []byte(src), 0o644); err != nil {
		return nil, err
	}
	out := filepath.Join(e.Dir, name+".c.ll")
	rt := filepath.Join(Repo, "lib", "runtime")
	_, se, code, err := run(e.Dir, nil, time.Minute, "clang-14", "-S", "-emit-llvm", "-O1", "-std=c11", "-D_POSIX_C_SOURCE=200809L",
		"-fno-vectorize", "-fno-slp-vectorize", "-fno-unroll-loops", "-fno-builtin", "-I"+filepath.Join(rt, "include"), "-o", out, p)
	if err != nil || code != 0 {
		return nil, fmt.Errorf("clang %s failed (%v, %d): %s", name, err, code, se)
	}
	return llread.ParseFile(out)
}

type Compiled struct {
	Mod    *llread.Module
	LLPath string
	Stderr string
	Stdout string
	Code   int
}

// CompileDDP compiles a DDP source text to textual IR at the given optimisation level. A
// rejected program is reported through Code != 0 and Mod == nil (not an error).
func (e *Env) CompileDDP(name, src string, opt int, extra ...string) (*Compiled, error) {
	e.mu.Lock()
	e.n++
	id := e.n
	e.mu.Unlock()
	dir := filepath.Join(e.Dir, fmt.Sprintf("p%d", id))
	os.MkdirAll(dir, 0o755)
	p := filepath.Join(dir, name+".ddp")
	if err := os.WriteFile(p, []byte(src), 0o644); err != nil {
		return nil, err
	}
	out := filepath.Join(dir, name+".ll")
	args := append([]string{"kompiliere", p, "-o", out, "-O", fmt.Sprint(opt), "--list-defs-linken=false"}, extra...)
	so, se, code, err := run(dir, e.kddpEnv(), 2*time.Minute, e.Kddp, args...)
	if err != nil {
		return nil, err
	}
	c := &Compiled{LLPath: out, Stderr: se, Stdout: so, Code: code}
	if code != 0 {
		return c, nil
	}
	if _, err := os.Stat(out); err != nil {
		c.Code = -2
		return c, nil
	}
	m, err := llread.ParseFile(out)
	if err != nil {
		return nil, err
	}
	c.Mod = m
	return c, nil
}

// CompileProject compiles a program of several modules: files maps file names (relative, with
// .ddp) to their text, main names the root module. All files are placed in one fresh directory.
func (e *Env) CompileProject(files map[string]string, main string, opt int, extra ...string) (*Compiled, error) {
	e.mu.Lock()
	e.n++
	id := e.n
	e.mu.Unlock()
	dir := filepath.Join(e.Dir, fmt.Sprintf("p%d", id))
	os.MkdirAll(dir, 0o755)
	for name, src := range files {
		p := filepath.Join(dir, name)
		os.MkdirAll(filepath.Dir(p), 0o755)
		if err := os.WriteFile(p, []byte(src), 0o644); err != nil {
			return nil, err
		}
	}
	out := filepath.Join(dir, strings.TrimSuffix(main, ".ddp")+".ll")
	args := append([]string{"kompiliere", filepath.Join(dir, main), "-o", out, "-O", fmt.Sprint(opt), "--list-defs-linken=false"}, extra...)
	so, se, code, err := run(dir, e.kddpEnv(), 2*time.Minute, e.Kddp, args...)
	if err != nil {
		return nil, err
	}
	c := &Compiled{LLPath: out, Stderr: se, Stdout: so, Code: code}
	if code != 0 {
		return c, nil
	}
	if _, err := os.Stat(out); err != nil {
		c.Code = -2
		return c, nil
	}
	m, err := llread.ParseFile(out)
	if err != nil {
		return nil, err
	}
	c.Mod = m
	return c, nil
}

// WriteFile places an auxiliary file (e.g. an imported module) next to future compilations.
func (e *Env) WriteFile(rel, content string) (string, error) {
	p := filepath.Join(e.Dir, rel)
	os.MkdirAll(filepath.Dir(p), 0o755)
	return p, os.WriteFile(p, []byte(content), 0o644)
}

// ReplayTree builds libddpruntime.a, main.o and a reduced libddpstdlib.a (the C files that need
// no third-party library) so that programs can be linked by hand and run.
func (e *Env) ReplayTree() error {
	e.mu.Lock()
	defer e.mu.Unlock()
	if e.replayOK {
		return nil
	}
	t0 := time.Now()
	rtcopy := filepath.Join(e.Dir, "runtime")
	if _, se, code, err := run(e.Dir, nil, time.Minute, "rsync", "-a", "--exclude", "*.o", "--exclude", "*.a", filepath.Join(Repo, "lib", "runtime")+"/", rtcopy+"/"); err != nil || code != 0 {
		return fmt.Errorf("copy runtime: %v %s", err, se)
	}
	if _, se, code, err := run(rtcopy, nil, 3*time.Minute, "make", "libddpruntime.a", "source/main.o"); err != nil || code != 0 {
		return fmt.Errorf("make runtime: %v %s", err, se)
	}
	for _, f := range []string{"libddpruntime.a", "source/main.o"} {
		b, err := os.ReadFile(filepath.Join(rtcopy, f))
		if err != nil {
			return err
		}
		if err := os.WriteFile(filepath.Join(e.Inst, "lib", filepath.Base(f)), b, 0o644); err != nil {
			return err
		}
	}
	sl := filepath.Join(Repo, "lib", "stdlib")
	objdir := filepath.Join(e.Dir, "stdobj")
	os.MkdirAll(objdir, 0o755)
	var objs []string
	for _, f := range []string{"io", "lists", "strings", "math", "runtime_util", "string_builder", "text_iterator"} {
		o := filepath.Join(objdir, f+".o")
		if _, se, code, err := run(e.Dir, nil, time.Minute, "gcc", "-c", "-O2", "-std=c11", "-D_POSIX_C_SOURCE=200809L", "-I"+filepath.Join(sl, "include"), "-I"+filepath.Join(Repo, "lib", "runtime", "include"),
			"-o", o, filepath.Join(sl, "source", "DDP", f+".c")); err != nil || code != 0 {
			return fmt.Errorf("gcc stdlib %s: %v %s", f, err, se)
		}
		objs = append(objs, o)
	}
	if _, se, code, err := run(e.Dir, nil, time.Minute, "ar", append([]string{"rcs", filepath.Join(e.Inst, "lib", "libddpstdlib.a")}, objs...)...); err != nil || code != 0 {
		return fmt.Errorf("ar stdlib: %v %s", err, se)
	}
	e.replayOK = true
	e.Timings["replay_tree_s"] = time.Since(t0).Seconds()
	return nil
}

type RunResult struct {
	Stdout, Stderr string
	Exit           int
	CompileErr     string
}

// RunDDP compiles, links and runs a DDP program natively (replay).
func (e *Env) RunDDP(name, src string, opt int, cfiles ...string) (*RunResult, error) {
	if err := e.ReplayTree(); err != nil {
		return nil, err
	}
	e.mu.Lock()
	e.n++
	id := e.n
	e.mu.Unlock()
	dir := filepath.Join(e.Dir, fmt.Sprintf("r%d", id))
	os.MkdirAll(dir, 0o755)
	p := filepath.Join(dir, name+".ddp")
	os.WriteFile(p, []byte(src), 0o644)
	obj := filepath.Join(dir, name+".o")
	_, se, code, err := run(dir, e.kddpEnv(), 2*time.Minute, e.Kddp, "kompiliere", p, "-o", obj, "-O", fmt.Sprint(opt))
	if err != nil {
		return nil, err
	}
	if code != 0 {
		return &RunResult{CompileErr: se, Exit: code}, nil
	}
	exe := filepath.Join(dir, name)
	args := []string{"-o", exe, obj}
	for i, cf := range cfiles {
		cp := filepath.Join(dir, fmt.Sprintf("x%d.c", i))
		os.WriteFile(cp, []byte(cf), 0o644)
		args = append(args, cp, "-I"+filepath.Join(Repo, "lib", "runtime", "include"))
	}
	args = append(args, "-L"+filepath.Join(e.Inst, "lib"), "-lddpstdlib", "-lddpruntime", "-lm", filepath.Join(e.Inst, "lib", "main.o"))
	if _, se, code, err := run(dir, nil, 2*time.Minute, "gcc", args...); err != nil || code != 0 {
		return &RunResult{CompileErr: "link: " + se, Exit: code}, nil
	}
	so, se2, code, err := run(dir, nil, 30*time.Second, exe)
	if err != nil {
		return &RunResult{Stdout: so, Stderr: se2 + err.Error(), Exit: -1}, nil
	}
	return &RunResult{Stdout: so, Stderr: se2, Exit: code}, nil
}

// RunC compiles a C driver against the freshly built runtime with ASan/UBSan and runs it.
func (e *Env) RunC(name, src string) (*RunResult, error) {
	e.mu.Lock()
	e.n++
	id := e.n
	e.mu.Unlock()
	dir := filepath.Join(e.Dir, fmt.Sprintf("c%d", id))
	os.MkdirAll(dir, 0o755)
	p := filepath.Join(dir, name+".c")
	os.WriteFile(p, []byte(src), 0o644)
	rt := filepath.Join(Repo, "lib", "runtime")
	exe := filepath.Join(dir, name)
	args := []string{"-g", "-O1", "-std=c11", "-D_POSIX_C_SOURCE=200809L", "-fsanitize=address,undefined", "-fno-omit-frame-pointer", "-I" + filepath.Join(rt, "include"), "-o", exe, p}
	for _, f := range []string{"operators.c", "ddptypes.c", "memory.c", "common.c", "runtime.c", "utf8/utf8.c"} {
		args = append(args, filepath.Join(rt, "source", "DDP", f))
	}
	if lo := filepath.Join(e.Inst, "lib", "ddp_list_types_defs.o"); fileExists(lo) {
		args = append(args, lo)
	}
	args = append(args, "-lm")
	if _, se, code, err := run(dir, nil, 2*time.Minute, "clang-14", args...); err != nil || code != 0 {
		return &RunResult{CompileErr: se, Exit: code}, nil
	}
	so, se, code, err := run(dir, []string{"ASAN_OPTIONS=detect_leaks=1"}, 30*time.Second, exe)
	if err != nil {
		return &RunResult{Stdout: so, Stderr: se + err.Error(), Exit: -1}, nil
	}
	return &RunResult{Stdout: so, Stderr: se, Exit: code}, nil
}

func fileExists(p string) bool {
	_, err := os.Stat(p)
	return err == nil
}
