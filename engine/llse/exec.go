package llse

import (
	"fmt"
	"math"
	"strings"

	"verif/engine/llread"
	"verif/engine/smt"
)

// ExternFn models a function that has no IR body (or overrides one). It must either set the
// result with ex.SetResult and return the continuing states, or terminate st and return nil.
type ExternFn func(ex *Exec, st *State, in *llread.Inst, args []Val) []*State

type Exec struct {
	C         *smt.Ctx
	P         *smt.Prover
	Mods      []*llread.Module
	Externs   map[string]ExternFn
	PreHooks  map[string]PreHook
	MaxSteps  int // per path
	MaxPaths  int
	ModelVars []*smt.Expr // variables whose values are requested with every fault model
	nextState int
	nextObj   int
	i8        *llread.Type
	// statistics
	Paths       int
	Forks       int
	Insts       int
	Unsupported map[string]int
	FuncsRun    map[string]int
	StubsUsed   map[string]int
	LogTrace    bool
}

func NewExec(c *smt.Ctx, p *smt.Prover, mods ...*llread.Module) *Exec {
	ex := &Exec{C: c, P: p, Mods: mods, Externs: map[string]ExternFn{}, MaxSteps: 200000, MaxPaths: 4000,
		Unsupported: map[string]int{}, FuncsRun: map[string]int{}, StubsUsed: map[string]int{},
		i8: &llread.Type{Kind: llread.TInt, Bits: 8, Size: 1}}
	installDefaultExterns(ex)
	return ex
}

func (ex *Exec) NewState() *State {
	ex.nextState++
	return &State{id: ex.nextState, Objs: map[int]*Object{}, Globals: map[string]int{}, nextObj: &ex.nextObj}
}

func (ex *Exec) FindFunc(name string) *llread.Func {
	var decl *llread.Func
	for _, m := range ex.Mods {
		if f, ok := m.Funcs[name]; ok {
			if !f.Decl {
				return f
			}
			decl = f
		}
	}
	return decl
}

func (ex *Exec) findGlobalDef(name string) *llread.Global {
	var decl *llread.Global
	for _, m := range ex.Mods {
		if g, ok := m.Globals[name]; ok {
			if !g.External {
				return g
			}
			decl = g
		}
	}
	return decl
}

func (ex *Exec) check(st *State, extra []*smt.Expr, want []*smt.Expr) (smt.Result, *smt.Model, string) {
	as := append(append([]*smt.Expr{}, st.PC...), extra...)
	return ex.P.Check(as, want)
}

func (ex *Exec) abort(st *State, msg string) {
	st.Term = TermAbort
	st.TermMsg = msg
	ex.Unsupported[firstWords(msg)]++
}

func firstWords(s string) string {
	if i := strings.Index(s, ":"); i > 0 {
		return s[:i]
	}
	if len(s) > 60 {
		return s[:60]
	}
	return s
}

func (ex *Exec) where(st *State) string {
	if len(st.Frames) == 0 {
		return "?"
	}
	f := st.top()
	if f.Blk != nil && f.PC < len(f.Blk.Insts) {
		return f.Fn.Name + ": " + strings.TrimSpace(f.Blk.Insts[f.PC].Text)
	}
	return f.Fn.Name
}

func (ex *Exec) fault(st *State, kind, where string, cond *smt.Expr) {
	var m *smt.Model
	if len(ex.ModelVars) > 0 {
		_, m, _ = ex.check(st, []*smt.Expr{cond}, ex.ModelVars)
	}
	ex.faultM(st, kind, where, cond, m)
}

func (ex *Exec) faultM(st *State, kind, where string, cond *smt.Expr, m *smt.Model) {
	st.Faults = append(st.Faults, Fault{Kind: kind, Where: where + " @ " + ex.where(st), Cond: cond, Model: m, PC: append([]*smt.Expr(nil), st.PC...)})
}

// SetResult stores the result of the current call instruction.
func (ex *Exec) SetResult(st *State, in *llread.Inst, v Val) {
	if in != nil && in.Type.Kind != llread.TVoid {
		st.top().Regs[in.ID] = v
	}
}

// Call sets up a top-level call of fn on st.
func (ex *Exec) Call(st *State, fn *llread.Func, args []Val) {
	ex.pushFrame(st, fn, args, nil, nil)
}

func (ex *Exec) pushFrame(st *State, fn *llread.Func, args []Val, varargs []Val, call *llread.Inst) {
	fr := &Frame{Fn: fn, Regs: make([]Val, fn.NInst), Args: args, VarArg: varargs, Blk: fn.Blocks[0], Call: call}
	st.Frames = append(st.Frames, fr)
	ex.FuncsRun[fn.Name]++
}

// Run explores all paths from st (which must have a frame) and returns the terminal states.
func (ex *Exec) Run(st *State) []*State {
	work := []*State{st}
	var done []*State
	for len(work) > 0 {
		s := work[len(work)-1]
		work = work[:len(work)-1]
		for s.Term == Running {
			if s.Steps >= ex.MaxSteps {
				ex.abort(s, "step budget exhausted (unwinding bound)")
				break
			}
			s.Steps++
			ex.Insts++
			more := ex.step(s)
			if len(more) > 0 {
				ex.Forks += len(more)
				work = append(work, more...)
			}
		}
		done = append(done, s)
		ex.Paths++
		if ex.Paths > ex.MaxPaths {
			for _, w := range work {
				ex.abort(w, "path budget exhausted")
				done = append(done, w)
			}
			break
		}
	}
	return done
}

func (ex *Exec) fork(st *State) *State {
	// copy-on-write: after a fork neither side owns the shared objects
	ex.nextState++
	st.id = ex.nextState
	ex.nextState++
	return st.clone(ex.nextState)
}

// operand evaluation

func (ex *Exec) operand(st *State, v *llread.Value) (Val, bool) {
	c := ex.C
	switch v.Kind {
	case llread.VInst:
		r := st.top().Regs[v.Inst.ID]
		if r.E == nil && r.Agg == nil {
			ex.abort(st, "use of unset register "+v.Inst.Text)
			return Val{}, false
		}
		return r, true
	case llread.VArg:
		return st.top().Args[v.ArgNo], true
	case llread.VConstInt:
		return Val{E: c.BV(v.Type.Bits, v.Int)}, true
	case llread.VConstFP:
		if v.Type.Kind != llread.TDouble {
			ex.abort(st, "float constant (non-double)")
			return Val{}, false
		}
		return Val{E: c.FPC(v.F)}, true
	case llread.VNull:
		return Val{E: c.BV(64, 0)}, true
	case llread.VUndef, llread.VZero:
		return ex.zeroOf(st, v.Type, v.Kind == llread.VUndef)
	case llread.VGlobal:
		o := ex.globalObj(st, v.Name)
		if o == nil {
			return Val{}, false
		}
		return st.PtrTo(c, o, 0), true
	case llread.VFunc:
		o := ex.funcObj(st, v.Func)
		return st.PtrTo(c, o, 0), true
	case llread.VConstAgg:
		var agg []Val
		for _, e := range v.Elems {
			x, ok := ex.operand(st, e)
			if !ok {
				return Val{}, false
			}
			agg = append(agg, x)
		}
		if agg == nil {
			agg = []Val{}
		}
		return Val{Agg: agg}, true
	case llread.VConstExpr:
		return ex.constExpr(st, v)
	}
	ex.abort(st, "operand kind unsupported: "+v.Name)
	return Val{}, false
}

func (ex *Exec) zeroOf(st *State, t *llread.Type, undef bool) (Val, bool) {
	c := ex.C
	switch t.Kind {
	case llread.TInt:
		if undef {
			return Val{E: c.Fresh("undef", smt.BVSort(t.Bits))}, true
		}
		return Val{E: c.BV(t.Bits, 0)}, true
	case llread.TDouble:
		if undef {
			return Val{E: c.Fresh("undef", smt.FP)}, true
		}
		return Val{E: c.FPC(0)}, true
	case llread.TPtr:
		if undef {
			return Val{E: c.Fresh("undefptr", smt.BVSort(64))}, true
		}
		return Val{E: c.BV(64, 0)}, true
	case llread.TStruct:
		agg := []Val{}
		for _, f := range t.Fields {
			x, ok := ex.zeroOf(st, f, undef)
			if !ok {
				return Val{}, false
			}
			agg = append(agg, x)
		}
		return Val{Agg: agg}, true
	case llread.TArray:
		agg := []Val{}
		for i := 0; i < t.N; i++ {
			x, ok := ex.zeroOf(st, t.Elem, undef)
			if !ok {
				return Val{}, false
			}
			agg = append(agg, x)
		}
		return Val{Agg: agg}, true
	}
	ex.abort(st, "zero/undef of type "+t.String())
	return Val{}, false
}

func (ex *Exec) constExpr(st *State, v *llread.Value) (Val, bool) {
	in := v.Inst
	var ops []Val
	for _, o := range in.Ops {
		x, ok := ex.operand(st, o)
		if !ok {
			return Val{}, false
		}
		ops = append(ops, x)
	}
	r, ok := ex.pure(st, in, ops)
	return r, ok
}

func (ex *Exec) funcObj(st *State, f *llread.Func) *Object {
	key := "fn:" + f.Name
	if id, ok := st.Globals[key]; ok {
		return st.Objs[id]
	}
	o := st.NewObject(ex.C, ObjFunc, f.Name, 1)
	o.Fn = f
	o.RO = true
	st.Globals[key] = o.ID
	return o
}

func (ex *Exec) globalObj(st *State, name string) *Object {
	if id, ok := st.Globals[name]; ok {
		return st.Objs[id]
	}
	g := ex.findGlobalDef(name)
	if g == nil {
		ex.abort(st, "unknown global "+name)
		return nil
	}
	o := st.NewObject(ex.C, ObjGlobal, name, int64(g.ValType.Size))
	st.Globals[name] = o.ID
	o.RO = g.Const
	if g.Init != nil {
		iv, ok := ex.operand(st, g.Init)
		if !ok {
			return nil
		}
		ro := o.RO
		o.RO = false
		ex.initStore(st, o, 0, iv, g.ValType)
		o.RO = ro
	} else {
		// external without definition: unconstrained contents
		for i := range o.Cells {
			o.Cells[i] = Cell{E: ex.C.Fresh("ext_"+name, smt.BVSort(8)), N: 1}
		}
	}
	return o
}

func (ex *Exec) initStore(st *State, o *Object, off int64, v Val, t *llread.Type) {
	switch t.Kind {
	case llread.TStruct:
		for i, f := range t.Fields {
			ex.initStore(st, o, off+int64(t.Offsets[i]), v.Agg[i], f)
		}
	case llread.TArray:
		for i := 0; i < t.N; i++ {
			ex.initStore(st, o, off+int64(uint64(i)*t.Elem.Size), v.Agg[i], t.Elem)
		}
	default:
		ex.storeCells(st, o, off, v, t)
	}
}

// step executes one instruction; returns additional states created by forking.
func (ex *Exec) step(st *State) []*State {
	fr := st.top()
	in := fr.Blk.Insts[fr.PC]
	if ex.LogTrace {
		st.Trace = append(st.Trace, fr.Fn.Name+": "+strings.TrimSpace(in.Text))
	}
	c := ex.C
	switch in.Op {
	case "br":
		if len(in.Ops) == 0 {
			ex.jump(st, in.Blocks[0])
			return nil
		}
		cv, ok := ex.operand(st, in.Ops[0])
		if !ok {
			return nil
		}
		cond := c.BVToBool(cv.E)
		return ex.branch(st, cond, func(s *State, taken bool) {
			if taken {
				ex.jump(s, in.Blocks[0])
			} else {
				ex.jump(s, in.Blocks[1])
			}
		})
	case "switch":
		cv, ok := ex.operand(st, in.Ops[0])
		if !ok {
			return nil
		}
		// sequential decision: case1? case2? ... default
		var out []*State
		cur := st
		for k := 1; k < len(in.Ops); k++ {
			kv, _ := ex.operand(cur, in.Ops[k])
			cond := c.Eq(cv.E, kv.E)
			if cond.IsFalse() {
				continue
			}
			if cond.IsTrue() {
				ex.jump(cur, in.Blocks[k])
				return out
			}
			rt, _, _ := ex.check(cur, []*smt.Expr{cond}, nil)
			rf, _, _ := ex.check(cur, []*smt.Expr{c.Not(cond)}, nil)
			if rt == smt.Unknown || rf == smt.Unknown {
				ex.abort(cur, "switch feasibility inconclusive")
				return out
			}
			if rt == smt.Sat && rf == smt.Sat {
				s2 := ex.fork(cur)
				s2.Assume(cond)
				ex.jump(s2, in.Blocks[k])
				out = append(out, s2)
				cur.Assume(c.Not(cond))
			} else if rt == smt.Sat {
				ex.jump(cur, in.Blocks[k])
				return out
			}
		}
		ex.jump(cur, in.Blocks[0])
		return out
	case "ret":
		var rv Val
		if len(in.Ops) > 0 {
			v, ok := ex.operand(st, in.Ops[0])
			if !ok {
				return nil
			}
			rv = v
		}
		ex.popFrame(st, rv)
		return nil
	case "unreachable":
		st.Term = TermUnreachable
		st.TermMsg = "unreachable executed in " + fr.Fn.Name
		return nil
	case "phi":
		// evaluate all phis of the block simultaneously
		blk := fr.Blk
		var vals []Val
		n := 0
		for _, pi := range blk.Insts {
			if pi.Op != "phi" {
				break
			}
			found := false
			for k, b := range pi.Blocks {
				if b == fr.Prev {
					v, ok := ex.operand(st, pi.Ops[k])
					if !ok {
						return nil
					}
					vals = append(vals, v)
					found = true
					break
				}
			}
			if !found {
				ex.abort(st, "phi without matching predecessor")
				return nil
			}
			n++
		}
		for k := 0; k < n; k++ {
			fr.Regs[blk.Insts[k].ID] = vals[k]
		}
		fr.PC = n
		return nil
	case "alloca":
		cnt, ok := ex.operand(st, in.Ops[0])
		if !ok {
			return nil
		}
		k, isC := cnt.E.ConstU()
		if !isC {
			ex.abort(st, "alloca with symbolic count")
			return nil
		}
		o := st.NewObject(c, ObjStack, "alloca."+fr.Fn.Name, int64(in.AllocTy.Size*k))
		fr.Allocs = append(fr.Allocs, o.ID)
		fr.Regs[in.ID] = st.PtrTo(c, o, 0)
	case "load":
		p, ok := ex.operand(st, in.Ops[0])
		if !ok {
			return nil
		}
		if p.Obj != 0 && typeHasPtr(in.Type) {
			if _, isC := p.Off.ConstU(); !isC && st.Objs[p.Obj].CSize >= 0 {
				// pointers read at a symbolic offset: split the path per offset so provenance stays exact
				states, vals := ex.concretize(st, p.Off, 64, "offset of a pointer load")
				var extra []*State
				for i, s := range states {
					pp := Val{E: c.BV(64, s.Objs[p.Obj].Base+vals[i]), Obj: p.Obj, Off: c.BV(64, vals[i])}
					v, ok := ex.Load(s, pp, in.Type, "load")
					if !ok {
						if s.Term == Running {
							s.Term = TermAbort
							s.TermMsg = "load failed (fault recorded)"
						}
					} else {
						s.top().Regs[in.ID] = v
						s.top().PC++
					}
					if s != st {
						extra = append(extra, s)
					}
				}
				return extra
			}
		}
		v, ok := ex.Load(st, p, in.Type, "load")
		if !ok {
			if st.Term == Running {
				st.Term = TermAbort
				st.TermMsg = "load failed (fault recorded)"
			}
			return nil
		}
		fr.Regs[in.ID] = v
	case "store":
		v, ok := ex.operand(st, in.Ops[0])
		if !ok {
			return nil
		}
		p, ok := ex.operand(st, in.Ops[1])
		if !ok {
			return nil
		}
		if !ex.Store(st, p, v, in.Ops[0].Type, "store") {
			if st.Term == Running {
				st.Term = TermAbort
				st.TermMsg = "store failed (fault recorded)"
			}
			return nil
		}
	case "call":
		return ex.call(st, in)
	case "select":
		cv, ok := ex.operand(st, in.Ops[0])
		if !ok {
			return nil
		}
		a, ok := ex.operand(st, in.Ops[1])
		if !ok {
			return nil
		}
		b, ok := ex.operand(st, in.Ops[2])
		if !ok {
			return nil
		}
		g := c.BVToBool(cv.E)
		if a.IsAgg() || (a.Obj != b.Obj && !g.IsTrue() && !g.IsFalse()) {
			// differing provenance or aggregate: split the path
			return ex.branch(st, g, func(s *State, taken bool) {
				if taken {
					s.top().Regs[in.ID] = a
				} else {
					s.top().Regs[in.ID] = b
				}
				s.top().PC++
			})
		}
		r := Val{E: c.Ite(g, a.E, b.E)}
		if g.IsTrue() {
			r = a
		} else if g.IsFalse() {
			r = b
		} else if a.Obj != 0 {
			r.Obj = a.Obj
			r.Off = c.Ite(g, a.Off, b.Off)
		}
		fr.Regs[in.ID] = r
	default:
		var ops []Val
		for _, o := range in.Ops {
			x, ok := ex.operand(st, o)
			if !ok {
				return nil
			}
			ops = append(ops, x)
		}
		r, ok := ex.pure(st, in, ops)
		if !ok {
			return nil
		}
		fr.Regs[in.ID] = r
	}
	fr.PC++
	return nil
}

func (ex *Exec) jump(st *State, b *llread.Block) {
	fr := st.top()
	fr.Prev = fr.Blk
	fr.Blk = b
	fr.PC = 0
}

// branch decides a symbolic condition; apply is called on each continuing state.
func (ex *Exec) branch(st *State, cond *smt.Expr, apply func(s *State, taken bool)) []*State {
	c := ex.C
	if cond.IsTrue() {
		apply(st, true)
		return nil
	}
	if cond.IsFalse() {
		apply(st, false)
		return nil
	}
	rt, _, _ := ex.check(st, []*smt.Expr{cond}, nil)
	if rt == smt.Unknown {
		ex.abort(st, "branch feasibility inconclusive")
		return nil
	}
	if rt == smt.Unsat {
		apply(st, false)
		return nil
	}
	rf, _, _ := ex.check(st, []*smt.Expr{c.Not(cond)}, nil)
	if rf == smt.Unknown {
		ex.abort(st, "branch feasibility inconclusive")
		return nil
	}
	if rf == smt.Unsat {
		apply(st, true)
		return nil
	}
	s2 := ex.fork(st)
	st.Assume(cond)
	apply(st, true)
	s2.Assume(c.Not(cond))
	apply(s2, false)
	return []*State{s2}
}

func (ex *Exec) popFrame(st *State, rv Val) {
	fr := st.top()
	for id, w0 := range fr.NoAliasShared {
		if o := st.Objs[id]; o != nil && o.Writes != w0 {
			ex.fault(st, "noalias-violation", fmt.Sprintf("%s: object %s#%d was passed through two noalias parameters and modified during the call (undefined behaviour the optimiser may exploit)", fr.Fn.Name, o.Name, id), ex.C.True())
		}
	}
	for _, id := range fr.Allocs {
		o := st.wobj(id)
		o.Live = false
	}
	st.Frames = st.Frames[:len(st.Frames)-1]
	if len(st.Frames) == 0 {
		st.Term = TermReturn
		st.Ret = rv
		return
	}
	caller := st.top()
	if fr.Call != nil && fr.Call.Type.Kind != llread.TVoid {
		// a caller that declares a narrower/wider integer result than the callee returns sees the low bits
		rv = ex.coerce(rv, fr.Call.Type)
		caller.Regs[fr.Call.ID] = rv
	}
	caller.PC++
}

// coerce adapts a scalar to the declared type of the receiving site (mismatched prototypes
// across modules, e.g. memcmp declared with an i1 result: the register's low bits are used).
func (ex *Exec) coerce(v Val, t *llread.Type) Val {
	c := ex.C
	if v.IsAgg() || v.E == nil {
		return v
	}
	switch t.Kind {
	case llread.TInt:
		if v.E.Sort.K == smt.KBV {
			if v.E.Sort.W > t.Bits {
				return Val{E: c.Trunc(v.E, t.Bits)}
			}
			if v.E.Sort.W < t.Bits {
				return Val{E: c.ZExt(v.E, t.Bits)}
			}
		}
	}
	return v
}

func (ex *Exec) call(st *State, in *llread.Inst) []*State {
	calleeV := in.Ops[len(in.Ops)-1]
	var args []Val
	for _, o := range in.Ops[:len(in.Ops)-1] {
		x, ok := ex.operand(st, o)
		if !ok {
			return nil
		}
		args = append(args, x)
	}
	var name string
	var fn *llread.Func
	if calleeV.Kind == llread.VFunc {
		name = calleeV.Name
	} else {
		cv, ok := ex.operand(st, calleeV)
		if !ok {
			return nil
		}
		if cv.Obj == 0 || st.Objs[cv.Obj].Kind != ObjFunc {
			ex.abort(st, "indirect call through unresolved pointer")
			return nil
		}
		name = st.Objs[cv.Obj].Fn.Name
	}
	if strings.HasPrefix(name, "llvm.") || ex.Externs[name] != nil {
		var res []*State
		if strings.HasPrefix(name, "llvm.") {
			res = ex.intrinsic(st, in, name, args)
		} else {
			ex.StubsUsed[name]++
			res = ex.Externs[name](ex, st, in, args)
		}
		// contract: res lists every state that came out of the call (st included if it continues);
		// running ones resume after the call instruction
		var extra []*State
		for _, s := range res {
			if s.Term == Running {
				s.top().PC++
			}
			if s != st {
				extra = append(extra, s)
			}
		}
		return extra
	}
	fn = ex.FindFunc(name)
	if fn == nil || fn.Decl {
		ex.abort(st, "call to function without body or model: "+name)
		return nil
	}
	np := len(fn.Params)
	if len(args) < np {
		ex.abort(st, "too few arguments for "+name)
		return nil
	}
	// adapt mismatched scalar parameter widths (declared vs defined prototype)
	fixed := make([]Val, np)
	for i := 0; i < np; i++ {
		fixed[i] = ex.coerce(args[i], fn.Params[i].Type)
	}
	if h, ok := ex.PreHooks[name]; ok {
		if !h(ex, st, in, fixed) {
			if st.Term == Running {
				st.Term = TermAbort
				st.TermMsg = "pre-hook stopped " + name
			}
			return nil
		}
	}
	ex.pushFrame(st, fn, fixed, args[np:], in)
	// noalias: the same object passed through two noalias parameters must not be modified during the call
	if len(fn.NoAlias) == np {
		seen := map[int]bool{}
		for i := 0; i < np; i++ {
			if fn.NoAlias[i] && fixed[i].Obj != 0 {
				if seen[fixed[i].Obj] {
					fr := st.top()
					if fr.NoAliasShared == nil {
						fr.NoAliasShared = map[int]int{}
					}
					fr.NoAliasShared[fixed[i].Obj] = st.Objs[fixed[i].Obj].Writes
				}
				seen[fixed[i].Obj] = true
			}
		}
	}
	return nil
}

func (ex *Exec) intrinsic(st *State, in *llread.Inst, name string, args []Val) []*State {
	c := ex.C
	fr := st.top()
	set := func(v Val) { fr.Regs[in.ID] = v }
	switch {
	case strings.HasPrefix(name, "llvm.lifetime."), strings.HasPrefix(name, "llvm.dbg."), name == "llvm.assume",
		strings.HasPrefix(name, "llvm.experimental.noalias"), name == "llvm.va_end":
	case strings.HasPrefix(name, "llvm.memcpy."), strings.HasPrefix(name, "llvm.memmove."):
		return ex.memcpyLike(st, in, args[0], args[1], args[2], Val{})
	case strings.HasPrefix(name, "llvm.memset."):
		return ex.memsetLike(st, in, args[0], args[1], args[2], Val{})
	case strings.HasPrefix(name, "llvm.smax."):
		set(Val{E: c.Ite(c.SGT(args[0].E, args[1].E), args[0].E, args[1].E)})
	case strings.HasPrefix(name, "llvm.smin."):
		set(Val{E: c.Ite(c.SLT(args[0].E, args[1].E), args[0].E, args[1].E)})
	case strings.HasPrefix(name, "llvm.umax."):
		set(Val{E: c.Ite(c.UGT(args[0].E, args[1].E), args[0].E, args[1].E)})
	case strings.HasPrefix(name, "llvm.umin."):
		set(Val{E: c.Ite(c.ULT(args[0].E, args[1].E), args[0].E, args[1].E)})
	case strings.HasPrefix(name, "llvm.abs."):
		set(Val{E: c.Ite(c.SLT(args[0].E, c.BV(args[0].E.Sort.W, 0)), c.Neg(args[0].E), args[0].E)})
	case name == "llvm.fabs.f64":
		set(Val{E: c.FAbs(args[0].E)})
	case name == "llvm.ceil.f64":
		set(Val{E: c.FRound(smt.OFRoundRTP, args[0].E)})
	case name == "llvm.floor.f64":
		set(Val{E: c.FRound(smt.OFRoundRTN, args[0].E)})
	case name == "llvm.trunc.f64":
		set(Val{E: c.FRound(smt.OFRoundRTZ, args[0].E)})
	case strings.HasPrefix(name, "llvm.expect."):
		set(args[0])
	case name == "llvm.pow.f64", name == "llvm.sqrt.f64", name == "llvm.log10.f64", name == "llvm.log.f64", name == "llvm.sin.f64", name == "llvm.cos.f64", name == "llvm.exp.f64":
		var es []*smt.Expr
		for _, a := range args {
			es = append(es, a.E)
		}
		set(Val{E: c.App("libm."+strings.TrimSuffix(strings.TrimPrefix(name, "llvm."), ".f64"), smt.FP, es...)})
	default:
		ex.abort(st, "intrinsic unsupported: "+name)
	}
	return []*State{st}
}

// concretize enumerates the feasible values of e on st (at most max), forking the state.
func (ex *Exec) concretize(st *State, e *smt.Expr, max int, what string) ([]*State, []uint64) {
	c := ex.C
	if k, ok := e.ConstU(); ok {
		return []*State{st}, []uint64{k}
	}
	var states []*State
	var vals []uint64
	var block []*smt.Expr
	for {
		r, m, _ := ex.check(st, block, []*smt.Expr{e})
		if r == smt.Unknown {
			ex.abort(st, "concretisation inconclusive: "+what)
			return nil, nil
		}
		if r == smt.Unsat {
			break
		}
		var v uint64
		if e.Op == smt.OVar {
			v = m.U(e.Name)
		} else {
			v = m.U(fmt.Sprintf("#%d", e.ID))
		}
		vals = append(vals, v)
		block = append(block, c.Ne(e, c.BV(e.Sort.W, v)))
		if len(vals) > max {
			ex.abort(st, fmt.Sprintf("more than %d values for %s", max, what))
			return nil, nil
		}
	}
	if len(vals) == 0 {
		st.Term = TermAbort
		st.TermMsg = "infeasible path at " + what
		return nil, nil
	}
	for i, v := range vals {
		s := st
		if i > 0 {
			s = ex.fork(st)
		}
		states = append(states, s)
		_ = v
	}
	for i, v := range vals {
		states[i].Assume(c.Eq(e, c.BV(e.Sort.W, v)))
	}
	return states, vals
}

func (ex *Exec) memcpyLike(st *State, in *llread.Inst, dst, src, n Val, ret Val) []*State {
	states, vals := ex.concretize(st, n.E, 48, "memcpy length")
	var extra []*State
	for i, s := range states {
		if !ex.copyBytes(s, dst, src, int64(vals[i]), "memcpy") {
			if s.Term == Running {
				s.Term = TermAbort
				s.TermMsg = "memcpy failed (fault recorded)"
			}
		} else {
			if in.Type.Kind != llread.TVoid {
				s.top().Regs[in.ID] = dst
			}
		}
		extra = append(extra, s)
	}
	if len(states) == 0 {
		return []*State{st}
	}
	return extra
}

func (ex *Exec) memsetLike(st *State, in *llread.Inst, dst, b, n Val, ret Val) []*State {
	c := ex.C
	states, vals := ex.concretize(st, n.E, 48, "memset length")
	var extra []*State
	for i, s := range states {
		ok := true
		bb := b.E
		if bb.Sort.W > 8 {
			bb = c.Trunc(bb, 8)
		}
		for k := uint64(0); k < vals[i] && ok; k++ {
			ok = ex.Store(s, ex.ptrAdd(dst, c.BV(64, k)), Val{E: bb}, ex.i8, "memset")
		}
		if !ok {
			if s.Term == Running {
				s.Term = TermAbort
				s.TermMsg = "memset failed (fault recorded)"
			}
		} else {
			if in.Type.Kind != llread.TVoid {
				s.top().Regs[in.ID] = dst
			}
		}
		extra = append(extra, s)
	}
	if len(states) == 0 {
		return []*State{st}
	}
	return extra
}

// pure evaluates side-effect free instructions and constant expressions.
func (ex *Exec) pure(st *State, in *llread.Inst, ops []Val) (Val, bool) {
	c := ex.C
	bv2 := func(f func(a, b *smt.Expr) *smt.Expr) (Val, bool) {
		return Val{E: f(ops[0].E, ops[1].E)}, true
	}
	switch in.Op {
	case "add":
		r := Val{E: c.Add(ops[0].E, ops[1].E)}
		// pointer arithmetic through integers keeps provenance of the pointer side
		if ops[0].Obj != 0 && ops[1].Obj == 0 {
			r.Obj, r.Off = ops[0].Obj, c.Add(ops[0].Off, ops[1].E)
		} else if ops[1].Obj != 0 && ops[0].Obj == 0 {
			r.Obj, r.Off = ops[1].Obj, c.Add(ops[1].Off, ops[0].E)
		}
		return r, true
	case "sub":
		r := Val{E: c.Sub(ops[0].E, ops[1].E)}
		if ops[0].Obj != 0 && ops[1].Obj == 0 {
			r.Obj, r.Off = ops[0].Obj, c.Sub(ops[0].Off, ops[1].E)
		} else if ops[0].Obj != 0 && ops[0].Obj == ops[1].Obj {
			r = Val{E: c.Sub(ops[0].Off, ops[1].Off)}
		}
		return r, true
	case "mul":
		return bv2(c.Mul)
	case "udiv", "sdiv", "urem", "srem":
		// division by zero and INT_MIN/-1 are undefined behaviour in LLVM
		w := ops[1].E.Sort.W
		zero := c.Eq(ops[1].E, c.BV(w, 0))
		ub := zero
		if in.Op == "sdiv" || in.Op == "srem" {
			ub = c.Or(zero, c.And(c.Eq(ops[1].E, c.BVs(w, -1)), c.Eq(ops[0].E, c.BV(w, uint64(1)<<uint(w-1)))))
		}
		if !ub.IsFalse() {
			r, m, _ := ex.check(st, []*smt.Expr{ub}, ex.ModelVars)
			if r == smt.Sat {
				ex.faultM(st, "undefined-"+in.Op, "division by zero or overflow", ub, m)
				st.Assume(c.Not(ub))
			} else if r == smt.Unknown {
				ex.abort(st, "division UB query inconclusive")
				return Val{}, false
			}
		}
		switch in.Op {
		case "udiv":
			return bv2(c.UDiv)
		case "sdiv":
			return bv2(c.SDiv)
		case "urem":
			return bv2(c.URem)
		default:
			return bv2(c.SRem)
		}
	case "and":
		return bv2(c.BAnd)
	case "or":
		return bv2(c.BOr)
	case "xor":
		return bv2(c.BXor)
	case "shl", "lshr", "ashr":
		// shift amounts >= width give poison in LLVM: recorded as a fault when reachable
		w := ops[1].E.Sort.W
		over := c.UGE(ops[1].E, c.BV(w, uint64(w)))
		if !over.IsFalse() {
			r, m, _ := ex.check(st, []*smt.Expr{over}, ex.ModelVars)
			if r == smt.Sat {
				ex.faultM(st, "poison-shift", "shift amount >= bit width", over, m)
				st.Assume(c.Not(over))
			} else if r == smt.Unknown {
				ex.abort(st, "shift query inconclusive")
				return Val{}, false
			}
		}
		switch in.Op {
		case "shl":
			return bv2(c.Shl)
		case "lshr":
			return bv2(c.LShr)
		default:
			return bv2(c.AShr)
		}
	case "fadd":
		return bv2(c.FAdd)
	case "fsub":
		return bv2(c.FSub)
	case "fmul":
		return bv2(c.FMul)
	case "fdiv":
		return bv2(c.FDiv)
	case "frem":
		return Val{E: c.App("libm.fmod", smt.FP, ops[0].E, ops[1].E)}, true
	case "fneg":
		return Val{E: c.FNeg(ops[0].E)}, true
	case "icmp":
		a, b := ops[0].E, ops[1].E
		var r *smt.Expr
		switch in.Pred {
		case "eq":
			r = c.Eq(a, b)
		case "ne":
			r = c.Ne(a, b)
		case "ugt":
			r = c.UGT(a, b)
		case "uge":
			r = c.UGE(a, b)
		case "ult":
			r = c.ULT(a, b)
		case "ule":
			r = c.ULE(a, b)
		case "sgt":
			r = c.SGT(a, b)
		case "sge":
			r = c.SGE(a, b)
		case "slt":
			r = c.SLT(a, b)
		case "sle":
			r = c.SLE(a, b)
		}
		return Val{E: c.BoolToBV(r, 1)}, true
	case "fcmp":
		a, b := ops[0].E, ops[1].E
		uno := c.Or(c.FIsNaN(a), c.FIsNaN(b))
		var r *smt.Expr
		switch in.Pred {
		case "oeq":
			r = c.FEq(a, b)
		case "ogt":
			r = c.FGt(a, b)
		case "oge":
			r = c.FGe(a, b)
		case "olt":
			r = c.FLt(a, b)
		case "ole":
			r = c.FLe(a, b)
		case "one":
			r = c.And(c.Not(uno), c.Not(c.FEq(a, b)))
		case "ord":
			r = c.Not(uno)
		case "uno":
			r = uno
		case "ueq":
			r = c.Or(uno, c.FEq(a, b))
		case "ugt":
			r = c.Or(uno, c.FGt(a, b))
		case "uge":
			r = c.Or(uno, c.FGe(a, b))
		case "ult":
			r = c.Or(uno, c.FLt(a, b))
		case "ule":
			r = c.Or(uno, c.FLe(a, b))
		case "une":
			r = c.Or(uno, c.Not(c.FEq(a, b)))
		case "true":
			r = c.True()
		case "false":
			r = c.False()
		}
		return Val{E: c.BoolToBV(r, 1)}, true
	case "trunc":
		return Val{E: c.Trunc(ops[0].E, in.Type.Bits)}, true
	case "zext":
		return Val{E: c.ZExt(ops[0].E, in.Type.Bits)}, true
	case "sext":
		return Val{E: c.SExt(ops[0].E, in.Type.Bits)}, true
	case "sitofp":
		if in.Type.Kind != llread.TDouble {
			ex.abort(st, "sitofp to non-double")
			return Val{}, false
		}
		return Val{E: c.SIToFP(ops[0].E)}, true
	case "uitofp":
		if in.Type.Kind != llread.TDouble {
			ex.abort(st, "uitofp to non-double")
			return Val{}, false
		}
		return Val{E: c.UIToFP(ops[0].E)}, true
	case "fptosi", "fptoui":
		// out-of-range conversion is poison: recorded as fault when reachable
		w := in.Type.Bits
		x := ops[0].E
		var inRange *smt.Expr
		if in.Op == "fptosi" {
			lo := c.FPC(-math.Ldexp(1, w-1) - 1)
			hi := c.FPC(math.Ldexp(1, w-1))
			if w == 64 {
				lo = c.FPC(-math.Ldexp(1, 63)) // -2^63 itself is representable; anything below is not
				inRange = c.And(c.FGe(x, lo), c.FLt(x, hi))
			} else {
				inRange = c.And(c.FGt(x, lo), c.FLt(x, hi))
			}
		} else {
			inRange = c.And(c.FGt(x, c.FPC(-1)), c.FLt(x, c.FPC(math.Ldexp(1, w))))
		}
		bad := c.Not(inRange)
		if !bad.IsFalse() {
			r, m, _ := ex.check(st, []*smt.Expr{bad}, ex.ModelVars)
			if r == smt.Sat {
				ex.faultM(st, "poison-"+in.Op, "value not representable (NaN or out of range)", bad, m)
				st.Assume(inRange)
			} else if r == smt.Unknown {
				ex.abort(st, "fp conversion query inconclusive")
				return Val{}, false
			}
		}
		if in.Op == "fptosi" {
			return Val{E: c.FPToSI(x, w)}, true
		}
		return Val{E: c.FPToUI(x, w)}, true
	case "bitcast":
		src, dst := in.Ops[0].Type, in.Type
		if src.Kind == llread.TPtr && dst.Kind == llread.TPtr {
			return ops[0], true
		}
		if src.Kind == llread.TDouble && dst.Kind == llread.TInt {
			return Val{E: c.FPToBits(ops[0].E)}, true
		}
		if src.Kind == llread.TInt && dst.Kind == llread.TDouble {
			return Val{E: c.FPFromBits(ops[0].E)}, true
		}
		if src.Kind == dst.Kind {
			return ops[0], true
		}
		ex.abort(st, "bitcast unsupported: "+in.Text)
		return Val{}, false
	case "ptrtoint":
		r := ops[0]
		if in.Type.Bits < 64 {
			return Val{E: c.Trunc(r.E, in.Type.Bits)}, true
		}
		return r, true
	case "inttoptr":
		r := ops[0]
		if r.E.Sort.W < 64 {
			return Val{E: c.ZExt(r.E, 64)}, true
		}
		return r, true
	case "getelementptr":
		p := ops[0]
		t := in.SrcTy
		off := c.BV(64, 0)
		for k := 1; k < len(ops); k++ {
			idx := ops[k].E
			if idx.Sort.W < 64 {
				idx = c.SExt(idx, 64)
			}
			if k == 1 {
				off = c.Add(off, c.Mul(idx, c.BV(64, t.Size)))
				continue
			}
			switch t.Kind {
			case llread.TStruct:
				fi, ok := idx.ConstU()
				if !ok {
					ex.abort(st, "GEP with symbolic struct index")
					return Val{}, false
				}
				off = c.Add(off, c.BV(64, t.Offsets[fi]))
				t = t.Fields[fi]
			case llread.TArray:
				off = c.Add(off, c.Mul(idx, c.BV(64, t.Elem.Size)))
				t = t.Elem
			default:
				ex.abort(st, "GEP into non-aggregate")
				return Val{}, false
			}
		}
		return ex.ptrAdd(p, off), true
	case "extractvalue":
		v := ops[0]
		for _, i := range in.Indices {
			v = v.Agg[i]
		}
		return v, true
	case "insertvalue":
		return insertAgg(ops[0], ops[1], in.Indices), true
	case "freeze":
		return ops[0], true
	}
	ex.abort(st, "instruction unsupported: "+in.Op)
	return Val{}, false
}

func insertAgg(agg, v Val, idx []uint32) Val {
	n := Val{Agg: append([]Val(nil), agg.Agg...)}
	if len(idx) == 1 {
		n.Agg[idx[0]] = v
	} else {
		n.Agg[idx[0]] = insertAgg(agg.Agg[idx[0]], v, idx[1:])
	}
	return n
}

// Fork makes an independent copy of a state (harness helper).
func (ex *Exec) Fork(st *State) *State { return ex.fork(st) }

// GlobalObject materialises the object of a named global (harness helper).
func (ex *Exec) GlobalObject(st *State, name string) *Object { return ex.globalObj(st, name) }

// Concretize is the exported form of concretize for harness-side stubs.
func (ex *Exec) Concretize(st *State, e *smt.Expr, max int, what string) ([]*State, []uint64) {
	return ex.concretize(st, e, max, what)
}

func typeHasPtr(t *llread.Type) bool {
	switch t.Kind {
	case llread.TPtr:
		return true
	case llread.TStruct:
		for _, f := range t.Fields {
			if typeHasPtr(f) {
				return true
			}
		}
	case llread.TArray:
		return typeHasPtr(t.Elem)
	}
	return false
}

// CallOn runs a further function on a state that has already returned (harness helper for
// multi-step scenarios): the heap and path condition are kept, the terminal status is reset.
func (ex *Exec) CallOn(st *State, fn *llread.Func, args []Val) []*State {
	st.Term = Running
	st.TermMsg = ""
	st.Ret = Val{}
	st.Steps = 0
	ex.Call(st, fn, args)
	return ex.Run(st)
}
