package llse

import (
	"fmt"

	"verif/engine/llread"
	"verif/engine/smt"
)

// bitsOf returns the value as a bit-vector of 8*n bits (n = store size).
func (ex *Exec) bitsOf(v Val, n int) *smt.Expr {
	c := ex.C
	e := v.E
	if e.Sort.K == smt.KFP {
		e = c.FPToBits(e)
	}
	if e.Sort.K == smt.KBool {
		e = c.BoolToBV(e, 8)
	}
	if e.Sort.W < 8*n {
		e = c.ZExt(e, 8*n)
	}
	return e
}

func storeSize(t *llread.Type) int {
	switch t.Kind {
	case llread.TInt:
		return (t.Bits + 7) / 8
	case llread.TDouble, llread.TPtr:
		return 8
	case llread.TFloat:
		return 4
	}
	return int(t.Size)
}

// fromBits converts a little-endian assembled bit-vector of 8*n bits into a value of type t.
func (ex *Exec) fromBits(e *smt.Expr, t *llread.Type) Val {
	c := ex.C
	switch t.Kind {
	case llread.TInt:
		if e.Sort.W > t.Bits {
			e = c.Trunc(e, t.Bits)
		}
		return Val{E: e}
	case llread.TDouble:
		return Val{E: c.FPFromBits(e)}
	case llread.TPtr:
		return Val{E: e}
	}
	panic("fromBits: type " + t.String())
}

// resolve finds the object and offset a pointer value designates.
func (ex *Exec) resolve(st *State, p Val, what string) (*Object, *smt.Expr, bool) {
	if p.Obj != 0 {
		o := st.Objs[p.Obj]
		return o, p.Off, true
	}
	if a, ok := p.E.ConstU(); ok {
		id := int(a >> baseShift)
		if o, ok := st.Objs[id]; ok {
			return o, ex.C.BV(64, a-o.Base), true
		}
		if a == 0 {
			ex.fault(st, "null-deref", what, ex.C.True())
			return nil, nil, false
		}
	}
	// pointer without provenance: pattern base + off
	if p.E.Op == smt.OAdd {
		if a, ok := p.E.Args[1].ConstU(); ok {
			id := int(a >> baseShift)
			if o, ok := st.Objs[id]; ok && a >= o.Base {
				return o, ex.C.Add(p.E.Args[0], ex.C.BV(64, a-o.Base)), true
			}
		}
	}
	// KLEE-style: take the model value and prove it is the only one on this path
	if r, m, _ := ex.check(st, nil, []*smt.Expr{p.E}); r == smt.Sat && m != nil {
		if a, ok := m.Vals[fmt.Sprintf("#%d", p.E.ID)]; ok || p.E.Op == smt.OVar {
			if p.E.Op == smt.OVar {
				a = m.Vals[p.E.Name]
			}
			if r2, _, _ := ex.check(st, []*smt.Expr{ex.C.Ne(p.E, ex.C.BV(64, a))}, nil); r2 == smt.Unsat {
				id := int(a >> baseShift)
				if o, ok := st.Objs[id]; ok {
					return o, ex.C.BV(64, a-o.Base), true
				}
				if a == 0 {
					ex.fault(st, "null-deref", what, ex.C.True())
					return nil, nil, false
				}
			}
		}
	}
	ex.abort(st, "unresolvable pointer in "+what+": "+p.E.Short())
	return nil, nil, false
}

// checkAccess emits the in-bounds/liveness obligation for [off, off+n) in o. It returns false if
// the access is impossible on this path.
func (ex *Exec) checkAccess(st *State, o *Object, off *smt.Expr, n int64, what string, write bool) bool {
	c := ex.C
	if !o.Live {
		ex.fault(st, "use-after-free", fmt.Sprintf("%s: object %s#%d", what, o.Name, o.ID), c.True())
		return false
	}
	if write && o.RO {
		ex.fault(st, "write-to-constant", fmt.Sprintf("%s: object %s#%d", what, o.Name, o.ID), c.True())
		return false
	}
	nn := c.BV(64, uint64(n))
	ok := c.And(c.ULE(off, o.Size), c.ULE(nn, c.Sub(o.Size, off)))
	if ok.IsTrue() {
		return true
	}
	if ok.IsFalse() {
		ex.fault(st, "out-of-bounds", fmt.Sprintf("%s: %s#%d size %s off %s n %d", what, o.Name, o.ID, o.Size.Short(), off.Short(), n), c.True())
		return false
	}
	// may it fail?
	bad := c.Not(ok)
	r, m, _ := ex.check(st, []*smt.Expr{bad}, ex.ModelVars)
	switch r {
	case smt.Sat:
		ex.faultM(st, "out-of-bounds", fmt.Sprintf("%s: %s#%d size %s off %s n %d", what, o.Name, o.ID, o.Size.Short(), off.Short(), n), bad, m)
		// continue on the in-bounds part, if any
		st.Assume(ok)
		r2, _, _ := ex.check(st, nil, nil)
		if r2 == smt.Unsat {
			st.Term = TermAbort
			st.TermMsg = "always out of bounds"
			return false
		}
	case smt.Unknown:
		ex.abort(st, "bounds query inconclusive in "+what)
		return false
	}
	return true
}

// candidates enumerates concrete offsets a symbolic offset may take inside an object of concrete size.
func (ex *Exec) candidates(o *Object, off *smt.Expr, n int64) []int64 {
	step := int64(1)
	e := off
	if e.Op == smt.OAdd {
		if _, ok := e.Args[1].ConstU(); ok {
			e = e.Args[0]
		}
	}
	switch e.Op {
	case smt.OMul:
		if k, ok := e.Args[1].ConstU(); ok && k > 0 && k <= 64 {
			step = int64(k)
		}
	case smt.OShl:
		if k, ok := e.Args[1].ConstU(); ok && k <= 6 {
			step = 1 << k
		}
	}
	start := int64(0)
	if off.Op == smt.OAdd {
		if k, ok := off.Args[1].ConstS(); ok && step > 1 {
			start = ((k % step) + step) % step
		}
	}
	var out []int64
	for x := start; x+n <= o.CSize; x += step {
		out = append(out, x)
	}
	return out
}

func (ex *Exec) loadCells(st *State, o *Object, off int64, t *llread.Type) Val {
	c := ex.C
	n := storeSize(t)
	cells := o.Cells[off : off+int64(n)]
	first := cells[0]
	whole := first.E != nil && int(first.N) == n && first.K == 0
	if whole {
		for k := 1; k < n; k++ {
			if cells[k].E != first.E || int(cells[k].K) != k || int(cells[k].N) != n {
				whole = false
				break
			}
		}
	}
	if whole {
		e := first.E
		switch t.Kind {
		case llread.TInt:
			if e.Sort.K == smt.KFP {
				e = c.FPToBits(e)
			}
			if e.Sort.K == smt.KBV && e.Sort.W == t.Bits {
				if first.PObj != 0 && t.Bits == 64 {
					return Val{E: e, Obj: first.PObj, Off: first.POff}
				}
				return Val{E: e}
			}
			if e.Sort.K == smt.KBV && e.Sort.W > t.Bits {
				return Val{E: c.Trunc(e, t.Bits)}
			}
		case llread.TDouble:
			if e.Sort.K == smt.KFP {
				return Val{E: e}
			}
			if e.Sort.W == 64 {
				return Val{E: c.FPFromBits(e)}
			}
		case llread.TPtr:
			if e.Sort.K == smt.KBV && e.Sort.W == 64 {
				return Val{E: e, Obj: first.PObj, Off: first.POff}
			}
		}
	}
	// assemble bytes
	var acc *smt.Expr
	for k := 0; k < n; k++ {
		b := ex.cellByte(st, o, off+int64(k))
		if acc == nil {
			acc = b
		} else {
			acc = c.Concat(b, acc)
		}
	}
	return ex.fromBits(acc, t)
}

func (ex *Exec) cellByte(st *State, o *Object, off int64) *smt.Expr {
	c := ex.C
	cell := o.Cells[off]
	if cell.E == nil {
		// uninitialised read: unconstrained byte, remembered
		st.note("uninitialised read %s#%d+%d", o.Name, o.ID, off)
		st.UninitReads++
		return c.Fresh("uninit", smt.BVSort(8))
	}
	e := cell.E
	if e.Sort.K == smt.KFP {
		e = c.FPToBits(e)
	}
	if e.Sort.W < 8*int(cell.N) {
		e = c.ZExt(e, 8*int(cell.N))
	}
	return c.Extract(e, 8*int(cell.K)+7, 8*int(cell.K))
}

func (ex *Exec) storeCells(st *State, o *Object, off int64, v Val, t *llread.Type) {
	o.Writes++
	n := storeSize(t)
	e := v.E
	if t.Kind == llread.TInt && t.Bits%8 != 0 {
		e = ex.C.ZExt(e, 8*n)
	}
	for k := 0; k < n; k++ {
		o.Cells[off+int64(k)] = Cell{E: e, PObj: v.Obj, POff: v.Off, K: uint8(k), N: uint8(n)}
	}
}

// Load reads a value of type t through pointer p.
func (ex *Exec) Load(st *State, p Val, t *llread.Type, what string) (Val, bool) {
	c := ex.C
	if t.Kind == llread.TStruct || t.Kind == llread.TArray {
		var agg []Val
		if t.Kind == llread.TStruct {
			for i, f := range t.Fields {
				v, ok := ex.Load(st, ex.ptrAdd(p, c.BV(64, t.Offsets[i])), f, what)
				if !ok {
					return Val{}, false
				}
				agg = append(agg, v)
			}
		} else {
			for i := 0; i < t.N; i++ {
				v, ok := ex.Load(st, ex.ptrAdd(p, c.BV(64, uint64(i)*t.Elem.Size)), t.Elem, what)
				if !ok {
					return Val{}, false
				}
				agg = append(agg, v)
			}
		}
		if agg == nil {
			agg = []Val{}
		}
		return Val{Agg: agg}, true
	}
	if t.Kind != llread.TInt && t.Kind != llread.TDouble && t.Kind != llread.TPtr {
		ex.abort(st, "load of unsupported type "+t.String())
		return Val{}, false
	}
	o, off, ok := ex.resolve(st, p, what)
	if !ok {
		return Val{}, false
	}
	n := int64(storeSize(t))
	if !ex.checkAccess(st, o, off, n, what, false) {
		return Val{}, false
	}
	if o.CSize < 0 {
		var acc *smt.Expr
		for k := int64(0); k < n; k++ {
			b := c.Select(o.Arr, c.Add(off, c.BV(64, uint64(k))))
			if acc == nil {
				acc = b
			} else {
				acc = c.Concat(b, acc)
			}
		}
		return ex.fromBits(acc, t), true
	}
	if k, ok := off.ConstS(); ok {
		return ex.loadCells(st, o, k, t), true
	}
	cands := ex.candidates(o, off, n)
	if len(cands) == 0 {
		ex.abort(st, "no candidate offsets for symbolic load in "+what)
		return Val{}, false
	}
	if len(cands) > 256 {
		ex.abort(st, "too many candidate offsets in "+what)
		return Val{}, false
	}
	// ite chain; provenance kept only if all candidates agree on the object
	var res Val
	for i := len(cands) - 1; i >= 0; i-- {
		v := ex.loadCells(st, o, cands[i], t)
		if i == len(cands)-1 {
			res = v
			continue
		}
		g := c.Eq(off, c.BV(64, uint64(cands[i])))
		nv := Val{E: c.Ite(g, v.E, res.E)}
		if v.Obj != 0 && v.Obj == res.Obj {
			nv.Obj = v.Obj
			nv.Off = c.Ite(g, v.Off, res.Off)
		}
		res = nv
	}
	// the offset is one of the candidates (alignment assumption made explicit as an obligation)
	var any []*smt.Expr
	for _, k := range cands {
		any = append(any, c.Eq(off, c.BV(64, uint64(k))))
	}
	mis := c.Not(c.Or(any...))
	if r, m, _ := ex.check(st, []*smt.Expr{mis}, ex.ModelVars); r == smt.Sat {
		ex.faultM(st, "misaligned-symbolic-access", what, mis, m)
		st.Assume(c.Or(any...))
	} else if r == smt.Unknown {
		ex.abort(st, "alignment query inconclusive in "+what)
		return Val{}, false
	}
	return res, true
}

// Store writes v of type t through pointer p.
func (ex *Exec) Store(st *State, p Val, v Val, t *llread.Type, what string) bool {
	c := ex.C
	if t.Kind == llread.TStruct || t.Kind == llread.TArray {
		if t.Kind == llread.TStruct {
			for i, f := range t.Fields {
				if !ex.Store(st, ex.ptrAdd(p, c.BV(64, t.Offsets[i])), v.Agg[i], f, what) {
					return false
				}
			}
		} else {
			for i := 0; i < t.N; i++ {
				if !ex.Store(st, ex.ptrAdd(p, c.BV(64, uint64(i)*t.Elem.Size)), v.Agg[i], t.Elem, what) {
					return false
				}
			}
		}
		return true
	}
	o, off, ok := ex.resolve(st, p, what)
	if !ok {
		return false
	}
	n := int64(storeSize(t))
	if !ex.checkAccess(st, o, off, n, what, true) {
		return false
	}
	o = st.wobj(o.ID)
	if o.CSize < 0 {
		o.Writes++
		bits := ex.bitsOf(v, int(n))
		for k := int64(0); k < n; k++ {
			o.Arr = c.Store(o.Arr, c.Add(off, c.BV(64, uint64(k))), c.Extract(bits, int(8*k+7), int(8*k)))
		}
		return true
	}
	if k, ok := off.ConstS(); ok {
		ex.storeCells(st, o, k, v, t)
		return true
	}
	cands := ex.candidates(o, off, n)
	if len(cands) == 0 || len(cands) > 256 {
		ex.abort(st, "symbolic store candidates in "+what)
		return false
	}
	var any []*smt.Expr
	for _, k := range cands {
		g := c.Eq(off, c.BV(64, uint64(k)))
		any = append(any, g)
		old := ex.loadCells(st, o, k, t)
		nv := Val{E: c.Ite(g, v.E, old.E)}
		if v.Obj != 0 && v.Obj == old.Obj {
			nv.Obj = v.Obj
			nv.Off = c.Ite(g, v.Off, old.Off)
		} else if v.Obj != 0 || old.Obj != 0 {
			// mixed provenance: keep the new one when the guard is the only feasible choice
			nv.Obj = 0
		}
		ex.storeCells(st, o, k, nv, t)
	}
	mis := c.Not(c.Or(any...))
	if r, m, _ := ex.check(st, []*smt.Expr{mis}, ex.ModelVars); r == smt.Sat {
		ex.faultM(st, "misaligned-symbolic-access", what, mis, m)
		st.Assume(c.Or(any...))
	} else if r == smt.Unknown {
		ex.abort(st, "alignment query inconclusive in "+what)
		return false
	}
	return true
}

func (ex *Exec) ptrAdd(p Val, d *smt.Expr) Val {
	c := ex.C
	r := Val{E: c.Add(p.E, d), Obj: p.Obj}
	if p.Obj != 0 {
		r.Off = c.Add(p.Off, d)
	}
	return r
}

// ReadByte returns the byte at a concrete offset of a concrete-size object (harness helper).
func (ex *Exec) ReadByte(st *State, o *Object, off int64) *smt.Expr {
	if o.CSize < 0 {
		return ex.C.Select(o.Arr, ex.C.BV(64, uint64(off)))
	}
	return ex.cellByte(st, o, off)
}

// WriteBytes initialises bytes of a concrete-size object from terms (harness helper).
func (ex *Exec) WriteBytes(st *State, o *Object, off int64, bs []*smt.Expr) {
	o = st.wobj(o.ID)
	for i, b := range bs {
		o.Cells[off+int64(i)] = Cell{E: b, N: 1}
	}
}

// WriteVal stores a typed scalar at a concrete offset without checks (harness helper).
func (ex *Exec) WriteVal(st *State, o *Object, off int64, v Val, nbytes int) {
	o = st.wobj(o.ID)
	for k := 0; k < nbytes; k++ {
		o.Cells[off+int64(k)] = Cell{E: v.E, PObj: v.Obj, POff: v.Off, K: uint8(k), N: uint8(nbytes)}
	}
}

// copyBytes implements memcpy/memmove for a concrete length.
func (ex *Exec) copyBytes(st *State, dst, src Val, n int64, what string) bool {
	if n == 0 {
		return true
	}
	c := ex.C
	so, soff, ok := ex.resolve(st, src, what)
	if !ok {
		return false
	}
	do, doff, ok := ex.resolve(st, dst, what)
	if !ok {
		return false
	}
	if !ex.checkAccess(st, so, soff, n, what+" (source)", false) || !ex.checkAccess(st, do, doff, n, what+" (destination)", true) {
		return false
	}
	sk, sok := soff.ConstS()
	dk, dok := doff.ConstS()
	if so.CSize >= 0 && do.CSize >= 0 && sok && dok {
		tmp := make([]Cell, n)
		copy(tmp, so.Cells[sk:sk+n])
		w := st.wobj(do.ID)
		w.Writes++
		copy(w.Cells[dk:dk+n], tmp)
		// partial copies of multi-byte values stay valid: cells are self-describing
		return true
	}
	// generic path: byte-wise through terms
	bytes := make([]*smt.Expr, n)
	for k := int64(0); k < n; k++ {
		v, ok := ex.Load(st, ex.ptrAdd(Val{E: c.Add(c.BV(64, so.Base), soff), Obj: so.ID, Off: soff}, c.BV(64, uint64(k))), ex.i8, what)
		if !ok {
			return false
		}
		bytes[k] = v.E
	}
	for k := int64(0); k < n; k++ {
		if !ex.Store(st, ex.ptrAdd(Val{E: c.Add(c.BV(64, do.Base), doff), Obj: do.ID, Off: doff}, c.BV(64, uint64(k))), Val{E: bytes[k]}, ex.i8, what) {
			return false
		}
	}
	return true
}
