// Package llse is a bounded, path-forking symbolic executor for LLVM IR (as read by llread).
package llse

import (
	"fmt"

	"verif/engine/llread"
	"verif/engine/smt"
)

// Val is a run-time value: a scalar term, optionally with pointer provenance, or an aggregate.
type Val struct {
	E   *smt.Expr
	Obj int       // provenance: object id (0 = none)
	Off *smt.Expr // offset inside Obj (BV64) when Obj != 0
	Agg []Val
}

func (v Val) IsAgg() bool { return v.Agg != nil }

type ObjKind int

const (
	ObjStack ObjKind = iota
	ObjHeap
	ObjGlobal
	ObjFunc
)

// Cell is one byte of an object with a concrete size. A value of N bytes occupies N cells that
// all carry the same term E; K is the byte index (little endian). E == nil: uninitialised.
type Cell struct {
	E    *smt.Expr
	PObj int
	POff *smt.Expr
	K, N uint8
}

type Object struct {
	ID    int
	Kind  ObjKind
	Name  string
	Base  uint64
	Size  *smt.Expr // BV64
	CSize int64     // -1 when symbolic
	Cells []Cell    // CSize >= 0
	Arr   *smt.Expr // CSize < 0: byte array indexed by offset
	Live  bool
	RO    bool
	Fn    *llread.Func
	owner int
	Writes int // number of writes (used for the noalias obligation)
	// heap bookkeeping
	AllocSeq int
}

func (o *Object) clone(owner int) *Object {
	n := *o
	n.owner = owner
	if o.Cells != nil {
		n.Cells = make([]Cell, len(o.Cells))
		copy(n.Cells, o.Cells)
	}
	return &n
}

type Frame struct {
	Fn     *llread.Func
	Regs   []Val
	Args   []Val
	VarArg []Val
	Blk    *llread.Block
	Prev   *llread.Block
	PC     int
	Allocs []int
	Call   *llread.Inst // call instruction in the caller awaiting the result
	// objects passed through two or more noalias parameters, with their write count at entry
	NoAliasShared map[int]int
}

type TermKind int

const (
	Running TermKind = iota
	TermReturn
	TermRuntimeError // ddp_runtime_error reached
	TermExit
	TermUnreachable
	TermAbort // executor limitation: inconclusive
)

func (t TermKind) String() string {
	return [...]string{"running", "return", "runtime-error", "exit", "unreachable", "abort"}[t]
}

type Event struct {
	Name string
	Args []Val
	Ret  Val
}

// Fault is a violated implicit obligation (memory safety, allocator contract) found on a path.
type Fault struct {
	Kind  string
	Where string
	Model *smt.Model
	Cond  *smt.Expr // condition under which it occurs (conjoined with the path condition at that point)
	PC    []*smt.Expr
}

type State struct {
	id      int
	Frames  []*Frame
	Objs    map[int]*Object
	PC      []*smt.Expr
	Events  []Event
	Faults  []Fault
	Term    TermKind
	TermMsg string
	Ret     Val
	ErrCode Val
	ErrFmt  string
	ErrArgs []Val
	Steps   int
	Globals map[string]int // global/function name -> object id
	Trace   []string
	Notes   []string
	// allocator ledger
	Allocs      int
	Frees       int
	UninitReads int
	Replaced    bool // state superseded by forks made inside an extern (not a path)
	nextObj     *int
}

func (st *State) clone(newID int) *State {
	n := *st
	n.id = newID
	n.Frames = make([]*Frame, len(st.Frames))
	for i, f := range st.Frames {
		nf := *f
		nf.Regs = make([]Val, len(f.Regs))
		copy(nf.Regs, f.Regs)
		nf.Allocs = append([]int(nil), f.Allocs...)
		n.Frames[i] = &nf
	}
	n.Objs = make(map[int]*Object, len(st.Objs))
	for k, v := range st.Objs {
		n.Objs[k] = v
	}
	n.PC = append([]*smt.Expr(nil), st.PC...)
	n.Events = append([]Event(nil), st.Events...)
	n.Faults = append([]Fault(nil), st.Faults...)
	n.Globals = make(map[string]int, len(st.Globals))
	for k, v := range st.Globals {
		n.Globals[k] = v
	}
	n.Trace = append([]string(nil), st.Trace...)
	n.Notes = append([]string(nil), st.Notes...)
	return &n
}

func (st *State) top() *Frame { return st.Frames[len(st.Frames)-1] }

// wobj returns a writable copy of the object for this state.
func (st *State) wobj(id int) *Object {
	o := st.Objs[id]
	if o.owner != st.id {
		o = o.clone(st.id)
		st.Objs[id] = o
	}
	return o
}

func (st *State) Obj(id int) *Object { return st.Objs[id] }

const baseShift = 40

// NewObject creates an object with a concrete size (bytes uninitialised).
func (st *State) NewObject(c *smt.Ctx, kind ObjKind, name string, size int64) *Object {
	*st.nextObj++
	id := *st.nextObj
	o := &Object{ID: id, Kind: kind, Name: name, Base: uint64(id) << baseShift, Size: c.BV(64, uint64(size)), CSize: size,
		Cells: make([]Cell, size), Live: true, owner: st.id}
	st.Objs[id] = o
	return o
}

// NewSymObject creates an object whose size is a term; contents are a fresh byte array.
func (st *State) NewSymObject(c *smt.Ctx, kind ObjKind, name string, size *smt.Expr) *Object {
	*st.nextObj++
	id := *st.nextObj
	o := &Object{ID: id, Kind: kind, Name: name, Base: uint64(id) << baseShift, Size: size, CSize: -1,
		Arr: c.Var(fmt.Sprintf("mem_%s_%d", name, id), smt.Arr), Live: true, owner: st.id}
	st.Objs[id] = o
	return o
}

func (st *State) PtrTo(c *smt.Ctx, o *Object, off int64) Val {
	return Val{E: c.BV(64, o.Base+uint64(off)), Obj: o.ID, Off: c.BV(64, uint64(off))}
}

func (st *State) Assume(e *smt.Expr) { st.PC = append(st.PC, e) }

func (st *State) note(format string, a ...any) {
	st.Notes = append(st.Notes, fmt.Sprintf(format, a...))
}

// LiveHeap lists live heap objects in allocation order.
func (st *State) LiveHeap() []*Object {
	var out []*Object
	for _, o := range st.Objs {
		if o.Kind == ObjHeap && o.Live {
			out = append(out, o)
		}
	}
	for i := 1; i < len(out); i++ {
		for j := i; j > 0 && out[j-1].ID > out[j].ID; j-- {
			out[j-1], out[j] = out[j], out[j-1]
		}
	}
	return out
}
