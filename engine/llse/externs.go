package llse

import (
	"fmt"

	"verif/engine/llread"
	"verif/engine/smt"
)

// PreHook runs before a defined function's body is entered; returning false stops the state.
type PreHook func(ex *Exec, st *State, in *llread.Inst, args []Val) bool

func installDefaultExterns(ex *Exec) {
	ex.PreHooks = map[string]PreHook{}
	ex.PreHooks["ddp_reallocate"] = ledgerHook
	e := ex.Externs
	e["malloc"] = func(ex *Exec, st *State, in *llread.Inst, a []Val) []*State {
		return ex.allocN(st, in, a[0], nil)
	}
	e["calloc"] = func(ex *Exec, st *State, in *llread.Inst, a []Val) []*State {
		zero := ex.C.BV(8, 0)
		return ex.allocN(st, in, Val{E: ex.C.Mul(a[0].E, a[1].E)}, zero)
	}
	e["realloc"] = externRealloc
	e["free"] = func(ex *Exec, st *State, in *llread.Inst, a []Val) []*State {
		null, nonnull := ex.isNull(st, a[0])
		if !null && !nonnull {
			// decide nullness with the solver; both outcomes possible: split the path
			c := ex.C
			isZ := c.Eq(a[0].E, c.BV(64, 0))
			rz, _, _ := ex.check(st, []*smt.Expr{isZ}, nil)
			rn, _, _ := ex.check(st, []*smt.Expr{c.Not(isZ)}, nil)
			switch {
			case rz == smt.Unknown || rn == smt.Unknown:
				ex.abort(st, "nullness of a freed pointer inconclusive")
				return []*State{st}
			case rz == smt.Sat && rn == smt.Sat:
				s2 := ex.fork(st)
				st.Assume(isZ)
				s2.Assume(c.Not(isZ))
				ex.freePtr(s2, a[0], "free")
				return []*State{st, s2}
			case rz == smt.Sat:
				return []*State{st}
			default:
				st.Assume(c.Not(isZ))
			}
		}
		ex.freePtr(st, a[0], "free")
		return []*State{st}
	}
	// when the runtime IR is not loaded, ddp_reallocate is modelled from its documented contract
	e["ddp_reallocate.model"] = nil
	delete(e, "ddp_reallocate.model")
	e["ddp_runtime_error"] = func(ex *Exec, st *State, in *llread.Inst, a []Val) []*State {
		st.Term = TermRuntimeError
		st.ErrCode = a[0]
		st.ErrFmt = ex.cstringOf(st, a[1])
		st.ErrArgs = a[2:]
		return nil
	}
	e["exit"] = func(ex *Exec, st *State, in *llread.Inst, a []Val) []*State {
		st.Term = TermExit
		st.ErrCode = a[0]
		return nil
	}
	e["abort"] = func(ex *Exec, st *State, in *llread.Inst, a []Val) []*State {
		st.Term = TermExit
		st.ErrCode = Val{E: ex.C.BV(32, 134)}
		return nil
	}
	e["ddp_end_runtime"] = func(ex *Exec, st *State, in *llread.Inst, a []Val) []*State { return []*State{st} }
	e["memcpy"] = func(ex *Exec, st *State, in *llread.Inst, a []Val) []*State {
		return ex.memcpyLike(st, in, a[0], a[1], a[2], a[0])
	}
	e["memmove"] = e["memcpy"]
	e["memset"] = func(ex *Exec, st *State, in *llread.Inst, a []Val) []*State {
		return ex.memsetLike(st, in, a[0], a[1], a[2], a[0])
	}
	e["memcmp"] = externMemcmp
	e["bcmp"] = externMemcmp
	e["strlen"] = externStrlen
	for _, n := range []string{"pow", "log10", "log", "sqrt", "sin", "cos", "tan", "asin", "acos", "atan", "sinh", "cosh", "tanh", "exp", "fmod", "atan2", "round"} {
		name := n
		e[name] = func(ex *Exec, st *State, in *llread.Inst, a []Val) []*State {
			var es []*smt.Expr
			for _, x := range a {
				es = append(es, x.E)
			}
			ex.SetResult(st, in, Val{E: ex.C.App("libm."+name, smt.FP, es...)})
			return []*State{st}
		}
	}
	e["floor"] = func(ex *Exec, st *State, in *llread.Inst, a []Val) []*State {
		ex.SetResult(st, in, Val{E: ex.C.FRound(smt.OFRoundRTN, a[0].E)})
		return []*State{st}
	}
	e["ceil"] = func(ex *Exec, st *State, in *llread.Inst, a []Val) []*State {
		ex.SetResult(st, in, Val{E: ex.C.FRound(smt.OFRoundRTP, a[0].E)})
		return []*State{st}
	}
	e["trunc"] = func(ex *Exec, st *State, in *llread.Inst, a []Val) []*State {
		ex.SetResult(st, in, Val{E: ex.C.FRound(smt.OFRoundRTZ, a[0].E)})
		return []*State{st}
	}
	e["fabs"] = func(ex *Exec, st *State, in *llread.Inst, a []Val) []*State {
		ex.SetResult(st, in, Val{E: ex.C.FAbs(a[0].E)})
		return []*State{st}
	}
}

// Sink installs an extern that records an event and returns a fresh unconstrained value (or
// nothing). Harnesses use it for output primitives and observation points.
func (ex *Exec) Sink(name string) {
	ex.Externs[name] = func(ex *Exec, st *State, in *llread.Inst, a []Val) []*State {
		ev := Event{Name: name, Args: append([]Val(nil), a...)}
		switch in.Type.Kind {
		case llread.TInt:
			ev.Ret = Val{E: ex.C.Fresh("ret_"+name, smt.BVSort(in.Type.Bits))}
		case llread.TDouble:
			ev.Ret = Val{E: ex.C.Fresh("ret_"+name, smt.FP)}
		case llread.TPtr:
			ev.Ret = Val{E: ex.C.BV(64, 0)}
		}
		if ev.Ret.E != nil {
			ex.SetResult(st, in, ev.Ret)
		}
		st.Events = append(st.Events, ev)
		return []*State{st}
	}
}

func (ex *Exec) cstringOf(st *State, p Val) string {
	if p.Obj == 0 {
		return "?"
	}
	o := st.Objs[p.Obj]
	off, ok := p.Off.ConstS()
	if !ok || o.CSize < 0 {
		return "?"
	}
	var bs []byte
	for k := off; k < o.CSize; k++ {
		c := o.Cells[k]
		if c.E == nil {
			break
		}
		v, ok := c.E.ConstU()
		if !ok || v == 0 {
			break
		}
		bs = append(bs, byte(v))
	}
	if o.Kind == ObjGlobal {
		return o.Name + ":" + string(bs)
	}
	return string(bs)
}

func (ex *Exec) allocN(st *State, in *llread.Inst, n Val, fill *smt.Expr) []*State {
	states, vals := ex.concretize(st, n.E, 48, "allocation size")
	for i, s := range states {
		if vals[i] > 1<<20 {
			ex.abort(s, "allocation too large for the cell model")
			continue
		}
		o := s.NewObject(ex.C, ObjHeap, "heap", int64(vals[i]))
		s.Allocs++
		o.AllocSeq = s.Allocs
		if fill != nil {
			for k := range o.Cells {
				o.Cells[k] = Cell{E: fill, N: 1}
			}
		}
		ex.SetResult(s, in, s.PtrTo(ex.C, o, 0))
	}
	if len(states) == 0 {
		return []*State{st}
	}
	return states
}

// isNull decides whether a pointer is null on this path: (definitely null, definitely non-null).
func (ex *Exec) isNull(st *State, p Val) (bool, bool) {
	if p.Obj != 0 {
		return false, true
	}
	if a, ok := p.E.ConstU(); ok {
		return a == 0, a != 0
	}
	return false, false
}

func (ex *Exec) freePtr(st *State, p Val, what string) bool {
	null, nonnull := ex.isNull(st, p)
	if null {
		return true
	}
	_ = nonnull
	o, off, ok := ex.resolve(st, p, what)
	if !ok {
		return false
	}
	if o.Kind != ObjHeap {
		ex.fault(st, "invalid-free", fmt.Sprintf("%s of non-heap object %s#%d", what, o.Name, o.ID), ex.C.True())
		st.Term = TermAbort
		st.TermMsg = "invalid free"
		return false
	}
	if !o.Live {
		ex.fault(st, "double-free", fmt.Sprintf("%s of dead block #%d", what, o.ID), ex.C.True())
		st.Term = TermAbort
		st.TermMsg = "double free"
		return false
	}
	notBase := ex.C.Ne(off, ex.C.BV(64, 0))
	if !notBase.IsFalse() {
		r, m, _ := ex.check(st, []*smt.Expr{notBase}, ex.ModelVars)
		if r != smt.Unsat {
			ex.faultM(st, "invalid-free", what+" of interior pointer", notBase, m)
			st.Term = TermAbort
			st.TermMsg = "free of interior pointer"
			return false
		}
	}
	w := st.wobj(o.ID)
	w.Live = false
	st.Frees++
	return true
}

func externRealloc(ex *Exec, st *State, in *llread.Inst, a []Val) []*State {
	null, nonnull := ex.isNull(st, a[0])
	if null {
		return ex.allocN(st, in, a[1], nil)
	}
	if !nonnull {
		ex.abort(st, "realloc of pointer with unknown nullness")
		return []*State{st}
	}
	states, vals := ex.concretize(st, a[1].E, 48, "realloc size")
	for i, s := range states {
		o, off, ok := ex.resolve(s, a[0], "realloc")
		if !ok {
			continue
		}
		if o.Kind != ObjHeap || !o.Live || !ex.C.Eq(off, ex.C.BV(64, 0)).IsTrue() {
			ex.fault(s, "invalid-realloc", fmt.Sprintf("realloc of %s#%d live=%v off=%s", o.Name, o.ID, o.Live, off.Short()), ex.C.True())
			s.Term = TermAbort
			s.TermMsg = "invalid realloc"
			continue
		}
		if o.CSize < 0 {
			ex.abort(s, "realloc of symbolic-size block")
			continue
		}
		if vals[i] == 0 {
			// glibc: realloc(p, 0) frees p and returns NULL
			w := s.wobj(o.ID)
			w.Live = false
			s.Frees++
			ex.SetResult(s, in, Val{E: ex.C.BV(64, 0)})
			continue
		}
		n := s.NewObject(ex.C, ObjHeap, "heap", int64(vals[i]))
		s.Allocs++
		n.AllocSeq = s.Allocs
		k := o.CSize
		if int64(vals[i]) < k {
			k = int64(vals[i])
		}
		copy(n.Cells[:k], o.Cells[:k])
		w := s.wobj(o.ID)
		w.Live = false
		s.Frees++
		ex.SetResult(s, in, s.PtrTo(ex.C, n, 0))
	}
	if len(states) == 0 {
		return []*State{st}
	}
	return states
}

// ledgerHook checks the allocator contract on every entry into ddp_reallocate(ptr, old, new):
// ptr == NULL needs old == 0; otherwise ptr must be the base of a live heap block of exactly old bytes.
func ledgerHook(ex *Exec, st *State, in *llread.Inst, a []Val) bool {
	c := ex.C
	null, nonnull := ex.isNull(st, a[0])
	if !null && !nonnull {
		// symbolic null-ness: split is left to the body; only check when decided
		return true
	}
	if null {
		bad := c.Ne(a[1].E, c.BV(64, 0))
		if !bad.IsFalse() {
			if r, m, _ := ex.check(st, []*smt.Expr{bad}, ex.ModelVars); r == smt.Sat {
				ex.faultM(st, "wrong-old-size", "ddp_reallocate(NULL, old != 0, ..)", bad, m)
			}
		}
		return true
	}
	o, off, ok := ex.resolve(st, a[0], "ddp_reallocate")
	if !ok {
		return false
	}
	if o.Kind != ObjHeap {
		ex.fault(st, "invalid-free", fmt.Sprintf("ddp_reallocate of non-heap object %s#%d", o.Name, o.ID), c.True())
		st.Term = TermAbort
		st.TermMsg = "ddp_reallocate of non-heap object"
		return false
	}
	if !o.Live {
		ex.fault(st, "double-free", fmt.Sprintf("ddp_reallocate of dead block #%d", o.ID), c.True())
		st.Term = TermAbort
		st.TermMsg = "ddp_reallocate of dead block"
		return false
	}
	bad := c.Or(c.Ne(off, c.BV(64, 0)), c.Ne(a[1].E, o.Size))
	if !bad.IsFalse() {
		if r, m, _ := ex.check(st, []*smt.Expr{bad}, ex.ModelVars); r == smt.Sat {
			ex.faultM(st, "wrong-old-size", fmt.Sprintf("ddp_reallocate: stated old size %s, block #%d has %s (offset %s)", a[1].E.Short(), o.ID, o.Size.Short(), off.Short()), bad, m)
		} else if r == smt.Unknown {
			ex.abort(st, "ledger query inconclusive")
			return false
		}
	}
	return true
}

// ModelReallocate is the contract model of ddp_reallocate for runs without the runtime IR.
func ModelReallocate(ex *Exec, st *State, in *llread.Inst, a []Val) []*State {
	if !ledgerHook(ex, st, in, a) {
		return []*State{st}
	}
	if k, ok := a[2].E.ConstU(); ok && k == 0 {
		ex.freePtr(st, a[0], "ddp_reallocate(free)")
		ex.SetResult(st, in, Val{E: ex.C.BV(64, 0)})
		return []*State{st}
	}
	if ex.C.Eq(a[1].E, a[2].E).IsTrue() {
		ex.SetResult(st, in, a[0])
		return []*State{st}
	}
	return externRealloc(ex, st, in, []Val{a[0], a[2]})
}

func externMemcmp(ex *Exec, st *State, in *llread.Inst, a []Val) []*State {
	c := ex.C
	states, vals := ex.concretize(st, a[2].E, 48, "memcmp length")
	for i, s := range states {
		n := int64(vals[i])
		res := c.BV(32, 0)
		ok := true
		var as, bs []*smt.Expr
		for k := int64(0); k < n && ok; k++ {
			x, ok1 := ex.Load(s, ex.ptrAdd(a[0], c.BV(64, uint64(k))), ex.i8, "memcmp")
			y, ok2 := ex.Load(s, ex.ptrAdd(a[1], c.BV(64, uint64(k))), ex.i8, "memcmp")
			ok = ok1 && ok2
			if ok {
				as = append(as, x.E)
				bs = append(bs, y.E)
			}
		}
		if !ok {
			if s.Term == Running {
				s.Term = TermAbort
				s.TermMsg = "memcmp failed (fault recorded)"
			}
			continue
		}
		// glibc convention: difference of the first differing bytes (as unsigned chars)
		for k := n - 1; k >= 0; k-- {
			d := c.Sub(c.ZExt(as[k], 32), c.ZExt(bs[k], 32))
			res = c.Ite(c.Ne(as[k], bs[k]), d, res)
		}
		ex.SetResult(s, in, ex.coerce(Val{E: res}, in.Type))
	}
	if len(states) == 0 {
		return []*State{st}
	}
	return states
}

func externStrlen(ex *Exec, st *State, in *llread.Inst, a []Val) []*State {
	c := ex.C
	// walk bytes, forking on "is NUL" until decided; bounded by the object size
	var out []*State
	cur := st
	for k := int64(0); ; k++ {
		b, ok := ex.Load(cur, ex.ptrAdd(a[0], c.BV(64, uint64(k))), ex.i8, "strlen")
		if !ok {
			if cur.Term == Running {
				cur.Term = TermAbort
				cur.TermMsg = "strlen ran out of the block (fault recorded)"
			}
			out = append(out, cur)
			return out
		}
		z := c.Eq(b.E, c.BV(8, 0))
		if z.IsTrue() {
			ex.SetResult(cur, in, Val{E: c.BV(64, uint64(k))})
			out = append(out, cur)
			return out
		}
		if z.IsFalse() {
			continue
		}
		rt, _, _ := ex.check(cur, []*smt.Expr{z}, nil)
		rf, _, _ := ex.check(cur, []*smt.Expr{c.Not(z)}, nil)
		if rt == smt.Unknown || rf == smt.Unknown {
			ex.abort(cur, "strlen feasibility inconclusive")
			out = append(out, cur)
			return out
		}
		if rt == smt.Sat && rf == smt.Sat {
			s2 := ex.fork(cur)
			s2.Assume(z)
			ex.SetResult(s2, in, Val{E: c.BV(64, uint64(k))})
			out = append(out, s2)
			cur.Assume(c.Not(z))
		} else if rt == smt.Sat {
			ex.SetResult(cur, in, Val{E: c.BV(64, uint64(k))})
			out = append(out, cur)
			return out
		}
		if k > 4096 {
			ex.abort(cur, "strlen bound")
			out = append(out, cur)
			return out
		}
	}
}
