package llse

import (
	"os"
	"testing"
	"time"

	"verif/engine/llread"
	"verif/engine/smt"
)

func TestIdx(t *testing.T) {
	p := os.Getenv("LLSE_TEST_FILE")
	if p == "" {
		t.Skip()
	}
	m, err := llread.ParseFile(p)
	if err != nil {
		t.Fatal(err)
	}
	lists, err := llread.ParseFile(os.Getenv("LLSE_LISTS"))
	if err != nil {
		t.Fatal(err)
	}
	c := smt.NewCtx()
	pr := smt.NewProver(c, 20*time.Second, 0)
	defer pr.Close()
	ex := NewExec(c, pr, m, lists)
	ex.Externs["ddp_reallocate"] = ModelReallocate
	st := ex.NewState()
	ln := c.Var("len", smt.BVSort(64))
	cp := c.Var("cap", smt.BVSort(64))
	i := c.Var("i", smt.BVSort(64))
	ex.ModelVars = []*smt.Expr{ln, cp, i}
	st.Assume(c.SLE(c.BV(64, 0), ln))
	st.Assume(c.SLE(ln, cp))
	st.Assume(c.SLE(cp, c.BV(64, 1<<31)))
	st.Assume(c.SGE(cp, c.BV(64, 1)))
	arr := st.NewSymObject(c, ObjHeap, "arr", c.Mul(cp, c.BV(64, 8)))
	hdr := st.NewObject(c, ObjStack, "list", 24)
	ex.WriteVal(st, hdr, 0, st.PtrTo(c, arr, 0), 8)
	ex.WriteVal(st, hdr, 8, Val{E: ln}, 8)
	ex.WriteVal(st, hdr, 16, Val{E: cp}, 8)
	fn := ex.FindFunc("c06_idx_zahl")
	ex.Call(st, fn, []Val{st.PtrTo(c, hdr, 0), {E: i}})
	t0 := time.Now()
	res := ex.Run(st)
	for _, s := range res {
		t.Logf("term=%v msg=%q ret=%v err=%q faults=%d pc=%d steps=%d", s.Term, s.TermMsg, s.Ret.E, s.ErrFmt, len(s.Faults), len(s.PC), s.Steps)
		for _, f := range s.Faults {
			t.Logf("  fault %s %s model=%v", f.Kind, f.Where, f.Model)
		}
		inDom := c.And(c.SLE(c.BV(64, 1), i), c.SLE(i, ln))
		var bad *smt.Expr
		if s.Term == TermRuntimeError {
			bad = inDom
		} else {
			bad = c.Not(inDom)
		}
		r, mm, _ := pr.Check(append(append([]*smt.Expr{}, s.PC...), bad), []*smt.Expr{ln, i})
		t.Logf("  domain check: %v %v", r, mm)
	}
	t.Logf("paths=%d insts=%d time=%v queries=%d", ex.Paths, ex.Insts, time.Since(t0), smt.Global.Queries)
}
