package gose

import (
	"os"
	"testing"
	"time"
)

func TestSmoke(t *testing.T) {
	if os.Getenv("GOSE_SMOKE") == "" {
		t.Skip()
	}
	b, _ := os.ReadFile("/verif/harness/go/scanner/zz_verif_smoke.go")
	p, err := Load("/repo", map[string]string{"src/scanner/zz_verif_smoke.go": string(b)}, "./src/scanner")
	if err != nil {
		t.Fatal(err)
	}
	t.Logf("loaded in %.1fs", p.LoadS)
	st := p.Explore(ModPath+"/src/scanner", "VerifSmoke2", Options{Workers: 16, KeepPaths: 5, Deadline: 5 * time.Minute})
	t.Logf("paths=%d branches=%d asserts=%d proved=%d aborted=%d steps=%d wall=%v depth=%d", st.Paths, st.Branches, st.Asserts, st.Proved, st.Aborted, st.Steps, st.Wall, st.MaxDepth)
	for _, v := range st.Violations {
		t.Logf("VIOL %s %s model=%s", v.Kind, v.Msg, ModelString(v.Model))
	}
	for _, s := range st.Incon {
		t.Logf("INCON %s", s)
	}
	for _, s := range st.SamplePaths {
		t.Logf("path: %s", s)
	}
}

func TestParseProbe(t *testing.T) {
	if os.Getenv("GOSE_PROBE") == "" {
		t.Skip()
	}
	files := map[string]string{}
	for virt, real := range map[string]string{"src/parser/zz_verif_c03.go": "parser/zz_verif_c03.go", "src/parser/zz_verif_c19.go": "parser/zz_verif_c19.go"} {
		b, _ := os.ReadFile("/verif/harness/go/" + real)
		files[virt] = string(b)
	}
	p, err := Load("/repo", files, "./src/parser/...", "./src/scanner")
	if err != nil {
		t.Fatal(err)
	}
	st := p.Explore(ModPath+"/src/parser", os.Getenv("GOSE_PROBE"), Options{Workers: 16, KeepPaths: 3, Deadline: 5 * time.Minute})
	t.Logf("paths=%d branches=%d asserts=%d proved=%d aborted=%d steps=%d wall=%v depth=%d trunc=%v", st.Paths, st.Branches, st.Asserts, st.Proved, st.Aborted, st.Steps, st.Wall, st.MaxDepth, st.Truncated)
	for _, v := range st.Violations {
		t.Logf("VIOL %s %s model=%s", v.Kind, v.Msg, ModelString(v.Model))
	}
	seen := map[string]int{}
	for _, s := range st.Incon {
		seen[s]++
	}
	for s, n := range seen {
		t.Logf("INCON x%d %s", n, s)
	}
}
