package gose

import (
	"os"
	"testing"
	"time"
)

func TestSmoke(t *testing.T) {
	if os.Getenv("GOSE_SMOKE") == "" {
		t.Skip()
	}
	b, _ := os.ReadFile("/verif/harness/go/scanner/zz_verif_smoke.go")
	p, err := Load("/repo", map[string]string{"src/scanner/zz_verif_smoke.go": string(b)}, "./src/scanner")
	if err != nil {
		t.Fatal(err)
	}
	t.Logf("loaded in %.1fs", p.LoadS)
	st := p.Explore(ModPath+"/src/scanner", "VerifSmoke2", Options{Workers: 16, KeepPaths: 5, Deadline: 5 * time.Minute})
	t.Logf("paths=%d branches=%d asserts=%d proved=%d aborted=%d steps=%d wall=%v depth=%d", st.Paths, st.Branches, st.Asserts, st.Proved, st.Aborted, st.Steps, st.Wall, st.MaxDepth)
	for _, v := range st.Violations {
		t.Logf("VIOL %s %s model=%s", v.Kind, v.Msg, ModelString(v.Model))
	}
	for _, s := range st.Incon {
		t.Logf("INCON %s", s)
	}
	for _, s := range st.SamplePaths {
		t.Logf("path: %s", s)
	}
}
