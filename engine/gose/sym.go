package gose

// Symbolic values for the Go SSA interpreter: scalars (bool and all integer kinds) carried as
// SMT terms, and strings of concrete length whose bytes may be symbolic.

import (
	"fmt"
	"go/token"
	"go/types"

	"verif/engine/smt"
)

// sym is a symbolic scalar. K is the basic kind of the Go type it inhabits.
type sym struct {
	E *smt.Expr
	K types.BasicKind
	X *Exec
}

// symstr is a string of concrete length with (possibly) symbolic bytes. Each element is a
// uint8 or a *sym of kind Uint8.
type symstr struct {
	B []value
}

func kindBits(k types.BasicKind) (int, bool) { // width, signed
	switch k {
	case types.Bool:
		return 0, false
	case types.Int, types.Int64:
		return 64, true
	case types.Int8:
		return 8, true
	case types.Int16:
		return 16, true
	case types.Int32:
		return 32, true
	case types.Uint, types.Uint64, types.Uintptr:
		return 64, false
	case types.Uint8:
		return 8, false
	case types.Uint16:
		return 16, false
	case types.Uint32:
		return 32, false
	}
	panic(fmt.Sprintf("kindBits: unsupported kind %v", k))
}

func basicKindOf(t types.Type) (types.BasicKind, bool) {
	b, ok := t.Underlying().(*types.Basic)
	if !ok {
		return 0, false
	}
	k := b.Kind()
	switch k {
	case types.UntypedBool:
		k = types.Bool
	case types.UntypedInt:
		k = types.Int
	case types.UntypedRune:
		k = types.Int32
	}
	return k, true
}

func isSym(v value) bool {
	switch v.(type) {
	case *sym, symstr:
		return true
	}
	return false
}

// kindOfValue returns the basic kind of a concrete scalar.
func kindOfValue(v value) types.BasicKind {
	switch v.(type) {
	case bool:
		return types.Bool
	case int:
		return types.Int
	case int8:
		return types.Int8
	case int16:
		return types.Int16
	case int32:
		return types.Int32
	case int64:
		return types.Int64
	case uint:
		return types.Uint
	case uint8:
		return types.Uint8
	case uint16:
		return types.Uint16
	case uint32:
		return types.Uint32
	case uint64:
		return types.Uint64
	case uintptr:
		return types.Uintptr
	}
	panic(fmt.Sprintf("kindOfValue: %T", v))
}

// lift turns a concrete scalar into a constant term of its kind.
func (x *Exec) lift(v value) *sym {
	if s, ok := v.(*sym); ok {
		return s
	}
	k := kindOfValue(v)
	if k == types.Bool {
		return &sym{E: x.C.BoolC(v.(bool)), K: k, X: x}
	}
	w, _ := kindBits(k)
	return &sym{E: x.C.BV(w, uint64(asInt64(v))), K: k, X: x}
}

// lower returns a concrete Go value when the term is constant, else the sym itself.
func (x *Exec) lower(e *smt.Expr, k types.BasicKind) value {
	if e.Op == smt.OConst {
		return concreteOf(e.Val, k)
	}
	return &sym{E: e, K: k, X: x}
}

func concreteOf(v uint64, k types.BasicKind) value {
	switch k {
	case types.Bool:
		return v != 0
	case types.Int:
		return int(int64(v))
	case types.Int8:
		return int8(v)
	case types.Int16:
		return int16(v)
	case types.Int32:
		return int32(v)
	case types.Int64:
		return int64(v)
	case types.Uint:
		return uint(v)
	case types.Uint8:
		return uint8(v)
	case types.Uint16:
		return uint16(v)
	case types.Uint32:
		return uint32(v)
	case types.Uint64:
		return v
	case types.Uintptr:
		return uintptr(v)
	}
	panic(fmt.Sprintf("concreteOf: kind %v", k))
}

func execOf(vs ...value) *Exec {
	for _, v := range vs {
		switch v := v.(type) {
		case *sym:
			return v.X
		case symstr:
			for _, b := range v.B {
				if s, ok := b.(*sym); ok {
					return s.X
				}
			}
		}
	}
	return nil
}

// symBinop implements binary operators when at least one operand is symbolic.
func symBinop(op token.Token, t types.Type, xv, yv value) value {
	x := execOf(xv, yv)
	if x == nil {
		panic("symBinop without symbolic operand")
	}
	c := x.C
	// strings
	if isStringish(xv) || isStringish(yv) {
		return x.strBinop(op, xv, yv)
	}
	if op == token.SHL || op == token.SHR {
		a := x.lift(xv)
		b := x.lift(yv)
		w, signed := kindBits(a.K)
		bw, bsigned := kindBits(b.K)
		if bsigned {
			// negative shift counts panic in Go
			if x.Decide(c.SLT(b.E, c.BV(bw, 0)), "negative shift count") {
				panic(targetPanicString("runtime error: negative shift amount"))
			}
		}
		cnt := b.E
		var over *smt.Expr // count >= width
		over = c.UGE(cnt, c.BV(bw, uint64(w)))
		if bw > w {
			cnt = c.Trunc(cnt, w)
		} else if bw < w {
			cnt = c.ZExt(cnt, w)
		}
		var r *smt.Expr
		if op == token.SHL {
			r = c.Ite(over, c.BV(w, 0), c.Shl(a.E, cnt))
		} else if signed {
			r = c.Ite(over, c.AShr(a.E, c.BV(w, uint64(w-1))), c.AShr(a.E, cnt))
		} else {
			r = c.Ite(over, c.BV(w, 0), c.LShr(a.E, cnt))
		}
		return x.lower(r, a.K)
	}
	a, b := x.lift(xv), x.lift(yv)
	if a.K != b.K {
		panic(fmt.Sprintf("symBinop: kind mismatch %v %v (%s)", a.K, b.K, op))
	}
	if a.K == types.Bool {
		switch op {
		case token.EQL:
			return x.lower(c.Eq(a.E, b.E), types.Bool)
		case token.NEQ:
			return x.lower(c.Ne(a.E, b.E), types.Bool)
		case token.AND:
			return x.lower(c.And(a.E, b.E), types.Bool)
		case token.OR:
			return x.lower(c.Or(a.E, b.E), types.Bool)
		}
		panic(fmt.Sprintf("symBinop: bool op %s", op))
	}
	w, signed := kindBits(a.K)
	switch op {
	case token.ADD:
		return x.lower(c.Add(a.E, b.E), a.K)
	case token.SUB:
		return x.lower(c.Sub(a.E, b.E), a.K)
	case token.MUL:
		return x.lower(c.Mul(a.E, b.E), a.K)
	case token.QUO, token.REM:
		if x.Decide(c.Eq(b.E, c.BV(w, 0)), "division by zero") {
			panic(targetPanicString("runtime error: integer divide by zero"))
		}
		var r *smt.Expr
		switch {
		case op == token.QUO && signed:
			r = c.SDiv(a.E, b.E)
		case op == token.QUO:
			r = c.UDiv(a.E, b.E)
		case signed:
			r = c.SRem(a.E, b.E)
		default:
			r = c.URem(a.E, b.E)
		}
		return x.lower(r, a.K)
	case token.AND:
		return x.lower(c.BAnd(a.E, b.E), a.K)
	case token.OR:
		return x.lower(c.BOr(a.E, b.E), a.K)
	case token.XOR:
		return x.lower(c.BXor(a.E, b.E), a.K)
	case token.AND_NOT:
		return x.lower(c.BAnd(a.E, c.BNot(b.E)), a.K)
	case token.EQL:
		return x.lower(c.Eq(a.E, b.E), types.Bool)
	case token.NEQ:
		return x.lower(c.Ne(a.E, b.E), types.Bool)
	case token.LSS:
		if signed {
			return x.lower(c.SLT(a.E, b.E), types.Bool)
		}
		return x.lower(c.ULT(a.E, b.E), types.Bool)
	case token.LEQ:
		if signed {
			return x.lower(c.SLE(a.E, b.E), types.Bool)
		}
		return x.lower(c.ULE(a.E, b.E), types.Bool)
	case token.GTR:
		if signed {
			return x.lower(c.SGT(a.E, b.E), types.Bool)
		}
		return x.lower(c.UGT(a.E, b.E), types.Bool)
	case token.GEQ:
		if signed {
			return x.lower(c.SGE(a.E, b.E), types.Bool)
		}
		return x.lower(c.UGE(a.E, b.E), types.Bool)
	}
	panic(fmt.Sprintf("symBinop: unsupported op %s", op))
}

func symUnop(op token.Token, xv value) value {
	s := xv.(*sym)
	c := s.X.C
	switch op {
	case token.SUB:
		return s.X.lower(c.Neg(s.E), s.K)
	case token.XOR:
		return s.X.lower(c.BNot(s.E), s.K)
	case token.NOT:
		return s.X.lower(c.Not(s.E), s.K)
	}
	panic(fmt.Sprintf("symUnop: unsupported op %s", op))
}

// symConv converts a symbolic scalar between basic kinds.
func symConv(tDst types.Type, s *sym) value {
	x := s.X
	c := x.C
	dk, ok := basicKindOf(tDst)
	if !ok {
		panic(fmt.Sprintf("symConv: destination %v", tDst))
	}
	if dk == types.String {
		// string(rune) with a symbolic rune: encode by the UTF-8 specification
		return x.runeToString(s)
	}
	if dk == types.Float64 || dk == types.Float32 {
		panic(unsupported("conversion of a symbolic integer to floating point"))
	}
	if s.K == types.Bool || dk == types.Bool {
		if s.K == dk {
			return s
		}
		panic("symConv: bool conversion")
	}
	sw, ssigned := kindBits(s.K)
	dw, _ := kindBits(dk)
	e := s.E
	switch {
	case dw < sw:
		e = c.Trunc(e, dw)
	case dw > sw && ssigned:
		e = c.SExt(e, dw)
	case dw > sw:
		e = c.ZExt(e, dw)
	}
	return x.lower(e, dk)
}

type unsupported string

func (u unsupported) Error() string { return "gose: unsupported: " + string(u) }

// targetPanicString is a run-time error raised by the interpreted program (recoverable by it).
func targetPanicString(s string) string { return s }

// ---- strings

func isStringish(v value) bool {
	switch v.(type) {
	case string, symstr:
		return true
	}
	return false
}

func strBytes(v value) []value {
	switch v := v.(type) {
	case string:
		out := make([]value, len(v))
		for i := 0; i < len(v); i++ {
			out[i] = v[i]
		}
		return out
	case symstr:
		return v.B
	}
	panic(fmt.Sprintf("strBytes: %T", v))
}

// mkString normalises a byte sequence into a Go string when all bytes are concrete.
func mkString(bs []value) value {
	allC := true
	for _, b := range bs {
		if _, ok := b.(*sym); ok {
			allC = false
			break
		}
	}
	if allC {
		buf := make([]byte, len(bs))
		for i, b := range bs {
			buf[i] = b.(uint8)
		}
		return string(buf)
	}
	return symstr{B: append([]value(nil), bs...)}
}

func (x *Exec) byteExpr(b value) *smt.Expr {
	switch b := b.(type) {
	case *sym:
		return b.E
	case uint8:
		return x.C.BV(8, uint64(b))
	}
	panic(fmt.Sprintf("byteExpr: %T", b))
}

func (x *Exec) strEq(a, b []value) *smt.Expr {
	c := x.C
	if len(a) != len(b) {
		return c.False()
	}
	r := c.True()
	for i := range a {
		r = c.And(r, c.Eq(x.byteExpr(a[i]), x.byteExpr(b[i])))
	}
	return r
}

// strLess: lexicographic comparison of byte sequences as a term.
func (x *Exec) strLess(a, b []value) *smt.Expr {
	c := x.C
	n := len(a)
	if len(b) < n {
		n = len(b)
	}
	// from the end: less = a[i] < b[i] || (a[i] == b[i] && rest)
	rest := c.BoolC(len(a) < len(b))
	for i := n - 1; i >= 0; i-- {
		ai, bi := x.byteExpr(a[i]), x.byteExpr(b[i])
		rest = c.Or(c.ULT(ai, bi), c.And(c.Eq(ai, bi), rest))
	}
	return rest
}

func (x *Exec) strBinop(op token.Token, xv, yv value) value {
	a, b := strBytes(xv), strBytes(yv)
	c := x.C
	switch op {
	case token.ADD:
		return mkString(append(append([]value{}, a...), b...))
	case token.EQL:
		return x.lower(x.strEq(a, b), types.Bool)
	case token.NEQ:
		return x.lower(c.Not(x.strEq(a, b)), types.Bool)
	case token.LSS:
		return x.lower(x.strLess(a, b), types.Bool)
	case token.GTR:
		return x.lower(x.strLess(b, a), types.Bool)
	case token.LEQ:
		return x.lower(c.Not(x.strLess(b, a)), types.Bool)
	case token.GEQ:
		return x.lower(c.Not(x.strLess(a, b)), types.Bool)
	}
	panic(fmt.Sprintf("strBinop: unsupported op %s", op))
}

// runeToString encodes a symbolic rune as UTF-8, forking on the encoded length.
func (x *Exec) runeToString(s *sym) value {
	c := x.C
	v := s.E
	if v.Sort.W < 32 {
		v = c.ZExt(v, 32)
	} else if v.Sort.W > 32 {
		// out-of-range values become U+FFFD
		if x.Decide(c.UGT(v, c.BV(v.Sort.W, 0x10ffff)), "rune out of range") {
			return "�"
		}
		v = c.Trunc(v, 32)
	}
	bx := func(hi, lo int) *smt.Expr { return c.Extract(v, hi, lo) }
	cont := func(hi, lo int) value { return x.lower(c.Concat(c.BV(2, 2), bx(hi, lo)), types.Uint8) }
	switch {
	case x.Decide(c.ULE(v, c.BV(32, 0x7f)), "rune<0x80"):
		return mkString([]value{x.lower(c.Extract(v, 7, 0), types.Uint8)})
	case x.Decide(c.ULE(v, c.BV(32, 0x7ff)), "rune<0x800"):
		return mkString([]value{x.lower(c.Concat(c.BV(3, 6), bx(10, 6)), types.Uint8), cont(5, 0)})
	case x.Decide(c.Or(c.UGT(v, c.BV(32, 0x10ffff)), c.And(c.UGE(v, c.BV(32, 0xd800)), c.ULE(v, c.BV(32, 0xdfff)))), "invalid rune"):
		return "�"
	case x.Decide(c.ULE(v, c.BV(32, 0xffff)), "rune<0x10000"):
		return mkString([]value{x.lower(c.Concat(c.BV(4, 14), bx(15, 12)), types.Uint8), cont(11, 6), cont(5, 0)})
	default:
		return mkString([]value{x.lower(c.Concat(c.BV(5, 30), bx(20, 18)), types.Uint8), cont(17, 12), cont(11, 6), cont(5, 0)})
	}
}

// decodeRune is the UTF-8 decoder of the standard library (unicode/utf8.DecodeRune) over
// possibly symbolic bytes; it forks on the byte classes.
func (x *Exec) decodeRune(bs []value) (value, int) {
	c := x.C
	n := len(bs)
	const runeError = int32(0xFFFD)
	if n == 0 {
		return runeError, 0
	}
	// fast path: concrete prefix
	b := func(i int) *smt.Expr { return x.byteExpr(bs[i]) }
	in := func(e *smt.Expr, lo, hi uint64) *smt.Expr {
		return c.And(c.UGE(e, c.BV(8, lo)), c.ULE(e, c.BV(8, hi)))
	}
	z32 := func(e *smt.Expr) *smt.Expr { return c.ZExt(e, 32) }
	b0 := b(0)
	if x.Decide(c.ULT(b0, c.BV(8, 0x80)), "utf8: ascii") {
		return x.lower(z32(b0), types.Int32), 1
	}
	cont := func(i int) *smt.Expr { return in(b(i), 0x80, 0xbf) }
	low6 := func(i int) *smt.Expr { return c.Extract(b(i), 5, 0) }
	if x.Decide(in(b0, 0xc2, 0xdf), "utf8: 2-byte lead") {
		if n < 2 || !x.Decide(cont(1), "utf8: continuation") {
			return runeError, 1
		}
		return x.lower(z32(c.Concat(c.Extract(b0, 4, 0), low6(1))), types.Int32), 2
	}
	if x.Decide(in(b0, 0xe0, 0xef), "utf8: 3-byte lead") {
		if n < 2 {
			return runeError, 1
		}
		// second byte range depends on the lead
		ok1 := c.Ite(c.Eq(b0, c.BV(8, 0xe0)), in(b(1), 0xa0, 0xbf), c.Ite(c.Eq(b0, c.BV(8, 0xed)), in(b(1), 0x80, 0x9f), cont(1)))
		if !x.Decide(ok1, "utf8: second byte") {
			return runeError, 1
		}
		if n < 3 || !x.Decide(cont(2), "utf8: continuation") {
			return runeError, 1
		}
		return x.lower(z32(c.Concat(c.Extract(b0, 3, 0), c.Concat(low6(1), low6(2)))), types.Int32), 3
	}
	if x.Decide(in(b0, 0xf0, 0xf4), "utf8: 4-byte lead") {
		if n < 2 {
			return runeError, 1
		}
		ok1 := c.Ite(c.Eq(b0, c.BV(8, 0xf0)), in(b(1), 0x90, 0xbf), c.Ite(c.Eq(b0, c.BV(8, 0xf4)), in(b(1), 0x80, 0x8f), cont(1)))
		if !x.Decide(ok1, "utf8: second byte") {
			return runeError, 1
		}
		if n < 3 || !x.Decide(cont(2), "utf8: continuation") {
			return runeError, 1
		}
		if n < 4 || !x.Decide(cont(3), "utf8: continuation") {
			return runeError, 1
		}
		return x.lower(z32(c.Concat(c.Extract(b0, 2, 0), c.Concat(low6(1), c.Concat(low6(2), low6(3))))), types.Int32), 4
	}
	return runeError, 1
}
