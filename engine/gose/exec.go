package gose

// Path exploration by re-execution (DART style): one run of the harness follows a recorded
// decision prefix without consulting the solver; at the first symbolic branch beyond the prefix
// both sides are checked for feasibility, one is taken and the other queued.

import (
	"fmt"
	"sort"
	"strings"
	"time"

	"verif/engine/smt"
)

type decision struct {
	Taken  bool
	Forced bool   // only one side was feasible (no sibling path)
	Val    uint64 // value chosen by a concretisation
	IsVal  bool
}

// Violation is a failed assertion or implicit obligation with a model of the symbolic inputs.
type Violation struct {
	Kind  string // "assert", "panic", "budget"
	Msg   string
	Model map[string]uint64
	Path  []decision
	Where string
}

// Exec is the per-run symbolic context.
type Exec struct {
	C       *smt.Ctx
	P       *smt.Prover
	prefix  []decision
	pos     int
	taken   []decision
	PC      []*smt.Expr
	pending [][]decision
	Inputs  []*smt.Expr // declared symbolic inputs (model variables)
	nInput  int

	Viol     []Violation
	Incon    []string
	Steps    int
	MaxSteps int
	Asserts  int
	Proved   int
	dead     bool // path became infeasible (assumption unsatisfiable)
	budgetHit bool
	permNext  string
	expected []string // substrings of panics the harness declared as expected
	sumCache map[string]*summary
	inSummary int
	Notes    []string
}

type pathAbort struct{ reason string }

func newExec(c *smt.Ctx, p *smt.Prover, prefix []decision, maxSteps int) *Exec {
	return &Exec{C: c, P: p, prefix: prefix, MaxSteps: maxSteps}
}

func (x *Exec) check(extra ...*smt.Expr) (smt.Result, *smt.Model) {
	as := append(append([]*smt.Expr{}, x.PC...), extra...)
	r, m, _ := x.P.Check(as, x.Inputs)
	return r, m
}

// Decide resolves a branch on a boolean term.
func (x *Exec) Decide(cond *smt.Expr, what string) bool {
	c := x.C
	if cond.IsTrue() {
		return true
	}
	if cond.IsFalse() {
		return false
	}
	if x.pos < len(x.prefix) {
		d := x.prefix[x.pos]
		x.pos++
		x.taken = append(x.taken, d)
		if d.Taken {
			x.PC = append(x.PC, cond)
		} else {
			x.PC = append(x.PC, c.Not(cond))
		}
		return d.Taken
	}
	rt, _ := x.check(cond)
	if rt == smt.Unknown {
		x.Incon = append(x.Incon, "branch feasibility unknown: "+what)
		panic(pathAbort{"solver unknown at " + what})
	}
	if rt == smt.Unsat {
		x.taken = append(x.taken, decision{Taken: false, Forced: true})
		x.PC = append(x.PC, c.Not(cond))
		return false
	}
	rf, _ := x.check(c.Not(cond))
	if rf == smt.Unknown {
		x.Incon = append(x.Incon, "branch feasibility unknown: "+what)
		panic(pathAbort{"solver unknown at " + what})
	}
	if rf == smt.Unsat {
		x.taken = append(x.taken, decision{Taken: true, Forced: true})
		x.PC = append(x.PC, cond)
		return true
	}
	// both feasible: take true now, queue false
	alt := append(append([]decision{}, x.taken...), decision{Taken: false})
	x.pending = append(x.pending, alt)
	x.taken = append(x.taken, decision{Taken: true})
	x.PC = append(x.PC, cond)
	return true
}

// Concretize picks a concrete value for a bit-vector term (forking over all feasible values,
// one per re-execution).
func (x *Exec) Concretize(e *smt.Expr, what string) uint64 {
	c := x.C
	if v, ok := e.ConstU(); ok {
		return v
	}
	for {
		if x.pos < len(x.prefix) {
			d := x.prefix[x.pos]
			x.pos++
			x.taken = append(x.taken, d)
			eq := c.Eq(e, c.BV(e.Sort.W, d.Val))
			if d.Taken {
				x.PC = append(x.PC, eq)
				return d.Val
			}
			x.PC = append(x.PC, c.Not(eq))
			continue
		}
		as := append([]*smt.Expr{}, x.PC...)
		r, m, _ := x.P.Check(as, append([]*smt.Expr{e}, x.Inputs...))
		if r != smt.Sat {
			if r == smt.Unknown {
				x.Incon = append(x.Incon, "concretisation unknown: "+what)
			}
			panic(pathAbort{"no value for " + what})
		}
		var v uint64
		if e.Op == smt.OVar {
			v = m.Vals[e.Name]
		} else {
			v = m.Vals[fmt.Sprintf("#%d", e.ID)]
		}
		eq := c.Eq(e, c.BV(e.Sort.W, v))
		// is another value possible?
		r2, _ := x.check(c.Not(eq))
		if r2 == smt.Sat {
			alt := append(append([]decision{}, x.taken...), decision{Taken: false, Val: v, IsVal: true})
			x.pending = append(x.pending, alt)
			x.taken = append(x.taken, decision{Taken: true, Val: v, IsVal: true})
		} else {
			x.taken = append(x.taken, decision{Taken: true, Val: v, IsVal: true, Forced: true})
		}
		x.PC = append(x.PC, eq)
		return v
	}
}

// Assume restricts the path; an unsatisfiable assumption ends the path silently.
func (x *Exec) Assume(cond *smt.Expr) {
	if cond.IsTrue() {
		return
	}
	x.PC = append(x.PC, cond)
	if x.pos >= len(x.prefix) || cond.IsFalse() {
		if r, _ := x.check(); r == smt.Unsat {
			x.dead = true
			panic(pathAbort{"assumption unsatisfiable"})
		}
	}
}

// Assert checks that cond holds for every input on this path; a counter-model is a violation.
func (x *Exec) Assert(cond *smt.Expr, msg string) {
	x.Asserts++
	if cond.IsTrue() {
		x.Proved++
		return
	}
	r, m := x.check(x.C.Not(cond))
	switch r {
	case smt.Unsat:
		x.Proved++
	case smt.Sat:
		x.Viol = append(x.Viol, Violation{Kind: "assert", Msg: msg, Model: modelMap(m), Path: append([]decision{}, x.taken...)})
		// continue under the assumption that it holds, if possible
		x.PC = append(x.PC, cond)
		if r2, _ := x.check(); r2 == smt.Unsat {
			x.dead = true
			panic(pathAbort{"assertion never holds on this path"})
		}
	default:
		x.Incon = append(x.Incon, "assertion undecided: "+msg)
	}
}

func modelMap(m *smt.Model) map[string]uint64 {
	out := map[string]uint64{}
	if m != nil {
		for k, v := range m.Vals {
			out[k] = v
		}
	}
	return out
}

func (x *Exec) model() map[string]uint64 {
	r, m := x.check()
	if r != smt.Sat {
		return nil
	}
	return modelMap(m)
}

// NewInput declares a fresh symbolic input.
func (x *Exec) NewInput(name string, s smt.Sort) *smt.Expr {
	x.nInput++
	v := x.C.Var(fmt.Sprintf("%s#%d", name, x.nInput), s)
	x.Inputs = append(x.Inputs, v)
	return v
}

// ---- exploration driver

type Stats struct {
	Paths       int
	Branches    int
	Asserts     int
	Proved      int
	Violations  []Violation
	Incon       []string
	Aborted     int
	Steps       int
	Wall        time.Duration
	MaxDepth    int
	Truncated   bool
	SamplePaths []string
}

func (v Violation) Key() string { return v.Kind + ": " + v.Msg }

func ModelString(m map[string]uint64) string {
	var ks []string
	for k := range m {
		ks = append(ks, k)
	}
	sort.Strings(ks)
	var sb strings.Builder
	for _, k := range ks {
		fmt.Fprintf(&sb, "%s=%#x ", k, m[k])
	}
	return sb.String()
}

type summary struct {
	params []*smt.Expr
	result *smt.Expr
	kind   int
}

// truth resolves the condition of an If instruction.
func (i *interpreter) truth(v value, at interface{}) bool {
	switch v := v.(type) {
	case bool:
		return v
	case *sym:
		return v.X.Decide(v.E, "branch")
	}
	panic(fmt.Sprintf("If on non-boolean %T", v))
}

// mapOrder gives the iteration order of a map: insertion order (deterministic), unless the
// harness has requested a symbolic permutation for the next range statement.
func mapOrder(m *hashmap) []*entry {
	ents := m.live()
	if m != nil && m.perm != nil {
		return m.perm(ents)
	}
	return ents
}

func (x *Exec) expectPanic(msg string) bool {
	for _, e := range x.expected {
		if strings.Contains(msg, e) {
			return true
		}
	}
	return false
}
