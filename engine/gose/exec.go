package gose

// Path exploration by re-execution (DART style): one run of the harness follows a recorded
// decision prefix without consulting the solver; at the first symbolic branch beyond the prefix
// both sides are checked for feasibility, one is taken and the other queued.

import (
	"fmt"
	"go/types"

	"golang.org/x/tools/go/ssa"
	"sort"
	"strings"
	"time"

	"verif/engine/smt"
)

type decision struct {
	Taken  bool
	Forced bool   // only one side was feasible (no sibling path)
	Val    uint64 // value chosen by a concretisation
	IsVal  bool
}

// Violation is a failed assertion or implicit obligation with a model of the symbolic inputs.
type Violation struct {
	Kind  string // "assert", "panic", "budget"
	Msg   string
	Model map[string]uint64
	Path  []decision
	Where string
}

// Exec is the per-run symbolic context.
type Exec struct {
	C       *smt.Ctx
	P       *smt.Prover
	prefix  []decision
	pos     int
	taken   []decision
	PC      []*smt.Expr
	pending [][]decision
	Inputs  []*smt.Expr // declared symbolic inputs (model variables)
	nInput  int

	Viol          []Violation
	Incon         []string
	Steps         int
	MaxSteps      int
	Asserts       int
	Proved        int
	dead          bool // path became infeasible (assumption unsatisfiable)
	budgetHit     bool
	permNext      string
	permCount     int
	expected      []string // substrings of panics the harness declared as expected
	sumCache      map[string]*summary
	known         map[int]bool          // term id -> truth value implied by the path condition (syntactic)
	dom           map[string]*[4]uint64 // feasible values of 8-bit inputs under the single-variable constraints
	multi         map[string]bool       // inputs occurring in a constraint over several inputs
	varsOf        map[int][]string
	deferred      []deferredAssert
	FastDecisions int
	inputSort     map[string]smt.Sort
	W             *Worker
	inSummary     int
	Notes         []string
}

type pathAbort struct{ reason string }

type deferredAssert struct {
	cond *smt.Expr
	msg  string
	path []decision
}

func newExec(c *smt.Ctx, p *smt.Prover, prefix []decision, maxSteps int) *Exec {
	return &Exec{C: c, P: p, prefix: prefix, MaxSteps: maxSteps, known: map[int]bool{}, dom: map[string]*[4]uint64{}, multi: map[string]bool{}, varsOf: map[int][]string{}, inputSort: map[string]smt.Sort{}}
}

func (x *Exec) check(extra ...*smt.Expr) (smt.Result, *smt.Model) {
	as := append(append([]*smt.Expr{}, x.PC...), extra...)
	r, m, _ := x.P.Check(as, x.Inputs)
	return r, m
}

// vars lists the input variables of a term (cached).
func (x *Exec) vars(e *smt.Expr) []string {
	if v, ok := x.varsOf[e.ID]; ok {
		return v
	}
	m := map[string]smt.Sort{}
	smt.Vars(e, m)
	var out []string
	for k := range m {
		out = append(out, k)
	}
	sort.Strings(out)
	x.varsOf[e.ID] = out
	return out
}

func (x *Exec) domain(v string) *[4]uint64 {
	d, ok := x.dom[v]
	if !ok {
		d = &[4]uint64{^uint64(0), ^uint64(0), ^uint64(0), ^uint64(0)}
		x.dom[v] = d
	}
	return d
}

// is8 reports whether v is one of the declared 8-bit inputs.
func (x *Exec) is8(e *smt.Expr, v string) bool {
	s, ok := x.inputSort[v]
	return ok && s.K == smt.KBV && s.W == 8
}

// addPC appends a constraint and maintains the syntactic fact cache and the byte domains.
func (x *Exec) addPC(cond *smt.Expr) {
	x.PC = append(x.PC, cond)
	x.learn(cond)
}

func (x *Exec) learn(cond *smt.Expr) {
	switch cond.Op {
	case smt.ONot:
		x.known[cond.Args[0].ID] = false
		x.known[cond.ID] = true
	case smt.OAnd:
		x.known[cond.ID] = true
		for _, a := range cond.Args {
			x.learn(a)
		}
		return
	default:
		x.known[cond.ID] = true
	}
	vs := x.vars(cond)
	if len(vs) == 1 && x.is8(cond, vs[0]) {
		d := x.domain(vs[0])
		env := map[string]uint64{}
		for val := 0; val < 256; val++ {
			if d[val/64]&(1<<uint(val%64)) == 0 {
				continue
			}
			env[vs[0]] = uint64(val)
			r, ok := smt.Eval(cond, env)
			if ok && r == 0 {
				d[val/64] &^= 1 << uint(val%64)
			}
		}
	} else if len(vs) > 1 {
		for _, v := range vs {
			x.multi[v] = true
		}
	}
}

// fastFeasible decides feasibility of cond and of its negation for conditions over a single
// 8-bit input that is not tied to other inputs: a complete enumeration of its 256 values.
func (x *Exec) fastFeasible(cond *smt.Expr) (canT, canF, ok bool) {
	vs := x.vars(cond)
	if len(vs) != 1 || x.multi[vs[0]] || !x.is8(cond, vs[0]) {
		return false, false, false
	}
	d := x.domain(vs[0])
	env := map[string]uint64{}
	for val := 0; val < 256; val++ {
		if d[val/64]&(1<<uint(val%64)) == 0 {
			continue
		}
		env[vs[0]] = uint64(val)
		r, evok := smt.Eval(cond, env)
		if !evok {
			return false, false, false
		}
		if r == 1 {
			canT = true
		} else {
			canF = true
		}
		if canT && canF {
			break
		}
	}
	return canT, canF, true
}

// Decide resolves a branch on a boolean term.
func (x *Exec) Decide(cond *smt.Expr, what string) bool {
	c := x.C
	if cond.IsTrue() {
		return true
	}
	if cond.IsFalse() {
		return false
	}
	if v, ok := x.known[cond.ID]; ok {
		return v
	}
	if x.pos < len(x.prefix) {
		d := x.prefix[x.pos]
		x.pos++
		x.taken = append(x.taken, d)
		if d.Taken {
			x.addPC(cond)
		} else {
			x.addPC(c.Not(cond))
		}
		return d.Taken
	}
	canT, canF, fast := x.fastFeasible(cond)
	if fast {
		x.FastDecisions++
	} else {
		rt, _ := x.check(cond)
		if rt == smt.Unknown {
			x.Incon = append(x.Incon, "branch feasibility unknown: "+what)
			panic(pathAbort{"solver unknown at " + what})
		}
		canT = rt == smt.Sat
		if !canT {
			canF = true
		} else {
			rf, _ := x.check(c.Not(cond))
			if rf == smt.Unknown {
				x.Incon = append(x.Incon, "branch feasibility unknown: "+what)
				panic(pathAbort{"solver unknown at " + what})
			}
			canF = rf == smt.Sat
		}
	}
	switch {
	case canT && canF:
		alt := append(append([]decision{}, x.taken...), decision{Taken: false})
		x.pending = append(x.pending, alt)
		x.taken = append(x.taken, decision{Taken: true})
		x.addPC(cond)
		return true
	case canT:
		x.taken = append(x.taken, decision{Taken: true, Forced: true})
		x.addPC(cond)
		return true
	case canF:
		x.taken = append(x.taken, decision{Taken: false, Forced: true})
		x.addPC(c.Not(cond))
		return false
	}
	// neither side: the path condition itself is infeasible
	x.dead = true
	panic(pathAbort{"assumption unsatisfiable"})
}

// Concretize picks a concrete value for a bit-vector term (forking over all feasible values,
// one per re-execution).
func (x *Exec) Concretize(e *smt.Expr, what string) uint64 {
	c := x.C
	if v, ok := e.ConstU(); ok {
		return v
	}
	for {
		if x.pos < len(x.prefix) {
			d := x.prefix[x.pos]
			x.pos++
			x.taken = append(x.taken, d)
			eq := c.Eq(e, c.BV(e.Sort.W, d.Val))
			if d.Taken {
				x.addPC(eq)
				return d.Val
			}
			x.addPC(c.Not(eq))
			continue
		}
		as := append([]*smt.Expr{}, x.PC...)
		r, m, _ := x.P.Check(as, append([]*smt.Expr{e}, x.Inputs...))
		if r != smt.Sat {
			if r == smt.Unknown {
				x.Incon = append(x.Incon, "concretisation unknown: "+what)
			}
			panic(pathAbort{"no value for " + what})
		}
		var v uint64
		if e.Op == smt.OVar {
			v = m.Vals[e.Name]
		} else {
			v = m.Vals[fmt.Sprintf("#%d", e.ID)]
		}
		eq := c.Eq(e, c.BV(e.Sort.W, v))
		// is another value possible?
		r2, _ := x.check(c.Not(eq))
		if r2 == smt.Sat {
			alt := append(append([]decision{}, x.taken...), decision{Taken: false, Val: v, IsVal: true})
			x.pending = append(x.pending, alt)
			x.taken = append(x.taken, decision{Taken: true, Val: v, IsVal: true})
		} else {
			x.taken = append(x.taken, decision{Taken: true, Val: v, IsVal: true, Forced: true})
		}
		x.addPC(eq)
		return v
	}
}

// Assume restricts the path; an unsatisfiable assumption ends the path silently.
func (x *Exec) Assume(cond *smt.Expr) {
	if cond.IsTrue() {
		return
	}
	x.Flush()
	x.addPC(cond)
	if x.pos >= len(x.prefix) || cond.IsFalse() {
		if r, _ := x.check(); r == smt.Unsat {
			x.dead = true
			panic(pathAbort{"assumption unsatisfiable"})
		}
	}
}

// Assert records that cond must hold for every input on this path. Assertions are decided in
// batches (one solver query for the conjunction at the end of the path or before the next
// assumption): sound because every input of the path so far continues on some explored path.
func (x *Exec) Assert(cond *smt.Expr, msg string) {
	x.Asserts++
	if cond.IsTrue() {
		x.Proved++
		return
	}
	if v, ok := x.known[cond.ID]; ok && v {
		x.Proved++
		return
	}
	x.deferred = append(x.deferred, deferredAssert{cond: cond, msg: msg, path: append([]decision{}, x.taken...)})
}

// Flush decides the pending assertions.
func (x *Exec) Flush() {
	if len(x.deferred) == 0 {
		return
	}
	ds := x.deferred
	x.deferred = nil
	c := x.C
	var conds []*smt.Expr
	for _, d := range ds {
		conds = append(conds, d.cond)
	}
	r, _ := x.check(c.Not(c.And(conds...)))
	if r == smt.Unsat {
		x.Proved += len(ds)
		return
	}
	// some assertion can fail (or the batch is undecided): decide one by one
	for _, d := range ds {
		r, m := x.check(c.Not(d.cond))
		switch r {
		case smt.Unsat:
			x.Proved++
		case smt.Sat:
			x.Viol = append(x.Viol, Violation{Kind: "assert", Msg: d.msg, Model: modelMap(m), Path: d.path})
		default:
			x.Incon = append(x.Incon, "assertion undecided: "+d.msg)
		}
	}
}

func modelMap(m *smt.Model) map[string]uint64 {
	out := map[string]uint64{}
	if m != nil {
		for k, v := range m.Vals {
			out[k] = v
		}
	}
	return out
}

func (x *Exec) model() map[string]uint64 {
	r, m := x.check()
	if r != smt.Sat {
		return nil
	}
	return modelMap(m)
}

// NewInput declares a fresh symbolic input.
func (x *Exec) NewInput(name string, s smt.Sort) *smt.Expr {
	x.nInput++
	v := x.C.Var(fmt.Sprintf("%s#%d", name, x.nInput), s)
	x.Inputs = append(x.Inputs, v)
	x.inputSort[v.Name] = s
	return v
}

// ---- exploration driver

type Stats struct {
	Paths       int
	Branches    int
	Asserts     int
	Proved      int
	Violations  []Violation
	Incon       []string
	Aborted     int
	Steps       int
	Wall        time.Duration
	MaxDepth    int
	Truncated   bool
	SamplePaths []string
}

func (v Violation) Key() string { return v.Kind + ": " + v.Msg }

func ModelString(m map[string]uint64) string {
	var ks []string
	for k := range m {
		ks = append(ks, k)
	}
	sort.Strings(ks)
	var sb strings.Builder
	for _, k := range ks {
		fmt.Fprintf(&sb, "%s=%#x ", k, m[k])
	}
	return sb.String()
}

// Worker is the per-goroutine state that survives across re-executions: the expression
// context, the solver and the function summaries computed in that context.
type Worker struct {
	C          *smt.Ctx
	P          *smt.Prover
	Summarize  map[string]bool
	sums       map[string]*summary
	SumQueries int
}

type summary struct {
	params []*smt.Expr
	result *smt.Expr
	kind   types.BasicKind
	bad    bool
}

// summarized applies (computing it on first use) the summary of a small pure function with
// scalar parameters and result: all its paths are explored once on fresh parameters and merged
// into one ite term, so that calls do not fork the caller's path.
func (i *interpreter) summarized(fn *ssa.Function, name string, args []value) (value, bool) {
	x := i.x
	anySym := false
	for _, a := range args {
		switch a.(type) {
		case *sym:
			anySym = true
		case bool, int, int8, int16, int32, int64, uint, uint8, uint16, uint32, uint64:
		default:
			return nil, false
		}
	}
	if !anySym {
		return nil, false
	}
	w := x.W
	sum := w.sums[name]
	if sum == nil {
		sum = i.buildSummary(fn, name)
		w.sums[name] = sum
	}
	if sum.bad {
		return nil, false
	}
	m := map[string]*smt.Expr{}
	for k, p := range sum.params {
		m[p.Name] = x.lift(args[k]).E
	}
	return x.lower(x.C.Subst(sum.result, m), sum.kind), true
}

func (i *interpreter) buildSummary(fn *ssa.Function, name string) *summary {
	outer := i.x
	defer func() { i.x = outer }()
	c := outer.C
	sum := &summary{}
	sig := fn.Signature
	if sig.Results().Len() != 1 {
		sum.bad = true
		return sum
	}
	rk, ok := basicKindOf(sig.Results().At(0).Type())
	if !ok || rk == types.String {
		sum.bad = true
		return sum
	}
	sum.kind = rk
	var symArgs []value
	for k := 0; k < sig.Params().Len(); k++ {
		pk, ok := basicKindOf(sig.Params().At(k).Type())
		if !ok || pk == types.String {
			sum.bad = true
			return sum
		}
		var s smt.Sort
		if pk == types.Bool {
			s = smt.Bool
		} else {
			wd, _ := kindBits(pk)
			s = smt.BVSort(wd)
		}
		v := c.Var(fmt.Sprintf("sum.%s.p%d", name, k), s)
		sum.params = append(sum.params, v)
		symArgs = append(symArgs, &sym{E: v, K: pk, X: nil})
	}
	type res struct {
		pc *smt.Expr
		r  *smt.Expr
	}
	var results []res
	queue := [][]decision{nil}
	for len(queue) > 0 {
		prefix := queue[len(queue)-1]
		queue = queue[:len(queue)-1]
		x2 := newExec(outer.C, outer.P, prefix, 100000)
		x2.W = outer.W
		x2.inSummary = 1
		i.x = x2
		args := make([]value, len(symArgs))
		for k, a := range symArgs {
			sa := *(a.(*sym))
			sa.X = x2
			args[k] = &sa
		}
		var out value
		failed := false
		func() {
			defer func() {
				if r := recover(); r != nil {
					failed = true
				}
			}()
			out = callSSA(i, nil, 0, fn, args, nil)
		}()
		if failed || len(x2.Viol) > 0 || len(x2.deferred) > 0 {
			sum.bad = true
			return sum
		}
		switch out.(type) {
		case *sym, bool, int, int8, int16, int32, int64, uint, uint8, uint16, uint32, uint64:
		default:
			sum.bad = true
			return sum
		}
		results = append(results, res{pc: c.And(x2.PC...), r: x2.lift(out).E})
		queue = append(queue, x2.pending...)
		if len(results) > 256 {
			sum.bad = true
			return sum
		}
	}
	if len(results) == 0 {
		sum.bad = true
		return sum
	}
	r := results[len(results)-1].r
	for k := len(results) - 2; k >= 0; k-- {
		r = c.Ite(results[k].pc, results[k].r, r)
	}
	sum.result = r
	return sum
}

// truth resolves the condition of an If instruction.
func (i *interpreter) truth(v value, at interface{}) bool {
	switch v := v.(type) {
	case bool:
		return v
	case *sym:
		return v.X.Decide(v.E, "branch")
	}
	panic(fmt.Sprintf("If on non-boolean %T", v))
}

// mapOrder gives the iteration order of a map: insertion order (deterministic), unless the
// harness has asked for symbolic iteration orders (rt.MapOrder): then every range statement over
// a map follows a permutation whose selectors are fresh symbolic inputs, so that the exploration
// covers every order the Go runtime may choose.
func (x *Exec) mapOrder(m *hashmap) []*entry {
	ents := m.live()
	if x.permNext == "" || len(ents) < 2 {
		return ents
	}
	x.permCount++
	rest := append([]*entry{}, ents...)
	var out []*entry
	for len(rest) > 1 {
		// not numbered like harness inputs: the native replay has no counterpart for it
		v := x.C.Var(fmt.Sprintf("%s.range%d.pick%d", x.permNext, x.permCount, len(out)), smt.BVSort(64))
		x.Inputs = append(x.Inputs, v)
		x.inputSort[v.Name] = smt.BVSort(64)
		x.Assume(x.C.ULT(v, x.C.BV(64, uint64(len(rest)))))
		k := int(x.Concretize(v, "map iteration order"))
		out = append(out, rest[k])
		rest = append(rest[:k], rest[k+1:]...)
	}
	return append(out, rest...)
}

func (x *Exec) expectPanic(msg string) bool {
	for _, e := range x.expected {
		if strings.Contains(msg, e) {
			return true
		}
	}
	return false
}
