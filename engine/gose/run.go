package gose

import (
	"fmt"
	"go/token"
	"go/types"
	"os"
	"path/filepath"
	"regexp"
	"runtime"
	"sort"
	"strings"
	"sync"
	"time"

	"golang.org/x/tools/go/packages"
	"golang.org/x/tools/go/ssa"
	"golang.org/x/tools/go/ssa/ssautil"

	"verif/engine/smt"
)

const ModPath = "github.com/DDP-Projekt/Kompilierer"

// RtSource is the nondeterminism API overlaid into the repository as src/zzverif/rt. Under
// GoSE every function is intercepted; compiled natively (go test -overlay) the bodies replay a
// recorded model, so the same harness reproduces a counterexample against the real build.
const RtSource = `// Code overlaid by the verification harness; not part of the repository.
package rt

import (
	"encoding/json"
	"fmt"
	"os"
)

var vals map[string]uint64
var seq int

func load() {
	if vals != nil {
		return
	}
	vals = map[string]uint64{}
	if p := os.Getenv("VERIF_REPLAY"); p != "" {
		b, err := os.ReadFile(p)
		if err == nil {
			json.Unmarshal(b, &vals)
		}
	}
}

func next(name string) uint64 {
	load()
	seq++
	return vals[fmt.Sprintf("%s#%d", name, seq)]
}

func Byte(name string) byte   { return byte(next(name)) }
func Int(name string) int     { return int(int64(next(name))) }
func Uint(name string) uint   { return uint(next(name)) }
func Rune(name string) rune   { return rune(int32(next(name))) }
func Bool(name string) bool   { return next(name) != 0 }
func Choose(name string, n int) int {
	v := int(next(name))
	if v < 0 || v >= n {
		panic("VERIF-ASSUME-FAILED: choice out of range")
	}
	return v
}
func Bytes(name string, n int) []byte {
	b := make([]byte, n)
	for i := range b {
		b[i] = Byte(name)
	}
	return b
}
func Assume(b bool) {
	if !b {
		panic("VERIF-ASSUME-FAILED")
	}
}
func Assert(b bool, msg string) {
	if !b {
		panic("VERIF-ASSERT: " + msg)
	}
}
// Guard: a condition the harness itself relies on (e.g. its template is a valid program). A
// failed guard is no violation of the property: the path is reported as inconclusive.
func Guard(b bool, msg string) {
	if !b {
		panic("VERIF-GUARD: " + msg)
	}
}
func And(a, b bool) bool     { return a && b }
func Or(a, b bool) bool      { return a || b }
func Not(a bool) bool        { return !a }
func Implies(a, b bool) bool { return !a || b }
func Ite(c bool, a, b int) int {
	if c {
		return a
	}
	return b
}
func IteU(c bool, a, b uint) uint {
	if c {
		return a
	}
	return b
}
func IteR(c bool, a, b rune) rune {
	if c {
		return a
	}
	return b
}
func IteB(c bool, a, b byte) byte {
	if c {
		return a
	}
	return b
}
func B2I(b bool) int {
	if b {
		return 1
	}
	return 0
}
// Expect marks a panic of the code under test as expected for the rest of the path.
func ExpectPanic(sub string) {}
// Symbolic reports whether the harness runs under the symbolic executor.
func Symbolic() bool { return false }
// MapOrder: from here on every range over a map follows a symbolic permutation (under the
// symbolic executor); natively the Go runtime picks the order.
func MapOrder(name string) {}
// Reps is 1 under the symbolic executor (which explores the iteration orders itself) and n in a
// native replay, where a comparison of two runs has to be repeated to meet differing orders.
func Reps(n int) int { return n }
`

type Program struct {
	Prog   *ssa.Program
	Pkgs   []*packages.Package
	Fset   *token.FileSet
	Sizes  types.Sizes
	byPath map[string]*ssa.Package
	LoadS  float64
}

// Load builds SSA for the given repository packages with harness files overlaid.
// overlay maps virtual paths (inside the repository) to file contents.
func Load(repo string, overlay map[string]string, patterns ...string) (*Program, error) {
	t0 := time.Now()
	ov := map[string][]byte{filepath.Join(repo, "src/zzverif/rt/rt.go"): []byte(RtSource)}
	for k, v := range overlay {
		ov[filepath.Join(repo, k)] = []byte(v)
	}
	cfg := &packages.Config{
		Mode: packages.LoadAllSyntax,
		Dir:  repo,
		Env:  append(os.Environ(), "GOFLAGS=-mod=mod", "GOPROXY=off", "GOTOOLCHAIN=auto", "CGO_ENABLED=0"),
		// math/big's assembly kernels have pure-Go twins behind this tag
		BuildFlags: []string{"-tags=math_big_pure_go"},
		Overlay:    ov,
	}
	pats := append([]string{"./src/zzverif/rt"}, patterns...)
	pkgs, err := packages.Load(cfg, pats...)
	if err != nil {
		return nil, err
	}
	var errs []string
	packages.Visit(pkgs, nil, func(p *packages.Package) {
		for _, e := range p.Errors {
			errs = append(errs, e.Error())
		}
	})
	if len(errs) > 0 {
		if len(errs) > 8 {
			errs = errs[:8]
		}
		return nil, fmt.Errorf("package load errors: %s", strings.Join(errs, "; "))
	}
	prog, _ := ssautil.AllPackages(pkgs, ssa.InstantiateGenerics|ssa.SanityCheckFunctions&0)
	prog.Build()
	lateLoads(prog)
	p := &Program{Prog: prog, Pkgs: pkgs, Fset: prog.Fset, Sizes: &types.StdSizes{WordSize: 8, MaxAlign: 8}, byPath: map[string]*ssa.Package{}}
	for _, sp := range prog.AllPackages() {
		p.byPath[sp.Pkg.Path()] = sp
	}
	p.LoadS = time.Since(t0).Seconds()
	return p, nil
}

func (p *Program) Func(pkgPath, name string) *ssa.Function {
	sp := p.byPath[pkgPath]
	if sp == nil {
		return nil
	}
	return sp.Func(name)
}

type Options struct {
	MaxPaths  int
	MaxSteps  int
	Workers   int
	Timeout   time.Duration
	DiffRate  int
	Deadline  time.Duration
	Trace     bool
	KeepPaths int
	Summarize []string               // functions (ssa.Function.String()) summarised instead of inlined
	StopAfter int                    // stop exploring once this many distinct violations are known (0 = explore everything)
	KeyFn     func(Violation) string // identity of a violation for de-duplication (default: kind and message)
}

// newInterp creates a fresh interpreter state (globals zeroed, no package initialised).
func (p *Program) newInterp(x *Exec) *interpreter {
	i := &interpreter{
		prog:       p.Prog,
		globals:    make(map[*ssa.Global]*value),
		sizes:      p.Sizes,
		goroutines: 1,
		x:          x,
		inited:     map[*ssa.Package]bool{},
	}
	if rp := p.Prog.ImportedPackage("runtime"); rp != nil {
		if t := rp.Type("errorString"); t != nil {
			i.runtimeErrorString = t.Object().Type()
		}
	}
	initReflect(i)
	for _, pkg := range p.Prog.AllPackages() {
		for _, m := range pkg.Members {
			if g, ok := m.(*ssa.Global); ok {
				cell := zero(mustDeref(g.Type()))
				i.globals[g] = &cell
			}
		}
	}
	return i
}

// addrRe: heap addresses in printed panic values differ from run to run
var addrRe = regexp.MustCompile(`0x[0-9a-f]{6,}`)

type runResult struct {
	x       *Exec
	aborted string
	engine  string
}

// runOnce executes the harness along one decision prefix.
func (p *Program) runOnce(w *Worker, fn *ssa.Function, prefix []decision, opts Options) (res runResult) {
	c, pr := w.C, w.P
	x := newExec(c, pr, prefix, opts.MaxSteps)
	x.W = w
	res.x = x
	i := p.newInterp(x)
	if opts.Trace {
		i.mode |= EnableTracing
	}
	defer func() {
		if r := recover(); r != nil {
			switch r := r.(type) {
			case pathAbort:
				if !x.dead && r.reason != "assumption unsatisfiable" {
					res.aborted = r.reason
				}
				if x.budgetHit && !x.dead {
					// a candidate for non-termination: confirmed only if the native replay does not finish either
					x.Viol = append(x.Viol, Violation{Kind: "budget", Msg: "does not finish within the instruction budget (possible non-termination)", Model: x.modelQuiet(), Path: append([]decision{}, x.taken...)})
				}
			case targetPanic:
				if !x.expectPanic(toString(r.v)) {
					x.Viol = append(x.Viol, Violation{Kind: "panic", Msg: clip(addrRe.ReplaceAllString(toString(r.v), "0x.."), 200), Model: x.model(), Path: append([]decision{}, x.taken...)})
				}
			case unsupported:
				res.engine = r.Error()
			case runtime.Error:
				msg := r.Error()
				if _, isTA := r.(*runtime.TypeAssertionError); isTA || strings.Contains(msg, "nil map") {
					res.engine = "interpreter fault: " + msg + " " + shortStack()
				} else if !x.expectPanic(msg) {
					if os.Getenv("GOSE_DEBUG") != "" {
						msg += " @ " + shortStack()
					}
					x.Viol = append(x.Viol, Violation{Kind: "panic", Msg: clip(msg, 600), Model: x.model(), Path: append([]decision{}, x.taken...)})
				}
			case string:
				if strings.HasPrefix(r, "runtime error") || strings.HasPrefix(r, "interface conversion") || strings.Contains(r, "nil pointer") || strings.Contains(r, "nil interface") || strings.Contains(r, "nil function") {
					if !x.expectPanic(r) {
						x.Viol = append(x.Viol, Violation{Kind: "panic", Msg: clip(r, 200), Model: x.model(), Path: append([]decision{}, x.taken...)})
					}
				} else {
					res.engine = "interpreter: " + clip(r, 300)
				}
			default:
				res.engine = fmt.Sprintf("interpreter panic %T: %v %s", r, r, shortStack())
			}
		}
	}()
	defer func() {
		// pending assertions are decided whenever the path ends, except when the path was cut by an
		// unsatisfiable assumption
		if !x.dead {
			func() {
				defer func() { recover() }()
				x.Flush()
			}()
		}
	}()
	call(i, nil, token.NoPos, fn, nil)
	return
}

func shortStack() string {
	buf := make([]byte, 4096)
	n := runtime.Stack(buf, false)
	s := string(buf[:n])
	var keep []string
	for _, l := range strings.Split(s, "\n") {
		if strings.Contains(l, "gose/") && !strings.Contains(l, "run.go") {
			keep = append(keep, strings.TrimSpace(l))
			if len(keep) >= 4 {
				break
			}
		}
	}
	return strings.Join(keep, " <- ")
}

func clip(s string, n int) string {
	if len(s) > n {
		return s[:n] + "..."
	}
	return s
}

// Explore runs the harness function over all feasible paths.
func (p *Program) Explore(pkgPath, name string, opts Options) *Stats {
	fn := p.Func(pkgPath, name)
	st := &Stats{}
	if fn == nil {
		st.Incon = append(st.Incon, "harness function not found: "+pkgPath+"."+name)
		return st
	}
	if opts.Workers <= 0 {
		opts.Workers = 16
	}
	if opts.MaxPaths <= 0 {
		opts.MaxPaths = 200000
	}
	if opts.MaxSteps <= 0 {
		opts.MaxSteps = 2000000
	}
	if opts.Timeout == 0 {
		opts.Timeout = 20 * time.Second
	}
	t0 := time.Now()
	var mu sync.Mutex
	cond := sync.NewCond(&mu)
	queue := [][]decision{nil}
	active := 0
	seenViol := map[string]bool{}
	var wg sync.WaitGroup
	for w := 0; w < opts.Workers; w++ {
		wg.Add(1)
		go func() {
			defer wg.Done()
			newWorker := func() *Worker {
				c := smt.NewCtx()
				sm := map[string]bool{}
				for _, n := range opts.Summarize {
					sm[n] = true
				}
				return &Worker{C: c, P: smt.NewProver(c, opts.Timeout, opts.DiffRate), Summarize: sm, sums: map[string]*summary{}}
			}
			wk := newWorker()
			defer func() { wk.P.Close() }()
			runs := 0
			for {
				mu.Lock()
				for len(queue) == 0 && active > 0 {
					cond.Wait()
				}
				if len(queue) == 0 && active == 0 {
					mu.Unlock()
					cond.Broadcast()
					return
				}
				if opts.StopAfter > 0 && len(st.Violations) >= opts.StopAfter {
					// the verdict is known; the rest of the exploration would only repeat it
					queue = nil
					mu.Unlock()
					cond.Broadcast()
					return
				}
				if st.Paths >= opts.MaxPaths || (opts.Deadline > 0 && time.Since(t0) > opts.Deadline) {
					st.Truncated = true
					queue = nil
					mu.Unlock()
					cond.Broadcast()
					return
				}
				// depth-first: take the most recent prefix
				prefix := queue[len(queue)-1]
				queue = queue[:len(queue)-1]
				active++
				mu.Unlock()

				runs++
				if runs%400 == 0 {
					// bound the memory of the hash-consing table
					wk.P.Close()
					wk = newWorker()
				}
				res := p.runOnce(wk, fn, prefix, opts)

				mu.Lock()
				active--
				x := res.x
				if !(x.dead && len(x.Viol) == 0 && res.aborted == "" && res.engine == "") || len(x.pending) > 0 {
					st.Paths++
				}
				st.Branches += len(x.taken)
				st.Steps += x.Steps
				st.Asserts += x.Asserts
				st.Proved += x.Proved
				if len(x.taken) > st.MaxDepth {
					st.MaxDepth = len(x.taken)
				}
				for _, v := range x.Viol {
					vk := v.Key()
					if opts.KeyFn != nil {
						vk = opts.KeyFn(v)
					}
					if !seenViol[vk] {
						seenViol[vk] = true
						st.Violations = append(st.Violations, v)
					}
				}
				for _, s := range x.Incon {
					if len(st.Incon) < 50 {
						st.Incon = append(st.Incon, s)
					}
				}
				if res.aborted != "" {
					st.Aborted++
					if len(st.Incon) < 50 {
						st.Incon = append(st.Incon, "path aborted: "+res.aborted)
					}
				}
				if res.engine != "" {
					st.Aborted++
					if len(st.Incon) < 50 {
						st.Incon = append(st.Incon, "engine: "+res.engine)
					}
				}
				if len(st.SamplePaths) < opts.KeepPaths {
					st.SamplePaths = append(st.SamplePaths, fmt.Sprintf("%d decisions, %d asserts, inputs %s", len(x.taken), x.Asserts, ModelString(x.modelQuiet())))
				}
				queue = append(queue, x.pending...)
				mu.Unlock()
				cond.Broadcast()
			}
		}()
	}
	wg.Wait()
	st.Wall = time.Since(t0)
	sort.Strings(st.Incon)
	return st
}

func (x *Exec) modelQuiet() map[string]uint64 {
	defer func() { recover() }()
	return x.model()
}

// lateLoads: Go leaves open whether a variable operand of a call (typically the receiver field in
// c.cbb.NewStore(c.f(), x)) is read before or after the calls among the other operands. The gc
// compiler reads it afterwards, go/ssa before - and the repository's IR generator relies on gc's
// choice (c.f() moves c.cbb to a new block). To interpret the code as the shipped binary runs it,
// a load that only feeds one call is moved behind the calls that precede that call in its block.
// Applied to the code generator's package only.
func lateLoads(prog *ssa.Program) {
	for fn := range ssautil.AllFunctions(prog) {
		if fn.Pkg == nil || fn.Pkg.Pkg.Path() != ModPath+"/src/compiler" {
			continue
		}
		for _, b := range fn.Blocks {
			for ci := 0; ci < len(b.Instrs); ci++ {
				call, ok := b.Instrs[ci].(ssa.CallInstruction)
				if !ok {
					continue
				}
				var ops []ssa.Value
				common := call.Common()
				ops = append(ops, common.Value)
				ops = append(ops, common.Args...)
				for _, op := range ops {
					ld, ok := op.(*ssa.UnOp)
					if !ok || ld.Op != token.MUL || ld.Block() != b {
						continue
					}
					fa, isField := ld.X.(*ssa.FieldAddr)
					if !isField {
						continue
					}
					// only within one expression: the field is named on the line of the call and in
					// front of its opening parenthesis (a load that belongs to an earlier statement,
					// e.g. 'b = c.cbb', keeps its place), and no assignment lies in between
					lp, cp := prog.Fset.Position(fa.Pos()), prog.Fset.Position(common.Pos())
					if !lp.IsValid() || !cp.IsValid() || lp.Filename != cp.Filename || lp.Line != cp.Line || lp.Offset >= cp.Offset {
						continue
					}
					if refs := ld.Referrers(); refs == nil || len(*refs) != 1 {
						continue
					}
					li := -1
					for k := 0; k < ci; k++ {
						if b.Instrs[k] == ssa.Instruction(ld) {
							li = k
						}
					}
					if li < 0 {
						continue
					}
					between, stored := false, false
					for k := li + 1; k < ci; k++ {
						if _, isCall := b.Instrs[k].(ssa.CallInstruction); isCall {
							between = true
						}
						if _, isStore := b.Instrs[k].(*ssa.Store); isStore {
							stored = true
						}
					}
					if !between || stored {
						continue
					}
					// move the load to just before the call
					copy(b.Instrs[li:ci-1], b.Instrs[li+1:ci])
					b.Instrs[ci-1] = ld
				}
			}
		}
	}
}
