// Copyright 2013 The Go Authors. All rights reserved.
// Use of this source code is governed by a BSD-style
// license that can be found in the LICENSE file.

package gose

// Insertion-ordered maps for every key type. Determinism of iteration is required by the
// re-execution driver: a run must be a function of its decision prefix only. Keys may be
// symbolic (strings with symbolic bytes, symbolic scalars): such keys are compared with the
// stored keys through path decisions.

import (
	"go/types"

	"verif/engine/smt"
)

type hashable interface {
	hash(t types.Type) int
	eq(t types.Type, x interface{}) bool
}

type entry struct {
	key   value
	value value
	dead  bool
	symk  bool
}

type hashmap struct {
	keyType types.Type
	table   map[int][]int // hash -> indices into entries (concrete keys only)
	entries []*entry
	length  int
	nsym    int                     // live entries with symbolic keys
	perm    func([]*entry) []*entry // optional iteration order chosen by the harness
}

func makeMap(kt types.Type, reserve int64) value {
	return &hashmap{keyType: kt, table: make(map[int][]int, reserve)}
}

func hasSymKey(k value) bool {
	switch k := k.(type) {
	case *sym, symstr:
		return true
	case structure:
		for _, f := range k {
			if hasSymKey(f) {
				return true
			}
		}
	case array:
		for _, f := range k {
			if hasSymKey(f) {
				return true
			}
		}
	case iface:
		return hasSymKey(k.v)
	}
	return false
}

// find returns the index of the entry whose key equals k, or -1.
func (m *hashmap) find(k value) int {
	if m == nil {
		return -1
	}
	if hasSymKey(k) {
		x := execOf(collectSyms(k)...)
		for i, e := range m.entries {
			if e.dead {
				continue
			}
			if x.Decide(symEqualsDeep(x, m.keyType, k, e.key), "map key comparison") {
				return i
			}
		}
		return -1
	}
	h := hash(m.keyType, m.keyType, k)
	for _, i := range m.table[h] {
		e := m.entries[i]
		if !e.dead && equals(m.keyType, k, e.key) {
			return i
		}
	}
	if m.nsym > 0 {
		for i, e := range m.entries {
			if e.dead || !e.symk {
				continue
			}
			x := execOf(collectSyms(e.key)...)
			if x.Decide(symEqualsDeep(x, m.keyType, k, e.key), "map key comparison") {
				return i
			}
		}
	}
	return -1
}

func (m *hashmap) delete(k value) {
	if i := m.find(k); i >= 0 {
		e := m.entries[i]
		e.dead = true
		m.length--
		if e.symk {
			m.nsym--
		}
	}
}

// lookup returns the value associated with key k, if present, or value(nil) otherwise.
func (m *hashmap) lookup(k value) value {
	if m == nil {
		return nil
	}
	if i := m.find(k); i >= 0 {
		return m.entries[i].value
	}
	return nil
}

// lookupMerged handles a symbolic string key against a table of concrete keys with scalar
// values without forking: the result is an ite over the keys of matching length.
func (m *hashmap) lookupMerged(k symstr, zeroV value) (value, value, bool) {
	if m == nil || m.nsym > 0 {
		return nil, nil, false
	}
	x := execOf(k)
	if x == nil {
		return nil, nil, false
	}
	var resK types.BasicKind
	first := true
	for _, e := range m.entries {
		if e.dead {
			continue
		}
		if _, ok := e.key.(string); !ok {
			return nil, nil, false
		}
		switch e.value.(type) {
		case bool, int, int8, int16, int32, int64, uint, uint8, uint16, uint32, uint64:
		default:
			return nil, nil, false
		}
		if first {
			resK = kindOfValue(e.value)
			first = false
		}
	}
	if first {
		return nil, nil, false
	}
	c := x.C
	res := x.lift(zeroV).E
	found := c.False()
	for _, e := range m.entries {
		if e.dead {
			continue
		}
		ks := e.key.(string)
		if len(ks) != len(k.B) {
			continue
		}
		eq := x.strEq(k.B, strBytes(ks))
		res = c.Ite(eq, x.lift(e.value).E, res)
		found = c.Or(found, eq)
	}
	return x.lower(res, resK), x.lower(found, types.Bool), true
}

func (m *hashmap) insert(k value, v value) {
	if i := m.find(k); i >= 0 {
		m.entries[i].value = v
		return
	}
	e := &entry{key: k, value: v, symk: hasSymKey(k)}
	m.entries = append(m.entries, e)
	if e.symk {
		m.nsym++
	} else {
		h := hash(m.keyType, m.keyType, k)
		m.table[h] = append(m.table[h], len(m.entries)-1)
	}
	m.length++
}

func (m *hashmap) len() int {
	if m != nil {
		return m.length
	}
	return 0
}

// live returns the live entries in insertion order.
func (m *hashmap) live() []*entry {
	if m == nil {
		return nil
	}
	out := make([]*entry, 0, m.length)
	for _, e := range m.entries {
		if !e.dead {
			out = append(out, e)
		}
	}
	return out
}

func collectSyms(v value) []value {
	switch v := v.(type) {
	case *sym, symstr:
		return []value{v}
	case structure:
		var out []value
		for _, f := range v {
			out = append(out, collectSyms(f)...)
		}
		return out
	case array:
		var out []value
		for _, f := range v {
			out = append(out, collectSyms(f)...)
		}
		return out
	case iface:
		return collectSyms(v.v)
	}
	return nil
}

// symEqualsDeep builds the term "a == b" for values that may contain symbolic parts.
func symEqualsDeep(x *Exec, t types.Type, a, b value) *smt.Expr {
	c := x.C
	switch av := a.(type) {
	case *sym:
		return c.Eq(av.E, x.lift(b).E)
	case symstr:
		return x.strEq(av.B, strBytes(b))
	case string:
		if bs, ok := b.(symstr); ok {
			return x.strEq(strBytes(av), bs.B)
		}
	case structure:
		bv := b.(structure)
		r := c.True()
		st, _ := t.Underlying().(*types.Struct)
		for i := range av {
			var ft types.Type
			if st != nil && i < st.NumFields() {
				ft = st.Field(i).Type()
			}
			if st != nil && i < st.NumFields() && st.Field(i).Name() == "_" {
				continue
			}
			r = c.And(r, symEqualsDeep(x, ft, av[i], bv[i]))
		}
		return r
	case array:
		bv := b.(array)
		r := c.True()
		var et types.Type
		if at, ok := t.Underlying().(*types.Array); ok {
			et = at.Elem()
		}
		for i := range av {
			r = c.And(r, symEqualsDeep(x, et, av[i], bv[i]))
		}
		return r
	case iface:
		bv := b.(iface)
		if av.t == nil || bv.t == nil {
			return c.BoolC(av.t == nil && bv.t == nil)
		}
		if !types.Identical(av.t, bv.t) {
			return c.False()
		}
		return symEqualsDeep(x, av.t, av.v, bv.v)
	}
	if _, ok := b.(*sym); ok {
		return c.Eq(x.lift(a).E, b.(*sym).E)
	}
	return c.BoolC(equals(t, a, b))
}
