// Copyright 2013 The Go Authors. All rights reserved.
// Use of this source code is governed by a BSD-style
// license that can be found in the LICENSE file.

// Package ssa/interp defines an interpreter for the SSA
// representation of Go programs.
//
// This interpreter is provided as an adjunct for testing the SSA
// construction algorithm.  Its purpose is to provide a minimal
// metacircular implementation of the dynamic semantics of each SSA
// instruction.  It is not, and will never be, a production-quality Go
// interpreter.
//
// The following is a partial list of Go features that are currently
// unsupported or incomplete in the interpreter.
//
// * Unsafe operations, including all uses of unsafe.Pointer, are
// impossible to support given the "boxed" value representation we
// have chosen.
//
// * The reflect package is only partially implemented.
//
// * The "testing" package is no longer supported because it
// depends on low-level details that change too often.
//
// * "sync/atomic" operations are not atomic due to the "boxed" value
// representation: it is not possible to read, modify and write an
// interface value atomically. As a consequence, Mutexes are currently
// broken.
//
// * recover is only partially implemented.  Also, the interpreter
// makes no attempt to distinguish target panics from interpreter
// crashes.
//
// * the sizes of the int, uint and uintptr types in the target
// program are assumed to be the same as those of the interpreter
// itself.
//
// * all values occupy space, even those of types defined by the spec
// to have zero size, e.g. struct{}.  This can cause asymptotic
// performance degradation.
//
// * os.Exit is implemented using panic, causing deferred functions to
// run.
package gose // import "golang.org/x/tools/go/ssa/interp"

import (
	"fmt"
	"go/token"
	"go/types"
	"log"
	"os"
	"reflect"
	"runtime"
	"slices"
	"strings"
	"sync/atomic"
	_ "unsafe"

	"golang.org/x/tools/go/ssa"
)

type continuation int

const (
	kNext continuation = iota
	kReturn
	kJump
)

// Mode is a bitmask of options affecting the interpreter.
type Mode uint

const (
	DisableRecover Mode = 1 << iota // Disable recover() in target programs; show interpreter crash instead.
	EnableTracing                   // Print a trace of all instructions as they are interpreted.
)

type methodSet map[string]*ssa.Function

// State shared between all interpreted goroutines.
type interpreter struct {
	osArgs             []value                // the value of os.Args
	prog               *ssa.Program           // the SSA program
	globals            map[*ssa.Global]*value // addresses of global variables (immutable)
	mode               Mode                   // interpreter options
	reflectPackage     *ssa.Package           // the fake reflect package
	errorMethods       methodSet              // the method set of reflect.error, which implements the error interface.
	rtypeMethods       methodSet              // the method set of rtype, which implements the reflect.Type interface.
	runtimeErrorString types.Type             // the runtime.errorString type
	sizes              types.Sizes            // the effective type-sizing function
	goroutines         int32                  // atomically updated
	x                  *Exec                  // symbolic execution context of this run
	inited             map[*ssa.Package]bool  // packages whose initialiser has run (lazily)
	sha                map[value]*[]byte      // SHA-256 digests (see intrinsics)
	syncMaps           map[*value][]syncKV    // contents of sync.Map values (association lists, see intrinsics)
}

type syncKV struct{ k, v value }

type deferred struct {
	fn    value
	args  []value
	instr *ssa.Defer
	tail  *deferred
}

type frame struct {
	i                *interpreter
	caller           *frame
	fn               *ssa.Function
	block, prevBlock *ssa.BasicBlock
	env              map[ssa.Value]value // dynamic values of SSA variables
	locals           []value
	defers           *deferred
	result           value
	panicking        bool
	panic            interface{}
	phitemps         []value // temporaries for parallel phi assignment
}

func (fr *frame) get(key ssa.Value) value {
	switch key := key.(type) {
	case nil:
		// Hack; simplifies handling of optional attributes
		// such as ssa.Slice.{Low,High}.
		return nil
	case *ssa.Function, *ssa.Builtin:
		return key
	case *ssa.Const:
		return constValue(key)
	case *ssa.Global:
		if key.Pkg != nil && !fr.i.inited[key.Pkg] {
			fr.i.ensureInit(key.Pkg)
		}
		if r, ok := fr.i.globals[key]; ok {
			return r
		}
	}
	if r, ok := fr.env[key]; ok {
		return r
	}
	panic(fmt.Sprintf("get: no value for %T: %v", key, key.Name()))
}

// runDefer runs a deferred call d.
// It always returns normally, but may set or clear fr.panic.
func (fr *frame) runDefer(d *deferred) {
	if fr.i.mode&EnableTracing != 0 {
		fmt.Fprintf(os.Stderr, "%s: invoking deferred function call\n",
			fr.i.prog.Fset.Position(d.instr.Pos()))
	}
	var ok bool
	defer func() {
		if !ok {
			// Deferred call created a new state of panic.
			fr.panicking = true
			fr.panic = recover()
		}
	}()
	call(fr.i, fr, d.instr.Pos(), d.fn, d.args)
	ok = true
}

// runDefers executes fr's deferred function calls in LIFO order.
//
// On entry, fr.panicking indicates a state of panic; if
// true, fr.panic contains the panic value.
//
// On completion, if a deferred call started a panic, or if no
// deferred call recovered from a previous state of panic, then
// runDefers itself panics after the last deferred call has run.
//
// If there was no initial state of panic, or it was recovered from,
// runDefers returns normally.
func (fr *frame) runDefers() {
	for d := fr.defers; d != nil; d = d.tail {
		fr.runDefer(d)
	}
	fr.defers = nil
	if fr.panicking {
		panic(fr.panic) // new panic, or still panicking
	}
}

// lookupMethod returns the method set for type typ, which may be one
// of the interpreter's fake types.
func lookupMethod(i *interpreter, typ types.Type, meth *types.Func) *ssa.Function {
	switch typ {
	case rtypeType:
		return i.rtypeMethods[meth.Id()]
	case errorType:
		return i.errorMethods[meth.Id()]
	}
	return i.prog.LookupMethod(typ, meth.Pkg(), meth.Name())
}

// visitInstr interprets a single ssa.Instruction within the activation
// record frame.  It returns a continuation value indicating where to
// read the next instruction from.
func visitInstr(fr *frame, instr ssa.Instruction) continuation {
	switch instr := instr.(type) {
	case *ssa.DebugRef:
		// no-op

	case *ssa.UnOp:
		fr.env[instr] = unop(instr, fr.get(instr.X))

	case *ssa.BinOp:
		fr.env[instr] = binop(instr.Op, instr.X.Type(), fr.get(instr.X), fr.get(instr.Y))

	case *ssa.Call:
		fn, args := prepareCall(fr, &instr.Call)
		fr.env[instr] = call(fr.i, fr, instr.Pos(), fn, args)

	case *ssa.ChangeInterface:
		fr.env[instr] = fr.get(instr.X)

	case *ssa.ChangeType:
		fr.env[instr] = fr.get(instr.X) // (can't fail)

	case *ssa.Convert:
		fr.env[instr] = conv(instr.Type(), instr.X.Type(), fr.get(instr.X))

	case *ssa.SliceToArrayPointer:
		fr.env[instr] = sliceToArrayPointer(instr.Type(), instr.X.Type(), fr.get(instr.X))

	case *ssa.MakeInterface:
		fr.env[instr] = iface{t: instr.X.Type(), v: fr.get(instr.X)}

	case *ssa.Extract:
		fr.env[instr] = fr.get(instr.Tuple).(tuple)[instr.Index]

	case *ssa.Slice:
		fr.env[instr] = slice(fr.get(instr.X), fr.get(instr.Low), fr.get(instr.High), fr.get(instr.Max))

	case *ssa.Return:
		switch len(instr.Results) {
		case 0:
		case 1:
			fr.result = fr.get(instr.Results[0])
		default:
			var res []value
			for _, r := range instr.Results {
				res = append(res, fr.get(r))
			}
			fr.result = tuple(res)
		}
		fr.block = nil
		return kReturn

	case *ssa.RunDefers:
		fr.runDefers()

	case *ssa.Panic:
		panic(targetPanic{fr.get(instr.X)})

	case *ssa.Send:
		fr.get(instr.Chan).(chan value) <- fr.get(instr.X)

	case *ssa.Store:
		store(mustDeref(instr.Addr.Type()), fr.get(instr.Addr).(*value), fr.get(instr.Val))

	case *ssa.If:
		succ := 1
		if fr.i.truth(fr.get(instr.Cond), instr) {
			succ = 0
		}
		fr.prevBlock, fr.block = fr.block, fr.block.Succs[succ]
		return kJump

	case *ssa.Jump:
		fr.prevBlock, fr.block = fr.block, fr.block.Succs[0]
		return kJump

	case *ssa.Defer:
		fn, args := prepareCall(fr, &instr.Call)
		defers := &fr.defers
		if into := fr.get(instr.DeferStack); into != nil {
			defers = into.(**deferred)
		}
		*defers = &deferred{
			fn:    fn,
			args:  args,
			instr: instr,
			tail:  *defers,
		}

	case *ssa.Go:
		fn, args := prepareCall(fr, &instr.Call)
		atomic.AddInt32(&fr.i.goroutines, 1)
		go func() {
			call(fr.i, nil, instr.Pos(), fn, args)
			atomic.AddInt32(&fr.i.goroutines, -1)
		}()

	case *ssa.MakeChan:
		fr.env[instr] = make(chan value, asInt64(fr.get(instr.Size)))

	case *ssa.Alloc:
		var addr *value
		if instr.Heap {
			// new
			addr = new(value)
			fr.env[instr] = addr
		} else {
			// local
			addr = fr.env[instr].(*value)
		}
		*addr = zero(mustDeref(instr.Type()))

	case *ssa.MakeSlice:
		slice := make([]value, asInt64(fr.get(instr.Cap)))
		tElt := instr.Type().Underlying().(*types.Slice).Elem()
		for i := range slice {
			slice[i] = zero(tElt)
		}
		fr.env[instr] = slice[:asInt64(fr.get(instr.Len))]

	case *ssa.MakeMap:
		var reserve int64
		if instr.Reserve != nil {
			reserve = asInt64(fr.get(instr.Reserve))
		}
		if !fitsInt(reserve, fr.i.sizes) {
			panic(fmt.Sprintf("ssa.MakeMap.Reserve value %d does not fit in int", reserve))
		}
		fr.env[instr] = makeMap(instr.Type().Underlying().(*types.Map).Key(), reserve)

	case *ssa.Range:
		fr.env[instr] = rangeIter(fr.i.x, fr.get(instr.X), instr.X.Type())

	case *ssa.Next:
		fr.env[instr] = fr.get(instr.Iter).(iter).next()

	case *ssa.FieldAddr:
		fr.env[instr] = &(*fr.get(instr.X).(*value)).(structure)[instr.Field]

	case *ssa.Field:
		fr.env[instr] = fr.get(instr.X).(structure)[instr.Field]

	case *ssa.IndexAddr:
		x := fr.get(instr.X)
		idx := fr.get(instr.Index)
		switch x := x.(type) {
		case []value:
			fr.env[instr] = &x[asInt64(idx)]
		case *value: // *array
			fr.env[instr] = &(*x).(array)[asInt64(idx)]
		default:
			panic(fmt.Sprintf("unexpected x type in IndexAddr: %T", x))
		}

	case *ssa.Index:
		x := fr.get(instr.X)
		idx := fr.get(instr.Index)

		switch x := x.(type) {
		case array:
			fr.env[instr] = x[asInt64(idx)]
		case string:
			fr.env[instr] = x[asInt64(idx)]
		case symstr:
			fr.env[instr] = x.B[asInt64(idx)]
		default:
			panic(fmt.Sprintf("unexpected x type in Index: %T", x))
		}

	case *ssa.Lookup:
		fr.env[instr] = lookup(instr, fr.get(instr.X), fr.get(instr.Index))

	case *ssa.MapUpdate:
		m := fr.get(instr.Map)
		key := fr.get(instr.Key)
		v := fr.get(instr.Value)
		switch m := m.(type) {
		case *hashmap:
			m.insert(key, v)
		default:
			panic(fmt.Sprintf("illegal map type: %T", m))
		}

	case *ssa.TypeAssert:
		fr.env[instr] = typeAssert(fr.i, instr, fr.get(instr.X).(iface))

	case *ssa.MakeClosure:
		var bindings []value
		for _, binding := range instr.Bindings {
			bindings = append(bindings, fr.get(binding))
		}
		fr.env[instr] = &closure{instr.Fn.(*ssa.Function), bindings}

	case *ssa.Phi:
		log.Fatal("unreachable") // phis are processed at block entry

	case *ssa.Select:
		var cases []reflect.SelectCase
		if !instr.Blocking {
			cases = append(cases, reflect.SelectCase{
				Dir: reflect.SelectDefault,
			})
		}
		for _, state := range instr.States {
			var dir reflect.SelectDir
			if state.Dir == types.RecvOnly {
				dir = reflect.SelectRecv
			} else {
				dir = reflect.SelectSend
			}
			var send reflect.Value
			if state.Send != nil {
				send = reflect.ValueOf(fr.get(state.Send))
			}
			cases = append(cases, reflect.SelectCase{
				Dir:  dir,
				Chan: reflect.ValueOf(fr.get(state.Chan)),
				Send: send,
			})
		}
		chosen, recv, recvOk := reflect.Select(cases)
		if !instr.Blocking {
			chosen-- // default case should have index -1.
		}
		r := tuple{chosen, recvOk}
		for i, st := range instr.States {
			if st.Dir == types.RecvOnly {
				var v value
				if i == chosen && recvOk {
					// No need to copy since send makes an unaliased copy.
					v = recv.Interface().(value)
				} else {
					v = zero(st.Chan.Type().Underlying().(*types.Chan).Elem())
				}
				r = append(r, v)
			}
		}
		fr.env[instr] = r

	default:
		panic(fmt.Sprintf("unexpected instruction: %T", instr))
	}

	// if val, ok := instr.(ssa.Value); ok {
	// 	fmt.Println(toString(fr.env[val])) // debugging
	// }

	return kNext
}

// prepareCall determines the function value and argument values for a
// function call in a Call, Go or Defer instruction, performing
// interface method lookup if needed.
func prepareCall(fr *frame, call *ssa.CallCommon) (fn value, args []value) {
	v := fr.get(call.Value)
	if call.Method == nil {
		// Function call.
		fn = v
	} else {
		// Interface method invocation.
		recv := v.(iface)
		if recv.t == nil {
			panic("method invoked on nil interface")
		}
		if f := lookupMethod(fr.i, recv.t, call.Method); f == nil {
			// Unreachable in well-typed programs.
			panic(fmt.Sprintf("method set for dynamic type %v does not contain %s", recv.t, call.Method))
		} else {
			fn = f
		}
		args = append(args, recv.v)
	}
	for _, arg := range call.Args {
		args = append(args, fr.get(arg))
	}
	return
}

// call interprets a call to a function (function, builtin or closure)
// fn with arguments args, returning its result.
// callpos is the position of the callsite.
func call(i *interpreter, caller *frame, callpos token.Pos, fn value, args []value) value {
	switch fn := fn.(type) {
	case *ssa.Function:
		if fn == nil {
			panic("call of nil function") // nil of func type
		}
		return callSSA(i, caller, callpos, fn, args, nil)
	case *closure:
		return callSSA(i, caller, callpos, fn.Fn, args, fn.Env)
	case *ssa.Builtin:
		return callBuiltin(caller, callpos, fn, args)
	}
	panic(fmt.Sprintf("cannot call %T", fn))
}

func loc(fset *token.FileSet, pos token.Pos) string {
	if pos == token.NoPos {
		return ""
	}
	return " at " + fset.Position(pos).String()
}

// callSSA interprets a call to function fn with arguments args,
// and lexical environment env, returning its result.
// callpos is the position of the callsite.
func callSSA(i *interpreter, caller *frame, callpos token.Pos, fn *ssa.Function, args []value, env []value) value {
	if i.mode&EnableTracing != 0 {
		fset := fn.Prog.Fset
		// TODO(adonovan): fix: loc() lies for external functions.
		fmt.Fprintf(os.Stderr, "Entering %s%s.\n", fn, loc(fset, fn.Pos()))
		suffix := ""
		if caller != nil {
			suffix = ", resuming " + caller.fn.String() + loc(fset, callpos)
		}
		defer fmt.Fprintf(os.Stderr, "Leaving %s%s.\n", fn, suffix)
	}
	fr := &frame{
		i:      i,
		caller: caller, // for panic/recover
		fn:     fn,
	}
	if fn.Parent() == nil {
		name := fn.String()
		if fn.Name() == "init" && fn.Pkg != nil && fn.Signature.Recv() == nil && fn.Synthetic != "" {
			// package initialisers run lazily and only for packages that can be interpreted
			if i.inited[fn.Pkg] || !initAllowed(fn.Pkg.Pkg.Path()) {
				i.inited[fn.Pkg] = true
				return nil
			}
			i.inited[fn.Pkg] = true
		} else if fn.Pkg != nil && !i.inited[fn.Pkg] {
			i.ensureInit(fn.Pkg)
		}
		if i.x != nil && i.x.W != nil && i.x.W.Summarize[name] && i.x.inSummary == 0 {
			if r, ok := i.summarized(fn, name, args); ok {
				return r
			}
		}
		if ext := lookupExternal(name); ext != nil && !(concreteOnlyExternal[name] && anySymbolic(args)) {
			if i.mode&EnableTracing != 0 {
				fmt.Fprintln(os.Stderr, "\t(external)")
			}
			return ext(fr, args)
		}
		if fn.Blocks == nil {
			// assembly / runtime-linked function without a model: the path leaves what the executor
			// can follow (e.g. system calls); not an event of the interpreted program
			panic(unsupported("no code for function: " + name))
		}
	}

	// generic function body?
	if fn.TypeParams().Len() > 0 && len(fn.TypeArgs()) == 0 {
		panic("interp requires ssa.BuilderMode to include InstantiateGenerics to execute generics")
	}

	fr.env = make(map[ssa.Value]value)
	fr.block = fn.Blocks[0]
	fr.locals = make([]value, len(fn.Locals))
	for i, l := range fn.Locals {
		fr.locals[i] = zero(mustDeref(l.Type()))
		fr.env[l] = &fr.locals[i]
	}
	for i, p := range fn.Params {
		fr.env[p] = args[i]
	}
	for i, fv := range fn.FreeVars {
		fr.env[fv] = env[i]
	}
	for fr.block != nil {
		runFrame(fr)
	}
	// Destroy the locals to avoid accidental use after return.
	for i := range fn.Locals {
		fr.locals[i] = bad{}
	}
	return fr.result
}

// runFrame executes SSA instructions starting at fr.block and
// continuing until a return, a panic, or a recovered panic.
//
// After a panic, runFrame panics.
//
// After a normal return, fr.result contains the result of the call
// and fr.block is nil.
//
// A recovered panic in a function without named return parameters
// (NRPs) becomes a normal return of the zero value of the function's
// result type.
//
// After a recovered panic in a function with NRPs, fr.result is
// undefined and fr.block contains the block at which to resume
// control.
var debugPanics = os.Getenv("VERIF_DEBUG_PANIC") != ""

func runFrame(fr *frame) {
	defer func() {
		if fr.block == nil {
			return // normal return
		}
		if fr.i.mode&DisableRecover != 0 {
			return // let interpreter crash
		}
		fr.panicking = true
		fr.panic = recover()
		switch pv := fr.panic.(type) {
		case pathAbort, unsupported:
			// executor-level events are not visible to the interpreted program
			panic(fr.panic)
		case *runtime.TypeAssertionError:
			// a failed assertion on the interpreter's own value types is a gap of the executor
			// (typically a symbolic value reaching a concrete-only external), not a panic of the
			// interpreted program
			if strings.Contains(pv.Error(), "gose.") {
				panic(unsupported("symbolic value reached a concrete-only operation: " + pv.Error() + " " + shortStack()))
			}
		}
		if fr.i.mode&EnableTracing != 0 {
			fmt.Fprintf(os.Stderr, "Panicking: %T %v.\n", fr.panic, fr.panic)
		}
		if debugPanics {
			fmt.Fprintf(os.Stderr, "PANIC in %s: %T %v\n%s\n", fr.fn.String(), fr.panic, fr.panic, shortStack())
		}
		fr.runDefers()
		fr.block = fr.fn.Recover
	}()

	for {
		if fr.i.mode&EnableTracing != 0 {
			fmt.Fprintf(os.Stderr, ".%s:\n", fr.block)
		}

		nonPhis := executePhis(fr)
		for _, instr := range nonPhis {
			if fr.i.mode&EnableTracing != 0 {
				if v, ok := instr.(ssa.Value); ok {
					fmt.Fprintln(os.Stderr, "\t", v.Name(), "=", instr)
				} else {
					fmt.Fprintln(os.Stderr, "\t", instr)
				}
			}
			if x := fr.i.x; x != nil {
				x.Steps++
				if x.Steps > x.MaxSteps {
					x.Incon = append(x.Incon, "instruction budget exhausted (possible non-termination) in "+fr.fn.String())
					x.budgetHit = true
					panic(pathAbort{"instruction budget exhausted in " + fr.fn.String()})
				}
			}
			if visitInstr(fr, instr) == kReturn {
				return
			}
			// Inv: kNext (continue) or kJump (last instr)
		}
	}
}

// executePhis executes the phi-nodes at the start of the current
// block and returns the non-phi instructions.
func executePhis(fr *frame) []ssa.Instruction {
	firstNonPhi := -1
	for i, instr := range fr.block.Instrs {
		if _, ok := instr.(*ssa.Phi); !ok {
			firstNonPhi = i
			break
		}
	}
	// Inv: 0 <= firstNonPhi; every block contains a non-phi.

	nonPhis := fr.block.Instrs[firstNonPhi:]
	if firstNonPhi > 0 {
		phis := fr.block.Instrs[:firstNonPhi]
		// Execute parallel assignment of phis.
		//
		// See "the swap problem" in Briggs et al's "Practical Improvements
		// to the Construction and Destruction of SSA Form" for discussion.
		predIndex := slices.Index(fr.block.Preds, fr.prevBlock)
		fr.phitemps = fr.phitemps[:0]
		for _, phi := range phis {
			phi := phi.(*ssa.Phi)
			if fr.i.mode&EnableTracing != 0 {
				fmt.Fprintln(os.Stderr, "\t", phi.Name(), "=", phi)
			}
			fr.phitemps = append(fr.phitemps, fr.get(phi.Edges[predIndex]))
		}
		for i, phi := range phis {
			fr.env[phi.(*ssa.Phi)] = fr.phitemps[i]
		}
	}
	return nonPhis
}

// doRecover implements the recover() built-in.
func doRecover(caller *frame) value {
	// recover() must be exactly one level beneath the deferred
	// function (two levels beneath the panicking function) to
	// have any effect.  Thus we ignore both "defer recover()" and
	// "defer f() -> g() -> recover()".
	if caller.i.mode&DisableRecover == 0 &&
		caller != nil && !caller.panicking &&
		caller.caller != nil && caller.caller.panicking {
		caller.caller.panicking = false
		p := caller.caller.panic
		caller.caller.panic = nil

		// TODO(adonovan): support runtime.Goexit.
		switch p := p.(type) {
		case targetPanic:
			// The target program explicitly called panic().
			return p.v
		case runtime.Error:
			// The interpreter encountered a runtime error.
			return iface{caller.i.runtimeErrorString, p.Error()}
		case string:
			// The interpreter explicitly called panic().
			return iface{caller.i.runtimeErrorString, p}
		default:
			panic(fmt.Sprintf("unexpected panic type %T in target call to recover()", p))
		}
	}
	return iface{}
}

// Interpret interprets the Go program whose main package is mainpkg.
// mode specifies various interpreter options.  filename and args are
// the initial values of os.Args for the target program.  sizes is the
// effective type-sizing function for this program.
//
// Interpret returns the exit code of the program: 2 for panic (like
// gc does), or the argument to os.Exit for normal termination.
//
// The SSA program must include the "runtime" package.
//
// Type parameterized functions must have been built with
// InstantiateGenerics in the ssa.BuilderMode to be interpreted.
func Interpret(mainpkg *ssa.Package, mode Mode, sizes types.Sizes, filename string, args []string) (exitCode int) {
	i := &interpreter{
		prog:       mainpkg.Prog,
		globals:    make(map[*ssa.Global]*value),
		mode:       mode,
		sizes:      sizes,
		goroutines: 1,
	}
	runtimePkg := i.prog.ImportedPackage("runtime")
	if runtimePkg == nil {
		panic("ssa.Program doesn't include runtime package")
	}
	i.runtimeErrorString = runtimePkg.Type("errorString").Object().Type()

	initReflect(i)

	i.osArgs = append(i.osArgs, filename)
	for _, arg := range args {
		i.osArgs = append(i.osArgs, arg)
	}

	for _, pkg := range i.prog.AllPackages() {
		// Initialize global storage.
		for _, m := range pkg.Members {
			switch v := m.(type) {
			case *ssa.Global:
				cell := zero(mustDeref(v.Type()))
				i.globals[v] = &cell
			}
		}
	}

	// Top-level error handler.
	exitCode = 2
	defer func() {
		if exitCode != 2 || i.mode&DisableRecover != 0 {
			return
		}
		switch p := recover().(type) {
		case exitPanic:
			exitCode = int(p)
			return
		case targetPanic:
			fmt.Fprintln(os.Stderr, "panic:", toString(p.v))
		case runtime.Error:
			fmt.Fprintln(os.Stderr, "panic:", p.Error())
		case string:
			fmt.Fprintln(os.Stderr, "panic:", p)
		default:
			fmt.Fprintf(os.Stderr, "panic: unexpected type: %T: %v\n", p, p)
		}

		// TODO(adonovan): dump panicking interpreter goroutine?
		// buf := make([]byte, 0x10000)
		// runtime.Stack(buf, false)
		// fmt.Fprintln(os.Stderr, string(buf))
		// (Or dump panicking target goroutine?)
	}()

	// Run!
	call(i, nil, token.NoPos, mainpkg.Func("init"), nil)
	if mainFn := mainpkg.Func("main"); mainFn != nil {
		call(i, nil, token.NoPos, mainFn, nil)
		exitCode = 0
	} else {
		fmt.Fprintln(os.Stderr, "No main function.")
		exitCode = 1
	}
	return
}

// concreteOnlyExternal: externals inherited from go/ssa/interp that handle concrete arguments
// only; with a symbolic argument the function's Go source is interpreted instead.
var concreteOnlyExternal = map[string]bool{
	"strings.Count": true, "strings.EqualFold": true, "strings.Index": true, "strings.IndexByte": true,
	"bytes.Equal": true, "bytes.IndexByte": true, "strconv.Atoi": true,
}

func anySymbolic(args []value) bool {
	for _, a := range args {
		switch v := a.(type) {
		case *sym, symstr:
			return true
		case []value:
			for _, e := range v {
				if _, ok := e.(*sym); ok {
					return true
				}
			}
		}
	}
	return false
}
