package gose

import (
	"fmt"
	"go/types"
)

// mustDeref returns the element type of a pointer type (core type for type parameters).
func mustDeref(t types.Type) types.Type {
	if p, ok := t.Underlying().(*types.Pointer); ok {
		return p.Elem()
	}
	if tp, ok := t.(*types.TypeParam); ok {
		if p, ok := tp.Underlying().(*types.Pointer); ok {
			return p.Elem()
		}
	}
	panic(fmt.Sprintf("mustDeref: %v is not a pointer", t))
}
