package gose

import (
	"crypto/sha256"
	"fmt"
	"go/token"
	"go/types"
	"strconv"
	"strings"

	"golang.org/x/tools/go/ssa"

	"verif/engine/smt"
)

// Packages whose initialisers are interpreted. Everything else (runtime, os, sync, reflect, ...)
// is never initialised; functions of those packages are reached only through intrinsics.
var initWhitelist = map[string]bool{
	"unicode/utf8": true, "strconv": true, "strings": true, "sort": true, "slices": true, "maps": true,
	"math": true, "math/bits": true, "cmp": true, "iter": true, "errors": false, "unicode": false,
}

func initAllowed(path string) bool {
	if strings.HasPrefix(path, ModPath) || strings.HasPrefix(path, "github.com/llir/") {
		return true
	}
	return initWhitelist[path]
}

func (i *interpreter) ensureInit(pkg *ssa.Package) {
	if i.inited[pkg] {
		return
	}
	if !initAllowed(pkg.Pkg.Path()) {
		i.inited[pkg] = true
		return
	}
	if f := pkg.Func("init"); f != nil {
		// callSSA marks the package and runs the synthetic initialiser (dependencies first)
		callSSA(i, nil, 0, f, nil, nil)
	} else {
		i.inited[pkg] = true
	}
}

var rtPrefix = ModPath + "/src/zzverif/rt."

var intrinsics = map[string]externalFn{}

func lookupExternal(name string) externalFn {
	if f, ok := intrinsics[name]; ok {
		return f
	}
	return externals[name]
}

func argStr(v value) (string, bool) {
	s, ok := v.(string)
	return s, ok
}

func init() {
	in := intrinsics
	// ---- harness API
	newInput := func(kind types.BasicKind) externalFn {
		return func(fr *frame, args []value) value {
			x := fr.i.x
			name, _ := argStr(args[0])
			if kind == types.Bool {
				return &sym{E: x.NewInput(name, smt.Bool), K: kind, X: x}
			}
			w, _ := kindBits(kind)
			return &sym{E: x.NewInput(name, smt.BVSort(w)), K: kind, X: x}
		}
	}
	in[rtPrefix+"Byte"] = newInput(types.Uint8)
	in[rtPrefix+"Int"] = newInput(types.Int)
	in[rtPrefix+"Uint"] = newInput(types.Uint)
	in[rtPrefix+"Rune"] = newInput(types.Int32)
	in[rtPrefix+"Bool"] = newInput(types.Bool)
	in[rtPrefix+"Bytes"] = func(fr *frame, args []value) value {
		x := fr.i.x
		name, _ := argStr(args[0])
		n := int(asInt64(args[1]))
		out := make([]value, n)
		for k := range out {
			out[k] = &sym{E: x.NewInput(name, smt.BVSort(8)), K: types.Uint8, X: x}
		}
		return out
	}
	in[rtPrefix+"Choose"] = func(fr *frame, args []value) value {
		x := fr.i.x
		name, _ := argStr(args[0])
		n := asInt64(args[1])
		v := x.NewInput(name, smt.BVSort(64))
		x.Assume(x.C.ULT(v, x.C.BV(64, uint64(n))))
		return int(x.Concretize(v, "rt.Choose "+name))
	}
	in[rtPrefix+"Assume"] = func(fr *frame, args []value) value {
		x := fr.i.x
		switch b := args[0].(type) {
		case bool:
			if !b {
				x.dead = true
				panic(pathAbort{"assumption unsatisfiable"})
			}
		case *sym:
			x.Assume(b.E)
		}
		return nil
	}
	in[rtPrefix+"Assert"] = func(fr *frame, args []value) value {
		x := fr.i.x
		msg, _ := argStr(args[1])
		switch b := args[0].(type) {
		case bool:
			x.Asserts++
			if b {
				x.Proved++
			} else {
				x.Viol = append(x.Viol, Violation{Kind: "assert", Msg: msg, Model: x.model(), Path: append([]decision{}, x.taken...)})
			}
		case *sym:
			x.Assert(b.E, msg)
		}
		return nil
	}
	in[rtPrefix+"Guard"] = func(fr *frame, args []value) value {
		x := fr.i.x
		msg, _ := argStr(args[1])
		switch b := args[0].(type) {
		case bool:
			if !b {
				x.Incon = append(x.Incon, "harness guard failed: "+msg+"; inputs "+ModelString(x.modelQuiet()))
			}
		default:
			panic(unsupported("rt.Guard on a symbolic condition"))
		}
		return nil
	}
	boolE := func(x *Exec, v value) *smt.Expr { return x.lift(v).E }
	in[rtPrefix+"And"] = func(fr *frame, a []value) value {
		x := fr.i.x
		return x.lower(x.C.And(boolE(x, a[0]), boolE(x, a[1])), types.Bool)
	}
	in[rtPrefix+"Or"] = func(fr *frame, a []value) value {
		x := fr.i.x
		return x.lower(x.C.Or(boolE(x, a[0]), boolE(x, a[1])), types.Bool)
	}
	in[rtPrefix+"Not"] = func(fr *frame, a []value) value {
		x := fr.i.x
		return x.lower(x.C.Not(boolE(x, a[0])), types.Bool)
	}
	in[rtPrefix+"Implies"] = func(fr *frame, a []value) value {
		x := fr.i.x
		return x.lower(x.C.Implies(boolE(x, a[0]), boolE(x, a[1])), types.Bool)
	}
	ite := func(kind types.BasicKind) externalFn {
		return func(fr *frame, a []value) value {
			x := fr.i.x
			return x.lower(x.C.Ite(boolE(x, a[0]), x.lift(a[1]).E, x.lift(a[2]).E), kind)
		}
	}
	in[rtPrefix+"Ite"] = ite(types.Int)
	in[rtPrefix+"IteU"] = ite(types.Uint)
	in[rtPrefix+"IteR"] = ite(types.Int32)
	in[rtPrefix+"IteB"] = ite(types.Uint8)
	in[rtPrefix+"B2I"] = func(fr *frame, a []value) value {
		x := fr.i.x
		return x.lower(x.C.Ite(boolE(x, a[0]), x.C.BV(64, 1), x.C.BV(64, 0)), types.Int)
	}
	in[rtPrefix+"ExpectPanic"] = func(fr *frame, a []value) value {
		s, _ := argStr(a[0])
		fr.i.x.expected = append(fr.i.x.expected, s)
		return nil
	}
	in[rtPrefix+"Symbolic"] = func(fr *frame, a []value) value { return true }
	// sort.Slice for at most 12 elements is exactly the insertion sort pdqsort_func starts with
	// (sort/zsortfunc.go: insertionSort_func); the comparison closure is interpreted, its symbolic
	// outcomes are path decisions.
	in["sort.Slice"] = func(fr *frame, a []value) value {
		s, ok := a[0].(iface).v.([]value)
		if !ok {
			panic(unsupported("sort.Slice over a non-slice value"))
		}
		if len(s) > 12 {
			panic(unsupported("sort.Slice over more than 12 elements (pdqsort beyond its insertion sort prefix is not modelled)"))
		}
		for i := 1; i < len(s); i++ {
			for j := i; j > 0 && fr.i.truth(call(fr.i, fr, token.NoPos, a[1], []value{j, j - 1}), nil); j-- {
				s[j], s[j-1] = s[j-1], s[j]
			}
		}
		return nil
	}
	// maps.clone (runtime-linked): a shallow copy of the map behind the interface value
	in["maps.clone"] = func(fr *frame, a []value) value {
		ifc, ok := a[0].(iface)
		if !ok {
			panic(unsupported("maps.clone of a non-interface value"))
		}
		m, ok := ifc.v.(*hashmap)
		if !ok {
			panic(unsupported("maps.clone of a non-map value"))
		}
		if m == nil {
			return ifc
		}
		cp := makeMap(m.keyType, int64(m.len())).(*hashmap)
		for _, e := range m.live() {
			cp.insert(e.key, e.value)
		}
		return iface{t: ifc.t, v: cp}
	}
	// SHA-256 (name mangling in the code generator): the digest state lives beside the interpreter,
	// concrete bytes only; the standard library computes the sum
	shaPkg := "(*crypto/internal/fips140/sha256.Digest)."
	shaBuf := func(fr *frame, recv value) *[]byte {
		if fr.i.sha == nil {
			fr.i.sha = map[value]*[]byte{}
		}
		b := fr.i.sha[recv]
		if b == nil {
			b = new([]byte)
			fr.i.sha[recv] = b
		}
		return b
	}
	in[shaPkg+"Reset"] = func(fr *frame, a []value) value { *shaBuf(fr, a[0]) = nil; return nil }
	in[shaPkg+"Write"] = func(fr *frame, a []value) value {
		b := shaBuf(fr, a[0])
		data := a[1].([]value)
		for _, v := range data {
			c, ok := v.(uint8)
			if !ok {
				panic(unsupported("symbolic byte hashed with SHA-256"))
			}
			*b = append(*b, c)
		}
		return tuple{len(data), iface{}}
	}
	in[shaPkg+"Sum"] = func(fr *frame, a []value) value {
		b := shaBuf(fr, a[0])
		sum := sha256.Sum256(*b)
		var out []value
		if a[1] != nil {
			out = append(out, a[1].([]value)...)
		}
		for _, c := range sum {
			out = append(out, c)
		}
		return out
	}
	// sync.Map on the single interpreted goroutine: an association list per map value (the real
	// implementation hashes through unsafe type descriptors)
	anyT := types.NewInterfaceType(nil, nil)
	syncFind := func(fr *frame, m value, k value) (*[]syncKV, int) {
		if fr.i.syncMaps == nil {
			fr.i.syncMaps = map[*value][]syncKV{}
		}
		p := m.(*value)
		l := fr.i.syncMaps[p]
		for idx := range l {
			if equals(anyT, l[idx].k, k) {
				return &l, idx
			}
		}
		return &l, -1
	}
	in["(*sync.Map).Load"] = func(fr *frame, a []value) value {
		l, idx := syncFind(fr, a[0], a[1])
		if idx < 0 {
			return tuple{iface{}, false}
		}
		return tuple{(*l)[idx].v, true}
	}
	in["(*sync.Map).Store"] = func(fr *frame, a []value) value {
		l, idx := syncFind(fr, a[0], a[1])
		if idx >= 0 {
			(*l)[idx].v = a[2]
		} else {
			fr.i.syncMaps[a[0].(*value)] = append(*l, syncKV{a[1], a[2]})
		}
		return nil
	}
	in["(*sync.Map).LoadOrStore"] = func(fr *frame, a []value) value {
		l, idx := syncFind(fr, a[0], a[1])
		if idx >= 0 {
			return tuple{(*l)[idx].v, true}
		}
		fr.i.syncMaps[a[0].(*value)] = append(*l, syncKV{a[1], a[2]})
		return tuple{a[2], false}
	}
	// sync/atomic on the single interpreted goroutine: plain loads, stores and updates of the cell
	for _, k := range []struct {
		name string
		typ  types.Type
	}{{"Int32", types.Typ[types.Int32]}, {"Int64", types.Typ[types.Int64]}, {"Uint32", types.Typ[types.Uint32]}, {"Uint64", types.Typ[types.Uint64]}, {"Uintptr", types.Typ[types.Uintptr]}, {"Pointer", types.Typ[types.UnsafePointer]}} {
		k := k
		in["sync/atomic.Load"+k.name] = func(fr *frame, a []value) value { return *a[0].(*value) }
		in["sync/atomic.Store"+k.name] = func(fr *frame, a []value) value { *a[0].(*value) = a[1]; return nil }
		in["sync/atomic.Swap"+k.name] = func(fr *frame, a []value) value {
			p := a[0].(*value)
			old := *p
			*p = a[1]
			return old
		}
		in["sync/atomic.CompareAndSwap"+k.name] = func(fr *frame, a []value) value {
			p := a[0].(*value)
			if equals(k.typ, *p, a[1]) {
				*p = a[2]
				return true
			}
			return false
		}
		if k.name != "Pointer" {
			in["sync/atomic.Add"+k.name] = func(fr *frame, a []value) value {
				p := a[0].(*value)
				*p = binop(token.ADD, k.typ, *p, a[1])
				return *p
			}
		}
	}
	// strconv.ParseFloat: a symbolic argument is made concrete byte by byte (every feasible value
	// is explored as a path decision), then the standard library decides
	in["strconv.ParseFloat"] = func(fr *frame, a []value) value {
		x := fr.i.x
		var buf []byte
		for _, b := range strBytes(a[0]) {
			switch bv := b.(type) {
			case uint8:
				buf = append(buf, bv)
			case *sym:
				buf = append(buf, byte(x.Concretize(bv.E, "strconv.ParseFloat argument")))
			}
		}
		f, err := strconv.ParseFloat(string(buf), int(asInt64(a[1])))
		if err != nil {
			return tuple{f, iface{fr.i.runtimeErrorString, err.Error()}}
		}
		return tuple{f, iface{}}
	}
	in[rtPrefix+"Reps"] = func(fr *frame, a []value) value { return 1 }
	in[rtPrefix+"MapOrder"] = func(fr *frame, a []value) value {
		name, _ := argStr(a[0])
		fr.i.x.permNext = name
		return nil
	}

	// ---- unicode/utf8 over possibly symbolic bytes (model of the standard library)
	in["unicode/utf8.DecodeRune"] = func(fr *frame, a []value) value {
		r, w := fr.i.x.decodeRune(a[0].([]value))
		return tuple{r, w}
	}
	in["unicode/utf8.DecodeRuneInString"] = func(fr *frame, a []value) value {
		r, w := fr.i.x.decodeRune(strBytes(a[0]))
		return tuple{r, w}
	}
	valid := func(fr *frame, bs []value) value {
		x := fr.i.x
		for i := 0; i < len(bs); {
			r, w := x.decodeRune(bs[i:])
			if w == 1 {
				// RuneError with width 1 is an invalid byte (a real U+FFFD has width 3)
				if rr, ok := r.(int32); ok && rr == 0xFFFD {
					return false
				}
			}
			if w == 0 {
				return false
			}
			i += w
		}
		return true
	}
	in["unicode/utf8.Valid"] = func(fr *frame, a []value) value { return valid(fr, a[0].([]value)) }
	in["unicode/utf8.ValidString"] = func(fr *frame, a []value) value { return valid(fr, strBytes(a[0])) }
	count := func(fr *frame, bs []value) value {
		x := fr.i.x
		n := 0
		for i := 0; i < len(bs); {
			_, w := x.decodeRune(bs[i:])
			if w == 0 {
				break
			}
			i += w
			n++
		}
		return n
	}
	in["unicode/utf8.RuneCount"] = func(fr *frame, a []value) value { return count(fr, a[0].([]value)) }
	in["unicode/utf8.RuneCountInString"] = func(fr *frame, a []value) value { return count(fr, strBytes(a[0])) }
	in["unicode/utf8.RuneLen"] = func(fr *frame, a []value) value {
		s, ok := a[0].(*sym)
		if !ok {
			return nativeRuneLen(a[0].(int32))
		}
		return len(strBytes(s.X.runeToString(s)))
	}

	// ---- strings on symbolic strings
	in["strings.ToLower"] = func(fr *frame, a []value) value {
		if s, ok := a[0].(string); ok {
			return strings.ToLower(s)
		}
		return fr.i.x.mapCase(a[0].(symstr), false)
	}
	in["strings.ToUpper"] = func(fr *frame, a []value) value {
		if s, ok := a[0].(string); ok {
			return strings.ToUpper(s)
		}
		return fr.i.x.mapCase(a[0].(symstr), true)
	}

	// ---- formatting and the environment: opaque
	opaque := func(fr *frame, a []value) value { return "<formatted>" }
	in["fmt.Sprintf"] = opaque
	in["fmt.Sprint"] = opaque
	in["fmt.Sprintln"] = opaque
	in["fmt.Errorf"] = func(fr *frame, a []value) value {
		return iface{t: fr.i.runtimeErrorString, v: "<formatted error>"}
	}
	in["fmt.Println"] = func(fr *frame, a []value) value { return tuple{0, iface{}} }
	in["fmt.Printf"] = func(fr *frame, a []value) value { return tuple{0, iface{}} }
	in["fmt.Fprintf"] = func(fr *frame, a []value) value { return tuple{0, iface{}} }
	in["fmt.Fprintln"] = func(fr *frame, a []value) value { return tuple{0, iface{}} }
	in["fmt.Fprint"] = func(fr *frame, a []value) value { return tuple{0, iface{}} }
	in["os.Executable"] = func(fr *frame, a []value) value { return tuple{"/verif/kddp", iface{}} }
	in["path/filepath.Abs"] = func(fr *frame, a []value) value { return tuple{a[0], iface{}} }
	in["path/filepath.Ext"] = func(fr *frame, a []value) value {
		s, ok := a[0].(string)
		if !ok {
			return ""
		}
		for i := len(s) - 1; i >= 0 && s[i] != '/'; i-- {
			if s[i] == '.' {
				return s[i:]
			}
		}
		return ""
	}
	in["runtime.Caller"] = func(fr *frame, a []value) value { return tuple{uintptr(0), "unknown.go", 0, true} }
	in["runtime/debug.Stack"] = func(fr *frame, a []value) value { return []value{} }
	in["internal/abi.NoEscape"] = func(fr *frame, a []value) value { return a[0] }
	// byte searches over possibly symbolic strings: every byte comparison that involves a
	// symbolic byte is a path decision
	byteEq := func(fr *frame, p, q value) bool {
		x := fr.i.x
		pb, pc := p.(uint8)
		qb, qc := q.(uint8)
		if pc && qc {
			return pb == qb
		}
		toE := func(v value) *smt.Expr {
			switch t := v.(type) {
			case uint8:
				return x.C.BV(8, uint64(t))
			case *sym:
				return t.E
			}
			panic(unsupported(fmt.Sprintf("byte comparison on %T", v)))
		}
		return x.Decide(x.C.Eq(toE(p), toE(q)), "byte search")
	}
	in["internal/bytealg.IndexByteString"] = func(fr *frame, a []value) value {
		if s, ok := a[0].(string); ok {
			if c, ok := a[1].(byte); ok {
				return strings.IndexByte(s, c)
			}
		}
		for i, b := range strBytes(a[0]) {
			if byteEq(fr, b, a[1]) {
				return i
			}
		}
		return -1
	}
	in["internal/bytealg.IndexString"] = func(fr *frame, a []value) value {
		s, ok1 := a[0].(string)
		t, ok2 := a[1].(string)
		if ok1 && ok2 {
			return strings.Index(s, t)
		}
		sb, tb := strBytes(a[0]), strBytes(a[1])
		for i := 0; i+len(tb) <= len(sb); i++ {
			match := true
			for j := range tb {
				if !byteEq(fr, sb[i+j], tb[j]) {
					match = false
					break
				}
			}
			if match {
				return i
			}
		}
		return -1
	}
	in["internal/bytealg.CountString"] = func(fr *frame, a []value) value {
		if s, ok := a[0].(string); ok {
			if c, ok := a[1].(byte); ok {
				return strings.Count(s, string([]byte{c}))
			}
		}
		n := 0
		for _, b := range strBytes(a[0]) {
			if byteEq(fr, b, a[1]) {
				n++
			}
		}
		return n
	}
	in["internal/bytealg.IndexByte"] = func(fr *frame, a []value) value {
		bs := a[0].([]value)
		for i, b := range bs {
			if byteEq(fr, b, a[1]) {
				return i
			}
		}
		return -1
	}
	in["internal/bytealg.MakeNoZero"] = func(fr *frame, a []value) value {
		n := int(asInt64(a[0]))
		out := make([]value, n)
		for i := range out {
			out[i] = byte(0)
		}
		return out
	}
	in["(*strings.Builder).copyCheck"] = func(fr *frame, a []value) value { return nil }
	in["(*strings.Builder).String"] = func(fr *frame, a []value) value {
		st := (*a[0].(*value)).(structure)
		for _, f := range st {
			if b, ok := f.([]value); ok {
				return mkString(b)
			}
		}
		return ""
	}
	in["strings.Clone"] = func(fr *frame, a []value) value { return a[0] }
	in["internal/stringslite.Clone"] = func(fr *frame, a []value) value { return a[0] }
	in["unique.Make[string]"] = nil
	delete(in, "unique.Make[string]")
	in["unsafe.String"] = nil
	delete(in, "unsafe.String")
	in["errors.New"] = func(fr *frame, a []value) value {
		return iface{t: fr.i.runtimeErrorString, v: a[0]}
	}
	in["strconv.Itoa"] = func(fr *frame, a []value) value {
		if _, ok := a[0].(*sym); ok {
			return "<number>"
		}
		return fmt.Sprint(asInt64(a[0]))
	}
}

func nativeRuneLen(r int32) int {
	switch {
	case r < 0:
		return -1
	case r <= 0x7f:
		return 1
	case r <= 0x7ff:
		return 2
	case 0xd800 <= r && r <= 0xdfff:
		return -1
	case r <= 0xffff:
		return 3
	case r <= 0x10ffff:
		return 4
	}
	return -1
}

// mapCase models strings.ToLower/ToUpper on a string with symbolic bytes: exact for ASCII and
// for the two-byte Latin-1 letters (U+00C0..U+00DE <-> U+00E0..U+00FE, without U+00D7/U+00F7);
// other non-ASCII characters are left unchanged (a stated approximation of the library).
func (x *Exec) mapCase(s symstr, upper bool) value {
	c := x.C
	out := make([]value, len(s.B))
	for i := range s.B {
		b := x.byteExpr(s.B[i])
		var r *smt.Expr
		if upper {
			isL := c.And(c.UGE(b, c.BV(8, 'a')), c.ULE(b, c.BV(8, 'z')))
			r = c.Ite(isL, c.Sub(b, c.BV(8, 32)), b)
		} else {
			isU := c.And(c.UGE(b, c.BV(8, 'A')), c.ULE(b, c.BV(8, 'Z')))
			r = c.Ite(isU, c.Add(b, c.BV(8, 32)), b)
		}
		// second byte of a Latin-1 letter: previous byte is 0xC3
		if i > 0 {
			p := x.byteExpr(s.B[i-1])
			isC3 := c.Eq(p, c.BV(8, 0xc3))
			if upper {
				isLow := c.And(c.UGE(b, c.BV(8, 0xa0)), c.ULE(b, c.BV(8, 0xbe)), c.Ne(b, c.BV(8, 0xb7)))
				r = c.Ite(c.And(isC3, isLow), c.Sub(b, c.BV(8, 32)), r)
			} else {
				isUp := c.And(c.UGE(b, c.BV(8, 0x80)), c.ULE(b, c.BV(8, 0x9e)), c.Ne(b, c.BV(8, 0x97)))
				r = c.Ite(c.And(isC3, isUp), c.Add(b, c.BV(8, 32)), r)
			}
		}
		out[i] = x.lower(r, types.Uint8)
	}
	return mkString(out)
}
