// Package llread parses textual LLVM IR (LLVM 14, typed pointers) through the LLVM-C API and
// converts it into plain Go structures used by the symbolic executor.
package llread

/*
#cgo CFLAGS: -I/usr/lib/llvm-14/include -D_GNU_SOURCE -D__STDC_CONSTANT_MACROS -D__STDC_FORMAT_MACROS -D__STDC_LIMIT_MACROS
#cgo LDFLAGS: -L/usr/lib/llvm-14/lib -lLLVM-14
#include <stdlib.h>
#include <llvm-c/Core.h>
#include <llvm-c/IRReader.h>
#include <llvm-c/Target.h>

static LLVMValueRef incomingValue(LLVMValueRef phi, unsigned i) { return LLVMGetIncomingValue(phi, i); }
static int paramHasAttr(LLVMValueRef fn, unsigned paramIdx, const char *name, size_t n) {
	unsigned kind = LLVMGetEnumAttributeKindForName(name, n);
	if (kind == 0) return 0;
	return LLVMGetEnumAttributeAtIndex(fn, paramIdx + 1, kind) != NULL;
}
*/
import "C"

import (
	"fmt"
	"unsafe"
)

type TypeKind int

const (
	TVoid TypeKind = iota
	TInt
	TDouble
	TFloat
	TPtr
	TStruct
	TArray
	TFunc
	TLabel
	TOther
)

type Type struct {
	Kind    TypeKind
	Bits    int
	Elem    *Type
	Fields  []*Type
	Offsets []uint64
	N       int
	Name    string
	Size    uint64 // ABI allocation size in bytes
	Ret     *Type
	Params  []*Type
	VarArg  bool
	Opaque  bool
}

func (t *Type) String() string {
	switch t.Kind {
	case TVoid:
		return "void"
	case TInt:
		return fmt.Sprintf("i%d", t.Bits)
	case TDouble:
		return "double"
	case TFloat:
		return "float"
	case TPtr:
		return t.Elem.String() + "*"
	case TStruct:
		if t.Name != "" {
			return "%" + t.Name
		}
		s := "{"
		for i, f := range t.Fields {
			if i > 0 {
				s += ", "
			}
			s += f.String()
		}
		return s + "}"
	case TArray:
		return fmt.Sprintf("[%d x %s]", t.N, t.Elem)
	case TFunc:
		return "fn"
	case TLabel:
		return "label"
	}
	return "?"
}

type ValueKind int

const (
	VInst ValueKind = iota
	VArg
	VConstInt
	VConstFP
	VNull
	VUndef
	VGlobal
	VFunc
	VConstExpr
	VConstAgg
	VZero
	VBlock
	VOther
)

type Value struct {
	Kind   ValueKind
	Type   *Type
	Name   string
	Int    uint64
	F      float64
	Inst   *Inst // VInst, VConstExpr
	Elems  []*Value
	Global *Global
	Func   *Func
	ArgNo  int
	Block  *Block
}

type Inst struct {
	Op      string
	Type    *Type
	Ops     []*Value
	Pred    string
	AllocTy *Type
	SrcTy   *Type // GEP source element type
	Indices []uint32
	Blocks  []*Block // phi incoming blocks / terminator successors
	Name    string
	Text    string
	Parent  *Block
	FnTy    *Type // call: called function type
	ID      int
}

type Block struct {
	Name  string
	Insts []*Inst
	Func  *Func
	Index int
}

type Func struct {
	Name   string
	Type   *Type
	Params []*Value
	Blocks []*Block
	Decl   bool
	Mod    *Module
	NInst  int
	// NoAlias[i]: parameter i carries the noalias attribute
	NoAlias []bool
	// SignExt[i] / ZeroExt[i]: parameter i carries the signext / zeroext attribute
	SignExt []bool
	ZeroExt []bool
}

type Global struct {
	Name     string
	ValType  *Type
	Init     *Value
	Const    bool
	External bool
	Mod      *Module
}

type Module struct {
	Path    string
	Funcs   map[string]*Func
	Globals map[string]*Global
	FuncOrd []*Func
}

var opNames = map[C.LLVMOpcode]string{
	C.LLVMRet: "ret", C.LLVMBr: "br", C.LLVMSwitch: "switch", C.LLVMUnreachable: "unreachable",
	C.LLVMFNeg: "fneg", C.LLVMAdd: "add", C.LLVMFAdd: "fadd", C.LLVMSub: "sub", C.LLVMFSub: "fsub", C.LLVMMul: "mul", C.LLVMFMul: "fmul",
	C.LLVMUDiv: "udiv", C.LLVMSDiv: "sdiv", C.LLVMFDiv: "fdiv", C.LLVMURem: "urem", C.LLVMSRem: "srem", C.LLVMFRem: "frem",
	C.LLVMShl: "shl", C.LLVMLShr: "lshr", C.LLVMAShr: "ashr", C.LLVMAnd: "and", C.LLVMOr: "or", C.LLVMXor: "xor",
	C.LLVMAlloca: "alloca", C.LLVMLoad: "load", C.LLVMStore: "store", C.LLVMGetElementPtr: "getelementptr",
	C.LLVMTrunc: "trunc", C.LLVMZExt: "zext", C.LLVMSExt: "sext", C.LLVMFPToUI: "fptoui", C.LLVMFPToSI: "fptosi", C.LLVMUIToFP: "uitofp", C.LLVMSIToFP: "sitofp",
	C.LLVMFPTrunc: "fptrunc", C.LLVMFPExt: "fpext", C.LLVMPtrToInt: "ptrtoint", C.LLVMIntToPtr: "inttoptr", C.LLVMBitCast: "bitcast", C.LLVMAddrSpaceCast: "addrspacecast",
	C.LLVMICmp: "icmp", C.LLVMFCmp: "fcmp", C.LLVMPHI: "phi", C.LLVMCall: "call", C.LLVMSelect: "select",
	C.LLVMExtractValue: "extractvalue", C.LLVMInsertValue: "insertvalue", C.LLVMFreeze: "freeze",
	C.LLVMExtractElement: "extractelement", C.LLVMInsertElement: "insertelement", C.LLVMShuffleVector: "shufflevector",
	C.LLVMVAArg: "va_arg", C.LLVMInvoke: "invoke",
}

var ipredNames = map[C.LLVMIntPredicate]string{
	C.LLVMIntEQ: "eq", C.LLVMIntNE: "ne", C.LLVMIntUGT: "ugt", C.LLVMIntUGE: "uge", C.LLVMIntULT: "ult", C.LLVMIntULE: "ule",
	C.LLVMIntSGT: "sgt", C.LLVMIntSGE: "sge", C.LLVMIntSLT: "slt", C.LLVMIntSLE: "sle",
}
var fpredNames = map[C.LLVMRealPredicate]string{
	C.LLVMRealPredicateFalse: "false", C.LLVMRealOEQ: "oeq", C.LLVMRealOGT: "ogt", C.LLVMRealOGE: "oge", C.LLVMRealOLT: "olt", C.LLVMRealOLE: "ole",
	C.LLVMRealONE: "one", C.LLVMRealORD: "ord", C.LLVMRealUNO: "uno", C.LLVMRealUEQ: "ueq", C.LLVMRealUGT: "ugt", C.LLVMRealUGE: "uge",
	C.LLVMRealULT: "ult", C.LLVMRealULE: "ule", C.LLVMRealUNE: "une", C.LLVMRealPredicateTrue: "true",
}

type reader struct {
	mod    *Module
	td     C.LLVMTargetDataRef
	types  map[C.LLVMTypeRef]*Type
	values map[C.LLVMValueRef]*Value
	blocks map[C.LLVMBasicBlockRef]*Block
}

// ParseFile reads a .ll (or .bc) file into a Module.
func ParseFile(path string) (*Module, error) {
	ctx := C.LLVMContextCreate()
	cpath := C.CString(path)
	defer C.free(unsafe.Pointer(cpath))
	var buf C.LLVMMemoryBufferRef
	var msg *C.char
	if C.LLVMCreateMemoryBufferWithContentsOfFile(cpath, &buf, &msg) != 0 {
		err := fmt.Errorf("llread: %s: %s", path, C.GoString(msg))
		C.LLVMDisposeMessage(msg)
		return nil, err
	}
	var m C.LLVMModuleRef
	if C.LLVMParseIRInContext(ctx, buf, &m, &msg) != 0 {
		err := fmt.Errorf("llread: parse %s: %s", path, C.GoString(msg))
		C.LLVMDisposeMessage(msg)
		return nil, err
	}
	r := &reader{
		mod:    &Module{Path: path, Funcs: map[string]*Func{}, Globals: map[string]*Global{}},
		td:     C.LLVMGetModuleDataLayout(m),
		types:  map[C.LLVMTypeRef]*Type{},
		values: map[C.LLVMValueRef]*Value{},
		blocks: map[C.LLVMBasicBlockRef]*Block{},
	}
	// globals first (headers), then function headers, then bodies and initialisers
	anon := 0
	gname := map[C.LLVMValueRef]string{}
	for g := C.LLVMGetFirstGlobal(m); g != nil; g = C.LLVMGetNextGlobal(g) {
		nm := valueName(g)
		if nm == "" {
			nm = fmt.Sprintf("@%d", anon)
			anon++
		}
		gname[g] = nm
		gl := &Global{Name: nm, ValType: r.typ(C.LLVMGlobalGetValueType(g)), Const: C.LLVMIsGlobalConstant(g) != 0,
			External: C.LLVMIsDeclaration(g) != 0, Mod: r.mod}
		r.mod.Globals[gl.Name] = gl
		r.values[g] = &Value{Kind: VGlobal, Type: r.typ(C.LLVMTypeOf(g)), Name: gl.Name, Global: gl}
	}
	for f := C.LLVMGetFirstFunction(m); f != nil; f = C.LLVMGetNextFunction(f) {
		fn := &Func{Name: valueName(f), Type: r.typ(C.LLVMGlobalGetValueType(f)), Decl: C.LLVMIsDeclaration(f) != 0, Mod: r.mod}
		r.mod.Funcs[fn.Name] = fn
		r.mod.FuncOrd = append(r.mod.FuncOrd, fn)
		r.values[f] = &Value{Kind: VFunc, Type: r.typ(C.LLVMTypeOf(f)), Name: fn.Name, Func: fn}
		n := int(C.LLVMCountParams(f))
		for i := 0; i < n; i++ {
			p := C.LLVMGetParam(f, C.unsigned(i))
			v := &Value{Kind: VArg, Type: r.typ(C.LLVMTypeOf(p)), Name: valueName(p), ArgNo: i}
			r.values[p] = v
			fn.Params = append(fn.Params, v)
			na := C.CString("noalias")
			fn.NoAlias = append(fn.NoAlias, C.paramHasAttr(f, C.unsigned(i), na, 7) != 0)
			C.free(unsafe.Pointer(na))
			se, ze := C.CString("signext"), C.CString("zeroext")
			fn.SignExt = append(fn.SignExt, C.paramHasAttr(f, C.unsigned(i), se, 7) != 0)
			fn.ZeroExt = append(fn.ZeroExt, C.paramHasAttr(f, C.unsigned(i), ze, 7) != 0)
			C.free(unsafe.Pointer(se))
			C.free(unsafe.Pointer(ze))
		}
	}
	for g := C.LLVMGetFirstGlobal(m); g != nil; g = C.LLVMGetNextGlobal(g) {
		if C.LLVMIsDeclaration(g) == 0 {
			if init := C.LLVMGetInitializer(g); init != nil {
				r.mod.Globals[gname[g]].Init = r.value(init)
			}
		}
	}
	for f := C.LLVMGetFirstFunction(m); f != nil; f = C.LLVMGetNextFunction(f) {
		if C.LLVMIsDeclaration(f) != 0 {
			continue
		}
		fn := r.mod.Funcs[valueName(f)]
		// blocks and instruction shells first, operands second (forward references)
		for b := C.LLVMGetFirstBasicBlock(f); b != nil; b = C.LLVMGetNextBasicBlock(b) {
			blk := &Block{Name: C.GoString(C.LLVMGetBasicBlockName(b)), Func: fn, Index: len(fn.Blocks)}
			fn.Blocks = append(fn.Blocks, blk)
			r.blocks[b] = blk
			for i := C.LLVMGetFirstInstruction(b); i != nil; i = C.LLVMGetNextInstruction(i) {
				in := &Inst{Parent: blk, ID: fn.NInst, Name: valueName(i), Type: r.typ(C.LLVMTypeOf(i))}
				fn.NInst++
				blk.Insts = append(blk.Insts, in)
				r.values[i] = &Value{Kind: VInst, Type: in.Type, Name: in.Name, Inst: in}
			}
		}
		for b := C.LLVMGetFirstBasicBlock(f); b != nil; b = C.LLVMGetNextBasicBlock(b) {
			k := 0
			blk := r.blocks[b]
			for i := C.LLVMGetFirstInstruction(b); i != nil; i = C.LLVMGetNextInstruction(i) {
				r.fillInst(blk.Insts[k], i)
				k++
			}
		}
	}
	return r.mod, nil
}

func valueName(v C.LLVMValueRef) string {
	var n C.size_t
	s := C.LLVMGetValueName2(v, &n)
	return C.GoStringN(s, C.int(n))
}

func (r *reader) fillInst(in *Inst, i C.LLVMValueRef) {
	op := C.LLVMGetInstructionOpcode(i)
	name, ok := opNames[op]
	if !ok {
		name = fmt.Sprintf("op%d", int(op))
	}
	in.Op = name
	cs := C.LLVMPrintValueToString(i)
	in.Text = C.GoString(cs)
	C.LLVMDisposeMessage(cs)
	switch name {
	case "phi":
		n := int(C.LLVMCountIncoming(i))
		for k := 0; k < n; k++ {
			in.Ops = append(in.Ops, r.value(C.incomingValue(i, C.unsigned(k))))
			in.Blocks = append(in.Blocks, r.blocks[C.LLVMGetIncomingBlock(i, C.unsigned(k))])
		}
		return
	case "br":
		if C.LLVMIsConditional(i) != 0 {
			in.Ops = append(in.Ops, r.value(C.LLVMGetCondition(i)))
		}
		n := int(C.LLVMGetNumSuccessors(i))
		for k := 0; k < n; k++ {
			in.Blocks = append(in.Blocks, r.blocks[C.LLVMGetSuccessor(i, C.unsigned(k))])
		}
		return
	case "switch":
		// operands: cond, default, (value, dest)*
		n := int(C.LLVMGetNumOperands(i))
		in.Ops = append(in.Ops, r.value(C.LLVMGetOperand(i, 0)))
		in.Blocks = append(in.Blocks, r.blocks[C.LLVMValueAsBasicBlock(C.LLVMGetOperand(i, 1))])
		for k := 2; k+1 < n; k += 2 {
			in.Ops = append(in.Ops, r.value(C.LLVMGetOperand(i, C.unsigned(k))))
			in.Blocks = append(in.Blocks, r.blocks[C.LLVMValueAsBasicBlock(C.LLVMGetOperand(i, C.unsigned(k+1)))])
		}
		return
	}
	n := int(C.LLVMGetNumOperands(i))
	for k := 0; k < n; k++ {
		in.Ops = append(in.Ops, r.value(C.LLVMGetOperand(i, C.unsigned(k))))
	}
	switch name {
	case "icmp":
		in.Pred = ipredNames[C.LLVMGetICmpPredicate(i)]
	case "fcmp":
		in.Pred = fpredNames[C.LLVMGetFCmpPredicate(i)]
	case "alloca":
		in.AllocTy = r.typ(C.LLVMGetAllocatedType(i))
	case "getelementptr":
		in.SrcTy = r.typ(C.LLVMGetGEPSourceElementType(i))
	case "extractvalue", "insertvalue":
		ni := int(C.LLVMGetNumIndices(i))
		p := C.LLVMGetIndices(i)
		idx := unsafe.Slice((*C.uint)(unsafe.Pointer(p)), ni)
		for _, x := range idx {
			in.Indices = append(in.Indices, uint32(x))
		}
	case "call":
		in.FnTy = r.typ(C.LLVMGetCalledFunctionType(i))
	}
}

func (r *reader) typ(t C.LLVMTypeRef) *Type {
	if x, ok := r.types[t]; ok {
		return x
	}
	ty := &Type{}
	r.types[t] = ty
	switch C.LLVMGetTypeKind(t) {
	case C.LLVMVoidTypeKind:
		ty.Kind = TVoid
	case C.LLVMIntegerTypeKind:
		ty.Kind = TInt
		ty.Bits = int(C.LLVMGetIntTypeWidth(t))
		ty.Size = uint64(C.LLVMABISizeOfType(r.td, t))
	case C.LLVMDoubleTypeKind:
		ty.Kind = TDouble
		ty.Bits = 64
		ty.Size = 8
	case C.LLVMFloatTypeKind:
		ty.Kind = TFloat
		ty.Bits = 32
		ty.Size = 4
	case C.LLVMPointerTypeKind:
		ty.Kind = TPtr
		ty.Bits = 64
		ty.Size = 8
		ty.Elem = r.typ(C.LLVMGetElementType(t))
	case C.LLVMStructTypeKind:
		ty.Kind = TStruct
		if n := C.LLVMGetStructName(t); n != nil {
			ty.Name = C.GoString(n)
		}
		if C.LLVMIsOpaqueStruct(t) != 0 {
			ty.Opaque = true
			break
		}
		n := int(C.LLVMCountStructElementTypes(t))
		if n > 0 {
			els := make([]C.LLVMTypeRef, n)
			C.LLVMGetStructElementTypes(t, &els[0])
			for k, e := range els {
				ty.Fields = append(ty.Fields, r.typ(e))
				ty.Offsets = append(ty.Offsets, uint64(C.LLVMOffsetOfElement(r.td, t, C.unsigned(k))))
			}
		}
		ty.Size = uint64(C.LLVMABISizeOfType(r.td, t))
	case C.LLVMArrayTypeKind:
		ty.Kind = TArray
		ty.N = int(C.LLVMGetArrayLength(t))
		ty.Elem = r.typ(C.LLVMGetElementType(t))
		ty.Size = uint64(C.LLVMABISizeOfType(r.td, t))
	case C.LLVMFunctionTypeKind:
		ty.Kind = TFunc
		ty.Ret = r.typ(C.LLVMGetReturnType(t))
		ty.VarArg = C.LLVMIsFunctionVarArg(t) != 0
		n := int(C.LLVMCountParamTypes(t))
		if n > 0 {
			ps := make([]C.LLVMTypeRef, n)
			C.LLVMGetParamTypes(t, &ps[0])
			for _, p := range ps {
				ty.Params = append(ty.Params, r.typ(p))
			}
		}
	case C.LLVMLabelTypeKind:
		ty.Kind = TLabel
	default:
		ty.Kind = TOther
	}
	return ty
}

func (r *reader) value(v C.LLVMValueRef) *Value {
	if x, ok := r.values[v]; ok {
		return x
	}
	val := &Value{Type: r.typ(C.LLVMTypeOf(v))}
	r.values[v] = val
	switch C.LLVMGetValueKind(v) {
	case C.LLVMConstantIntValueKind:
		val.Kind = VConstInt
		if val.Type.Bits <= 64 {
			val.Int = uint64(C.LLVMConstIntGetZExtValue(v))
		} else {
			val.Kind = VOther
		}
	case C.LLVMConstantFPValueKind:
		val.Kind = VConstFP
		var lost C.LLVMBool
		val.F = float64(C.LLVMConstRealGetDouble(v, &lost))
	case C.LLVMConstantPointerNullValueKind:
		val.Kind = VNull
	case C.LLVMUndefValueValueKind, C.LLVMPoisonValueValueKind:
		val.Kind = VUndef
	case C.LLVMConstantAggregateZeroValueKind:
		val.Kind = VZero
	case C.LLVMConstantStructValueKind, C.LLVMConstantArrayValueKind:
		val.Kind = VConstAgg
		n := int(C.LLVMGetNumOperands(v))
		for k := 0; k < n; k++ {
			val.Elems = append(val.Elems, r.value(C.LLVMGetOperand(v, C.unsigned(k))))
		}
	case C.LLVMConstantDataArrayValueKind:
		val.Kind = VConstAgg
		n := val.Type.N
		for k := 0; k < n; k++ {
			val.Elems = append(val.Elems, r.value(C.LLVMGetElementAsConstant(v, C.unsigned(k))))
		}
	case C.LLVMConstantExprValueKind:
		val.Kind = VConstExpr
		op := C.LLVMGetConstOpcode(v)
		in := &Inst{Op: opNames[op], Type: val.Type}
		n := int(C.LLVMGetNumOperands(v))
		for k := 0; k < n; k++ {
			in.Ops = append(in.Ops, r.value(C.LLVMGetOperand(v, C.unsigned(k))))
		}
		switch in.Op {
		case "icmp":
			in.Pred = ipredNames[C.LLVMGetICmpPredicate(v)]
		case "getelementptr":
			if len(in.Ops) > 0 && in.Ops[0].Type.Kind == TPtr {
				in.SrcTy = in.Ops[0].Type.Elem
			}
		}
		cs := C.LLVMPrintValueToString(v)
		in.Text = C.GoString(cs)
		C.LLVMDisposeMessage(cs)
		val.Inst = in
	case C.LLVMBasicBlockValueKind:
		val.Kind = VBlock
		val.Block = r.blocks[C.LLVMValueAsBasicBlock(v)]
	case C.LLVMInlineAsmValueKind, C.LLVMMetadataAsValueValueKind:
		val.Kind = VOther
		val.Name = "asm/metadata"
	default:
		val.Kind = VOther
		cs := C.LLVMPrintValueToString(v)
		val.Name = C.GoString(cs)
		C.LLVMDisposeMessage(cs)
	}
	return val
}
