package llread

import (
	"os"
	"testing"
)

func TestParse(t *testing.T) {
	p := os.Getenv("LLREAD_TEST_FILE")
	if p == "" {
		t.Skip("no file")
	}
	m, err := ParseFile(p)
	if err != nil {
		t.Fatal(err)
	}
	ops := map[string]int{}
	for _, f := range m.FuncOrd {
		for _, b := range f.Blocks {
			for _, i := range b.Insts {
				ops[i.Op]++
			}
		}
	}
	t.Logf("funcs=%d globals=%d ops=%v", len(m.Funcs), len(m.Globals), ops)
	if f := m.Funcs["c06_idx_zahl"]; f != nil {
		for _, b := range f.Blocks {
			for _, i := range b.Insts {
				t.Logf("%s | %s ops=%d", i.Op, i.Text, len(i.Ops))
			}
		}
		t.Logf("param type %s size %d offs %v", f.Params[0].Type.Elem, f.Params[0].Type.Elem.Size, f.Params[0].Type.Elem.Offsets)
	}
}
